"""C16 — ground speed is | airspeed vector + wind vector |.

Tie:    translator (translator/c16_extract.py): ISA pressure, pressure-level expression, heading conversion,
        u_air / v_air / magnitude of Weather.get_ground_speed -> Gen.C16_Extracted, link/C16_Link.v;
        correspondence: Weather.get_ground_speed on synthetic ERA5-style NetCDF files written here vs
        `C16_Model.ground_speed` evaluated inside Coq (FNum) on the same files and queries.
Oracle: the property's clauses in plain Python: 8-corner trilinear weights + textbook ISA barometric formula
        for the wind at the point, east = tas sin h / north = tas cos h for the air vector (the SPECIFIED
        reading), plus the tail/head/no-wind/rotation/triangle clauses and refusal outside the domain.
"""

from __future__ import annotations

import json
import math
import os
from pathlib import Path

from harness.common import REPO, VERIF, Check, Raw, close, coq_float, nat

F14_SIG = 'ground-speed-heading-sin-cos-exchanged'

ERA5_LEVELS = [1000., 975., 950., 925., 900., 875., 850., 825., 800., 775., 750., 700., 650., 600., 550., 500.,
               450., 400., 350., 300., 250., 225., 200., 175., 150.]

HEADER = ('From Coq Require Import ZArith List PrimFloat.\nFrom AV Require Import lib.Num lib.FloatMath model.C16_Model.\n'
          'Import ListNotations.\nOpen Scope float_scope.\n')


# ---------------------------------------------------------------------------------------------
# independent reference (plain Python; not the Coq model, not AEIC's code)
# ---------------------------------------------------------------------------------------------

def isa_pressure_hpa(alt_m: float) -> float:
    """International Standard Atmosphere, textbook barometric formulas (troposphere gradient layer,
    isothermal layer above 11 km), in hPa."""
    g, R, T0, L, p0, h11 = 9.80665, 287.05287, 288.15, 0.0065, 1013.25, 11000.0
    if alt_m <= h11:
        return p0 * (1.0 - L * alt_m / T0) ** (g / (R * L))
    T11 = T0 - L * h11
    p11 = p0 * (T11 / T0) ** (g / (R * L))
    return p11 * math.exp(-g * (alt_m - h11) / (R * T11))


def isa_altitude_m(p_hpa: float) -> float:
    g, R, T0, L, p0, h11 = 9.80665, 287.05287, 288.15, 0.0065, 1013.25, 11000.0
    p11 = isa_pressure_hpa(h11)
    if p_hpa >= p11:
        return T0 / L * (1.0 - (p_hpa / p0) ** (R * L / g))
    return h11 - R * (T0 - L * h11) / g * math.log(p_hpa / p11)


def cell(axis, q):
    """axis ascending; -> (i, weight of node i+1) or None outside"""
    if not (axis[0] <= q <= axis[-1]):
        return None
    for i in range(len(axis) - 1):
        if axis[i] <= q <= axis[i + 1]:
            return i, (q - axis[i]) / (axis[i + 1] - axis[i])
    return None


def trilinear(levels, lats, lons, tb, p, la, lo):
    """8-corner weighted sum; tb[level][lat][lon], axes ascending"""
    c = [cell(levels, p), cell(lats, la), cell(lons, lo)]
    if any(x is None for x in c):
        return None
    (i, a), (j, b), (k, g) = c
    s = 0.0
    for di, wa in ((0, 1 - a), (1, a)):
        for dj, wb in ((0, 1 - b), (1, b)):
            for dk, wg in ((0, 1 - g), (1, g)):
                s += wa * wb * wg * tb[i + di][j + dj][k + dk]
    return s


def ref_wind(scene, slice_, alt, lat, lon):
    p = isa_pressure_hpa(alt)
    u = trilinear(scene['levels'], scene['lats'], scene['lons'], scene['u'][slice_], p, lat, lon)
    v = trilinear(scene['levels'], scene['lats'], scene['lons'], scene['v'][slice_], p, lat, lon)
    if u is None or v is None:
        return None
    return u, v


def spec_gs(tas, h_deg, u, v):
    th = math.radians(h_deg)
    return math.hypot(tas * math.sin(th) + u, tas * math.cos(th) + v)


def exchanged_gs(tas, h_deg, u, v):          # the defect F14, used only to *classify* a failure
    th = math.radians(h_deg)
    return math.hypot(tas * math.cos(th) + u, tas * math.sin(th) + v)


def near_edge(scene, alt, lat, lon):
    """True if the point is within rounding distance of the domain boundary (refusal ambiguous)."""
    p = isa_pressure_hpa(alt)
    for ax, q in ((scene['levels'], p), (scene['lats'], lat), (scene['lons'], lon)):
        for e in (ax[0], ax[-1]):
            if q != e and abs(q - e) <= 1e-7 * max(1.0, abs(e)):
                return True
    return False


# ---------------------------------------------------------------------------------------------
# generation
# ---------------------------------------------------------------------------------------------

def q8(x):           # multiples of 1/8: exact in float32
    return round(x * 8) / 8.0


DATES = ['20240901', '20230228', '20241231', '20240301', '20240302']


def gen_scene(rng, sid, force=None):
    """force: wind / taxis / const / grid=(levels, lats, lons, lat_desc, lev_desc) / dir / not_dates"""
    force = force or {}
    nl, nla, nlo = rng.randint(2, 4), rng.randint(2, 4), rng.randint(2, 5)
    levels = sorted(rng.sample(ERA5_LEVELS[:22], nl))
    if levels[-1] - levels[0] < 200:
        levels = sorted(set(levels) | {rng.choice([225., 300.]), rng.choice([850., 1000.])})
    step = rng.choice([0.25, 0.5, 1.0, 2.5])
    lat0 = rng.choice([-89.0, -60.0, -30.25, -5.0, 0.0, 12.5, 33.0, 55.75, 80.0])
    lats = [lat0 + i * step for i in range(nla)]
    lats = [x for x in lats if x <= 90.0]
    if len(lats) < 2:
        lats = [87.5, 90.0]
    lstep = rng.choice([0.25, 0.5, 1.0, 2.5])
    lon0 = rng.choice([-180.0, -85.0, -1.0, -0.25, 0.0, 10.0, 100.5, 170.0, 176.0, 179.5, 200.0, 350.0])   # 0..360 files (ERA5 native): nodes at and beyond 180
    lons = [lon0 + i * lstep for i in range(nlo)]
    lon_desc = rng.random() < 0.25
    if rng.random() < 0.5:
        # unevenly spaced horizontal axes (stretched / Gaussian-like grids): spacing of the first two nodes is NOT the
        # spacing elsewhere — at least three nodes so that there is a second, different cell
        def uneven(x0, n, hi):
            xs, steps = [x0], [0.25, 0.5, 0.75, 1.0, 1.5, 2.5, 4.0]
            last = None
            for _ in range(max(n, 3) - 1):
                st = rng.choice([s_ for s_ in steps if s_ != last])
                last = st
                xs.append(xs[-1] + st)
            return [x for x in xs if x <= hi]
        if rng.random() < 0.8:
            ul = uneven(min(lat0, 80.0), nla + 1, 90.0)
            lats = ul if len(ul) >= 3 else lats
        if rng.random() < 0.8:
            lons = uneven(lon0, nlo + 1, 360.0)
    lat_desc, lev_desc = rng.random() < 0.7, rng.random() < 0.7
    if 'grid' in force:
        levels, lats, lons, lat_desc, lev_desc, lon_desc = force['grid']
    taxis = force.get('taxis') or rng.choice(['none', 'scalar', 'dim24', 'dim24'])
    nsl = 24 if taxis == 'dim24' else 1
    wind = force.get('wind') or rng.choice(['zero', 'uniform', 'uniform', 'varying', 'varying', 'varying', 'affine'])
    dtype = rng.choice(['f8', 'f8', 'f4', 'i2'])
    rq = (lambda x: float(round(x))) if dtype == 'i2' else q8

    def table(kind, cval):
        if kind == 'affine':      # a + b*level + c*lat + d*lon: trilinear interpolation reproduces it exactly
            a_, b_, c_, d_ = rng.uniform(-20, 20), rng.uniform(-0.03, 0.03), rng.uniform(-3, 3), rng.uniform(-3, 3)
            return [[[rq(a_ + b_ * pl + c_ * (la - lats[0]) + d_ * (lo - lons[0])) for lo in lons] for la in lats]
                    for pl in levels]
        if kind == 'varying':
            return [[[rq(rng.uniform(-60, 60)) for _ in lons] for _ in lats] for _ in levels]
        return [[[cval for _ in lons] for _ in lats] for _ in levels]

    us, vs, consts = [], [], []
    for _ in range(nsl):
        if wind == 'zero':
            cu = cv = 0.0
        else:
            cu, cv = rq(rng.uniform(-60, 60)), rq(rng.uniform(-60, 60))
            if rng.random() < 0.15:
                cu = 0.0
            elif rng.random() < 0.15:
                cv = 0.0
        if 'const' in force:
            cu, cv = force['const']
        us.append(table(wind, cu))
        vs.append(table(wind, cv))
        consts.append([cu, cv])
    return {'id': sid, 'levels': levels, 'lats': lats, 'lons': lons, 'taxis': taxis, 'wind': wind, 'dtype': dtype,
            'lat_desc': lat_desc, 'lev_desc': lev_desc, 'lon_desc': lon_desc, 'dir': force.get('dir', sid),
            'date': force.get('date') or rng.choice([d for d in DATES if d not in force.get('not_dates', ())]),
            'u': us, 'v': vs,
            'const': consts if wind in ('zero', 'uniform') else None}


def rotated_scene(sc, d_deg, sid):
    """same grid, uniform wind rotated clockwise by d degrees (float64 so that nothing is rounded)"""
    ph = math.radians(d_deg)
    out = dict(sc, id=sid, dtype='f8', dir=sid)
    us, vs, consts = [], [], []
    for (cu, cv) in sc['const']:
        ru, rv = cu * math.cos(ph) + cv * math.sin(ph), cv * math.cos(ph) - cu * math.sin(ph)
        us.append([[[ru for _ in sc['lons']] for _ in sc['lats']] for _ in sc['levels']])
        vs.append([[[rv for _ in sc['lons']] for _ in sc['lats']] for _ in sc['levels']])
        consts.append([ru, rv])
    out.update(u=us, v=vs, const=consts)
    return out


def alt_range(sc):
    """altitudes whose ISA pressure lies strictly inside the level range (with a margin)"""
    lo = isa_altitude_m(sc['levels'][-1]) + 1.0
    hi = isa_altitude_m(sc['levels'][0]) - 1.0
    return lo, hi


def _alt_kind(rng, alt):
    """20 % of the altitudes are whole metres handed over as int / numpy int / 0-d int array (value unchanged).
    (float32 altitudes are NOT generated: numpy then evaluates the ISA formulas in single precision, 1e-7 relative —
    reduced precision asked for by the caller, not a defect, and not comparable at 1e-9)"""
    r = rng.random()
    if r < 0.2:
        return {'alt': float(round(alt)), 'alt_kind': rng.choice(['int', 'np-int', 'int-array'])}
    return {}


def gen_query(rng, sc, kind=None):
    lo, hi = alt_range(sc)
    lats, lons = sc['lats'], sc['lons']
    kind = kind or rng.choices(['inside', 'node', 'out-lat', 'out-lon', 'out-high', 'out-low', 'too-high', 'tail', 'head'],
                               [46, 8, 5, 5, 4, 4, 2, 13, 13])[0]
    if kind in ('tail', 'head') and sc.get('const') is None:
        kind = 'inside'
    lat = rng.uniform(lats[0], lats[-1])
    lon = rng.uniform(lons[0], lons[-1])
    alt = rng.uniform(lo, hi)
    hour = rng.randrange(24)
    r = rng.random()
    h = rng.choice([0.0, 90.0, 180.0, 270.0, 45.0, 360.0, -90.0, 450.0]) if r < 0.3 else \
        (rng.uniform(-360.0, 720.0) if r < 0.5 else rng.uniform(0.0, 360.0))
    tas = rng.choice([0.0, 2.0, 4.0, 7.5, 10.0, 30.0]) if rng.random() < 0.1 else rng.uniform(50.0, 300.0)
    if kind == 'node':
        lat, lon = rng.choice(lats), rng.choice(lons)
        if rng.random() < 0.5:
            lat = rng.uniform(lats[0], lats[-1])
    elif kind == 'out-lat':
        m = rng.choice([0.01, 0.3, 5.0])
        lat = lats[0] - m if rng.random() < 0.5 else lats[-1] + m
    elif kind == 'out-lon':
        m = rng.choice([0.01, 0.3, 5.0])
        lon = lons[0] - m if rng.random() < 0.5 else lons[-1] + m
    elif kind == 'out-high':
        alt = min(24990.0, hi + rng.choice([5.0, 300.0, 4000.0]))
    elif kind == 'out-low':
        alt = lo - rng.choice([5.0, 60.0, 400.0])
    elif kind == 'too-high':
        alt = 25000.0 + rng.choice([0.5, 100.0, 9000.0])
    slice_ = hour if sc['taxis'] == 'dim24' else 0
    if kind in ('tail', 'head'):
        cu, cv = sc['const'][slice_]
        if cu == 0.0 and cv == 0.0:
            kind = 'nowind'
        else:
            bearing = math.degrees(math.atan2(cu, cv))       # direction the wind blows towards, clockwise from north
            h = bearing if kind == 'tail' else bearing + 180.0
            if rng.random() < 0.3:
                h += rng.choice([-360.0, 360.0])
            if kind == 'head' and rng.random() < 0.4:
                # airspeed within a few m/s of the wind speed: the vector sum almost vanishes — against the heading as
                # specified, or against the heading as the code reads it (F14), so that either way the true magnitude is small
                tas = max(0.0, math.hypot(cu, cv) + rng.uniform(-6.0, 6.0))
                if rng.random() < 0.5:
                    h = math.degrees(math.atan2(-cv, -cu))
                    kind = 'inside'           # no longer a headwind in the specified sense: judged by the vector formula only
    use_point = rng.random() < 0.5
    return {'kind': kind, 'hour': hour, 'lat': lat, 'lon': lon, 'alt': alt, 'tas': tas, 'h': h,
            'use_point': use_point, 'decoy': rng.uniform(0.0, 360.0), 'minute': rng.choice([0, 0, 7, 30, 59]),
            **_alt_kind(rng, alt)}


# ---------------------------------------------------------------------------------------------
# implementation side
# ---------------------------------------------------------------------------------------------

def write_scene(chk: Check, sc) -> Path:
    import numpy as np
    import pandas as pd
    import xarray as xr
    d = chk.tmp / f'weather_{sc.get("dir", sc["id"])}'
    d.mkdir(parents=True, exist_ok=True)
    f = d / f'{sc["date"]}.nc'
    if f.exists():
        return d
    np_dt = {'f8': 'float64', 'f4': 'float32', 'i2': 'int16'}[sc['dtype']]
    lev = np.array(sc['levels'])
    lat = np.array(sc['lats'])
    lon = np.array(sc['lons'])
    u = np.array(sc['u'], dtype='float64')         # [slice][level][lat][lon], axes ascending
    v = np.array(sc['v'], dtype='float64')
    if sc['lev_desc']:
        lev, u, v = lev[::-1], u[:, ::-1], v[:, ::-1]
    if sc['lat_desc']:
        lat, u, v = lat[::-1], u[:, :, ::-1], v[:, :, ::-1]
    if sc.get('lon_desc'):
        lon, u, v = lon[::-1], u[:, :, :, ::-1], v[:, :, :, ::-1]
    day = pd.Timestamp(sc['date'])
    dims3 = ('pressure_level', 'latitude', 'longitude')
    coords = {'pressure_level': lev, 'latitude': lat, 'longitude': lon}
    if sc['taxis'] == 'dim24':
        dims = ('valid_time',) + dims3
        coords['valid_time'] = pd.date_range(day, periods=24, freq='h')
        data = {'u': (dims, u.astype(np_dt)), 'v': (dims, v.astype(np_dt)),
                't': (dims, (u * 0 + 250).astype(np_dt))}
    else:
        data = {'u': (dims3, u[0].astype(np_dt)), 'v': (dims3, v[0].astype(np_dt)),
                't': (dims3, (u[0] * 0 + 250).astype(np_dt))}
        if sc['taxis'] == 'scalar':
            coords['valid_time'] = day + pd.Timedelta(hours=12)
            coords['number'] = 0
    ds = xr.Dataset(data, coords=coords)
    ds.to_netcdf(f)
    ds.close()
    return d


_weather_cache: dict = {}


def impl_query(chk: Check, sc, q):
    """-> ['ok', gs] | ['outside'] | ['altrange'] | ['error', class, message]"""
    import pandas as pd

    from AEIC.trajectories.ground_track import GroundTrack
    from AEIC.types import Location
    from AEIC.weather import Weather
    d = write_scene(chk, sc)
    # one Weather object per directory: queries hop between its daily files and hours
    w = _weather_cache.get(sc.get('dir', sc['id']))
    if w is None:
        w = _weather_cache[sc.get('dir', sc['id'])] = Weather(data_dir=d)
    day = pd.Timestamp(sc['date'], tz='UTC')
    t = day + pd.Timedelta(hours=q['hour'], minutes=q.get('minute', 7 * (q['hour'] % 5)))
    if q['use_point']:
        pt = GroundTrack.Point(Location(q['lon'], q['lat']), q['h'])
        kw = {}
    else:
        pt = GroundTrack.Point(Location(q['lon'], q['lat']), q['decoy'])
        kw = {'azimuth': q['h']}
    try:
        import numpy as np
        ak = q.get('alt_kind', 'float')      # altitudes are often whole metres / feet: int, numpy int, 0-d int array
        alt = {'float': lambda a: a, 'int': lambda a: int(a), 'np-int': lambda a: np.int64(int(a)),
               'int-array': lambda a: np.array(int(a)), 'np-float32': lambda a: np.float32(a)}[ak](q['alt'])
        gs = w.get_ground_speed(time=t, gt_point=pt, altitude=alt, true_airspeed=q['tas'], **kw)
        return ['ok', float(gs)]
    except ValueError as e:
        if 'outside weather data domain' in str(e):
            return ['outside']
        if 'Altitude out of range' in str(e):
            return ['altrange']
        return ['error', 'ValueError', str(e)[:200]]
    except Exception as e:  # noqa: BLE001
        return ['error', type(e).__name__, str(e)[:200]]


def close_weather():
    for w in _weather_cache.values():
        try:
            if w._main_ds is not None:
                w._main_ds.close()
        except Exception:  # noqa: BLE001
            pass
    _weather_cache.clear()


# ---------------------------------------------------------------------------------------------
# Coq side
# ---------------------------------------------------------------------------------------------

def fl(xs):
    return '[' + '; '.join(coq_float(float(x)) for x in xs) + ']'


def coq_table(tb):
    return '[' + '; '.join('[' + '; '.join(fl(row) for row in pl) + ']' for pl in tb) + ']'


def coq_scene_def(sc) -> str:
    return (f'Definition file_{sc["id"]} : scene FNum := @Build_scene FNum {fl(sc["levels"])} {fl(sc["lats"])} '
            f'{fl(sc["lons"])}\n  [' + ';\n   '.join(coq_table(t) for t in sc['u']) + ']\n  ['
            + ';\n   '.join(coq_table(t) for t in sc['v']) + '].\n')


def slice_of(sc, q):
    return q['hour'] if sc['taxis'] == 'dim24' else 0


def heading_used(q):
    # GroundTrack.Point normalises its azimuth into [0, 360); an explicitly passed azimuth is used as is
    return q['h'] % 360.0 if q['use_point'] else q['h']


def coq_query(sc, q, exchanged: bool, slice_=None) -> str:
    b = 'true' if exchanged else 'false'
    sl = slice_of(sc, q) if slice_ is None else slice_
    return (f'@ground_speed FNum {b} file_{sc["id"]} {nat(sl)} {coq_float(q["alt"])} '
            f'{coq_float(q["lat"])} {coq_float(q["lon"])} {coq_float(q["tas"])} {coq_float(heading_used(q))}')


def model_out(v):
    if isinstance(v, tuple) and v[0] == 'GsOk':
        return ['ok', v[1]]
    return {'GsOutside': ['outside'], 'GsAltRange': ['altrange']}.get(v, ['?', repr(v)])


# ---------------------------------------------------------------------------------------------
# extraction + link
# ---------------------------------------------------------------------------------------------

def extract_cache(chk: Check) -> bool:
    """regenerate the cache configuration of Weather (_require_main_ds / _require_data) and check that it is one
    for which the state machine provably serves the queried (day, hour).  -> True if Gen.C16_CacheCfg exists"""
    from translator import c16_extract, py2coq
    try:
        text = c16_extract.extract_cache_cfg(REPO)
    except py2coq.Untranslatable as e:
        chk.obligations.append({'name': c16_extract.OB_CACHE, 'ok': False})
        chk.broken(c16_extract.OB_CACHE, str(e))
        return False
    chk.obligations.append({'name': c16_extract.OB_CACHE, 'ok': True})
    chk.notes['weather_cache_cfg'] = text.strip().splitlines()[-1]
    if chk.coq_compile_gen('C16_CacheCfg', text) is None:
        return False
    chk.coq_link('C16_CacheLink.v')
    return True


def extract(chk: Check):
    """-> True (code has the exchanged decomposition), False (specified one), None (could not tell)"""
    from translator import c16_extract, py2coq
    name = 'extract:weather.py:get_ground_speed+standard_atmosphere.py:isa'
    try:
        text = c16_extract.extract_c16(REPO)
    except py2coq.Untranslatable as e:
        nm = getattr(e, 'obligation', name)
        chk.obligations.append({'name': nm, 'ok': False})
        chk.broken(nm, str(e))
        return None
    chk.obligations.append({'name': name, 'ok': True})
    chk.obligations.append({'name': c16_extract.OB_EDGE, 'ok': True})
    if chk.coq_compile_gen('C16_Extracted', text) is None:
        return None
    chk.coq_link('C16_Link.v')
    # which reading does the regenerated text have, and is the translator's binary64 meaning the code's?
    import numpy as np

    from AEIC.utils.standard_atmosphere import pressure_at_altitude_isa_bada4
    alts = [-300.0, 0.0, 111.0, 1500.0, 5000.0, 9144.0, 10999.0, 11000.0, 11000.5, 13000.0, 20000.0, 25000.0]
    hdr = HEADER + 'From Gen Require Import C16_Extracted.\n'
    probes = [(1.0, 0.0, 0.0, 1.0), (200.0, 30.0, 12.5, -7.25), (150.0, 271.0, -40.0, 3.0)]
    exprs = [f'@C16_Extracted.isa_pressure FNum {coq_float(a)}' for a in alts]
    exprs += ['(' + ', '.join(f'@ground_speed_query FNum {" ".join(coq_float(x) for x in p)}, '
                              f'@gs FNum true {" ".join(coq_float(x) for x in p)}, '
                              f'@gs FNum false {" ".join(coq_float(x) for x in p)}' for p in probes) + ')']
    vals = chk.coq_eval(hdr, exprs, label='xcheck')
    if vals[-1] is None:
        return None
    for a, m in zip(alts, vals[:-1]):
        py = float(pressure_at_altitude_isa_bada4(np.float64(a)))
        if not close(py, m, rel=1e-12):
            chk.broken('translator-selfcheck:isa_pressure', f'alt={a}: python {py!r} vs extracted text at binary64 {m!r}')
    flat = vals[-1]
    trip = [flat[i:i + 3] for i in range(0, len(flat), 3)]
    if all(close(k, e, rel=1e-14) for k, e, s in trip) and not all(close(k, s, rel=1e-9) for k, e, s in trip):
        return True
    if all(close(k, s, rel=1e-14) for k, e, s in trip):
        return False
    chk.broken('link:ground_speed_query', f'regenerated kernel is neither reading of the model at binary64: {trip}')
    return None


# ---------------------------------------------------------------------------------------------
# the check
# ---------------------------------------------------------------------------------------------

def setup_config():
    from AEIC.config import Config
    os.environ['AEIC_PATH'] = str(REPO / 'tests/data')
    Config.reset()
    Config.load(data_path_overrides=[REPO / 'tests/data'])


def compact(sc, q):
    return {'scene': {k: sc[k] for k in ('id', 'levels', 'lats', 'lons', 'taxis', 'wind', 'dtype', 'lat_desc',
                                         'lev_desc', 'date')} | {'dir': sc.get('dir', sc['id']), 'lon_desc': sc.get('lon_desc', False)}, 'q': q}


def judge(chk: Check, sc, q, io, prior=()):
    """Property oracle on one implementation answer.  -> True if it passed.
    prior: the queries answered just before on the same Weather object (replayed first)."""
    full = {'scene': sc, 'q': q, 'impl': io, 'history': [{'scene': s, 'q': qq} for s, qq in prior]}
    sl = slice_of(sc, q)
    h = heading_used(q)
    if io[0] == 'error':
        chk.fail(f'get_ground_speed raised {io[1]}: {io[2]}', full, signature=None)
        return False
    if q['alt'] > 25000.0:
        if io[0] == 'ok':
            chk.fail('altitude above the ISA range answered', full)
            return False
        return True
    ref = ref_wind(sc, sl, q['alt'], q['lat'], q['lon'])
    if near_edge(sc, q['alt'], q['lat'], q['lon']):
        return True
    if ref is None:
        if io[0] == 'ok':
            chk.fail(f'point outside the weather data domain answered with {io[1]}', full, signature=None)
            return False
        return True
    if io[0] != 'ok':
        chk.fail(f'point inside the weather data domain refused ({io[0]})', full, signature=None)
        return False
    u, v = ref
    gsv = io[1]
    W = math.hypot(u, v)
    scale = q['tas'] + W + 1.0
    ok = lambda a, b: abs(a - b) <= 1e-8 * scale  # noqa: E731
    want = spec_gs(q['tas'], h, u, v)
    clause = None
    if not math.isfinite(gsv):
        chk.fail(f'ground speed not finite: {gsv}', full)
        return False
    if not (abs(q['tas'] - W) - 1e-8 * scale <= gsv <= q['tas'] + W + 1e-8 * scale):
        clause = f'triangle bounds: |TAS-W|={abs(q["tas"] - W)!r} <= {gsv!r} <= TAS+W={q["tas"] + W!r} violated'
        sig_ok = False
    elif q['kind'] == 'nowind' and not ok(gsv, q['tas']):
        clause = f'no wind: ground speed {gsv!r} != airspeed {q["tas"]!r}'
        sig_ok = False
    elif q['kind'] == 'tail' and not ok(gsv, q['tas'] + W):
        clause = f'pure tailwind W={W!r} along heading {h!r}: ground speed {gsv!r} != TAS+W = {q["tas"] + W!r}'
        sig_ok = True
    elif q['kind'] == 'head' and not ok(gsv, abs(q['tas'] - W)):
        clause = f'pure headwind W={W!r} against heading {h!r}: ground speed {gsv!r} != |TAS-W| = {abs(q["tas"] - W)!r}'
        sig_ok = True
    elif not ok(gsv, want):
        clause = (f'ground speed {gsv!r} != |air + wind| = {want!r} (tas={q["tas"]!r}, heading={h!r}, '
                  f'wind=({u!r}, {v!r}))')
        sig_ok = True
    if clause is None:
        return True
    # narrow classification of F14: the answer is exactly the exchanged decomposition
    sig = F14_SIG if sig_ok and ok(gsv, exchanged_gs(q['tas'], h, u, v)) else None
    full['reference'] = {'wind': [u, v], 'specified': want, 'exchanged': exchanged_gs(q['tas'], h, u, v)}
    chk.fail(clause, full, signature=sig)
    return False


def judge_rotation(chk: Check, a, b):
    """a, b = (scene, q, impl): heading and (uniform) wind rotated together -> same ground speed"""
    (sa, qa, ia), (sb, qb, ib) = a, b
    if ia[0] != 'ok' or ib[0] != 'ok':
        return
    scale = qa['tas'] + 100.0
    if abs(ia[1] - ib[1]) <= 1e-8 * scale:
        return
    ua, va = sa['const'][slice_of(sa, qa)]
    ub, vb = sb['const'][slice_of(sb, qb)]
    ea = exchanged_gs(qa['tas'], heading_used(qa), ua, va)
    eb = exchanged_gs(qb['tas'], heading_used(qb), ub, vb)
    sig = F14_SIG if abs(ia[1] - ea) <= 1e-8 * scale and abs(ib[1] - eb) <= 1e-8 * scale else None
    chk.fail(f'rotating heading and wind together by {qb["h"] - qa["h"]!r} deg changed the ground speed: '
             f'{ia[1]!r} -> {ib[1]!r}',
             {'scene': sa, 'q': qa, 'impl': ia, 'partner': {'scene': sb, 'q': qb, 'impl': ib}}, signature=sig)


HEADER_CACHE = ('From Coq Require Import ZArith List.\nFrom AV Require Import model.C16_CacheModel.\n'
                'From Gen Require Import C16_CacheCfg.\nImport ListNotations.\n')


def model_slices(chk: Check, cases, have_cfg: bool):
    """Which file / slice each query reads ACCORDING TO THE STATE MACHINE regenerated from weather.py, run inside Coq
    over the query sequence of every Weather object.  -> list of (scene, slice) per case, or None per case."""
    if not have_cfg:
        return [None] * len(cases)
    dirs: dict = {}
    for i, (sc, q) in enumerate(cases):
        dirs.setdefault(sc.get('dir', sc['id']), []).append(i)
    exprs, order = [], []
    for dk, idxs in dirs.items():
        days = {}
        for i in idxs:
            days[int(cases[i][0]['date'])] = cases[i][0]
        tax = '[' + '; '.join(f'(({d})%Z, {"true" if s_["taxis"] == "dim24" else "false"})' for d, s_ in days.items()) + ']'
        ts = '[' + '; '.join(f'mkT ({int(cases[i][0]["date"])})%Z ({cases[i][1]["hour"]})%Z '
                             f'({cases[i][1].get("minute", 7 * (cases[i][1]["hour"] % 5))})%Z' for i in idxs) + ']'
        exprs.append(f'run weather_cfg (lookup_taxis {tax}) empty {ts}')
        order.append((idxs, days))
    vals = chk.coq_eval(HEADER_CACHE, exprs, shard=40, label='cache')
    out = [None] * len(cases)
    for (idxs, days), v in zip(order, vals):
        if v is None or len(v) != len(idxs):
            continue
        for i, u in zip(idxs, v):
            if isinstance(u, tuple) and len(u) == 2 and u[0] in days:
                out[i] = (days[u[0]], 0 if u[1] is None else int(u[1]))
    return out


def process(chk: Check, cases, variant, pairs=(), have_cfg=False):
    """cases: list of (scene, q). Runs implementation, model, oracle."""
    setup_config()
    scenes = {}
    for sc, _ in cases:
        scenes[sc['id']] = sc
    impl = []
    prior = []
    hist: dict = {}
    try:
        for sc, q in cases:
            h = hist.setdefault(sc.get('dir', sc['id']), [])
            prior.append(list(h[-3:]))
            h.append((sc, q))
            impl.append(impl_query(chk, sc, q))
    finally:
        close_weather()
        from AEIC.config import Config
        Config.reset()
    exch = True if variant is None else variant
    hdr = HEADER + ''.join(coq_scene_def(s) for s in scenes.values())
    reads = model_slices(chk, cases, have_cfg)
    chk.count('model-slice-from-state-machine', sum(1 for r in reads if r is not None))
    model = chk.coq_eval(hdr, [coq_query(sc, q, exch) if r is None else coq_query(r[0], q, exch, r[1])
                               for (sc, q), r in zip(cases, reads)], shard=120)
    for (sc, q), io, mo, pr in zip(cases, impl, model, prior):
        W = 0.0 if sc['wind'] == 'zero' else 1.0
        nontriv = io[0] == 'ok' and W > 0 and q['tas'] > 0
        chk.case(compact(sc, q), nontriv)
        chk.count('kind:' + q['kind'] + ('/repeated' if q.get('repeat_of_refused') else ''))
        chk.count('altitude-as:' + q.get('alt_kind', 'float'))
        chk.count('impl:' + io[0])
        chk.count(f'file:{sc["wind"]}/{sc["taxis"]}/{sc["dtype"]}')
        def _uneven(ax):
            return len(ax) > 2 and max(b - a for a, b in zip(ax, ax[1:])) - min(b - a for a, b in zip(ax, ax[1:])) > 1e-9
        chk.count('grid:' + ((('uneven-lat ' if _uneven(sc['lats']) else '') + ('uneven-lon ' if _uneven(sc['lons']) else '')
                              + ('lon-descending' if sc.get('lon_desc') else '')).strip() or 'even'))
        if pr and pr[-1][0]['id'] != sc['id']:
            chk.count('seq:day-switch' + (':same-hour' if pr[-1][1]['hour'] == q['hour'] else ':other-hour')
                      + ('/time-axis' if sc['taxis'] == 'dim24' else '/no-time-axis'))
        passed = judge(chk, sc, q, io, pr)
        if mo is None:
            continue
        m = model_out(mo)
        same = (m[0] == io[0]) and (m[0] != 'ok' or close(m[1], io[1], rel=1e-9, scale=q['tas'] + 100.0))
        if not same and not (m[0] != io[0] and near_edge(sc, q['alt'], q['lat'], q['lon'])):
            chk.broken('correspondence:C16_Model.ground_speed',
                       f'model({"exchanged" if exch else "specified"}) {m} vs implementation {io}', compact(sc, q))
        elif passed or io[0] == 'ok':
            chk.traces_validated += 1
    for ia, ib in pairs:
        judge_rotation(chk, (*cases[ia], impl[ia]), (*cases[ib], impl[ib]))
        chk.count('kind:rotation-pair')
    return impl


def load_corpus(chk):
    out = []
    for f in sorted((VERIF / 'corpus' / chk.pid).glob('*.json')):
        c = json.loads(f.read_text())
        out.append((c['scene'], c['q']))
    return out


def run(chk: Check):
    chk.rule = ('synthetic ERA5-style NetCDF files (2-5 levels x 2-4 latitudes x 2-5 longitudes; zero / uniform / varying '
                'wind; no time axis, scalar valid_time, 24-slice valid_time; float64/float32/int16; ascending or '
                'descending level, latitude and longitude order; evenly and UNEVENLY spaced latitude / longitude axes; affine wind '
                'fields; two or three daily files with different winds per directory, one Weather '
                'object per directory asked A@H, B@H, A@H and across hours) and queries (inside, on grid nodes, just outside each axis, above '
                '25 km, pure tail/head wind on uniform files, jointly rotated heading+wind pairs; heading via the point '
                'or passed explicitly, incl. negative and > 360) from one PRNG stream; non-trivial = answered query with '
                'non-zero wind and airspeed')
    chk.trusted += ['translator/c16_extract.py + translator/py2coq.py:NumModule (cross-checked at binary64 each run)',
                    'harness/c16.py: file writer, correspondence, plain-Python reference (8-corner trilinear weights, '
                    'textbook ISA barometric formula)',
                    'xarray.interp / netCDF4 are exercised for real; modelled as multilinear interpolation with NaN outside',
                    'lib/FloatMath.v sin/cos/exp/ln at binary64 (within 1e-9 of libm, validated by the correspondence)']
    chk.assumptions += ['axes strictly monotone, data finite (no missing values in the wind fields)',
                        'theorems are about the real-number semantics of the model text; rounding is covered only by '
                        'the 1e-9 correspondence', 'time axis, when present, has 24 hourly slices of the file\'s day']
    chk.coq_props('props/C16_Props.v')
    chk.coq_props('props/C16_CacheProps.v')
    variant = extract(chk)
    have_cfg = extract_cache(chk)
    chk.notes['code_reading'] = {True: 'exchanged (u_air = tas cos h, v_air = tas sin h) — F14 present',
                                 False: 'specified (east = tas sin h, north = tas cos h)',
                                 None: 'undetermined'}[variant]
    rng = chk.rng
    cases = load_corpus(chk)
    pairs = []
    nscenes = chk.n(16, 70)
    per = chk.n(24, 32)
    sid = 1000
    for k in range(nscenes):
        force = None
        if k % 7 == 0:
            force = {'wind': 'uniform', 'taxis': rng.choice(['none', 'scalar', 'dim24'])}
        sc = gen_scene(rng, sid, force)
        sid += 1
        # two or three daily files with different winds in the same directory (same grid), so that one Weather
        # object is asked A@H, B@H, A@H and also across different hours; with and without the time axis
        group = [sc]
        if k % 7 == 0 or rng.random() < 0.65:
            for _ in range(rng.choice([1, 1, 2])):
                sib = gen_scene(rng, sid, {'grid': (sc['levels'], sc['lats'], sc['lons'], sc['lat_desc'], sc['lev_desc'], sc['lon_desc']),
                                           'dir': sc['dir'], 'not_dates': [g['date'] for g in group],
                                           'taxis': sc['taxis'] if rng.random() < 0.7 else None,
                                           'wind': rng.choice(['uniform', 'varying', 'affine'])})
                sid += 1
                group.append(sib)
        budget = per if len(group) == 1 else int(per * 1.6)
        first_case = len(cases)
        while budget > 0:
            if len(group) > 1 and rng.random() < 0.45:
                a, b = rng.sample(group, 2)
                qa = gen_query(rng, a, rng.choice(['inside', 'inside', 'tail', 'node']))
                qb = dict(gen_query(rng, b, rng.choice(['inside', 'inside', 'head'])), hour=qa['hour'])
                if qb['kind'] in ('tail', 'head'):
                    qb = dict(gen_query(rng, b, 'inside'), hour=qa['hour'])
                cases += [(a, qa), (b, qb), (a, dict(qa))]
                budget -= 3
            else:
                g = rng.choice(group)
                cases.append((g, gen_query(rng, g)))
                budget -= 1
                if cases[-1][1]['kind'].startswith('out-') and rng.random() < 0.7:
                    # a refused query asked again at the same time / place / altitude with another heading and airspeed
                    # must be refused again (nothing of the refused lookup may be remembered as an answer)
                    q0 = cases[-1][1]
                    cases.append((g, dict(q0, h=rng.uniform(0.0, 360.0), tas=rng.uniform(60.0, 280.0), repeat_of_refused=True)))
                    budget -= 1
        if rng.random() < 0.25:
            # a second Weather object (another directory) with files of the SAME dates and grid but other winds, queried
            # alternately with the first one at the same times: state shared between Weather objects would show
            mdir = sid
            mirror = {}
            for g in group:
                mirror[g['id']] = gen_scene(rng, sid, {'grid': (g['levels'], g['lats'], g['lons'], g['lat_desc'], g['lev_desc'], g['lon_desc']),
                                                       'dir': mdir, 'date': g['date'], 'taxis': g['taxis'],
                                                       'wind': rng.choice(['uniform', 'varying', 'affine'])})
                sid += 1
            inter = []
            for g, q in cases[first_case:]:
                q2 = dict(gen_query(rng, mirror[g['id']], 'inside'), hour=q['hour'], minute=q.get('minute', 0))
                inter += [(g, q), (mirror[g['id']], q2)]
            cases[first_case:] = inter
            chk.count('directories-mirrored-by-a-second-weather-object')
        if sc['wind'] == 'uniform':
            # rotation pairs: same grid, wind rotated by d; heading h and h + d
            for _ in range(3):
                d = rng.choice([90.0, 180.0, 37.0, -120.0, rng.uniform(-180, 180)])
                rs = rotated_scene(sc, d, sid)
                sid += 1
                qa = gen_query(rng, sc, 'inside')
                qb = dict(qa, h=qa['h'] + d)
                pairs.append((len(cases), len(cases) + 1))
                cases += [(sc, qa), (rs, qb)]
    process(chk, cases, variant, pairs, have_cfg)


def replay(chk: Check, rp):
    chk.coq_props('props/C16_Props.v')
    chk.coq_props('props/C16_CacheProps.v')
    variant = extract(chk)
    have_cfg = extract_cache(chk)
    case = rp.get('case') or {}
    if 'scene' not in case or 'levels' not in case['scene'] or 'u' not in case['scene']:
        chk.broken('replay', 'replay file carries no self-contained case (broken obligation: re-run the check)')
        return
    cases = [(h['scene'], h['q']) for h in case.get('history', [])] + [(case['scene'], case['q'])]
    pairs = []
    if case.get('partner'):
        cases.append((case['partner']['scene'], case['partner']['q']))
        pairs = [(len(cases) - 2, len(cases) - 1)]
    process(chk, cases, variant, pairs, have_cfg)

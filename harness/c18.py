"""C18 — exactly one immutable configuration; a failed load leaves none; overlay precedence.

Tie:   translator (deep_update, Config.load composition) -> Gen.C18_Extracted, link/C18_Link.v
       correspondence: histories of load/reset/get/read/mutate on the real Config vs `run` in Coq.
Oracle: three-state reference machine + recursive dictionary overlay, in plain Python.
"""

from __future__ import annotations

import os
import tomllib
from pathlib import Path

from harness.common import REPO, Check, Raw, to_coq
from translator import py2coq

# leaf paths the generator touches: path -> list of (code, python value) ; code 99 = invalid value, 98 = missing file
LEAVES = {
    ('performance_model',): [(0, 'performance/sample_performance_model.toml'),
                             (1, 'performance/random_test_ptf.toml'),
                             (98, 'performance/does_not_exist.toml'),
                             (96, None)],        # None (keyword arguments only): a required path -> invalid
    ('engine_file',): [(0, 'engines/sample_edb.xlsx'), (98, 'engines/no_such_edb.xlsx')],
    ('weather', 'use_weather'): [(1, True), (0, False), (99, [1, 2])],
    ('weather', 'weather_data_dir'): [(0, 'weather'), (98, 'no_such_weather_dir'),
                                      (97, None)],   # None (keyword arguments only): documented, valid
    ('emissions', 'co2_enabled'): [(1, True), (0, False), (99, [3])],
    ('emissions', 'sox_enabled'): [(1, True), (0, False)],
    ('emissions', 'apu_enabled'): [(1, True), (0, False)],
    ('emissions', 'nox_method'): [(0, 'bffm2'), (1, 'p3t3'), (2, 'none'), (99, 'bogus')],
    ('emissions', 'pmvol_method'): [(0, 'fuel_flow'), (1, 'foa3'), (2, 'none'), (99, 'nonsense')],
    ('emissions', 'climb_descent_mode'): [(0, 'trajectory'), (1, 'lto'), (99, 'sideways')],
}
SECTIONS = ('weather', 'emissions')


def encode_default(path, v):
    for code, pv in LEAVES.get(path, []):
        if pv is None:
            continue
        if (isinstance(pv, str) and isinstance(v, str) and pv.lower() == v.lower()) or (pv is v) or \
                (not isinstance(pv, (str, bool)) and pv == v):
            return code
    return 0


def tree_of_defaults(d, prefix=()):
    out = {}
    for k, v in d.items():
        if isinstance(v, dict):
            out[k] = tree_of_defaults(v, prefix + (k,))
        else:
            out[k] = encode_default(prefix + (k,), v)
    return out


def coq_tree(t) -> str:
    if isinstance(t, dict):
        return 'Node [' + '; '.join(f'("{k}", {coq_tree(v)})' for k, v in t.items()) + ']'
    return f'Leaf ({t})%Z'


def py_value(path, code):
    for c, pv in LEAVES[path]:
        if c == code:
            return pv
    raise KeyError((path, code))


def to_python_data(t, prefix=()):
    """code tree -> data handed to the real Config (dict of python values)."""
    out = {}
    for k, v in t.items():
        p = prefix + (k,)
        if isinstance(v, dict):
            out[k] = to_python_data(v, p)
        elif p in LEAVES:
            out[k] = py_value(p, v)
        else:          # a leaf where a section is expected (dict-vs-leaf case)
            out[k] = v
    return out


def toml_text(data, prefix='') -> str:
    lines, tables = [], []
    for k, v in data.items():
        if isinstance(v, dict):
            tables.append((k, v))
        else:
            lines.append(f'{k} = {toml_val(v)}')
    s = '\n'.join(lines) + '\n'
    for k, v in tables:
        s += f'\n[{prefix}{k}]\n' + toml_text(v, prefix + k + '.')
    return s


def toml_val(v):
    if isinstance(v, bool):
        return 'true' if v else 'false'
    if isinstance(v, str):
        return f'"{v}"'
    if isinstance(v, list):
        return '[' + ', '.join(toml_val(x) for x in v) + ']'
    return str(v)


# ---- independent oracle -----------------------------------------------------

def overlay(base, over):
    """Plain recursive dictionary overlay (not a transcription of deep_update: builds a new dict)."""
    if not (isinstance(base, dict) and isinstance(over, dict)):
        return over
    res = {k: v for k, v in base.items()}
    for k, v in over.items():
        res[k] = overlay(base[k], v) if k in base else v
    return res


def classify(eff, defaults):
    """Expected failure kind of loading the effective tree."""
    kind = 'FkNone'

    def walk(t, d, prefix):
        nonlocal kind
        for k, v in t.items():
            p = prefix + (k,)
            if k in SECTIONS and prefix == () and not isinstance(v, dict):
                kind = 'FkField'
            elif isinstance(v, dict):
                walk(v, d.get(k, {}) if isinstance(d, dict) else {}, p)
            elif v in (99, 96):
                kind = 'FkField'
            elif v == 98 and kind != 'FkField':
                kind = 'FkPath'
    walk(eff, defaults, ())
    return kind


def oracle_run(defaults, ops):
    """Three-state reference machine of the property (Unset / Set cfg)."""
    state = None
    outs = []
    for op in ops:
        k = op['op']
        if k == 'load':
            if op['fk'] == 'FkOpen':
                outs.append('ErrOpen')
            elif op['fk'] == 'FkField':
                outs.append('ErrField')
            elif state is not None:
                outs.append('ErrAlready')
            elif op['fk'] == 'FkPath':
                outs.append('ErrPath')
            else:
                state = overlay(defaults, overlay(op['file'], op['kwargs']))
                outs.append('OkUnit')
        elif k == 'reset':
            state = None
            outs.append('OkUnit')
        elif k == 'get':
            outs.append('OkUnit' if state is not None else 'ErrNotSet')
        elif k == 'read':
            if state is None:
                outs.append('ErrNotSet')
            else:
                t = state
                for key in op['path']:
                    t = t.get(key) if isinstance(t, dict) else None
                    if t is None:
                        break
                outs.append(['OkVal', t if not isinstance(t, dict) else 'node'])
        elif k == 'mutate':
            outs.append('ErrFrozen' if state is not None else 'ErrNotSet')
    return outs


# ---- implementation ---------------------------------------------------------

def impl_run(chk: Check, ops, idx):
    from pydantic import ValidationError

    from AEIC.config import Config, config
    Config.reset()
    outs = []
    written: set = set()
    for j, op in enumerate(ops):
        k = op['op']
        try:
            if k == 'load':
                kwargs = to_python_data(op['kwargs'])
                cf = None
                if op['fk'] == 'FkOpen':
                    cf = chk.tmp / f'missing_{idx}_{j}.toml'
                    if op.get('bad_toml'):
                        cf.write_text('this is = = not toml [[[\n')
                elif op['use_file']:
                    fid = op.get('file_id')
                    cf = chk.tmp / (f'cfg_{idx}_f{fid}.toml' if fid is not None else f'cfg_{idx}_{j}.toml')
                    if cf not in written:    # the same file (same path, untouched) for every load that names it
                        cf.write_text(toml_text(to_python_data(op['file'])))
                        written.add(cf)
                Config.load(config_file=cf, **kwargs)
                outs.append('OkUnit')
            elif k == 'reset':
                Config.reset()
                outs.append('OkUnit')
            elif k == 'get':
                Config.get()
                outs.append('OkUnit')
            elif k == 'read':
                obj = Config.get() if op.get('via') == 'get' else config
                try:
                    for key in op['path']:
                        obj = getattr(obj, key)
                    outs.append(['OkVal', encode_impl(tuple(op['path']), obj)])
                except AttributeError:
                    outs.append(['OkVal', None])
            elif k == 'mutate':
                obj = Config.get() if op.get('via') == 'get' else config
                for key in op['path'][:-1]:
                    obj = getattr(obj, key)
                setattr(obj, op['path'][-1], op['value'])
                outs.append('OkUnit')
        except ValidationError as e:
            types = {er['type'] for er in e.errors()}
            outs.append('ErrFrozen' if types <= {'frozen_instance', 'frozen_field'} and k == 'mutate' else 'ErrField')
        except RuntimeError as e:
            outs.append('ErrAlready' if 'already been initialized' in str(e) else f'RuntimeError:{e}')
        except FileNotFoundError as e:
            outs.append('ErrOpen' if 'No such file or directory' in str(e) else 'ErrPath')
        except tomllib.TOMLDecodeError:
            outs.append('ErrOpen')
        except ValueError as e:
            outs.append('ErrNotSet' if 'configuration is not set' in str(e) else f'ValueError:{e}')
        except Exception as e:  # noqa: BLE001
            outs.append(f'{type(e).__name__}:{e}')
    Config.reset()
    return outs


def encode_impl(path, v):
    if path not in LEAVES:
        return 'node' if hasattr(v, 'model_fields') or hasattr(type(v), 'model_fields') else 0
    for code, pv in LEAVES[path]:
        if pv is None:
            if v is None:
                return code
        elif isinstance(pv, bool):
            if v is pv:
                return code
        elif isinstance(pv, str):
            sv = str(v)
            if sv.lower() == pv.lower() or sv.endswith('/' + pv) or Path(sv).name == Path(pv).name:
                return code
    return f'unmapped:{v!r}'


# ---- generation --------------------------------------------------------------

def gen_tree(rng, p_leaf=0.35, allow_bad=0.0, allow_shape=0.0, allow_none=False):
    t: dict = {}
    for path, vals in LEAVES.items():
        if rng.random() > p_leaf:
            continue
        good = [c for c, _ in vals if c < 90]
        bad = [c for c, _ in vals if c >= 98]
        if allow_none and rng.random() < 0.25:
            nones = [c for c, _ in vals if c in (96, 97)]
            if nones:
                good, bad = nones, nones
        code = rng.choice(bad) if bad and rng.random() < allow_bad else rng.choice(good)
        node = t
        for k in path[:-1]:
            node = node.setdefault(k, {})
            if not isinstance(node, dict):
                break
        else:
            node[path[-1]] = code
    if rng.random() < allow_shape:
        t[rng.choice(SECTIONS)] = 5          # a leaf where a section is expected
    return t


def gen_history(rng, defaults):
    n = rng.randint(2, 12)
    ops = []
    pool: list = []          # configuration files of this history (a file may be loaded several times)
    for _ in range(n):
        r = rng.random()
        if r < 0.42:
            mode = rng.random()
            bad = 0.0 if mode < 0.5 else 0.35
            shape = 0.08 if mode >= 0.5 else 0.0
            use_file = rng.random() < 0.6
            file_id = None
            if use_file and pool and rng.random() < 0.55:
                file_id = rng.randrange(len(pool))            # load the SAME, unmodified file again
                file = pool[file_id]
            elif use_file:
                file = gen_tree(rng, 0.35, bad, shape)
                pool.append(file)
                file_id = len(pool) - 1
            else:
                file = {}
            kwargs = gen_tree(rng, 0.3, bad, shape, allow_none=True)
            eff = overlay(defaults, overlay(file, kwargs))
            fk = classify(eff, defaults)
            op = {'op': 'load', 'file': file, 'kwargs': kwargs, 'use_file': use_file, 'fk': fk, 'file_id': file_id}
            if rng.random() < 0.09:
                op['fk'] = 'FkOpen'
                op['bad_toml'] = rng.random() < 0.5
            ops.append(op)
        elif r < 0.55:
            ops.append({'op': 'reset'})
        elif r < 0.62:
            ops.append({'op': 'get'})
        elif r < 0.86:
            path = list(rng.choice(list(LEAVES)))
            if rng.random() < 0.08:
                path = path[:-1] + ['no_such_setting']
            ops.append({'op': 'read', 'path': path, 'via': rng.choice(['proxy', 'proxy', 'get'])})
        else:
            path = list(rng.choice(list(LEAVES)))
            vals = [pv for c, pv in LEAVES[tuple(path)] if c < 90]
            if rng.random() < 0.15 and len(path) == 2:
                path, vals = path[:1], []          # replace a whole section
            ops.append({'op': 'mutate', 'path': path, 'value': rng.choice(vals + [None]),
                        'via': rng.choice(['proxy', 'proxy', 'get'])})
    return ops


def coq_op(op) -> str:
    k = op['op']
    if k == 'load':
        return f"Load ({coq_tree(op['file'])}) ({coq_tree(op['kwargs'])}) {op['fk']}"
    if k == 'reset':
        return 'Reset'
    if k == 'get':
        return 'Get'
    path = '[' + '; '.join(f'"{p}"' for p in op['path']) + ']'
    return f'Read {path}' if k == 'read' else f'Mutate {path}'


def model_out(v):
    """parsed Coq `out` -> comparable python"""
    if isinstance(v, tuple) and v[0] == 'OkVal':
        x = v[1]
        if x is None:
            return ['OkVal', None]
        if isinstance(x, tuple) and x[0] == 'Leaf':
            return ['OkVal', x[1]]
        return ['OkVal', 'node']
    if v == 'OkVal':
        return ['OkVal', None]
    return v


def nontrivial(ops):
    seen_fail = False
    for op in ops:
        if op['op'] == 'load':
            if seen_fail:
                return True
            if op['fk'] != 'FkNone':
                seen_fail = True
            if op['file'] and op['kwargs'] and set(op['file']) & set(op['kwargs']):
                return True
    return False


HEADER = ('From Coq Require Import ZArith List String.\nFrom AV Require Import lib.Tree model.C18_Model.\n'
          'Import ListNotations.\nOpen Scope string_scope.\n')


def extract(chk: Check):
    core = REPO / 'src/AEIC/config/core.py'
    try:
        text = (py2coq.extract_deep_update(core) + py2coq.extract_config_load_order(core)
                + py2coq.extract_singleton_protocol(core))
    except py2coq.Untranslatable as e:
        chk.obligations.append({'name': 'extract:config/core.py:deep_update+Config.load', 'ok': False})
        chk.broken('extract:config/core.py:deep_update', str(e))
        return False
    chk.obligations.append({'name': 'extract:config/core.py:deep_update+Config.load', 'ok': True})
    if chk.coq_compile_gen('C18_Extracted', text) is None:
        return False
    return chk.coq_link('C18_Link.v')


def check_histories(chk: Check, histories, defaults):
    os.environ['AEIC_PATH'] = str(REPO / 'tests/data')
    exprs = []
    impl_outs = []
    for i, ops in enumerate(histories):
        impl_outs.append(impl_run(chk, ops, i))
        exprs.append(f"snd (run ({coq_tree(defaults)}) true None [{'; '.join(coq_op(o) for o in ops)}])")
    model_outs = chk.coq_eval(HEADER, exprs)
    for hidx, (ops, io, mo) in enumerate(zip(histories, impl_outs, model_outs)):
        nt = nontrivial(ops)
        chk.case({'ops': ops}, nt)
        for o in ops:
            chk.count('op:' + o['op'] + (':' + o['fk'] if o['op'] == 'load' else ''))
        want = oracle_run(defaults, ops)
        if io != want:
            ops_s = shrink(chk, ops, defaults)
            io_s, want_s = impl_run(chk, ops_s, 999999), oracle_run(defaults, ops_s)
            carried = io_s == want_s      # not reproducible in isolation: state carried over from earlier histories
            if not carried:
                ops, io, want = ops_s, io_s, want_s
            j = next(i for i, (a, b) in enumerate(zip(io, want)) if a != b)
            sig = None
            # narrow signature of F16: a path failure on an unconfigured system leaves the singleton set
            prev_fail = [x for x in range(j) if ops[x]['op'] == 'load' and ops[x]['fk'] == 'FkPath'
                         and want[x] == 'ErrPath' and io[x] == 'ErrPath']
            if prev_fail:
                sig = 'config-path-failure-leaves-singleton-set'
            chk.fail(f'step {j} ({ops[j]["op"]}): implementation {io[j]!r}, reference machine {want[j]!r}'
                     + (' [only after the preceding histories of this run: state survives Config.reset()]' if carried else ''),
                     {'ops': ops, 'impl': io, 'reference': want, 'first_diff': j,
                      'needs_preceding_histories': carried,
                      'preceding': histories[max(0, hidx - 3):hidx] if carried else []}, signature=sig)
            continue
        if mo is None:
            continue
        mo2 = [model_out(v) for v in mo]
        if mo2 != io:
            chk.broken('correspondence:C18_Model.run', f'model {mo2} vs implementation {io}', {'ops': ops})
        else:
            chk.traces_validated += 1


def shrink(chk, ops, defaults):
    """greedy: drop operations while implementation and reference machine still disagree"""
    cur = list(ops)
    changed = True
    while changed and len(cur) > 1:
        changed = False
        for i in range(len(cur)):
            cand = cur[:i] + cur[i + 1:]
            if impl_run(chk, cand, 999998) != oracle_run(defaults, cand):
                cur, changed = cand, True
                break
    return cur


def late_failure_scenarios(chk: Check):
    """Loads whose only possible defect is a reference that is resolved lazily (a fuel name with no fuels/<name>.toml on
    the search path).  Whether such a load is accepted or refused is not the property's business; what is: a load that
    RAISES leaves the system unconfigured (Config.get() and proxy reads refused, a following valid load succeeds), and a
    load that RETURNS leaves exactly that configuration active (a second load refused until reset).  (seeded/C18-12)"""
    from AEIC.config import Config, config
    variants = [({'emissions': {'fuel': name}}, via_file) for name in ('no_such_fuel', '', 'SAF', 'conventional_jetA')
                for via_file in (False, True)]
    for j, (data, via_file) in enumerate(variants):
        Config.reset()
        name = data['emissions']['fuel']
        obs = {'setting': data, 'via_file': via_file}
        try:
            if via_file:
                cf = chk.tmp / f'late_{j}.toml'
                cf.write_text(toml_text(data))
                Config.load(config_file=cf)
            else:
                Config.load(**data)
            obs['load'] = 'returned'
        except Exception as e:  # noqa: BLE001
            obs['load'] = f'raised {type(e).__name__}: {str(e)[:120]}'
        try:
            Config.get()
            obs['get'] = 'ok'
        except ValueError as e:
            obs['get'] = 'refused' if 'configuration is not set' in str(e) else f'ValueError: {e}'
        except Exception as e:  # noqa: BLE001
            obs['get'] = f'{type(e).__name__}: {e}'
        try:
            obs['proxy_read'] = ['ok', config.emissions.fuel]
        except ValueError as e:
            obs['proxy_read'] = 'refused' if 'configuration is not set' in str(e) else f'ValueError: {e}'
        except Exception as e:  # noqa: BLE001
            obs['proxy_read'] = f'{type(e).__name__}: {e}'
        try:
            Config.load()
            obs['next_valid_load'] = 'returned'
        except RuntimeError as e:
            obs['next_valid_load'] = 'already' if 'already been initialized' in str(e) else f'RuntimeError: {e}'
        except Exception as e:  # noqa: BLE001
            obs['next_valid_load'] = f'{type(e).__name__}: {e}'
        Config.reset()
        chk.count('late-failure-scenarios:' + obs['load'].split()[0])
        if obs['load'] == 'returned':
            want = {'get': 'ok', 'proxy_read': ['ok', name], 'next_valid_load': 'already'}
            what = 'a load that returned must leave exactly that configuration active'
        else:
            want = {'get': 'refused', 'proxy_read': 'refused', 'next_valid_load': 'returned'}
            what = 'a load that raised must leave the system unconfigured and a following valid load must succeed'
        bad = {k: (obs[k], v) for k, v in want.items() if obs[k] != v}
        if bad:
            chk.fail(f'{what}: load {obs["load"]}; observed vs required: {bad}', {'scenario': 'late-failure', **obs}, None)
            return


def run(chk: Check):
    chk.rule = ('histories of 2-12 operations (load with file/kwargs overlays incl. invalid values, missing files, '
                'dict-vs-leaf shapes; reset; get; read of nested settings; attempted mutation) from one PRNG stream; '
                'non-trivial = contains a load after a failed load, or a load whose file and kwargs overlays touch '
                'the same section')
    chk.trusted += ['translator/py2coq.py (extract_deep_update, extract_config_load_order)',
                    'harness/c18.py correspondence + Python reference machine',
                    'pydantic validator ordering, tomllib: exercised for real, not modelled']
    chk.assumptions += ['leaf values are compared through a finite code table (harness/c18.py:LEAVES)',
                        'failure kind of a load is predicted from the overlaid data by the harness oracle']
    chk.coq_props('props/C18_Props.v')
    extract(chk)
    with open(REPO / 'src/AEIC/data/default_config.toml', 'rb') as fp:
        defaults = tree_of_defaults(tomllib.load(fp))
    corpus = load_corpus(chk)
    hist = corpus + [gen_history(chk.rng, defaults) for _ in range(chk.n(400, 6000))]
    check_histories(chk, hist, defaults)
    late_failure_scenarios(chk)


def load_corpus(chk):
    import json
    out = []
    d = Path(__file__).resolve().parent.parent / 'corpus' / chk.pid
    for f in sorted(d.glob('*.json')):
        out.append(json.loads(f.read_text())['ops'])
    return out


def replay(chk: Check, rp):
    chk.coq_props('props/C18_Props.v')
    extract(chk)
    with open(REPO / 'src/AEIC/data/default_config.toml', 'rb') as fp:
        defaults = tree_of_defaults(tomllib.load(fp))
    case = rp.get('case') or {}
    if 'ops' in case:
        check_histories(chk, [case['ops']], defaults)

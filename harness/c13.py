"""C13 — schedule import creates exactly the flight instances the schedule row implies.

Tie:    translator/c13_extract.py (row validity rule, EXCLUDE_EQUIPMENT, distance rule + geodesic argument
        order, weekday mask, date defaults, which dates reach _add_schedule) -> Gen.C13_Extracted,
        link/C13_Link.v;
        correspondence: generated schedule rows through CSVEntry.from_csv_row + OAGDatabase.add into SQLite
        (harness-written airports file), tables read back and compared with `run_case` evaluated inside
        Coq; tz offsets (zoneinfo) and geodesic distances (pyproj) are supplied to the model as tables.
Oracle: per-row re-derivation in plain Python (datetime.date arithmetic + zoneinfo + pyproj called with
        (lon, lat)); independent of the Coq model and of the importer.
"""

from __future__ import annotations

import csv
import datetime as dt
import json
import logging
import math
import os
from pathlib import Path
from zoneinfo import ZoneInfo

from harness.common import REPO, VERIF, Check, Raw, to_coq
from translator import c13_extract, py2coq

# iata, name, lat, lon, elevation_ft, country, municipality, expected zone
AIRPORTS = [
    ('LHR', 'London Heathrow', 51.4706, -0.461941, 83, 'GB', 'London', 'Europe/London'),
    ('LGW', 'London Gatwick', 51.148102, -0.190278, 202, 'GB', 'London', 'Europe/London'),
    ('LCY', 'London City', 51.505299, 0.055278, 19, 'GB', 'London', 'Europe/London'),
    ('LH2', 'Heathrow Annex (fictitious)', 51.475, -0.457, 80, 'GB', '', 'Europe/London'),
    ('JFK', 'John F Kennedy', 40.639801, -73.7789, 13, 'US', 'New York', 'America/New_York'),
    ('LAX', 'Los Angeles', 33.942501, -118.407997, 125, 'US', 'Los Angeles', 'America/Los_Angeles'),
    ('PHX', 'Phoenix Sky Harbor', 33.4343, -112.012, 1135, 'US', 'Phoenix', 'America/Phoenix'),
    ('HNL', 'Daniel K Inouye', 21.32062, -157.924228, 13, 'US', 'Honolulu', 'Pacific/Honolulu'),
    ('ANC', 'Ted Stevens Anchorage', 61.1744, -149.996002, 152, 'US', 'Anchorage', 'America/Anchorage'),
    ('YYT', "St. John's", 47.618599, -52.7519, 461, 'CA', "St. John's", 'America/St_Johns'),
    ('MEX', 'Benito Juarez', 19.4363, -99.072098, 7316, 'MX', 'Mexico City', 'America/Mexico_City'),
    ('BOG', 'El Dorado', 4.70159, -74.1469, 8361, 'CO', 'Bogota', 'America/Bogota'),
    ('GRU', 'Guarulhos', -23.435556, -46.473056, 2459, 'BR', 'Sao Paulo', 'America/Sao_Paulo'),
    ('SCL', 'Arturo Merino Benitez', -33.393001, -70.785797, 1555, 'CL', 'Santiago', 'America/Santiago'),
    ('SYD', 'Sydney Kingsford Smith', -33.946098, 151.177002, 21, 'AU', 'Sydney', 'Australia/Sydney'),
    ('ADL', 'Adelaide', -34.945, 138.531006, 20, 'AU', 'Adelaide', 'Australia/Adelaide'),
    ('DRW', 'Darwin', -12.4147, 130.876999, 103, 'AU', 'Darwin', 'Australia/Darwin'),
    ('AKL', 'Auckland', -37.008099, 174.792007, 23, 'NZ', 'Auckland', 'Pacific/Auckland'),
    ('CHT', 'Chatham Islands', -43.810001, -176.457001, 43, 'NZ', '', 'Pacific/Chatham'),
    ('NAN', 'Nadi', -17.7554, 177.443, 59, 'FJ', 'Nadi', 'Pacific/Fiji'),
    ('APW', 'Faleolo', -13.83, -171.999, 58, 'WS', 'Apia', 'Pacific/Apia'),
    ('PPG', 'Pago Pago', -14.331, -170.710007, 32, 'AS', 'Pago Pago', 'Pacific/Pago_Pago'),
    ('CXI', 'Cassidy', 1.98616, -157.35, 5, 'KI', 'Kiritimati', 'Pacific/Kiritimati'),
    ('DEL', 'Indira Gandhi', 28.5665, 77.103104, 777, 'IN', 'New Delhi', 'Asia/Kolkata'),
    ('KTM', 'Tribhuvan', 27.6966, 85.3591, 4390, 'NP', 'Kathmandu', 'Asia/Kathmandu'),
    ('IKA', 'Imam Khomeini', 35.4161, 51.152199, 3305, 'IR', 'Tehran', 'Asia/Tehran'),
    ('DXB', 'Dubai', 25.2528, 55.364399, 62, 'AE', 'Dubai', 'Asia/Dubai'),
    ('SIN', 'Changi', 1.35019, 103.994003, 22, 'SG', 'Singapore', 'Asia/Singapore'),
    ('NRT', 'Narita', 35.764702, 140.386002, 141, 'JP', 'Tokyo', 'Asia/Tokyo'),
    ('JNB', 'O R Tambo', -26.1392, 28.246, 5558, 'ZA', 'Johannesburg', 'Africa/Johannesburg'),
    ('CAI', 'Cairo', 30.121901, 31.4056, 382, 'EG', 'Cairo', 'Africa/Cairo'),
    ('KEF', 'Keflavik', 63.985001, -22.6056, 171, 'IS', 'Reykjavik', 'Atlantic/Reykjavik'),
    ('CDG', 'Charles de Gaulle', 49.012798, 2.55, 392, 'FR', 'Paris', 'Europe/Paris'),
    ('FRA', 'Frankfurt am Main', 50.033333, 8.570556, 364, 'DE', 'Frankfurt', 'Europe/Berlin'),
]
AP_HARNESS = {a[0]: a for a in AIRPORTS}
AP = AP_HARNESS            # the airport table of the stream being processed (see use_world)
AIRPORT_TYPES = ['large_airport', 'closed', 'medium_airport', 'heliport', 'small_airport', 'seaplane_base', 'balloonport']
_AP_SHIPPED = None


def shipped_airports():
    """The airport data the repository ships, read independently with csv.DictReader: the main file the test
    configuration resolves (tests/data/airports/airports.csv) overlaid by src/AEIC/data/airports/airports-patch.csv;
    every row with a non-empty IATA code, whatever its `type`.  Zones from timezonefinder (trusted library)."""
    global _AP_SHIPPED
    if _AP_SHIPPED is None:
        from timezonefinder import TimezoneFinder
        tf = TimezoneFinder()
        out = {}
        for f in (REPO / 'tests/data/airports/airports.csv', REPO / 'src/AEIC/data/airports/airports-patch.csv'):
            with open(f, newline='', encoding='utf-8') as fp:
                for r in csv.DictReader(fp):
                    if r['iata_code']:
                        lat, lon = float(r['latitude_deg']), float(r['longitude_deg'])
                        out[r['iata_code']] = (r['iata_code'], r['name'], lat, lon, r['elevation_ft'], r['iso_country'],
                                               r['municipality'], tf.certain_timezone_at(lat=lat, lng=lon), r['type'])
        _AP_SHIPPED = out
    return _AP_SHIPPED


def use_world(world: str):
    global AP
    AP = shipped_airports() if world == 'shipped' else AP_HARNESS
UNKNOWN_CODES = ['QQQ', 'ZZX', 'XQ9']
NEAR_PAIRS = [('LHR', 'LH2'), ('LH2', 'LHR'), ('LHR', 'LGW'), ('LCY', 'LHR'), ('LGW', 'LCY'), ('LHR', 'LHR')]
DATA_YEARS = [2019, 2019, 2019, 2019, 2016, 2020, 2021, 2024]
DOCUMENTED_SURFACE_SERVICES = ('V', 'U')
SIG_F10 = 'distance-check-latlon-swapped'
SIG_F11 = 'open-ended-dates-abort-import'

CSV_FIELDS = ['carrier', 'fltno', 'depapt', 'depctry', 'arrapt', 'arrctry', 'deptim', 'arrtim', 'arrday', 'days',
              'stops', 'genacft', 'inpacft', 'service', 'seats', 'efffrom', 'effto', 'longest', 'distance',
              'operating']

HEADER = ('From Coq Require Import ZArith List String Bool Ascii.\n'
          'From AV Require Import lib.Dates model.C13_Model model.C13_Parse.\n'
          'From Gen Require Import C13_Extracted.\n'
          'Import ListNotations.\nOpen Scope Z_scope.\n')


# ---------------------------------------------------------------------------------------------
# external oracles as tables: tz offsets (zoneinfo) and geodesic distances (pyproj)
# ---------------------------------------------------------------------------------------------

_EPOCH = dt.datetime(1970, 1, 1)
_TZ_CACHE: dict[str, tuple[int, list[tuple[int, int]]]] = {}
TZ_FIRST_YEAR, TZ_LAST_YEAR = 2014, 2027


def _offset_at(zone: ZoneInfo, lm: int) -> int:
    """UTC offset (s) the tz database assigns to local wall-clock minute lm (PEP 495 fold=0 reading)."""
    t = (_EPOCH + dt.timedelta(minutes=lm)).replace(tzinfo=zone)
    return int(t.utcoffset().total_seconds())


def tz_table(zname: str):
    """(offset at the start, [(first local minute, offset)]) over TZ_FIRST_YEAR..TZ_LAST_YEAR."""
    if zname in _TZ_CACHE:
        return _TZ_CACHE[zname]
    z = ZoneInfo(zname)
    lo = int((dt.datetime(TZ_FIRST_YEAR, 1, 1) - _EPOCH).total_seconds() // 60)
    hi = int((dt.datetime(TZ_LAST_YEAR + 1, 1, 1) - _EPOCH).total_seconds() // 60)
    first = _offset_at(z, lo)
    table = []
    cur, m = first, lo
    while m < hi:
        nxt = min(m + 360, hi)                      # 6-hour steps, then bisect to the minute
        o = _offset_at(z, nxt)
        if o != cur:
            a, b = m, nxt
            while b - a > 1:
                c = (a + b) // 2
                if _offset_at(z, c) == cur:
                    a = c
                else:
                    b = c
            o = _offset_at(z, b)
            table.append((b, o))
            cur = o
            m = b
        else:
            m = nxt
    _TZ_CACHE[zname] = (first, table)
    return _TZ_CACHE[zname]


def tz_segment(zname: str, lm_lo: int, lm_hi: int):
    first, table = tz_table(zname)
    cur = first
    seg = []
    for start, off in table:
        if start <= lm_lo:
            cur = off
        elif start <= lm_hi:
            seg.append((start, off))
    return cur, seg


_GEOD = None


def geod_m(lon1, lat1, lon2, lat2):
    """pyproj WGS-84 inverse, metres; NaN / exception -> None"""
    global _GEOD
    if _GEOD is None:
        from pyproj import Geod
        _GEOD = Geod(ellps='WGS84')
    try:
        d = _GEOD.inv(lon1, lat1, lon2, lat2)[2]
    except Exception:  # noqa: BLE001
        return None
    return None if math.isnan(d) else d


def udeg(x: float) -> int:
    return int(round(x * 1e6))


# ---------------------------------------------------------------------------------------------
# case generation.  A case is a JSON dict: {'year', 'line', 'row': {csv fields}}
# ---------------------------------------------------------------------------------------------

def _fmt_date(d: dt.date) -> str:
    return f'{d.year:04d}{d.month:02d}{d.day:02d}'


def _dst_days(zname: str, year: int):
    """local dates in `year` on which the zone's offset changes"""
    _, table = tz_table(zname)
    out = []
    for start, _ in table:
        t = _EPOCH + dt.timedelta(minutes=start)
        if t.year == year:
            out.append(t.date())
    return out


def gen_row(rng, line: int):
    year = rng.choice(DATA_YEARS)
    r = rng.random()
    if r < 0.10:
        o, d = rng.choice(NEAR_PAIRS)
    else:
        o, d = rng.sample([a[0] for a in AIRPORTS if a[0] != 'LH2'], 2)
    if rng.random() < 0.05:
        o = rng.choice(UNKNOWN_CODES)
    if rng.random() < 0.05:
        d = rng.choice(UNKNOWN_CODES)
    # stated distance (statute miles)
    gc = None
    if o in AP and d in AP:
        gc = geod_m(AP[o][3], AP[o][2], AP[d][3], AP[d][2])
    gc_km = (gc or 1500e3) / 1000.0
    m = rng.random()
    mi = 1.609344
    if m < 0.45:
        miles = round(gc_km / mi) + rng.choice([0, 0, 1, -1, 3, -5])
    elif m < 0.60:      # around the absolute threshold (50 km)
        miles = round((gc_km + rng.choice([-1, 1]) * 50.0) / mi) + rng.randint(-3, 3)
    elif m < 0.78:      # around the relative threshold (10 %)
        miles = round(gc_km * (1 + rng.choice([-1, 1]) * 0.10) / mi) + rng.randint(-3, 3)
    elif m < 0.86:
        miles = round(gc_km * rng.choice([0.3, 0.5, 0.8, 1.25, 2.0, 3.0]) / mi)
    elif m < 0.92:
        miles = 0
    else:
        miles = rng.randint(1, 9000)
    miles = max(0, miles)
    # effective range
    shape = rng.random()
    zo = AP[o][7] if o in AP else 'UTC'
    zd = AP[d][7] if d in AP else 'UTC'
    start = dt.date(year, 1, 1) + dt.timedelta(days=rng.randint(0, 364))
    efffrom: dt.date | None
    effto: dt.date | None
    if shape < 0.07:
        efffrom, effto, kind = None, None, 'open-both'
    elif shape < 0.11:
        efffrom, effto, kind = None, rng.choice([dt.date(year, 1, 1) + dt.timedelta(days=rng.randint(0, 80)),
                                                 dt.date(year + 1, 1, 1) + dt.timedelta(days=rng.randint(0, 15))]), 'open-from'
    elif shape < 0.15:
        efffrom, effto, kind = rng.choice([dt.date(year, 12, 31) - dt.timedelta(days=rng.randint(0, 80)),
                                           dt.date(year - 1, 12, 31) - dt.timedelta(days=rng.randint(0, 15))]), None, 'open-to'
    elif shape < 0.28:
        efffrom = effto = start
        kind = 'single-day'
    elif shape < 0.36:
        yy = year - rng.choice([0, 0, 1])
        efffrom = dt.date(yy, 12, 31) - dt.timedelta(days=rng.randint(0, 20))
        effto = dt.date(yy + 1, 1, 1) + dt.timedelta(days=rng.randint(0, 20))
        kind = 'year-crossing'
    elif shape < 0.39:
        efffrom, effto, kind = dt.date(year, 1, 1), dt.date(year, 12, 31), 'full-year'
    elif shape < 0.42:
        efffrom, effto, kind = start, start - dt.timedelta(days=rng.randint(1, 10)), 'reversed'
    elif shape < 0.62:
        days = _dst_days(zo, year) + _dst_days(zd, year)
        if days:
            c = rng.choice(days)
            efffrom = c - dt.timedelta(days=rng.randint(0, 8))
            effto = c + dt.timedelta(days=rng.randint(0, 8))
            kind = 'around-dst'
        else:
            efffrom, effto, kind = start, start + dt.timedelta(days=rng.randint(1, 20)), 'short'
    elif shape < 0.90:
        efffrom, effto, kind = start, start + dt.timedelta(days=rng.randint(1, 20)), 'short'
    else:
        efffrom, effto, kind = start, start + dt.timedelta(days=rng.randint(21, 75)), 'months'
    if rng.random() < 0.04 and efffrom and effto and efffrom.month == 2:
        efffrom = dt.date(year, 2, 28)
        effto = dt.date(year, 3, 1)
        kind = 'leap-boundary'
    # weekdays
    w = rng.random()
    if w < 0.04:
        days = []
    elif w < 0.2:
        days = [1, 2, 3, 4, 5, 6, 7]
    elif w < 0.35:
        days = [rng.randint(1, 7)]
    else:
        days = sorted(rng.sample(range(1, 8), rng.randint(2, 6)))
    daystr = ''.join(str(k) if k in days else ' ' for k in range(1, 8))

    def clock():
        c = rng.random()
        if c < 0.3:        # near DST gaps / folds
            return rng.choice([0, 1, 2, 3]) * 100 + rng.choice([0, 1, 29, 30, 31, 59]) if rng.random() < 0.8 else 159
        if c < 0.4:
            return rng.choice([0, 2359, 1200, 2300, 1])
        return rng.randint(0, 23) * 100 + rng.randint(0, 59)
    deptim, arrtim = clock(), clock()
    arrday = rng.choices(['', ' ', '1', '2', 'P', '0'], weights=[30, 15, 25, 8, 12, 5])[0]
    if o in AP and d in AP and rng.random() < 0.7:
        # a consistent timetable: arrival = departure + block time, expressed in the destination's local time
        first = efffrom or dt.date(year, 1, 1)
        dep_local = dt.datetime.combine(first, dt.time(deptim // 100, deptim % 100))
        dep_utc = dep_local.replace(tzinfo=ZoneInfo(zo)).astimezone(dt.timezone.utc)
        block = dt.timedelta(minutes=30 + int(gc_km / 13.5) + rng.randint(0, 40))
        arr_local = (dep_utc + block).astimezone(ZoneInfo(zd)).replace(tzinfo=None)
        arrtim = arr_local.hour * 100 + arr_local.minute
        off = (arr_local.date() - first).days
        arrday = {-1: 'P', 0: rng.choice(['', ' ', '0']), 1: '1', 2: '2'}.get(off, '2')
    v = rng.random()
    service, stops, operating, genacft, carrier = 'J', '00', rng.choice(['', 'O']), rng.choice(['737', '320', '77W']), \
        rng.choice(['BA', 'AA', 'QF', 'NZ', 'AI'])
    if v < 0.04:
        service = rng.choice(DOCUMENTED_SURFACE_SERVICES)
    elif v < 0.08:
        stops = rng.choice(['01', '02'])
    elif v < 0.12:
        operating = 'N'
    elif v < 0.16:
        genacft = rng.choice(['BUS', 'HOV', 'LCH', 'LMO', 'RFS', 'TRN'])
    elif v < 0.17:
        carrier = '\x1a'
    elif v < 0.22:
        service = rng.choice(['F', 'C', 'G', 'S', '', ' ', 'v', 'u', 'j', 'VU', 'Q'])     # not surface codes
    row = {
        'carrier': carrier, 'fltno': str(rng.randint(1, 9999)), 'depapt': o, 'depctry': AP[o][5] if o in AP else '',
        'arrapt': d, 'arrctry': AP[d][5] if d in AP else '', 'deptim': f'{deptim:04d}', 'arrtim': f'{arrtim:04d}',
        'arrday': arrday, 'days': daystr, 'stops': stops, 'genacft': genacft, 'inpacft': genacft,
        'service': service, 'seats': f'{rng.randint(0, 550):04d}',
        'efffrom': _fmt_date(efffrom) if efffrom else rng.choice(['00000000', '99999999']),
        'effto': _fmt_date(effto) if effto else rng.choice(['99999999', '00000000']),
        'longest': 'L', 'distance': f'{miles:07d}', 'operating': operating,
    }
    return {'year': year, 'line': line, 'row': row, 'kind': kind}


# ---------------------------------------------------------------------------------------------
# deterministic streams (always part of a run, whatever the seed draws elsewhere)
# ---------------------------------------------------------------------------------------------

def _base_row(o, d, efffrom, effto, days='1234567', deptim='1000', arrtim='1300', arrday='', miles=0):
    """A valid row; stated distance 0 (= not stated) so that the distance rule cannot drop it."""
    return {'carrier': 'BA', 'fltno': '1', 'depapt': o, 'depctry': AP[o][5], 'arrapt': d, 'arrctry': AP[d][5],
            'deptim': deptim, 'arrtim': arrtim, 'arrday': arrday, 'days': days, 'stops': '00', 'genacft': '320',
            'inpacft': '320', 'service': 'J', 'seats': '0150',
            'efffrom': _fmt_date(efffrom) if efffrom else '00000000',
            'effto': _fmt_date(effto) if effto else '99999999',
            'longest': 'L', 'distance': f'{miles:07d}', 'operating': ''}


def cross_year_cases(rng):
    """Open-ended ranges whose explicit end lies in another year than the data year, and explicit ranges in other
    years: 'open-ended means start / end of the DATA year', not of the year the other date happens to be in."""
    out = []
    for year in (2019, 2016, 2020, 2024):
        o, d = rng.sample(['LHR', 'CDG', 'FRA', 'DXB', 'SIN', 'JNB', 'KEF', 'CAI'], 2)
        days = ''.join(str(k) if k in rng.sample(range(1, 8), 3) else ' ' for k in range(1, 8))
        prev = dt.date(year - 1, 12, 31) - dt.timedelta(days=rng.randint(0, 25))
        nxt = dt.date(year + 1, 1, 1) + dt.timedelta(days=rng.randint(0, 25))
        for kind, ef, et in (('open-to,from-in-previous-year', prev, None),
                             ('open-from,to-in-next-year', None, nxt),
                             ('open-to,from-in-next-year', nxt, None),
                             ('open-from,to-in-previous-year', None, prev),
                             ('explicit,crossing-into-data-year', prev, dt.date(year, 1, 1) + dt.timedelta(days=9)),
                             ('explicit,crossing-out-of-data-year', dt.date(year, 12, 20), nxt),
                             ('explicit,other-year', dt.date(year + 1, 3, 1), dt.date(year + 1, 3, 14))):
            out.append({'year': year, 'row': _base_row(o, d, ef, et, days=days), 'kind': kind})
    return out


def dst_cases(rng):
    """Both DST switch days of every DST zone, in 2019 and one other data year: operating dates the day before, on
    and after the switch; local times before / inside / at the end of / after the gap or fold; the airport once as
    origin (departure near the switch) and once as destination (arrival near the switch, also reached with arrival
    day offsets +1 / +2 / P from neighbouring dates)."""
    out = []
    k = 0
    for year in (2019, rng.choice([2016, 2020, 2021, 2024])):
        seen = set()
        for a in AIRPORTS:
            zone = a[7]
            if zone in seen:
                continue
            seen.add(zone)
            _, table = tz_table(zone)
            for start, _off in table:
                t = _EPOCH + dt.timedelta(minutes=start)
                if t.year != year:
                    continue
                partner = rng.choice([b[0] for b in AIRPORTS if b[7] != zone and b[0] != 'LH2'])
                for role in ('origin', 'destination'):
                    delta = [-90, -30, 0, 45][k % 4]
                    k += 1
                    w = t + dt.timedelta(minutes=delta)          # wall-clock time near the switch
                    hhmm = f'{w.hour:02d}{w.minute:02d}'
                    sw = w.date()
                    if role == 'origin':
                        row = _base_row(a[0], partner, sw - dt.timedelta(days=1), sw + dt.timedelta(days=1),
                                        deptim=hhmm, arrtim='2359', arrday='2')
                    else:
                        ad = ['1', '', '2', 'P'][(k // 4) % 4]
                        shift = {'1': 1, '': 0, '2': 2, 'P': -1}[ad]
                        row = _base_row(partner, a[0], sw - dt.timedelta(days=shift + 1),
                                        sw - dt.timedelta(days=shift - 1), deptim='0001', arrtim=hhmm, arrday=ad)
                        if ad in ('', 'P'):
                            row['deptim'] = '0000'
                    out.append({'year': year, 'row': row, 'kind': f'dst-switch:{role}'})
    return out


def service_code_cases(rng):
    """Service codes: only the surface codes V and U are a documented skip reason; a blank code, lower-case letters,
    other letters and two-letter strings are not — such rows (known airports, distance not stated) must be imported."""
    out = []
    for code in ['', ' ', 'v', 'u', 'j', 'VU', 'UV', 'J', 'Q', 'V', 'U', 'V ', '\t']:
        o, d = rng.sample(['LHR', 'CDG', 'FRA', 'DXB', 'SIN', 'JNB', 'KEF', 'CAI', 'JFK', 'NRT'], 2)
        start = dt.date(2019, 1, 1) + dt.timedelta(days=rng.randint(0, 340))
        row = _base_row(o, d, start, start + dt.timedelta(days=rng.randint(1, 9)),
                        deptim=f'{rng.randint(0, 23):02d}{rng.randint(0, 59):02d}', arrtim='2350', arrday='2')
        row['service'] = code
        out.append({'year': 2019, 'row': row, 'kind': 'service-code:' + (repr(code)[1:-1] or 'blank')})
    return out


def misorder_straddle_cases(rng):
    """Ranges that straddle a change of the origin-minus-destination UTC-offset difference, with local times chosen so
    that the dates on one side of the change are mis-ordered (arrival 30 min before departure) and those on the other
    side are fine (30 min after): earlier-bad/later-good and the reverse, for origin and for destination switches."""
    out = [
        {'year': 2019, 'kind': 'misorder-straddle',
         'row': _base_row('LHR', 'JFK', dt.date(2019, 3, 1), dt.date(2019, 4, 10), deptim='1800', arrtim='1330')},
        {'year': 2019, 'kind': 'misorder-straddle',
         'row': _base_row('JFK', 'LHR', dt.date(2019, 10, 20), dt.date(2019, 11, 10), deptim='0900', arrtim='1330')},
    ]
    seen = set()
    for a in AIRPORTS:
        zone = a[7]
        if zone in seen:
            continue
        seen.add(zone)
        _, table = tz_table(zone)
        for start, _off in table:
            t = _EPOCH + dt.timedelta(minutes=start)
            if t.year != 2019:
                continue
            sw = t.date()
            partner = rng.choice([b for b in AIRPORTS if b[7] != zone and b[0] != 'LH2'
                                  and not _dst_days(b[7], 2019)] or [AP_HARNESS['SIN']])
            for role in ('origin', 'destination'):
                o, d = (a, partner) if role == 'origin' else (partner, a)
                first = sw - dt.timedelta(days=rng.randint(3, 9))
                hh = rng.choice([6, 10, 14, 20])
                dep_local = dt.datetime.combine(first, dt.time(hh, 30))
                dep_utc = dep_local.replace(tzinfo=ZoneInfo(o[7])).astimezone(dt.timezone.utc)
                gap = rng.choice([-30, 30])                 # minutes between departure and arrival before the switch
                arr_local = (dep_utc + dt.timedelta(minutes=gap)).astimezone(ZoneInfo(d[7])).replace(tzinfo=None)
                off = (arr_local.date() - first).days
                if off not in (-1, 0, 1, 2):
                    continue
                row = _base_row(o[0], d[0], first, sw + dt.timedelta(days=rng.randint(3, 9)),
                                deptim=f'{hh:02d}30', arrtim=f'{arr_local.hour:02d}{arr_local.minute:02d}',
                                arrday={-1: 'P', 0: '', 1: '1', 2: '2'}[off])
                out.append({'year': 2019, 'row': row, 'kind': 'misorder-straddle'})
    return out


def shipped_cases(rng):
    """Rows between airports of the SHIPPED data (main file + airports-patch.csv, every `type`): stated distance 0, so
    nothing but an unknown airport could drop them; plus codes that are in neither file."""
    use_world('shipped')
    ap = shipped_airports()
    codes = sorted(ap)
    out = []
    line = 2
    for c in codes:
        for _ in range(40):
            p_ = rng.choice(codes)
            g = geod_m(ap[c][3], ap[c][2], ap[p_][3], ap[p_][2])
            gs = geod_m(ap[c][2], ap[c][3], ap[p_][2], ap[p_][3])
            if p_ != c and g is not None and g > 5000 and (gs is None or gs > 5000):
                break
        else:
            continue
        o, d = (c, p_) if rng.random() < 0.5 else (p_, c)
        start = dt.date(2019, 1, 1) + dt.timedelta(days=rng.randint(0, 350))
        row = _base_row(o, d, start, start + dt.timedelta(days=rng.randint(0, 6)),
                        deptim=f'{rng.randint(0, 23):02d}{rng.randint(0, 59):02d}', arrtim='2345', arrday='2')
        out.append({'year': 2019, 'line': line, 'row': row, 'kind': 'shipped:' + ap[c][8]})
        line += 1
    unknown = ['QQQ', 'ZZX', 'XQ9'] + [x for x in ('AAQ', 'ZQZ', 'QZX', 'LH2', 'CXI') if x not in ap]
    for u in unknown:
        k = rng.choice(codes)
        row = _base_row(k, k, dt.date(2019, 5, 1), dt.date(2019, 5, 3))
        row['depapt' if rng.random() < 0.5 else 'arrapt'] = u
        out.append({'year': 2019, 'line': line, 'row': row, 'kind': 'shipped:unknown-code'})
        line += 1
    use_world('harness')
    return out


ODD_VALUES = {
    'distance': [' 120', '+120', '-5', '120 '], 'seats': [' 150', '+150'], 'stops': ['0', ' 0', '+0', '000'],
    'fltno': ['', ' 12', '+7'], 'deptim': ['2400', '0960', '930', ' 930', '-100'], 'arrtim': ['2400', '1260', '5'],
    'arrday': ['3', '-1', ' 1', '+1', '00'], 'efffrom': ['{d} ', ' {d}'], 'effto': ['{d} ', '+{d}'],
    'days': ['1.3.5..', '12345678', 'X', '7654321', '1 1 1', '....... '],
}
BAD_VALUES = {
    'distance': ['', 'abc', '12.5', '1e3', '12 3'], 'seats': ['', 'N/A', '1.0'], 'stops': ['', 'x', '0.0'],
    'fltno': ['12A', 'A12', '1 2'], 'deptim': ['', '12:30', 'noon', '12h0'], 'arrtim': ['', '1x00'],
    'arrday': ['X', 'N', '+', '1.0', 'PP'], 'efffrom': ['{y}0230', '{y}1301', '{y}0100', '{y}-01-01', '', '0', 'today'],
    'effto': ['{y}0431', '{y}0000', '', '1'],
}


def odd_and_malformed_cases(rng, n):
    """Rows that are legal except for one field, which is either unusual-but-readable or unreadable."""
    out = []
    fields_odd, fields_bad = list(ODD_VALUES), list(BAD_VALUES)
    for i in range(n):
        year = rng.choice([2019, 2019, 2020])
        o, d = rng.sample(['LHR', 'CDG', 'FRA', 'DXB', 'JFK', 'SYD', 'NRT', 'GRU'], 2)
        start = dt.date(year, 1, 1) + dt.timedelta(days=rng.randint(0, 330))
        row = _base_row(o, d, start, start + dt.timedelta(days=rng.randint(0, 12)),
                        deptim=f'{rng.randint(0, 23):02d}{rng.randint(0, 59):02d}', arrtim='2330', arrday='1')
        if i % 2 == 0:
            f = fields_odd[(i // 2) % len(fields_odd)]
            v = rng.choice(ODD_VALUES[f])
            kind = 'odd:' + f
        else:
            f = fields_bad[(i // 2) % len(fields_bad)]
            v = rng.choice(BAD_VALUES[f])
            kind = 'malformed:' + f
        row[f] = v.format(d=row[f] if f in ('efffrom', 'effto') else '', y=year)
        out.append({'year': year, 'row': row, 'kind': kind})
    return out


def db_invariants(chk: Check, db, year: int):
    """Tables of one produced database as a whole (airports / countries / R-tree / counts): every airport once, with
    the coordinates and country of the airports file; every country once with its continent; one R-tree entry per
    airport around its position; the recorded counts add up to the schedule rows; no dangling references."""
    cur = db._conn.cursor()
    problems = []
    rows = cur.execute('SELECT id, iata_code, country, latitude, longitude FROM airports').fetchall()
    codes = [r[1] for r in rows]
    if len(set(codes)) != len(codes):
        problems.append(f'airport added twice: {sorted(c for c in set(codes) if codes.count(c) > 1)}')
    for aid, code, ctry, lat, lon in rows:
        if code in AP and (ctry, lat, lon) != (AP[code][5], AP[code][2], AP[code][3]):
            problems.append(f'airport {code} stored as {(ctry, lat, lon)}')
        box = cur.execute('SELECT min_latitude, max_latitude, min_longitude, max_longitude FROM airport_location_idx '
                          'WHERE id = ?', (aid,)).fetchall()
        if len(box) != 1 or not (box[0][0] - 1e-4 <= lat <= box[0][1] + 1e-4 and box[0][2] - 1e-4 <= lon <= box[0][3] + 1e-4
                                 and box[0][1] - box[0][0] < 1e-3 and box[0][3] - box[0][2] < 1e-3):
            problems.append(f'spatial index entry of {code}: {box}')
    nidx = cur.execute('SELECT COUNT(*) FROM airport_location_idx').fetchone()[0]
    if nidx != len(rows):
        problems.append(f'{nidx} spatial index entries for {len(rows)} airports')
    crow = cur.execute('SELECT code, continent FROM countries').fetchall()
    if len({c for c, _ in crow}) != len(crow):
        problems.append('country added twice')
    import csv as _csv
    with open(REPO / 'src/AEIC/data/airports/countries.csv', newline='', encoding='utf-8') as fp:
        cont = {r['code']: r['continent'] for r in _csv.DictReader(fp)}
    for c, k in crow:
        if cont.get(c) != k:
            problems.append(f'country {c} stored with continent {k!r}')
    if {r[2] for r in rows} - {c for c, _ in crow}:
        problems.append('airport refers to a country that is not in the countries table')
    bad = cur.execute('SELECT COUNT(*) FROM flights f WHERE f.number_of_flights != '
                      '(SELECT COUNT(*) FROM schedules s WHERE s.flight_id = f.id)').fetchone()[0]
    if bad:
        problems.append(f'{bad} flight(s) whose recorded count differs from their schedule rows')
    dang = cur.execute('SELECT COUNT(*) FROM schedules s WHERE s.flight_id NOT IN (SELECT id FROM flights)').fetchone()[0]
    dang += cur.execute('SELECT COUNT(*) FROM flights f WHERE f.origin NOT IN (SELECT id FROM airports) '
                        'OR f.destination NOT IN (SELECT id FROM airports)').fetchone()[0]
    if dang:
        problems.append(f'{dang} dangling reference(s)')
    chk.count('databases-checked-as-a-whole')
    if problems:
        chk.fail(f'database of data year {year}: ' + '; '.join(problems[:4]), {'year': year, 'problems': problems},
                 signature=None)


# ---------------------------------------------------------------------------------------------
# parsed view of a row (harness reading of the CSV conventions; used by oracle and model input)
# ---------------------------------------------------------------------------------------------

def parse_row(row):
    """Harness reading of the CSV conventions (None if a field cannot be read)."""
    try:
        def pdate(t):
            if t in ('00000000', '99999999'):
                return None
            k = int(t)
            y, m, d = k // 10000, k % 10000 // 100, k % 100
            dt.date(y, m, d)
            return (y, m, d)
        dep, arr = int(row['deptim']), int(row['arrtim'])
        ad = row['arrday']
        return {
            'from': pdate(row['efffrom']), 'to': pdate(row['effto']),
            'days': [k for k in range(1, 8) if str(k) in row['days']],
            'dep': dep // 100 * 60 + dep % 100, 'arr': arr // 100 * 60 + arr % 100,
            'arrday': -1 if ad == 'P' else 0 if ad in ('', ' ') else int(ad),
            'miles': int(row['distance']), 'stops': int(row['stops']), 'seats': int(row['seats']),
            'fltno': 0 if row['fltno'] == '' else int(row['fltno']),
        }
    except (ValueError, OverflowError):
        return None


def classify_row(row) -> str:
    """'legal'  : every field in the plain grammar of the schedule format (the property quantifies over these);
       'odd'    : readable by int()/date() but outside that grammar (signs, blanks around numbers, 24:00, offset 3,
                  other characters in the days field) — no demand beyond "no crash", judged by the model only;
       'malformed': some field cannot be read at all — the row must be dropped, not crash the import."""
    def dig(x, n=None):
        return x.isascii() and x.isdigit() and (n is None or len(x) == n)
    if parse_row(row) is None:
        return 'malformed'
    odd = False
    for f in ('stops', 'distance', 'seats'):
        odd |= not dig(row[f])
    odd |= not (row['fltno'] == '' or dig(row['fltno']))
    for f in ('deptim', 'arrtim'):
        odd |= not (dig(row[f], 4) and int(row[f][:2]) < 24 and int(row[f][2:]) < 60)
    odd |= row['arrday'] not in ('P', '', ' ', '0', '1', '2')
    for f in ('efffrom', 'effto'):
        odd |= not (dig(row[f], 8) and (row[f] in ('00000000', '99999999') or 1970 <= int(row[f][:4]) <= 2099))
    odd |= any(ch not in '1234567 ' for ch in row['days'])
    return 'odd' if odd else 'legal'


def distance_margin_ok(case) -> bool:
    """True unless the row sits within float-rounding distance of one of the rule's thresholds
    (model works in integer mm; generator re-draws such rows)."""
    row = case['row']
    o, d = row['depapt'], row['arrapt']
    if o not in AP or d not in AP:
        return True
    try:
        miles = int(row['distance'])
    except ValueError:
        return True
    given = miles * 1.609344
    for swap in (False, True):
        g = geod_m(AP[o][2], AP[o][3], AP[d][2], AP[d][3]) if swap else geod_m(AP[o][3], AP[o][2], AP[d][3], AP[d][2])
        if g is None:
            continue
        g /= 1000.0
        if abs(g - 1.0) < 1e-4:
            return False
        if g > 0 and (abs(abs(given - g) - 50.0) < 1e-4 or abs(100 * abs(given - g) / g - 10.0) < 1e-6):
            return False
    return True


# ---------------------------------------------------------------------------------------------
# independent oracle
# ---------------------------------------------------------------------------------------------

def oracle(case, excluded_equipment):
    """What the property demands for this row: ('skip-allowed', reasons) and, if the row may be imported,
    the flight data and the instance list.  Plain datetime/zoneinfo/pyproj; no AEIC code, no Coq."""
    row, year = case['row'], case['year']
    cls = classify_row(row)
    if cls == 'malformed':
        return {'class': cls, 'reasons': ['unreadable'], 'plausible': None, 'expected': None}
    p = parse_row(row)
    reasons = []
    if row['carrier'] == '\x1a':
        reasons.append('eof-marker')
    if row['service'] in DOCUMENTED_SURFACE_SERVICES:
        reasons.append('service-type')
    if p['stops'] != 0:
        reasons.append('stops')
    if row['operating'] == 'N':
        reasons.append('non-operating-carrier')
    if row['genacft'] in excluded_equipment:
        reasons.append('non-aircraft-equipment')
    o, d = row['depapt'], row['arrapt']
    if o not in AP or d not in AP:
        reasons.append('unknown-airport')
    plausible = None
    if o in AP and d in AP:
        g_km = geod_m(AP[o][3], AP[o][2], AP[d][3], AP[d][2]) / 1000.0          # (lon, lat)
        given = p['miles'] * 1.609344
        if g_km < 1.0:
            reasons.append('implausible-distance:zero')
            plausible = False
        elif given > 0 and abs(given - g_km) > 50.0 and abs(given - g_km) > 0.10 * g_km:
            reasons.append('implausible-distance:mismatch')
            plausible = False
        else:
            plausible = True
    exp = None
    if o in AP and d in AP:
        lo = dt.date(*p['from']) if p['from'] else dt.date(year, 1, 1)
        hi = dt.date(*p['to']) if p['to'] else dt.date(year, 12, 31)
        zo, zd = ZoneInfo(AP[o][7]), ZoneInfo(AP[d][7])
        insts, dropped = [], 0
        day = lo
        while day <= hi:
            if day.isoweekday() in p['days']:
                dep = dt.datetime.combine(day, dt.time(0, 0)) + dt.timedelta(minutes=p['dep'])
                arr = dt.datetime.combine(day, dt.time(0, 0)) + dt.timedelta(days=p['arrday'], minutes=p['arr'])
                dts = int(dep.replace(tzinfo=zo).timestamp())
                ats = int(arr.replace(tzinfo=zd).timestamp())
                if ats < dts:
                    dropped += 1
                else:
                    insts.append((dts, ats, dts // 86400))
            day += dt.timedelta(days=1)
        exp = {'from': lo.isoformat(), 'to': hi.isoformat(), 'instances': insts, 'dropped': dropped,
               'mask': sum(1 << (k - 1) for k in p['days']), 'dep': p['dep'], 'arr': p['arr'],
               'arrday': p['arrday'], 'distance_km': p['miles'] * 1.609344,
               'od_pair': min(o, d) + max(o, d), 'fltno': p['fltno'], 'seats': p['seats']}
    return {'class': cls, 'reasons': reasons, 'plausible': plausible, 'expected': exp}


# ---------------------------------------------------------------------------------------------
# implementation
# ---------------------------------------------------------------------------------------------

def write_airports(dirpath: Path):
    (dirpath / 'airports').mkdir(parents=True, exist_ok=True)
    cols = ['id', 'ident', 'type', 'name', 'latitude_deg', 'longitude_deg', 'elevation_ft', 'continent', 'iso_country',
            'iso_region', 'municipality', 'scheduled_service', 'icao_code', 'iata_code', 'gps_code', 'local_code',
            'home_link', 'wikipedia_link', 'keywords']
    with open(dirpath / 'airports' / 'airports.csv', 'w', newline='', encoding='utf-8') as fp:
        w = csv.DictWriter(fp, fieldnames=cols, quoting=csv.QUOTE_ALL)
        w.writeheader()
        for i, a in enumerate(AIRPORTS):
            w.writerow({'id': 1000 + i, 'ident': 'X' + a[0], 'type': AIRPORT_TYPES[i % len(AIRPORT_TYPES)], 'name': a[1],
                        'latitude_deg': repr(a[2]), 'longitude_deg': repr(a[3]), 'elevation_ft': a[4] if i % 7 else '',
                        'continent': '', 'iso_country': a[5], 'iso_region': '', 'municipality': a[6],
                        'scheduled_service': 'yes', 'icao_code': '', 'iata_code': a[0], 'gps_code': '',
                        'local_code': '', 'home_link': '', 'wikipedia_link': '', 'keywords': ''})


class Impl:
    """One OAGDatabase per data year; rows are fed one at a time through from_csv_row + add."""

    def __init__(self, chk: Check, world: str = 'harness'):
        self.chk = chk
        self.world = world
        self.data = chk.tmp / 'data'
        write_airports(self.data)
        os.environ['AEIC_PATH'] = str(REPO / 'tests/data')
        logging.getLogger('AEIC.missions.oag').setLevel(logging.CRITICAL)
        logging.getLogger('AEIC.missions.writable_database').setLevel(logging.WARNING)
        from AEIC.config import Config
        Config.reset()
        Config.load(data_path_overrides=([self.data] if world == 'harness' else []) + [REPO / 'tests/data'])
        import AEIC.utils.airports as apmod
        apmod._airports = None
        apmod._countries = None
        self.dbs = {}
        self.n = 0

    def close(self):
        from AEIC.config import Config
        import AEIC.utils.airports as apmod
        for year, db in self.dbs.items():
            try:
                db_invariants(self.chk, db, year)
            finally:
                db.close()
        apmod._airports = None
        apmod._countries = None
        Config.reset()

    def db(self, year):
        from AEIC.missions.oag import OAGDatabase
        if year not in self.dbs:
            self.n += 1
            self.dbs[year] = OAGDatabase(str(self.chk.tmp / f'oag_{self.world}_{year}_{self.n}.sqlite'), year)
        return self.dbs[year]

    def run(self, case):
        from AEIC.missions.oag import CSVEntry
        db = self.db(case['year'])
        cur = db._conn.cursor()
        line = case['line']
        out = {'zones': {}}
        entry = CSVEntry.from_csv_row(dict(case['row']), line)
        if entry is None:
            out['result'] = 'row-rejected'
            return out
        nf0 = cur.execute('SELECT COUNT(*), COALESCE(MAX(id), 0) FROM flights').fetchone()
        ns0 = cur.execute('SELECT COUNT(*) FROM schedules').fetchone()[0]
        try:
            ok = db.add(entry)
        except Exception as e:  # noqa: BLE001
            db._conn.commit()     # keep the connection usable; the airport cache already refers to rows of this transaction
            out['result'] = 'exception'
            out['exception'] = f'{type(e).__name__}: {e}'[:300]
            return out
        w = db.warnings.get(line)
        out['warning'] = w.warn_type.name if w is not None else None
        if w is not None and w.warn_type.name == 'UNKNOWN_AIRPORT':
            out['unknown'] = (w.data or {}).get('unknown_airport')
        nf1 = cur.execute('SELECT COUNT(*), COALESCE(MAX(id), 0) FROM flights').fetchone()
        ns1 = cur.execute('SELECT COUNT(*) FROM schedules').fetchone()[0]
        out['new_flights'] = nf1[0] - nf0[0]
        out['new_schedules'] = ns1 - ns0
        for code in (case['row']['depapt'], case['row']['arrapt']):
            if code in db._airport_cache:
                out['zones'][code] = db._airport_cache[code].timezone
        if not ok:
            out['result'] = 'skipped'
            return out
        out['result'] = 'imported'
        f = cur.execute(
            'SELECT f.id, f.carrier, f.flight_number, ao.iata_code, ad.iata_code, f.day_of_week_mask, '
            'f.departure_time, f.arrival_time, f.arrival_day_offset, f.service_type, f.aircraft_type, f.distance, '
            'f.seat_capacity, f.effective_from, f.effective_to, f.number_of_flights, f.od_pair '
            'FROM flights f JOIN airports ao ON ao.id = f.origin JOIN airports ad ON ad.id = f.destination '
            'WHERE f.id = ?', (nf1[1],)).fetchone()
        out['flight'] = {'carrier': f[1], 'flight_number': f[2], 'origin': f[3], 'destination': f[4], 'mask': f[5],
                         'dep': f[6], 'arr': f[7], 'arrday': f[8], 'service': f[9], 'aircraft': f[10],
                         'distance_km': f[11], 'seats': f[12], 'from': f[13], 'to': f[14], 'count': f[15],
                         'od_pair': f[16]}
        out['instances'] = [list(r) for r in cur.execute(
            'SELECT departure_timestamp, arrival_timestamp, day FROM schedules WHERE flight_id = ? ORDER BY id',
            (f[0],))]
        return out


# ---------------------------------------------------------------------------------------------
# model input / output
# ---------------------------------------------------------------------------------------------

def coq_case(case) -> str:
    row, year = case['row'], case['year']
    p = parse_row(row) or {'from': None, 'to': None}
    o, d = row['depapt'], row['arrapt']
    ko, kd = o in AP, d in AP
    oc = (udeg(AP[o][2]), udeg(AP[o][3])) if ko else (0, 0)
    dc = (udeg(AP[d][2]), udeg(AP[d][3])) if kd else (0, 0)
    lo = dt.date(*p['from']) if p['from'] else dt.date(year, 1, 1)
    hi = dt.date(*p['to']) if p['to'] else dt.date(year, 12, 31)
    lm_lo = int((dt.datetime.combine(min(lo, hi), dt.time()) - _EPOCH).total_seconds() // 60) - 6 * 1440
    lm_hi = int((dt.datetime.combine(max(hi, lo), dt.time()) - _EPOCH).total_seconds() // 60) + 8 * 1440
    tzo0, tzo = tz_segment(AP[o][7], lm_lo, lm_hi) if ko else (0, [])
    tzd0, tzd = tz_segment(AP[d][7], lm_lo, lm_hi) if kd else (0, [])
    gt = []
    if ko and kd:
        a, b = AP[o], AP[d]
        for key, val in (((oc[1], oc[0], dc[1], dc[0]), geod_m(a[3], a[2], b[3], b[2])),
                         ((oc[0], oc[1], dc[0], dc[1]), geod_m(a[2], a[3], b[2], b[3]))):
            v = Raw('None') if val is None else Raw(f'(Some ({int(round(val * 1000))})%Z)')
            gt.append((key, v))
    cs = c13_extract.coq_string
    raw = ('(RawRow ' + ' '.join(cs(row[k]) for k in (
        'carrier', 'service', 'stops', 'operating', 'genacft', 'fltno', 'deptim', 'arrtim', 'arrday', 'days',
        'distance', 'seats', 'efffrom', 'effto')) + ')')
    return (f'run_raw (Flags swap_latlon raw_dates) exclude_equipment {to_coq(year)} {raw} '
            f'{to_coq(ko)} {to_coq(kd)} {to_coq(oc)} {to_coq(dc)} '
            f'{to_coq(tzo0)} {to_coq(tzo)} {to_coq(tzd0)} {to_coq(tzd)} {to_coq(gt)}')


ROW_REASONS = {'SkipEOF', 'SkipService', 'SkipStops', 'SkipOperating', 'SkipEquipment'}
WARN_OF = {'SkipUnknownAirport': 'UNKNOWN_AIRPORT', 'SkipZeroDistance': 'ZERO_DISTANCE',
           'SkipSuspiciousDistance': 'SUSPICIOUS_DISTANCE'}


def same_as_model(m, impl) -> str | None:
    """None if the implementation's observable outcome equals the model's, else a description."""
    if m == 'RMalformed':
        return None if impl['result'] == 'row-rejected' else f'model: unreadable row, implementation {impl["result"]}'
    if not (isinstance(m, tuple) and m[0] == 'ROutcome' and len(m) == 4):
        return f'unparsed model value {m!r}'
    fltno, seats, m = m[1], m[2], m[3]
    if m == 'Crashed':
        return None if impl['result'] == 'exception' else f'model Crashed, implementation {impl["result"]}'
    if isinstance(m, tuple) and m[0] == 'Skipped':
        k = m[1]
        if k in ROW_REASONS:
            return None if impl['result'] == 'row-rejected' else f'model {k}, implementation {impl["result"]}'
        if impl['result'] != 'skipped' or impl.get('warning') != WARN_OF[k]:
            return f'model {k}, implementation {impl["result"]} warning={impl.get("warning")}'
        if impl['new_flights'] != 0 or impl['new_schedules'] != 0:
            return 'skipped row left records behind'
        return None
    if isinstance(m, tuple) and m[0] == 'Imported':
        if impl['result'] != 'imported':
            return f'model Imported, implementation {impl["result"]} {impl.get("warning") or impl.get("exception")}'
        (mask, dep, arr, arrday, efrom, eto, count), insts, warn = m[1], m[2], m[3]
        f = impl['flight']
        got = (f['mask'], f['dep'], f['arr'], f['arrday'], f['from'], f['to'], f['count'])
        want = (mask, dep, arr, arrday, '%04d-%02d-%02d' % tuple(efrom), '%04d-%02d-%02d' % tuple(eto), count)
        if got != want:
            return f'flight record: model {want}, implementation {got}'
        if (str(f['flight_number']), int(f['seats'])) != (str(fltno), seats):
            return f'flight number / seats: model {(fltno, seats)}, implementation {(f["flight_number"], f["seats"])}'
        if [list(i) for i in insts] != impl['instances']:
            return f'instances differ: model {len(insts)} vs implementation {len(impl["instances"])}'
        if warn != (impl.get('warning') == 'TIME_MISORDERING'):
            return f'misordering warning: model {warn}, implementation {impl.get("warning")}'
        return None
    return f'unparsed model value {m!r}'


# ---------------------------------------------------------------------------------------------
# property predicate on the implementation's outcome
# ---------------------------------------------------------------------------------------------

def judge(chk: Check, case, impl, orc):
    """Evaluate the property on one row.  Returns True if a failure was reported."""
    row = case['row']
    info = {'case': case, 'impl': _slim(impl), 'oracle': {'reasons': orc['reasons'], 'plausible': orc['plausible']}}
    exp = orc['expected']
    res = impl['result']
    info['oracle']['class'] = orc['class']
    if orc['class'] == 'malformed':
        if res != 'row-rejected':
            chk.fail(f'line {case["line"]}: a row with an unreadable field was not dropped ({res} '
                     f'{impl.get("exception") or ""})', info, signature=None)
            return True
        return False
    if orc['class'] == 'odd':
        if res == 'exception':
            chk.fail(f'importing line {case["line"]} (unusual but readable fields) raised {impl["exception"]}', info,
                     signature=None)
            return True
        return False
    if res == 'exception':
        sig = None
        open_ended = row['efffrom'] in ('00000000', '99999999') or row['effto'] in ('00000000', '99999999')
        if open_ended and 'exactly three must be specified' in impl['exception']:
            sig = SIG_F11
        chk.fail(f'importing line {case["line"]} raised {impl["exception"]}', info, signature=sig)
        return True
    if res in ('row-rejected', 'skipped'):
        if not orc['reasons']:
            sig = None
            if res == 'skipped' and impl.get('warning') in ('SUSPICIOUS_DISTANCE', 'ZERO_DISTANCE'):
                o, d = AP[row['depapt']], AP[row['arrapt']]
                sw = geod_m(o[2], o[3], d[2], d[3])           # what GEOD.inv(lat, lon, lat, lon) returns
                if sw is not None:
                    sw /= 1000.0
                    given = int(row['distance']) * 1.609344
                    swapped_verdict = ('ZERO_DISTANCE' if sw < 1.0 else 'SUSPICIOUS_DISTANCE'
                                       if given > 0 and abs(given - sw) > 50.0 and 100 * abs(given - sw) / sw > 10.0
                                       else None)
                    if swapped_verdict == impl.get('warning'):
                        sig = SIG_F10
            chk.fail(f'line {case["line"]} {row["depapt"]}-{row["arrapt"]} dropped ({res}, warning '
                     f'{impl.get("warning")}) although no documented reason applies', info, signature=sig)
            return True
        if res == 'skipped' and (impl['new_flights'] or impl['new_schedules']):
            chk.fail('a skipped row left flight/schedule records behind', info, signature=None)
            return True
        return False
    # imported
    if exp is None:
        chk.fail('row with an unknown airport was imported', info, signature=None)
        return True
    f = impl['flight']
    problems = []
    if impl['new_flights'] != 1:
        problems.append(f'{impl["new_flights"]} flight records created')
    if impl['instances'] != [list(i) for i in exp['instances']]:
        got, want = {tuple(i) for i in impl['instances']}, set(exp['instances'])
        problems.append(f'instances: {len(impl["instances"])} stored, {len(exp["instances"])} implied; '
                        f'missing {sorted(want - got)[:3]} unexpected {sorted(got - want)[:3]}')
    if impl['new_schedules'] != len(impl['instances']):
        problems.append('schedule rows created for another flight')
    if f['count'] != len(exp['instances']):
        problems.append(f'recorded count {f["count"]} != {len(exp["instances"])}')
    if (exp['dropped'] > 0) != (impl.get('warning') == 'TIME_MISORDERING'):
        problems.append(f'misordering warning {impl.get("warning")} with {exp["dropped"]} dropped instance(s)')
    for key in ('from', 'to', 'mask', 'dep', 'arr', 'arrday', 'od_pair'):
        if f[key] != exp[key]:
            problems.append(f'flight.{key} = {f[key]!r}, implied {exp[key]!r}')
    if abs(f['distance_km'] - exp['distance_km']) > 1e-9 * max(1.0, exp['distance_km']):
        problems.append(f'flight.distance = {f["distance_km"]}')
    if (f['origin'], f['destination'], f['carrier'], f['service'], f['aircraft'], int(f['seats']),
            str(f['flight_number'])) != (row['depapt'], row['arrapt'], row['carrier'], row['service'], row['inpacft'],
                                         exp['seats'], str(exp['fltno'])):
        problems.append('flight identification fields differ from the row')
    for code, z in impl['zones'].items():
        if code in AP and z != AP[code][7]:
            problems.append(f'time zone of {code}: {z}, expected {AP[code][7]}')
    if problems:
        chk.fail(f'line {case["line"]} {row["depapt"]}-{row["arrapt"]}: ' + '; '.join(problems), info, signature=None)
        return True
    return False


def _slim(impl):
    s = dict(impl)
    if 'instances' in s and len(s['instances']) > 12:
        s['instances'] = s['instances'][:12] + [f'... {len(impl["instances"]) - 12} more']
    return s


# ---------------------------------------------------------------------------------------------
# run
# ---------------------------------------------------------------------------------------------

def link_named(chk: Check, rel: str) -> bool:
    """Compile coq/link/<rel> against the regenerated text.  If it does not check as a whole, compile every theorem
    of it on its own so that the verdict names the lemmas that broke (`link:<lemma>`)."""
    import re
    import shutil as _sh
    n_before = len(chk.breaks)
    if chk.coq_link(rel):
        return True
    src = (VERIF / 'coq' / 'link' / rel).read_text()
    first = re.search(r'^(\(\*[^\n]*\n(?:[^\n]*\n)*?)?Theorem ', src, re.M)
    cut = src.index('Theorem ')
    # the header is everything before the comment block that precedes the first theorem
    head_end = src.rfind('\n\n', 0, cut) + 2
    header = src[:head_end]
    blocks = re.findall(r'(Theorem (\w+)\b.*?Print Assumptions \2\.)', src[head_end:], re.S)
    named = []
    for text, name in blocks:
        f = chk.gen / f'{name}.v'
        f.write_text(header + text + '\n')
        r = chk._coqc(f, ['-R', str(chk.gen), 'Gen'])
        if r.returncode != 0:
            named.append(name)
            chk.broken(f'link:{name}', (r.stdout + r.stderr)[-1500:])
    for o in chk.obligations:
        if o['name'].startswith(rel + ':') and not o['ok'] and o['name'].split(':', 1)[1] not in named:
            o['ok'] = True          # this lemma still checks on its own
    if named:
        # the whole-file entry is subsumed by the named ones
        chk.breaks[:] = [b for i, b in enumerate(chk.breaks) if not (i >= n_before and b['what'] == f'proof:{rel}')]
    return False


def extract(chk: Check) -> bool:
    """Each source function is extracted under its own obligation name; link lemmas need all parts."""
    text, ok = c13_extract.HEAD, True
    for name, fn in c13_extract.extract_parts(REPO):
        try:
            text += fn()
            chk.obligations.append({'name': name, 'ok': True})
        except py2coq.Untranslatable as e:
            chk.obligations.append({'name': name, 'ok': False})
            chk.broken(name, str(e))
            ok = False
    if not ok:
        return False
    if chk.coq_compile_gen('C13_Extracted', text) is None:
        return False
    chk.notes['tree_state'] = {'geodesic_args_swapped(F10)': 'swap_latlon : bool := true' in text,
                               'raw_dates_to_add_schedule(F11)': 'raw_dates : bool := true' in text}
    return link_named(chk, 'C13_Link.v')


def nontrivial(case, orc) -> bool:
    e = orc['expected']
    return bool(e and not orc['reasons'] and len(e['instances']) >= 1
                and (case['kind'] in ('open-both', 'open-from', 'open-to', 'year-crossing', 'around-dst', 'single-day',
                                      'leap-boundary') or case['kind'].startswith(('dst-switch', 'open-', 'explicit,', 'misorder-straddle', 'shipped:', 'service-code'))
                     or e['dropped'] > 0 or e['arrday'] != 0))


def check_rows(chk: Check, cases, world: str = 'harness'):
    from AEIC.missions.oag import EXCLUDE_EQUIPMENT
    use_world(world)
    for c in cases:
        c['world'] = world
    impl = Impl(chk, world)
    try:
        impl_out = [impl.run(c) for c in cases]
        if world == 'harness':
            whole_file(chk, impl, cases, impl_out)
    finally:
        impl.close()
    model_out = chk.coq_eval(HEADER, [coq_case(c) for c in cases], shard=40, label=f'cases_{world}')
    for c, io, mo in zip(cases, impl_out, model_out):
        orc = oracle(c, set(EXCLUDE_EQUIPMENT))
        chk.case({'year': c['year'], 'row': c['row'], 'world': world}, nontrivial(c, orc))
        chk.count('range:' + c.get('kind', '?'))
        chk.count('impl:' + io['result'] + (':' + io['warning'] if io.get('warning') else ''))
        for r in orc['reasons']:
            chk.count('reason:' + r)
        if orc['expected'] and orc['expected']['dropped']:
            chk.count('rows-with-misordered-instances')
        failed = judge(chk, c, io, orc)
        if mo is None:
            continue
        diff = same_as_model(mo, io)
        if diff is not None:
            chk.broken('correspondence:C13_Model.run_case', diff, {'case': c, 'impl': _slim(io)})
        elif not failed:
            chk.traces_validated += 1
        else:
            chk.count('known-or-failing-but-model-agrees')


def whole_file(chk: Check, impl: Impl, cases, impl_out):
    """The real entry point convert_oag_data on a CSV of the 2019 rows that do not abort the import:
    the totals must equal those of the per-row path."""
    from AEIC.missions.oag import convert_oag_data
    import sqlite3
    def stops_readable(c):
        # convert_oag_data counts the valid rows first, calling is_row_valid outside any try: an unreadable `stops`
        # field aborts the whole file there (noted in design.d/C13.md; unreadable rows are outside the property's
        # quantifier), so such rows are exercised row by row only
        try:
            int(c['row']['stops'])
            return True
        except ValueError:
            return False
    sel = [(c, o) for c, o in zip(cases, impl_out)
           if c['year'] == 2019 and o['result'] != 'exception' and stops_readable(c)]
    if not any(o['result'] == 'imported' for _, o in sel):
        return          # (report() divides by the number of imported rows; not this property's business)
    f = chk.tmp / 'rows_2019.csv'
    with open(f, 'w', newline='') as fp:
        w = csv.DictWriter(fp, fieldnames=CSV_FIELDS, quoting=csv.QUOTE_ALL)
        w.writeheader()
        for c, _ in sel:
            w.writerow(c['row'])
    dbf = chk.tmp / 'whole_2019.sqlite'
    try:
        convert_oag_data(str(f), 2019, str(dbf), warnings_file=str(chk.tmp / 'warnings.txt'))
    except Exception as e:  # noqa: BLE001
        chk.broken('correspondence:convert_oag_data', f'{type(e).__name__}: {e}')
        return
    con = sqlite3.connect(dbf)
    nf = con.execute('SELECT COUNT(*) FROM flights').fetchone()[0]
    ns = con.execute('SELECT COUNT(*) FROM schedules').fetchone()[0]
    sumcount = con.execute('SELECT COALESCE(SUM(number_of_flights), 0) FROM flights').fetchone()[0]
    con.close()
    want_f = sum(1 for _, o in sel if o['result'] == 'imported')
    want_s = sum(len(o['instances']) for _, o in sel if o['result'] == 'imported')
    chk.count('whole-file-rows', len(sel))
    if (nf, ns, sumcount) != (want_f, want_s, want_s):
        chk.broken('correspondence:convert_oag_data',
                   f'file import: {nf} flights / {ns} instances / recorded {sumcount}; row by row: {want_f} / {want_s}')


def gen_cases(chk: Check, n: int):
    out = []
    line = 2
    while len(out) < n:
        c = gen_row(chk.rng, line)
        if not distance_margin_ok(c):
            chk.count('redrawn:threshold-margin')
            continue
        out.append(c)
        line += 1
    fixed = (cross_year_cases(chk.rng) + dst_cases(chk.rng) + misorder_straddle_cases(chk.rng) + service_code_cases(chk.rng)
             + odd_and_malformed_cases(chk.rng, chk.n(60, 400)))
    fixed += [dict(c) for c in chk.rng.sample(out, min(12, len(out)))]          # the same row again: a second flight
    chk.rng.shuffle(fixed)
    for c in fixed:
        c = dict(c)
        c['line'] = line
        line += 1
        out.insert(chk.rng.randint(0, len(out)), c)
    return out


def load_corpus(chk: Check):
    out = []
    for i, f in enumerate(sorted((VERIF / 'corpus' / chk.pid).glob('*.json'))):
        c = json.loads(f.read_text())
        c['line'] = 100000 + i
        out.append(c)
    return out


def run(chk: Check):
    chk.rule = ('raw CSV rows (strings) between 34 airports (zones with/without DST, both hemispheres, UTC-11..+14, half- and '
                'quarter-hour offsets, co-located pairs) plus unknown codes: every range shape (open-ended on either '
                'or both sides, single day, year-crossing, reversed, around DST changes, leap day), weekday sets incl. '
                'empty/all, local times near DST gaps/folds and midnight, arrival day offsets P/blank/0/1/2, stated '
                'distances accurate / near the 50 km and 10 % thresholds / far off / zero, every row-level skip reason; plus '
                'fixed streams: open-ended and explicit ranges reaching into other years for four data years, both DST '
                'switch days of every DST zone, rows with one unusual or unreadable field, repeated rows; '
                'non-trivial = an importable row with at least one instance that is open-ended, single-day, '
                'year-crossing, DST-spanning, has a non-zero arrival day offset or a dropped instance')
    chk.trusted += ['translator/c13_extract.py (meaning of the extracted rules: exact arithmetic on integer millimetres, '
                    'NaN makes comparisons false)',
                    'harness/c13.py (CSV conventions of parse_row, comparison of tables with model output)',
                    'zoneinfo (IANA tz database, PEP 495 fold=0 reading of gaps/folds), pyproj/PROJ WGS-84 inverse, '
                    'timezonefinder, SQLite, pandas date_range/Timestamp: exercised for real, enter the theorems '
                    'only as universally quantified oracles']
    chk.assumptions += ['tz database: the IANA data of this machine as served by zoneinfo, zone of an airport = '
                        'timezonefinder.certain_timezone_at(lat, lng) (checked against a hand-written table for the 34 '
                        'airports); UTC offset of a local wall-clock time = utcoffset() of the naive time with fold=0 '
                        '(PEP 495): a time inside a gap gets the offset before the switch, a time inside a fold its '
                        'first occurrence; the model receives exactly these offsets as piecewise-constant tables over '
                        'local minutes (switch found by bisection to the minute, 2014-2027); every run contains both '
                        'switch days of every DST zone of the airport list for 2019 and one other data year, with times '
                        'before / inside / at the end of / after the gap or fold, as origin and as destination, and '
                        'arrival day offsets P/0/1/2 that carry the arrival across the switch',
                        'CSV conventions: rows are classified legal / odd / malformed by the harness (classify_row); '
                        'int() is modelled without underscore separators and non-ASCII digits (never generated)',
                        'local times inside a DST gap/fold are read as Python/pandas do (offset before the change)',
                        'rows within 0.1 m / 1e-6 % of a distance threshold are re-drawn (float vs exact arithmetic)',
                        'calendar lemmas are an exhaustive sweep of 1970-2099']
    chk.coq_props('props/C13_Props.v')
    extract(chk)
    n = chk.n(700, 6000)
    cases = load_corpus(chk) + gen_cases(chk, n)
    check_rows(chk, cases)
    check_rows(chk, shipped_cases(chk.rng), world='shipped')


def replay(chk: Check, rp):
    chk.coq_props('props/C13_Props.v')
    extract(chk)
    case = (rp.get('case') or {}).get('case')
    if case:
        check_rows(chk, [case], world=case.get('world', 'harness'))

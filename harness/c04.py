"""C04 — gridding conserves every integrated quantity (and the machinery shared with C05).

Tie:    correspondence.  coq/model/C04_Model.v (hand model of gridding/grid.py over `Num`) is run inside Coq
        (vm_compute, binary64 instance) on the same grids / point sequences as Gridder.grid_trajectory;
        geodesic lengths are supplied to the model by pyproj (the oracle for the Section variable `dist`).
Oracle: plain Python, independent of the code and of the model: every grid line is intersected with the
        parametric straight map line of every segment by brute force, the pieces are measured with pyproj,
        and the implementation's integrated values are re-summed per segment and in total (C04); the pieces
        are densely sampled and the samples binned into closed cells (C05, harness/c05.py).
"""

from __future__ import annotations

import json
import math
from pathlib import Path

from harness.common import VERIF, Check, Raw, close, to_coq

COQ_TARGETS = ['model/C04_Model.v']

SIG_F3 = 'gridding-zero-length-segment-fraction-zero'
SIG_F20 = 'gridding-index-minus-one-wraps-to-last-grid-value'
SIG_DL = 'gridding-antimeridian-met-at-start-latitude'
SIG_Z = 'gridding-zero-length-antimeridian-segment-nan'
SIG_POLE = 'gridding-pole-intersection-latitude-out-of-range-nan'
SIG_ILL = 'gridding-nearly-axis-parallel-segment-cancellation-excess'
SIG_POLEX = 'gridding-antimeridian-crossing-latitude-overshoots-pole-nan'
TINY = ['ulp', 1e-12, 4e-9, 1e-8, 1e-7]     # |dlat| or |dlon| of the nearly zonal / nearly meridional stream (rad)

PI = math.pi
LAT_MAX = 1.55        # generated latitudes stay within +-88.8 degrees
EPS_T = 1e-9          # pieces shorter than this (in the segment's parameter) are degenerate for the oracle
TOL_SHARE = 1e-8      # absolute tolerance on shares (fractions of a segment)
# Absolute accuracy of the geodesic: pyproj / GeographicLib lengths carry an ABSOLUTE error of about 1e-9 m whatever the
# length.  Measured (design.d/C04.md, round 4): for 48 000 collinear triples a-b-c at scales 1e-10 .. 1 rad,
# dist(a,b) + dist(b,c) - dist(a,c) is never below -2.9e-9 m.  DELTA_ABS is a safe per-length bound; n measured
# pieces of a segment of length D may therefore add up to D * (1 -+ n * DELTA_ABS / D).
DELTA_ABS = 1e-8


def geo_slack(n, D):
    """relative slack on sums of n pyproj lengths compared with a length D (metres)"""
    return n * DELTA_ABS / D if D > 0 else 0.0

HEADER = ('From Coq Require Import ZArith List PrimFloat.\n'
          'From AV Require Import lib.Num lib.FloatMath model.C04_Model.\n'
          'Import ListNotations.\nOpen Scope float_scope.\n')

_GEOD = None


def geod():
    global _GEOD
    if _GEOD is None:
        from pyproj import Geod
        _GEOD = Geod(ellps='WGS84')
    return _GEOD


def dist_many(a, b, clip=False):
    """WGS-84 geodesic distances between point lists a, b of (lat, lon) in radians (the oracle for `dist`).
    clip=True: latitudes are clipped to [-pi/2, pi/2] first (what the tree does once FC04c is repaired; `dist` of the
    model is then this composite, still a pseudo-metric)."""
    import numpy as np
    if not a:
        return []
    la = np.array([p[0] for p in a], float)
    lo = np.array([p[1] for p in a], float)
    lb = np.array([p[0] for p in b], float)
    lob = np.array([p[1] for p in b], float)
    if clip:
        la, lb = np.clip(la, -np.pi / 2, np.pi / 2), np.clip(lb, -np.pi / 2, np.pi / 2)
    return [float(x) for x in np.atleast_1d(geod().inv(lo, la, lob, lb, radians=True)[2])]


# ----------------------------------------------------------------------------------------------
# implementation
# ----------------------------------------------------------------------------------------------

def gridder(case):
    import numpy as np

    from harness import common
    common.stub_shapely()
    from AEIC.gridding.grid import Gridder
    return Gridder(np.array(case['glat'], float), np.array(case['glon'], float),
                   None if case['galt'] is None else np.array(case['galt'], float),
                   None if case['gtime'] is None else np.array(case['gtime'], float))


TWIN = 'cells_touched_by_trajectory_with_state_and_integrated_variables'


def run_impl(case, states, ints, entry='grid_trajectory', g=None, dtype=None, coord_dtype=None, time_unit=None):
    """One public entry point of Gridder on the case with the given state / integrated variables -> plain lists.

    g           reuse this Gridder (state carried between calls would show)
    dtype       pass altitudes / times / variables as arrays of this dtype (holding the same numbers)
    coord_dtype pass latitudes / longitudes as arrays of this dtype
    time_unit   'ms': grid times and times are passed as datetime64[ms] (values must be whole numbers)
    Raises AssertionError('mutated ...') if the call changed any of its inputs or the grid arrays."""
    import warnings

    import numpy as np
    g = g or gridder(case)
    vt = dtype or float
    ct = coord_dtype or float
    arrs = {'lats': np.array(case['lats'], ct), 'lons': np.array(case['lons'], ct),
            'alts': None if case['alts'] is None else np.array(case['alts'], vt),
            'times': None if case['times'] is None else np.array(case['times'], vt)}
    if time_unit:
        g = gridder(case)
        g.grid_times = np.array(case['gtime'], 'int64').astype(f'datetime64[{time_unit}]')
        arrs['times'] = np.array(case['times'], 'int64').astype(f'datetime64[{time_unit}]')
    sts = tuple(np.array(s_, vt) for s_ in states)
    ivs = tuple(np.array(v, vt) for v in ints)
    watched = [x for x in list(arrs.values()) + list(sts) + list(ivs)
               + [g.grid_latitudes, g.grid_longitudes, g.grid_altitudes, g.grid_times] if x is not None]
    before = [x.copy() for x in watched]
    with warnings.catch_warnings():
        warnings.simplefilter('ignore')
        out = getattr(g, entry)(arrs['lats'], arrs['lons'], arrs['alts'], arrs['times'], sts, ivs)
    for x, y in zip(watched, before):
        if not (x.shape == y.shape and x.dtype == y.dtype and np.array_equal(x, y)):
            raise AssertionError('mutated: the call changed one of its input arrays or a grid array')

    def lst(a_):
        if a_ is None:
            return None
        a_ = np.asarray(a_).ravel()
        if a_.dtype.kind == 'M':
            return [float(x) for x in a_.astype('int64')]
        return [float(x) for x in a_]
    if out[0] is None:        # the twin's answer to more than one crossing
        return {'lat': None, 'lon': None, 'alt': None, 'time': None, 'states': None, 'ints': None}
    return {'lat': lst(out[0]), 'lon': lst(out[1]), 'alt': lst(out[2]), 'time': lst(out[3]),
            'states': [lst(s_) for s_ in out[4]], 'ints': [lst(v) for v in out[5]]}


def same_out(a_, b_):
    return json.dumps(a_) == json.dumps(b_)       # NaN-tolerant equality of plain outputs


def instrumented(case):
    """The case's variables plus one state variable carrying the point number and two integrated variables:
    segment number + 1, and 1 on every segment.  The implementation's own output then tells which segment a
    piece belongs to (C05: from the state variable; C04: from the ratio of the two integrated variables, so that
    a defect in the state values does not disturb the re-summation) and which share of the segment it received."""
    n = len(case['lats'])
    return (case['states'] + [[float(i) for i in range(n)]],
            case['ints'] + [[float(j + 1) for j in range(n - 1)], [1.0] * (n - 1)])


def inst_ints(case):
    return instrumented(case)[1]


def detect_flags(entry='grid_trajectory'):
    """Which of the four repairable behaviours does the tree under check have?  (clamp, fix3, fixdl, fixz).
    A probe that crashes counts as "as coded"; the crash itself is reported by the cases."""
    base = {'galt': None, 'gtime': None, 'alts': None, 'times': None}

    def probe(case, ints, pred):
        try:
            return bool(pred(run_impl(case, [], ints, entry=entry)))
        except Exception:  # noqa: BLE001
            return False
    c3 = dict(base, glat=[0.0, 1.0], glon=[0.0, 1.0], lats=[0.5, 0.5], lons=[0.5, 0.5])
    fix3 = probe(c3, [[1.0]], lambda o: abs(sum(o['ints'][0]) - 1.0) < 1e-12)
    c20 = dict(base, glat=[0.0, 1.0, 2.0], glon=[0.0, 1.0, 2.0], lats=[0.0, 0.0], lons=[0.5, 0.75])
    clamp = probe(c20, [], lambda o: o['lat'] == [0.0])
    cdl = dict(base, glat=[0.0, 0.1, 0.2, 0.3, 0.4], glon=[-PI, 0.0, PI], lats=[0.05, 0.35],
               lons=[PI - 0.1, -PI + 0.1])
    fixdl = probe(cdl, [], lambda o: any(lo == 0.0 and la == 0.1 for la, lo in zip(o['lat'], o['lon'])))
    cz = dict(base, glat=[0.0, 1.0], glon=[-PI, 0.0, PI], lats=[0.5, 0.5], lons=[-PI, PI])
    fixz = probe(cz, [[1.0]], lambda o: all(x == x for x in o['ints'][0]))
    cp = json.loads((VERIF / 'corpus/C04/fc04c_pole_on_longitude_line.json').read_text())['case']
    clipd = probe(cp, [[1.0]], lambda o: all(x == x for x in o['ints'][0]))
    ce = json.loads((VERIF / 'corpus/C04/fc04e_crossing_segment_ending_on_a_pole.json').read_text())['case']
    fixe = probe(dict(ce, alts=None, times=None, galt=None, gtime=None), [[1.0] * (len(ce['lats']) - 1)],
                 lambda o: all(x == x for x in o['ints'][0]))
    return {'clamp': clamp, 'fix3': fix3, 'fixdl': fixdl, 'fixz': fixz, 'clipd': clipd, 'fixe': fixe}


# ----------------------------------------------------------------------------------------------
# model (inside Coq)
# ----------------------------------------------------------------------------------------------

def _opt(v):
    return Raw('None') if v is None else Raw(f'(Some {to_coq([float(x) for x in v])})')


def _fl(v):
    return to_coq([float(x) for x in v])


def geometry_expr(case, states, flags):
    pts = '[' + '; '.join(f'({to_coq(float(a))}, {to_coq(float(b))})' for a, b in zip(case['lats'], case['lons'])) + ']'
    st = '[' + '; '.join(_fl(s) for s in states) + ']'
    return (f"@run_geometry FNum {to_coq(flags['clamp'])} {to_coq(flags['fixdl'])} {to_coq(flags['fixe'])} {_fl(case['glat'])} "
            f"{_fl(case['glon'])} {_fl(case['galt'] or [])} {_fl(case['gtime'] or [])} {pts} "
            f"{_opt(case['alts'])} {_opt(case['times'])} {st}")


def parse_geometry(val):
    """parsed Coq value of run_geometry -> dict"""
    status, i, parts = val
    out = {'status': int(status), 'i': int(i), 'parts': []}
    for p in parts:
        la, lo, al, ti, st, idx, geom = p
        out['parts'].append({
            'lat': [float(x) for x in la], 'lon': [float(x) for x in lo],
            'alt': None if al is None else [float(x) for x in al],
            'time': None if ti is None else [float(x) for x in ti],
            'states': [[float(x) for x in s] for s in st],
            'idx': idx,
            'geom': [([(int(a), int(b)) for a, b in cells], [(float(a), float(b)) for a, b in chain])
                     for cells, chain in geom]})
    return out


def attach_dists(geo, clip=False):
    """Python mirror of C04_Model.attach_dists with dist := pyproj: per part, per segment (D, [d...])."""
    dds = []
    for p in geo['parts']:
        a, b, owner = [], [], []
        for k, (_cells, chain) in enumerate(p['geom']):
            a.append(chain[0])
            b.append(chain[-1])
            owner.append((k, 'D'))
            for x, y in zip(chain[:-1], chain[1:]):
                a.append(x)
                b.append(y)
                owner.append((k, 'd'))
        ds = dist_many(a, b, clip)
        raw = dist_many(a, b, False) if clip else ds       # the code clips the sub-segment points only, not
        dd = [[None, []] for _ in p['geom']]               # the trajectory points the segment length is taken from
        for (k, kind), d, d0 in zip(owner, ds, raw):
            if kind == 'D':
                d = d0
                dd[k][0] = d
            else:
                dd[k][1].append(d)
        dds.append(dd)
    return dds


def values_expr(geo, dds, ints, flags):
    dd_txt = '[' + '; '.join('[' + '; '.join(f'({to_coq(D)}, {_fl(ds)})' for D, ds in dd) + ']' for dd in dds) + ']'
    vs = '[' + '; '.join(_fl(v) for v in ints) + ']'
    return (f"@values FNum {to_coq(flags['fix3'])} {to_coq(flags['fixz'])} ({geo['status']})%Z {geo['i']}%nat {vs} {dd_txt}")


def model_outputs(geo):
    """flat outputs of the model in the implementation's layout"""
    if geo['status'] == 2:
        return {'lat': [], 'lon': [], 'alt': [], 'time': [], 'nstates': None}
    cat = lambda key: [x for p in geo['parts'] for x in p[key]]  # noqa: E731
    has_alt = geo['parts'][0]['alt'] is not None
    has_time = geo['parts'][0]['time'] is not None
    ns = len(geo['parts'][0]['states'])
    return {'lat': cat('lat'), 'lon': cat('lon'), 'alt': cat('alt') if has_alt else None,
            'time': cat('time') if has_time else None,
            'states': [[x for p in geo['parts'] for x in p['states'][k]] for k in range(ns)]}


# ----------------------------------------------------------------------------------------------
# independent oracle: brute-force pieces of the straight map line
# ----------------------------------------------------------------------------------------------

def leg_nodes(glat, glon, A, B):
    """Break points of the straight map line A -> B at every grid line strictly inside it (brute force over
    all lines, parametric form).  -> list of (t, lat, lon) from t = 0 to t = 1."""
    lat0, lon0 = A
    lat1, lon1 = B
    dlat, dlon = lat1 - lat0, lon1 - lon0
    brk = []
    if dlat != 0:
        lo_, hi_ = min(lat0, lat1), max(lat0, lat1)
        for g in glat:
            if lo_ < g < hi_:
                t = (g - lat0) / dlat
                brk.append((t, g, lon0 + t * dlon))
    if dlon != 0:
        lo_, hi_ = min(lon0, lon1), max(lon0, lon1)
        for h in glon:
            if lo_ < h < hi_:
                t = (h - lon0) / dlon
                brk.append((t, lat0 + t * dlat, h))
    brk.sort()
    return [(0.0, lat0, lon0)] + brk + [(1.0, lat1, lon1)]


def legs_of_segment(case, j, bent=False):
    """The straight map line(s) of segment j: one leg, or two when it crosses the antimeridian (|dlon| > pi;
    the line is straight in unwrapped longitude).  bent=True gives the as-coded reading of FC05a (antimeridian
    met at the start latitude) and is used only to classify a failure."""
    A = (case['lats'][j], case['lons'][j])
    B = (case['lats'][j + 1], case['lons'][j + 1])
    d = B[1] - A[1]
    if abs(d) <= PI:
        return [(A, B)]
    if d < 0:          # eastward over +pi
        lon_end, out_, in_ = B[1] + 2 * PI, PI, -PI
    else:
        lon_end, out_, in_ = B[1] - 2 * PI, -PI, PI
    if bent or lon_end == A[1]:
        # lon_end == A[1]: both end points ON the antimeridian (-pi and +pi): the whole segment runs along it
        latx = A[0]
    else:
        latx = A[0] + (out_ - A[1]) / (lon_end - A[1]) * (B[0] - A[0])
        latx = min(max(latx, min(A[0], B[0])), max(A[0], B[0]))
    return [(A, (latx, out_)), ((latx, in_), B)]


def expected_segment(case, j, bent=False):
    """Oracle pieces of segment j: list of {'a','b' (end points), 'share', 'leg', 'ta', 'tb'} in path order,
    D (the length the shares refer to) and the excess factor E = sum of piece chords / D."""
    legs = legs_of_segment(case, j, bent)
    pieces = []
    for li, (A, B) in enumerate(legs):
        nodes = leg_nodes(case['glat'], case['glon'], A, B)
        kept = [nodes[0]]
        for nd in nodes[1:]:
            if nd[0] - kept[-1][0] > EPS_T:
                kept.append(nd)
        if kept[-1][0] < 1.0:      # the end node is never dropped
            kept[-1] = nodes[-1]
        if len(kept) == 1:
            kept.append(nodes[-1])
        for x, y in zip(kept[:-1], kept[1:]):
            pieces.append({'a': (x[1], x[2]), 'b': (y[1], y[2]), 'leg': li, 'ta': x[0], 'tb': y[0], 'A': A, 'B': B})
    ds = dist_many([p['a'] for p in pieces], [p['b'] for p in pieces])
    Ds = dist_many([A for A, _ in legs], [B for _, B in legs])
    D = sum(Ds)
    if D != D or any(d != d for d in ds):
        raise RuntimeError(f'oracle: pyproj returned NaN for a piece of segment {j} of the oracle own geometry')
    for p, d in zip(pieces, ds):
        p['len'] = d
        p['share'] = d / D if D != 0 else None
    E = (sum(ds) / D) if D != 0 else None
    return pieces, D, E


def conditioning(case, j, bent=False):
    """How well the positions of the grid-line crossings of segment j are determined in binary64.  A crossing of a
    latitude line is located by dividing a difference of latitudes by dlat (and symmetrically for longitude lines):
    its parameter along the segment carries an absolute error of about eps * |coordinate| / |dlat|.  For ordinary
    segments this is ~1e-12; for a nearly zonal / nearly meridional segment that straddles a grid line (|dlat| or
    |dlon| of 1e-8 ... a few ulp) WHERE along the segment the line is met is ill-conditioned — the segment is within
    |dlat| of the line over its whole length — and every oracle tolerance on shares is widened by this amount.
    Which cells are touched, array lengths, order, never-less are NOT relaxed."""
    eps = 2.220446049250313e-16
    k = 0.0
    for A, B in legs_of_segment(case, j, bent):
        for ax, g in ((0, case['glat']), (1, case['glon'])):
            lo_, hi_ = min(A[ax], B[ax]), max(A[ax], B[ax])
            if lo_ < hi_ and any(lo_ <= x <= hi_ for x in g):
                k = max(k, 16 * eps * max(1.0, abs(A[ax]), abs(B[ax])) / (hi_ - lo_))
    return k


def fine_factor(case, j, bent=False, n=2000):
    """(length of the segment's map line measured in n small great-circle pieces per leg) / D: the largest chord
    factor ANY monotone chain of points of the segment can produce (triangle inequality)."""
    tot, D = 0.0, 0.0
    for A, B in legs_of_segment(case, j, bent):
        pts = [(A[0] + (B[0] - A[0]) * i / n, A[1] + (B[1] - A[1]) * i / n) for i in range(n)] + [B]
        tot += math.fsum(dist_many(pts[:-1], pts[1:]))
        D += dist_many([A], [B])[0]
    return tot / D if D else None


def blocks_by_segment(out, nseg):
    """Split the implementation's flat output into per-segment blocks using the instrumentation state variable
    (last state variable = number of the segment's start point)."""
    tags = out['states'][-1]
    blocks = [[] for _ in range(nseg)]
    order_ok = True
    prev = -1
    for pos, t in enumerate(tags):
        j = int(round(t))
        if t != j or not (0 <= j < nseg):
            return None, False
        if j < prev:
            order_ok = False
        prev = j
        blocks[j].append(pos)
    return blocks, order_ok


def blocks_by_ratio(out, nseg):
    """C04: which pieces belong to which segment, from the integrated instrumentation alone: piece p of segment j
    carries share_p in the all-ones variable and (j+1)*share_p in the numbering variable.  Pieces with share 0
    carry nothing of any variable and are left out.  -> (blocks, nan_pieces); blocks is None if the ratios are
    not segment numbers.  Pieces whose share is NaN are returned separately."""
    ones, numb = out['ints'][-1], out['ints'][-2]
    blocks = [[] for _ in range(nseg)]
    nans = []
    for p, (s1, w) in enumerate(zip(ones, numb)):
        if s1 == 0.0 and w == 0.0:
            continue
        if not (s1 == s1 and w == w):
            nans.append(p)
            continue
        if s1 == 0.0:
            return None, nans
        r = w / s1
        j = int(round(r)) - 1
        if abs(r - (j + 1)) > 1e-6 or not (0 <= j < nseg):
            return None, nans
        blocks[j].append(p)
    return blocks, nans


# ----------------------------------------------------------------------------------------------
# C04 oracle: exact re-summation
# ----------------------------------------------------------------------------------------------

def c04_oracle(case, out):
    """-> list of (description, signature) discrepancies between the implementation's integrated values and the
    property: per segment  sum(pieces) = v * E  (E >= 1 the brute-force chord factor; a zero-length segment
    keeps v), sum(pieces) >= v, and in total."""
    nseg = len(case['lats']) - 1
    if any_multi_crossing(case):
        return []
    ints = out['ints']
    probs = []
    blocks, nan_pieces = blocks_by_ratio(out, nseg)
    zero_crossing = [j for j in range(nseg) if len(legs_of_segment(case, j)) == 2 and expected_segment(case, j)[1] == 0]
    polar = [j for j in range(nseg) if abs(case['lats'][j]) == PI / 2 or abs(case['lats'][j + 1]) == PI / 2]
    pole_nan = set()
    if nan_pieces and blocks is not None:
        tags = out['states'][-1]
        owners = {int(round(tags[p])) for p in nan_pieces if tags[p] == tags[p]}
        if len(zero_crossing) == 1:
            blocks[zero_crossing[0]] += nan_pieces      # as-coded pattern of FC04a: 0/0 in the split
        elif owners and owners <= set(polar):
            for p in nan_pieces:                        # as-coded pattern of FC04c: a segment touching a pole
                blocks[int(round(tags[p]))].append(p)
            pole_nan = owners
        else:
            blocks = None
    L = len(out['lat'])
    for v in ints:
        if len(v) != L:
            return [(f'integrated output has length {len(v)}, cells {L}', None)]
    f3_hits, z_hits, p_hits, ill_hits, other = [], [], [], [], []
    tot_impl = [0.0] * len(ints)
    tot_want_lo = [0.0] * len(ints)
    if blocks is None:
        # pieces cannot be assigned to segments: check the totals against the sum of the per-segment expectations
        for k, var in enumerate(ints):
            vals = inst_ints(case)[k]
            want = 0.0
            lo_ = 0.0
            for j in range(nseg):
                _p, D, E = expected_segment(case, j)
                want += vals[j] * (E if D != 0 else 1.0)
                lo_ += vals[j] * (1 - geo_slack(len(_p) + 1, D))
            got = math.fsum(var)
            if not close(got, want, rel=1e-6 + max([geo_slack(60, expected_segment(case, j)[1]) for j in range(nseg)] + [0.0]) +
                         max([conditioning(case, j) for j in range(nseg)] + [0.0]), abs_=1e-300) or \
                    (all(x >= 0 for x in vals) and got < lo_ * (1 - 1e-12)):
                other.append(f'variable {k}: gridded total {got!r}, trajectory total {sum(vals)!r}, expected with chord excess {want!r}')
        return [(o, None) for o in other]
    for j in range(nseg):
        _pieces, D, E = expected_segment(case, j, bent=False)
        Es = [E]
        if len(legs_of_segment(case, j)) == 2 and D != 0:
            Es.append(expected_segment(case, j, bent=True)[2])       # see design.d/C04.md: C04 does not fix where
        for k, var in enumerate(ints):                                 # the antimeridian is met (C05 does)
            vj = inst_ints(case)[k][j]
            got = math.fsum(var[p] for p in blocks[j])
            tot_impl[k] += got
            tot_want_lo[k] += vj * (1 - (geo_slack(max(len(blocks[j]), len(_pieces)) + 1, D) if vj > 0 else 0.0))
            if D == 0:
                ok = close(got, vj, rel=1e-9, abs_=1e-300)
                if not ok:
                    if got != got and j in zero_crossing and vj == vj:
                        z_hits.append((j, k, vj))
                    elif got == 0.0 and vj != 0.0:
                        f3_hits.append((j, k, vj))
                    else:
                        other.append(f'segment {j} (zero length) variable {k}: pieces sum to {got!r}, value {vj!r}')
                continue
            kappa = conditioning(case, j)
            slack = geo_slack(max(len(blocks[j]), len(_pieces)) + 1, D)
            ok = any(e is not None and close(got, vj * e, rel=1e-9 + kappa + slack, abs_=1e-300) for e in Es)
            if ok and kappa > 1e-9 and vj > 0:
                # ill-conditioned crossing position: whatever split is chosen, a chain of points OF the segment
                # cannot measure more than the finely subdivided map line
                fine = max(x for x in (fine_factor(case, j), fine_factor(case, j, True) if len(Es) == 2 else None) if x)
                if got > vj * fine * (1 + 1e-6 + slack + geo_slack(4002, D)):
                    ill_hits.append((j, k, vj, got / (vj * Es[0])))
            if not ok and got != got and j in pole_nan:
                p_hits.append((j, k, vj))
            elif not ok:
                other.append(f'segment {j} variable {k}: pieces sum to {got!r}, expected value*{Es[0]!r} = {vj * Es[0]!r}')
            elif vj >= 0 and got < vj * (1 - 1e-12 - slack):
                other.append(f'segment {j} variable {k}: pieces sum to {got!r} < segment value {vj!r}')
    for k in range(len(ints)):
        if all(x >= 0 for x in inst_ints(case)[k]) and not f3_hits and not z_hits and not p_hits:
            if tot_impl[k] < tot_want_lo[k] * (1 - 1e-12):
                other.append(f'variable {k}: gridded total {tot_impl[k]!r} < trajectory total {tot_want_lo[k]!r}')
    for o in other:
        probs.append((o, None))
    if ill_hits:
        j, k, vj, ratio = max(ill_hits, key=lambda x: x[3])
        d = min(abs(case['lats'][j + 1] - case['lats'][j]) or 9.0, abs(case['lons'][j + 1] - case['lons'][j]) or 9.0)
        probs.append((f'segment {j} is nearly parallel to a grid line it straddles (coordinate change {d!r} rad): the '
                      f'intersection coordinate computed as slope * line + intercept loses all its digits to cancellation, '
                      f'lands outside the segment, and variable {k} is gridded to {ratio:.4f} times its value (more than '
                      f'any chain of points of the segment can measure)',
                      SIG_ILL if (not other and conditioning(case, j) >= 1e-3) else None))      # |d| below ~1e-11 rad
    if p_hits:
        j, k, vj = p_hits[0]
        if len(legs_of_segment(case, j)) == 2:
            probs.append((f'segment {j} crosses the antimeridian and ends exactly on a pole: the interpolated crossing '
                          f'latitude lat0 + t * (lat1 - lat0) with t = 1 overshoots the pole by one rounding error, the '
                          f'part lengths are NaN and the value {vj!r} of variable {k} is gridded to NaN',
                          SIG_POLEX if not other else None))
        else:
            probs.append((f'segment {j} has an end point exactly on a pole: an intersection latitude computed from '
                          f'slope/intercept leaves [-90, 90] degrees by rounding, the geodesic length is NaN and the '
                          f'value {vj!r} of variable {k} is gridded to NaN', SIG_POLE if not other else None))
    if z_hits:
        j, k, vj = z_hits[0]
        probs.append((f'zero-length segment {j} across the antimeridian (same point given as -pi and +pi) variable {k}: '
                      f'value {vj!r} becomes NaN (0/0 in the proportional split)', SIG_Z if not other else None))
    if f3_hits:
        j, k, vj = f3_hits[0]
        lost = math.fsum(x[2] for x in f3_hits if x[1] == k)
        probs.append((f'zero-length segment {j} (repeated point) variable {k}: value {vj!r} is dropped; '
                      f'{len(f3_hits)} such (segment, variable) pairs, variable {k} loses {lost!r} in total',
                      SIG_F3 if not other else None))
    return probs


def any_multi_crossing(case):
    lons = case['lons']
    return sum(1 for a, b in zip(lons[:-1], lons[1:]) if abs(b - a) > PI) > 1


# ----------------------------------------------------------------------------------------------
# generators
# ----------------------------------------------------------------------------------------------

def gen_axis(rng, lo, hi, ncells, style):
    """ncells+1 strictly increasing lines from lo to hi (end values exact)."""
    if style == 'uniform':
        g = [lo + (hi - lo) * i / ncells for i in range(ncells + 1)]
    else:
        cuts = sorted(rng.uniform(0.02, 0.98) for _ in range(ncells - 1))
        g = [lo] + [lo + (hi - lo) * c for c in cuts] + [hi]
    g[0], g[-1] = lo, hi
    g = sorted(set(g))
    return g


def gen_grid(rng, dateline):
    import numpy as np
    r = rng.random()
    if r < 0.3 or dateline:
        # global degree grid, the way the module is meant to be used
        res = rng.choice([3.0, 4.0, 5.0, 6.0, 10.0, 15.0, 30.0, 45.0, 90.0, 180.0])
        if rng.random() < 0.5 or dateline:
            glon = [float(x) for x in np.deg2rad(np.arange(-180.0, 180.0 + res / 2, res))]
            glon[0], glon[-1] = -PI, PI
        else:
            nlon = rng.randint(1, 60)
            w = rng.uniform(0.3, 2.5)
            lo = rng.uniform(-PI, PI - w)
            glon = gen_axis(rng, lo, lo + w, nlon, rng.choice(['uniform', 'random']))
        res2 = rng.choice([3.0, 5.0, 10.0, 15.0, 30.0, 45.0, 90.0, 180.0])
        glat = [float(x) for x in np.deg2rad(np.arange(-90.0, 90.0 + res2 / 2, res2))]
        if rng.random() < 0.5:       # keep away from the poles (zero-length meridian convergence is its own kind)
            glat = [x for x in glat if abs(x) < 1.5] if len([x for x in glat if abs(x) < 1.5]) >= 2 else glat
    else:
        nlat, nlon = rng.randint(1, 60), rng.randint(1, 60)
        h = rng.uniform(0.05, 2.6)
        lo = rng.uniform(-1.45, 1.45 - h) if h < 2.9 else -1.45
        glat = gen_axis(rng, lo, min(lo + h, 1.5), nlat, rng.choice(['uniform', 'random']))
        w = rng.uniform(0.05, 3.0)
        lo = rng.uniform(-PI, PI - w)
        glon = gen_axis(rng, lo, lo + w, nlon, rng.choice(['uniform', 'random']))
    galt = gtime = None
    if rng.random() < 0.6:
        galt = gen_axis(rng, 0.0, rng.choice([12000.0, 15000.0, 20000.0]), rng.randint(1, 60),
                        rng.choice(['uniform', 'random']))
    if rng.random() < 0.5:
        t0 = rng.choice([0.0, 1.7e9])
        span = rng.choice([3600.0, 86400.0, 31536000.0])
        style = rng.choice(['uniform', 'random', 'months'])
        if style == 'months' and span > 1e7:      # calendar-month bins in seconds: unevenly spaced by nature
            days, g_ = [31, 28, 31, 30, 31, 30, 31, 31, 30, 31, 30, 31], [t0]
            for d_ in days:
                g_.append(g_[-1] + 86400.0 * d_)
            gtime = g_
        else:
            gtime = gen_axis(rng, t0, t0 + span, rng.randint(1, 60), 'random' if style == 'months' else style)
    return glat, glon, galt, gtime


def pick_coord(rng, g, lo=None, hi=None, p_line=0.25, p_lowest=0.0):
    """a coordinate in [max(g0,lo), min(gN,hi)]: strictly inside a cell, or exactly on a grid line"""
    a = g[0] if lo is None else max(g[0], lo)
    b = g[-1] if hi is None else min(g[-1], hi)
    if rng.random() < p_lowest and a == g[0]:
        return g[0]
    lines = [x for x in g[1:] if a <= x <= b]
    if lines and rng.random() < p_line:
        return rng.choice(lines)
    for _ in range(50):
        x = rng.uniform(a, b)
        # stay clear of the lines unless exactly on one: a point 1e-13 off a line is neither kind
        if all(abs(x - y) > 1e-7 for y in g) and a < x <= b:
            return x
    return 0.5 * (a + b) if all(abs(0.5 * (a + b) - y) > 1e-7 for y in g) else lines[0] if lines else b


def gen_case(rng):
    dateline = rng.random() < 0.18
    glat, glon, galt, gtime = gen_grid(rng, dateline)
    npts = rng.randint(2, 9)
    # exact poles: a deliberate, separately counted stream (kind 'pole'): all longitudes are one point there
    polar = rng.random() < 0.06 and (glat[0] <= -PI / 2 or glat[-1] >= PI / 2)
    lat_max = PI / 2 if polar else LAT_MAX
    lowest = rng.random() < 0.10           # may put points exactly on the lowest lat / lon line (F20 territory)
    p_low = 0.3 if lowest else 0.0
    kinds = []
    lats, lons = [], []
    span_lat = rng.choice([0.05, 0.3, 1.0, 3.2])
    span_lon = rng.choice([0.05, 0.3, 1.0, 2.9])
    if dateline:
        k = rng.randint(0, npts - 2)                 # segment k crosses
        east = rng.random() < 0.5                    # eastward: +pi side first
        kinds.append('dateline-east' if east else 'dateline-west')
    for i in range(npts):
        r = rng.random()
        if i > 0 and r < 0.14 and not (dateline and i == k + 1):
            lats.append(lats[-1]); lons.append(lons[-1]); kinds.append('repeat'); continue   # noqa: E702
        if dateline:
            pos_side = (i <= k) == east
            lo_, hi_ = (PI - span_lon, PI) if pos_side else (-PI, -PI + span_lon)
            lo_, hi_ = max(lo_, 0.0 if pos_side else -PI), min(hi_, PI if pos_side else 0.0)
        else:
            if i == 0:
                c = rng.uniform(glon[0], glon[-1])
            else:
                c = lons[-1]
            lo_, hi_ = c - span_lon, c + span_lon
        if i == 0:
            cl = rng.uniform(max(glat[0], -lat_max), min(glat[-1], lat_max))
        else:
            cl = lats[-1]
        # exact poles are outside the generated domain (see design.d/C04.md): all longitudes coincide there and
        # a computed intersection latitude one ulp beyond 90 degrees is outside pyproj's domain
        la_lo, la_hi = max(cl - span_lat, -lat_max), min(cl + span_lat, lat_max)
        if i > 0 and r < 0.26 and not dateline:
            lats.append(pick_coord(rng, glat, la_lo, la_hi, 0.3, p_low)); lons.append(lons[-1])   # noqa: E702
            kinds.append('meridian'); continue                                                    # noqa: E702
        if i > 0 and r < 0.38:
            lats.append(lats[-1]); lons.append(pick_coord(rng, glon, lo_, hi_, 0.3, p_low))       # noqa: E702
            kinds.append('parallel'); continue                                                    # noqa: E702
        if i > 0 and r < 0.46 and not dateline and len(glat) > 2 and len(glon) > 2:
            # corner to corner (through corners on a uniform grid)
            ia, ib = rng.randrange(len(glat)), rng.randrange(len(glon))
            if not lowest:
                ia, ib = max(ia, 1), max(ib, 1)
            if abs(glon[ib] - lons[-1]) < PI and abs(glat[ia]) <= lat_max:
                lats.append(glat[ia]); lons.append(glon[ib]); kinds.append('corner'); continue   # noqa: E702
        if polar and rng.random() < 0.3:
            lats.append(glat[-1] if (glat[-1] >= PI / 2 and (glat[0] > -PI / 2 or rng.random() < 0.5)) else glat[0])
        else:
            lats.append(pick_coord(rng, glat, la_lo, la_hi, 0.25, p_low))
        lons.append(pick_coord(rng, glon, lo_, hi_, 0.6 if abs(lats[-1]) >= PI / 2 else 0.25, p_low))
    if polar and any(abs(x) >= PI / 2 for x in lats):
        kinds.append('pole')
    if not dateline and rng.random() < 0.10:
        # a nearly zonal / nearly meridional leg whose tiny coordinate change straddles a grid line
        zonal = rng.random() < 0.5
        g, other = (glat, glon) if zonal else (glon, glat)
        cand = [x for x in g[1:-1] if x != 0.0 and (not zonal or abs(x) < LAT_MAX)]
        if cand:
            line, tiny = rng.choice(cand), rng.choice(TINY)
            if tiny == 'ulp':
                a, b = math.nextafter(line, -10.0), math.nextafter(line, 10.0)
            else:
                f = rng.uniform(0.2, 0.8)
                a, b = line - f * tiny, line + (1 - f) * tiny
            if rng.random() < 0.5:
                a, b = b, a
            olo, ohi = (other[0], other[-1]) if not zonal else (max(other[0], lons[-1] - 1.0), min(other[-1], lons[-1] + 1.0))
            if zonal:
                o0 = pick_coord(rng, other, olo, ohi, 0.2, 0.0)
                o1 = pick_coord(rng, other, max(other[0], o0 - 0.7), min(other[-1], o0 + 0.7), 0.2, 0.0)
                lats += [a, b]; lons += [o0, o1]                                    # noqa: E702
            else:
                o0 = pick_coord(rng, other, max(other[0], -LAT_MAX), min(other[-1], LAT_MAX), 0.2, 0.0)
                o1 = pick_coord(rng, other, max(other[0], o0 - 0.7, -LAT_MAX), min(other[-1], o0 + 0.7, LAT_MAX), 0.2, 0.0)
                if abs(a - lons[-1]) < PI:
                    lats += [o0, o1]; lons += [a, b]                                # noqa: E702
            kinds.append(('nearly-zonal:' if zonal else 'nearly-meridional:') + str(tiny))
    n = len(lats)
    alts = times = None
    if galt is not None and rng.random() < 0.85:
        p0 = 0.25 if rng.random() < 0.15 else 0.0          # altitude exactly 0 = lowest line (F20 territory)
        alts = [pick_coord(rng, galt, None, None, 0.2, p0) for _ in range(n)]
    if gtime is not None and rng.random() < 0.85:
        p0 = 0.5 if rng.random() < 0.1 else 0.0
        ts = [pick_coord(rng, gtime, None, None, 0.15, 0.0) for _ in range(n)]
        if rng.random() < 0.9:
            ts.sort()
        else:
            kinds.append('times-not-ascending')      # the time cell is that of each segment's start point regardless
        if rng.random() < p0:
            ts[0] = gtime[0]
        times = ts
    ns, ni = rng.randint(0, 3), rng.randint(0, 3)
    states = [[rng.uniform(-50, 900) for _ in range(n)] for _ in range(ns)]
    ints = []
    for _ in range(ni):
        style = rng.random()
        if style < 0.7:
            ints.append([rng.uniform(0.0, 500.0) for _ in range(n - 1)])
        elif style < 0.85:
            ints.append([rng.choice([0.0, 1.0, 2.5]) for _ in range(n - 1)])
        else:
            ints.append([float(rng.randint(1, 9)) for _ in range(n - 1)])
    return {'glat': glat, 'glon': glon, 'galt': galt, 'gtime': gtime, 'lats': lats, 'lons': lons,
            'alts': alts, 'times': times, 'states': states, 'ints': ints, 'kinds': sorted(set(kinds))}


def gen_top_row_case(rng):
    """Grid lines as LOWER cell edges (np.arange(-90, 90, res) / np.arange(-180, 180, res), the library's own
    n_cells = n_lat * n_lon convention): the northernmost cell row lies above the last latitude line and the easternmost
    column east of the last longitude line.  A route inside, into and out of that row / column (seeded/C04-11)."""
    import numpy as np
    res = rng.choice([2.0, 4.0, 5.0, 10.0, 15.0])
    glat = [float(x) for x in np.deg2rad(np.arange(-90.0, 90.0, res))]
    glon = [float(x) for x in np.deg2rad(np.arange(-180.0, 180.0, res))]
    top = 90.0 - res
    n = rng.randint(3, 7)
    lon = rng.uniform(-170.0, 60.0)
    pts = []
    if rng.random() < 0.6:
        pts.append((top - rng.uniform(0.3, 2.5) * res, lon))              # enters the row from below
    for _ in range(n):
        r = rng.random()
        la = rng.uniform(top + 0.05 * res, min(top + 0.95 * res, 89.6))
        if pts and r < 0.3:
            pts.append((la, pts[-1][1]))                                   # along a meridian
        elif pts and r < 0.5 and pts[-1][0] > top:
            lon += rng.uniform(3.0, 35.0)
            pts.append((pts[-1][0], lon))                                  # along a parallel
        else:
            lon += rng.uniform(3.0, 35.0)
            pts.append((la, lon))
    if rng.random() < 0.6:
        lon += rng.uniform(1.0, 20.0)
        pts.append((top - rng.uniform(0.3, 2.5) * res, lon))              # leaves it
    pts = [(la, lo) for la, lo in pts if all(abs(math.radians(lo) - g) > 1e-7 for g in glon)
           and all(abs(math.radians(la) - g) > 1e-7 for g in glat)]
    m = len(pts)
    return {'glat': glat, 'glon': glon, 'galt': None, 'gtime': None,
            'lats': [math.radians(a) for a, _ in pts], 'lons': [math.radians(b) for _, b in pts], 'alts': None,
            'times': None, 'states': [[rng.uniform(-50, 900) for _ in range(m)]],
            'ints': [[rng.uniform(1.0, 500.0) for _ in range(m - 1)], [1.0] * (m - 1)], 'kinds': ['top-row']}


def case_features(case):
    """coverage tags derived from the case itself"""
    f = set(case.get('kinds', []))
    glat, glon = case['glat'], case['glon']
    sl, so = set(glat), set(glon)
    import bisect
    for j in range(len(case['lats']) - 1):
        a = (case['lats'][j], case['lons'][j])
        b = (case['lats'][j + 1], case['lons'][j + 1])
        if a == b:
            f.add('zero-length')
            continue
        if abs(b[1] - a[1]) > PI:
            f.add('antimeridian')
            continue
        nla = abs(bisect.bisect_left(glat, a[0]) - bisect.bisect_left(glat, b[0]))
        nlo = abs(bisect.bisect_left(glon, a[1]) - bisect.bisect_left(glon, b[1]))
        if nla + nlo == 0:
            f.add('in-cell')
        if nla + nlo >= 3:
            f.add('many-lines')
        if nla and nlo:
            f.add('both-families')
        if b[0] < a[0]:
            f.add('southward')
        if b[1] < a[1]:
            f.add('westward')
        if a[0] == b[0]:
            f.add('along-parallel')
        if a[1] == b[1]:
            f.add('along-meridian')
    for la, lo in zip(case['lats'], case['lons']):
        if la in sl or lo in so:
            f.add('on-line')
        if la in sl and lo in so:
            f.add('on-corner')
        if la == glat[0] or lo == glon[0]:
            f.add('on-lowest-line')
    if len(glat) == 2 or len(glon) == 2:
        f.add('single-cell-axis')
    for nm, ax in (('lat', glat), ('lon', glon), ('alt', case['galt']), ('time', case['gtime'])):
        if ax and len(ax) > 2:
            steps = [b_ - a_ for a_, b_ in zip(ax[:-1], ax[1:])]
            if max(steps) > 1.001 * min(steps):
                f.add(f'uneven-{nm}-axis')
    if any(abs(x) == PI / 2 for x in case['lats']):
        f.add('point-on-pole')
    if case['alts'] and case['galt'] and any(x == case['galt'][0] for x in case['alts'][:-1]):
        f.add('alt-on-lowest-line')
    if case['times'] and case['gtime'] and any(x == case['gtime'][0] for x in case['times'][:-1]):
        f.add('time-on-lowest-line')
    return f


def load_corpus(pid):
    out = []
    for f in sorted((VERIF / 'corpus' / pid).glob('*.json')):
        out.append(json.loads(f.read_text())['case'])
    return out


# ----------------------------------------------------------------------------------------------
# shared driver: implementation + model on a list of cases
# ----------------------------------------------------------------------------------------------

def ms_case(case):
    """the same case with grid times / times as whole milliseconds (for the datetime64 differential run)"""
    if case['times'] is None or case['gtime'] is None:
        return None
    gt = [float(round(x * 1000.0)) for x in case['gtime']]
    if any(b_ <= a_ for a_, b_ in zip(gt[:-1], gt[1:])):
        return None
    return dict(case, gtime=gt, times=[float(round(x * 1000.0)) for x in case['times']])


def f32(vals):
    import numpy as np
    return [float(np.float32(x)) for x in vals]


def robustness_probes(case, st, iv, out):
    """Regressions the main oracle cannot see on a single call.  -> list of descriptions (each a property failure:
    the result of gridding must be a function of the numbers passed in, not of call history, array dtype or the
    unit the time axis is given in)."""
    probs = []
    g = gridder(case)
    first = run_impl(case, st, iv, g=g)
    if not same_out(first, out):
        probs.append('a fresh Gridder gives a different result for the same input')
    run_impl(case, case['states'], case['ints'], g=g)
    run_impl(case, st, iv, entry=TWIN, g=g)
    again = run_impl(case, st, iv, g=g)
    if not same_out(again, first):
        probs.append('the same call on the same Gridder gives a different result the second time (state is carried between calls)')
    # same numbers, other dtype for altitudes / times / variables
    c32 = dict(case, alts=None if case['alts'] is None else f32(case['alts']),
               times=None if case['times'] is None else f32(case['times']))
    st32, iv32 = [f32(v) for v in st], [f32(v) for v in iv]
    o32, o64 = run_impl(c32, st32, iv32, dtype='float32'), run_impl(c32, st32, iv32)
    if not (all(same_out(o32[k], o64[k]) for k in ('lat', 'lon', 'alt', 'time', 'states'))
            and len(o32['ints']) == len(o64['ints'])
            and all(len(x) == len(y) and all(close(p_, q_, rel=2e-6, abs_=1e-30) for p_, q_ in zip(x, y))
                    for x, y in zip(o32['ints'], o64['ints']))):
        probs.append('passing altitudes / times / variables as float32 arrays (same numbers) changes the result '
                     'beyond float32 rounding')
    # time axis as datetime64
    cm = ms_case(case)
    if cm is not None:
        if not same_out(run_impl(cm, st, iv, time_unit='ms'), run_impl(cm, st, iv)):
            probs.append('passing the time axis as datetime64[ms] instead of the same numbers changes the result')
    # latitudes / longitudes as float32: only gross properties (lengths, finiteness, never less)
    if not any(str(k_).startswith('nearly-') for k_ in case.get('kinds', [])) and \
            not any(abs(b_ - a_) > 3.0 for a_, b_ in zip(case['lons'][:-1], case['lons'][1:])) and \
            all(abs(x) <= PI / 2 for x in f32(case['lats'])):      # float32(pi/2) > pi/2 is not a latitude
        o32 = run_impl(case, st, iv, coord_dtype='float32')
        n = len(o32['lat'])
        if any(len(v) != n for v in o32['ints'] + o32['states'] + [o32['lon']]):
            probs.append('float32 coordinates: output arrays of different lengths')
        tot, ref = sum(o32['ints'][-1]), sum(out['ints'][-1])
        nseg = len(case['lats']) - 1
        # no upper bound: with float32 coordinates (ulp ~1e-7 rad) a short or nearly axis-parallel leg is the
        # FC04d situation at float32 scale
        if ref == ref and not (tot == tot and nseg * (1 - 1e-6) <= tot):
            probs.append(f'float32 coordinates: {nseg} unit segments are gridded to a total of {tot!r} '
                         f'(binary64 coordinates: {ref!r})')
    return probs


def evaluate(chk: Check, cases, pid='C04'):
    """-> list of dicts {case, out (instrumented impl output) | error, plain_ok, twin, probes, geo, vals}"""
    flags = detect_flags()
    tflags = detect_flags(entry=TWIN)
    chk.notes['tree_behaviour'] = flags
    chk.notes['tree_behaviour_twin'] = tflags
    res = []
    for case in cases:
        st, iv = instrumented(case)
        r = {'case': case, 'states': st, 'ints': iv}
        try:
            r['out'] = run_impl(case, st, iv)
            plain = run_impl(case, case['states'], case['ints'])
            o = r['out']
            r['plain_ok'] = (same_out(plain['lat'], o['lat']) and same_out(plain['lon'], o['lon'])
                             and same_out(plain['alt'], o['alt']) and same_out(plain['time'], o['time'])
                             and same_out(plain['states'], o['states'][:-1]) and same_out(plain['ints'], o['ints'][:-2]))
            r['twin'] = run_impl(case, st, iv, entry=TWIN)
            r['probes'] = robustness_probes(case, st, iv, o)
        except Exception as e:  # noqa: BLE001
            r['error'] = f'{type(e).__name__}: {e}'
        res.append(r)
    geos = chk.coq_eval(HEADER, [geometry_expr(r['case'], r['states'], flags) for r in res], shard=40, label='geom')
    exprs, idxs = [], []
    for k, (r, g) in enumerate(zip(res, geos)):
        if g is None:
            r['geo'] = None
            continue
        r['geo'] = parse_geometry(g)
        r['dds'] = attach_dists(r['geo'], flags['clipd'])
        exprs.append(values_expr(r['geo'], r['dds'], r['ints'], flags))
        idxs.append(k)
    vals = chk.coq_eval(HEADER, exprs, shard=40, label='vals')
    for k, v in zip(idxs, vals):
        res[k]['vals'] = None if v is None else [[float(x) for x in var] for var in v]
    # the public twin: where its output differs from grid_trajectory's (only possible while it is an inline copy with
    # other switch values) the model is evaluated again with the twin's switches
    need = [k for k, r in enumerate(res) if 'error' not in r and r['twin']['lat'] is not None
            and not same_out(r['twin'], r['out'])]
    if need and tflags != flags:
        tg = chk.coq_eval(HEADER, [geometry_expr(res[k]['case'], res[k]['states'], tflags) for k in need], shard=40,
                          label='tgeom')
        ex2, id2 = [], []
        for k, g in zip(need, tg):
            if g is None:
                continue
            geo = parse_geometry(g)
            res[k]['twin_geo'] = geo
            res[k]['twin_dds'] = attach_dists(geo, tflags['clipd'])
            ex2.append(values_expr(geo, res[k]['twin_dds'], res[k]['ints'], tflags))
            id2.append(k)
        tv = chk.coq_eval(HEADER, ex2, shard=40, label='tvals')
        for k, v in zip(id2, tv):
            res[k]['twin_vals'] = None if v is None else [[float(x) for x in var] for var in v]
    return res, flags


def twin_view(r):
    """the twin's output packaged like a result record, for the comparison functions"""
    return {'out': r['twin'], 'geo': r.get('twin_geo'), 'vals': r.get('twin_vals'), 'ints': r['ints'], 'case': r['case']}


def compare_values(r):
    """model vs implementation: number of pieces per segment, piece end points are not observable from outside,
    so: output length, integrated values (tolerance).  -> None or description"""
    out, geo = r['out'], r['geo']
    if geo['status'] == 2:
        if out['lat'] or any(out['ints']):
            return 'model: more than one antimeridian crossing gives empty output; implementation returned data'
        return None
    mv = r.get('vals')
    if mv is None:
        return 'model values missing'
    if len(mv) != len(out['ints']):
        return f'model has {len(mv)} integrated variables, implementation {len(out["ints"])}'
    for k, (a, b) in enumerate(zip(mv, out['ints'])):
        if len(a) != len(b):
            return f'integrated variable {k}: model has {len(a)} pieces, implementation {len(b)}'
        scale = max([abs(x) for x in r['ints'][k]] + [0.0])
        for p, (x, y) in enumerate(zip(a, b)):
            if not close(x, y, rel=1e-9, scale=scale, abs_=1e-11):
                return f'integrated variable {k} piece {p}: model {x!r}, implementation {y!r}'
    return None


def run(chk: Check):
    describe(chk)
    note_source(chk)
    chk.coq_props('props/C04_Props.v')
    translator_tie(chk, 'C04_Link.v')
    cases = (load_corpus('C04') + [gen_top_row_case(chk.rng) for _ in range(chk.n(25, 200))]
             + [gen_case(chk.rng) for _ in range(chk.n(1000, 8000))])
    check_cases(chk, cases)


def describe(chk: Check):
    chk.rule = ('grids of 1-60 cells per axis (global degree grids, regional uniform and irregular grids, single-cell axes; '
                'with/without altitude and time axes); 2-9 trajectory points inside the grid: interior, exactly on grid lines, '
                'on corners, on the lowest line, exactly on a pole (separate 6 % stream), repeated points, legs along '
                'meridians / parallels, corner-to-corner legs, southward / westward legs, one antimeridian crossing (both '
                'directions, both ends on +-pi), times ascending or not; 0-3 state and 0-3 integrated variables (plus '
                'instrumentation). Every case goes through BOTH public entry points (grid_trajectory and '
                'cells_touched_by_trajectory_with_state_and_integrated_variables) and through the robustness probes '
                '(fresh vs reused Gridder, repeated call, inputs not mutated, float32 variables, float32 coordinates, '
                'datetime64 time axis). non-trivial = some segment crosses at least one grid line, is zero-length, or '
                'crosses the antimeridian')
    chk.trusted += ['translator/c04_extract.py + translator/py2coq.py (regenerated kernels and conventions of gridding/grid.py)',
                    'harness/c04.py (+ c05.py): correspondence (model run inside Coq vs both entry points), generators, '
                    'brute-force parametric oracle, robustness probes; python mirror of C04_Model.attach_dists',
                    'pyproj/PROJ WGS-84 inverse geodesic: the oracle for the Section variable dist (hypotheses: non-negative, '
                    'triangle inequality); once FC04c is repaired dist is pyproj after clipping latitudes to +-pi/2',
                    'numpy semantics of searchsorted/sort/repeat/NaN padding as unrolled to lists in C04_Model.v']
    chk.assumptions += ['real-vs-binary64 gap of the model is not proved (bounded by the 1e-9 correspondence)',
                        'slope overflow / NaN or infinite coordinates are not modelled (inputs are finite points inside the grid)',
                        'grids are strictly increasing; points lie within [first line, last line] of every axis',
                        'exact poles ARE generated (kind point-on-pole in input_distribution); what is excluded is only '
                        'float32 coordinates whose rounding exceeds +-pi/2, and more than one antimeridian crossing '
                        '(documented: empty / None result)',
                        'float32 coordinates are checked only grossly (equal lengths, finiteness, never less); float32 variables to '
                        '2e-6 relative',
                        'C04 does not fix the latitude at which a crossing segment meets the antimeridian: the allowed '
                        'excess is accepted for the straight line and for the as-coded bent line (C05 decides that)']


def check_cases(chk: Check, cases):
    res, flags = evaluate(chk, cases)
    for r in res:
        case = r['case']
        feats = case_features(case)
        for f in feats:
            chk.count('kind:' + f)
        chk.count(f"grid:alt={'y' if case['galt'] else 'n'},time={'y' if case['gtime'] else 'n'}")
        chk.count(f"vars:state={len(case['states'])},integrated={len(case['ints'])}")
        chk.case(case, nontrivial=bool(feats & {'many-lines', 'both-families', 'zero-length', 'antimeridian',
                                                'on-line', 'on-corner'}) or 'in-cell' not in feats)
        if 'error' in r:
            chk.fail(f"Gridder.grid_trajectory raised {r['error']}", {'case': case}, signature=None)
            continue
        if not r['plain_ok']:
            chk.fail('adding a state and an integrated variable changed the other outputs', {'case': case}, None)
            continue
        probs = c04_oracle(case, r['out'])
        for desc, sig in probs:
            chk.fail(desc, {'case': case, 'impl_integrated': r['out']['ints']}, signature=sig)
        for desc in r['probes']:
            chk.fail(desc, {'case': case}, signature=None)
        check_twin(chk, r, flags, c04_oracle, compare_values, 'C04_Model.values',
                   lambda o: {'impl_integrated': o['ints']})
        if r.get('geo') is None:
            continue
        bad = compare_values(r)
        if bad:
            chk.broken('correspondence:C04_Model.values', bad, case)
        else:
            chk.traces_validated += 1


def check_twin(chk: Check, r, flags, oracle, compare, what, extra):
    """The public twin `cells_touched_by_trajectory_with_state_and_integrated_variables` goes through the same
    oracle and correspondence.  Where its output equals grid_trajectory's nothing more is needed; where it differs
    (only possible while it is an inline copy) the oracle is applied to it and the model, evaluated with the twin's
    own switches, must reproduce it.  Findings at this site carry the suffix ':twin'."""
    case, tw = r['case'], r['twin']
    if tw['lat'] is None:
        chk.count('twin:more-than-one-crossing->None')
        if not any_multi_crossing(case):
            chk.fail('[twin] returned None although the trajectory does not cross the antimeridian more than once',
                     {'case': case, 'entry': TWIN}, signature=None)
        return
    if same_out(tw, r['out']):
        chk.count('twin:identical-to-grid_trajectory')
        return
    chk.count('twin:differs-from-grid_trajectory')
    for desc, sig in oracle(case, tw):
        # findings located in the twin's own inline code get their own signature; those of the helpers both entry
        # points share (fraction rule, cell index, length of sub-segments) keep theirs
        if sig in (SIG_DL, SIG_Z):
            sig = sig + ':twin'
        chk.fail('[twin] ' + desc, {'case': case, 'entry': TWIN, **extra(tw)}, signature=sig)
    tflags = chk.notes.get('tree_behaviour_twin')
    if r.get('twin_geo') is not None:
        bad = compare(twin_view(r))
        if bad:
            chk.broken(f'correspondence:{what} (twin)', bad, case)
    elif tflags == flags:
        chk.broken(f'correspondence:{what} (twin)',
                   'the twin shows the same switch values as grid_trajectory but returns something else', case)


def note_source(chk: Check):
    """Import the module under check FIRST (before the Coq re-check, which takes seconds) and record which file
    and which content was checked: a tree that is swapped under a running check then shows in the evidence."""
    import hashlib

    from harness import common
    common.stub_shapely()
    import AEIC.gridding.grid as G
    src = Path(G.__file__)
    chk.notes['checked_source'] = {'file': str(src), 'sha1': hashlib.sha1(src.read_bytes()).hexdigest()}
    if not str(src.resolve()).startswith(str((common.REPO / 'src').resolve())):
        chk.broken('wrong-tree', f'AEIC.gridding.grid was imported from {src}, not from {common.REPO}/src')


def translator_tie(chk: Check, link: str):
    """Regenerate the numeric kernels / conventions of gridding/grid.py as Gallina text and re-check the link lemmas."""
    from harness.common import REPO
    from translator import c04_extract, py2coq
    name = 'extract:gridding/grid.py'
    try:
        text = c04_extract.extract_c04(REPO)
    except py2coq.Untranslatable as e:
        chk.obligations.append({'name': name, 'ok': False})
        chk.broken(name, str(e))
        return False
    chk.obligations.append({'name': name, 'ok': True})
    if chk.coq_compile_gen('C04_Extracted', text) is None:
        return False
    chk.notes['twin_delegates'] = 'x_twin_delegates : bool := true' in text
    chk.notes['dist_latitudes_clipped'] = 'x_clip_dist_lat : bool := true' in text
    return chk.coq_link(link)


def replay(chk: Check, rp):
    note_source(chk)
    chk.coq_props('props/C04_Props.v')
    translator_tie(chk, 'C04_Link.v')
    case = (rp.get('case') or {}).get('case')
    if case:
        check_cases(chk, [case])


def write_corpus(pid, name, case, note):
    d = Path(VERIF / 'corpus' / pid)
    d.mkdir(parents=True, exist_ok=True)
    (d / f'{name}.json').write_text(json.dumps({'note': note, 'case': case}, indent=1))

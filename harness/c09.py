"""C09 — a merged store equals the concatenation of its input stores.

Proof:  coq/props/C09_Props.v (merged_is_concat for every read sequence, locate = concat index, refusal of
        mismatching inputs).
Tie:    1..6 real input stores of uneven sizes, explicit lists and numbered patterns, merged and read at every seam,
        vs `Store_Model.run` inside Coq; base + associated families merged separately (oracle).
Oracle: plain Python list concatenation / dict.
"""
from harness import store_util as su
from harness.common import Check

COQ_TARGETS = su.COQ_TARGETS
PROPS = 'props/C09_Props.v'


def nontrivial(hist):
    """a completed merge of at least two inputs of different sizes followed by a read through the merged store"""
    sizes, cur, merged = {}, None, None
    for o in hist:
        if o['op'] == 'create':
            cur = tuple(o['p'])
        elif o['op'] == 'open_a':
            cur = tuple(o['p'])
        elif o['op'] == 'add' and o.get('kind', 'ok') == 'ok' and cur is not None:
            sizes[cur] = sizes.get(cur, 0) + 1
        elif o['op'] == 'merge':
            ss = [sizes.get(tuple(p), 0) for p in o['ins']]
            if len(ss) >= 2 and len(set(ss)) > 1:
                merged = tuple(o['out'])
        elif o['op'] == 'open_r' and merged is not None and tuple(o['p']) == merged:
            return True
    return False


def extra(chk: Check, cfg):
    su.assoc_merge_scenarios(chk, chk.rng, chk.n(8, 80))
    su.reserved_name_scenarios(chk)


def run(chk: Check):
    chk.rule = ('1..6 input stores of uneven sizes (with / without identifiers, one or two directories, occasional odd one '
                'out), merged by explicit list or numbered pattern (one in four merges is invalid: missing input, wrong '
                'extensions, existing output, empty list, shared file name, mixed field sets / identification), then opened: '
                'len, [] at every seam, one past the end, lookups of the first and last identifier of every part, iteration, '
                'refused add / sync / append; plus base + associated families merged separately.  Non-trivial = a completed '
                'merge of >= 2 inputs of different sizes read back through the merged store')
    gen = [{'name': f'gen:{i}', 'ops': su.gen_history(chk.rng, 'C09')} for i in range(chk.n(120, 1500))]
    su.run_property(chk, 'C09', PROPS, gen, nontrivial, scenarios=su.fieldset_order_scenarios(), extra=extra,
                    leftovers=False)


def replay(chk: Check, rp):
    su.replay_property(chk, rp, PROPS, nontrivial)

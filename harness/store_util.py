"""Shared machinery of the trajectory-store checks C07 C08 C09 C10.

* drives real `TrajectoryStore`s under `chk.tmp` with tiny payload trajectories identified by a tag,
* records, after every operation, the keys of the real LRU cache (the Coq model does not compute
  evictions: it is told which entries survived, and the theorems hold for every such choice),
* evaluates the Gallina model `Store_Model.run` on the same history inside Coq (vm_compute),
* evaluates an independent plain-Python list / dict oracle,
* classifies a disagreement with the oracle by the narrow formula of each known finding.

A history is a JSON list of operations; paths are triples (directory, name, ext) with ext 0 = ".nc",
1 = ".aeic-store", 2 = ".dat".
"""

from __future__ import annotations

import builtins
import gc
import json
import os
from pathlib import Path

from harness.common import Check, Raw, to_coq  # noqa: F401

COQ_TARGETS = ['model/Store_Model.v', 'proofs/Store_Proofs.v', 'proofs/Store_Refine.v',
               'proofs/Store_MergeProofs.v', 'proofs/Store_MergedReads.v', 'proofs/Store_Corollaries.v']

HEADER = '''From Coq Require Import ZArith List Bool.
From AV Require Import model.Store_Model proofs.Store_Proofs proofs.Store_Refine proofs.Store_Corollaries.
Import ListNotations.
Fixpoint run_keys (c : cfg) (w : world) (ops : list op) : list (out * list nat) * list (nat * nat * Z * nview) :=
  match ops with
  | [] => ([], view (w_fs w))
  | o :: r => let '(w1, x) := step c w o in
              let '(xs, v) := run_keys c w1 r in
              ((x, match w_h w1 with Some h => map fst (h_cache h) | None => [] end) :: xs, v)
  end.
Definition P (d b : nat) (e : Z) : path := mkPath d b (if (e =? 0)%Z then XNc else if (e =? 1)%Z then XStore else XOther).
Definition T (tag : Z) (i : option Z) (sg : Z) (k : Z) (sz : nat) : traj := mkTraj tag i sg (if (k =? 0)%Z then TOk else TMissingReq) sz.
'''

FINDINGS = ('F5', 'F6', 'F7', 'F8', 'C08a', 'C09a', 'C10a', 'C07a', 'C07b')
SIG = {
    'F5': 'append-session-uncached-read-returns-shifted-item',
    'F6': 'add-missing-required-not-validated-before-mutation',
    'F7': 'refused-merge-leaves-output-directory',
    'F8': 'inmemory-identified-store-keyerror-base',
    'C08a': 'append-to-unidentified-store-accepts-identified-trajectory',
    'C09a': 'merge-inputs-sharing-a-file-name-overwrite-each-other',
    'C10a': 'append-session-empty-cache-skips-fieldset-check',
    'C07a': 'read-of-a-trajectory-larger-than-the-cache-raises-value-too-large',
    'C07b': 'file-backed-add-of-a-trajectory-larger-than-the-cache-refused-value-too-large',
    'C09b': 'merge-input-named-like-the-merged-index-file',
    'C10b': 'first-add-lacking-declared-associated-fieldset-creates-files-then-fails',
}
REJECT = ('ESchema', 'EIdUse', 'ERequired')
REFUSE = ('EMissing', 'ENotNc', 'EBadExt', 'EExists', 'EDupNames', 'EFieldsets', 'EIdMix', 'EAssert', 'EArgs')

PF = ['fuel_flow', 'aircraft_mass', 'fuel_mass', 'ground_distance', 'altitude', 'flight_level', 'rate_of_climb',
      'flight_time', 'latitude', 'longitude', 'azimuth', 'heading', 'true_airspeed', 'ground_speed']
XFS = 'c07x'          # the extra field set: one per-trajectory int32 `atag`


class InjectedFault(OSError):
    """what a failing file-system call raises: an OSError, as the real ones do (so that code which swallows
    OSErrors is exercised too)"""


class Env:
    """Lazy access to AEIC (imported inside the check process only)."""
    _e = None

    @classmethod
    def get(cls):
        if cls._e is None:
            import netCDF4 as nc4
            import numpy as np

            from AEIC.storage import Dimension, Dimensions, FieldMetadata, FieldSet
            from AEIC.trajectories import TrajectoryStore
            from AEIC.trajectories import store as store_mod
            from AEIC.trajectories.trajectory import Trajectory
            e = cls()
            e._sizes = {}
            e.np, e.nc4, e.TS, e.Trajectory, e.FieldSet, e.store_mod = np, nc4, TrajectoryStore, Trajectory, FieldSet, store_mod
            if not FieldSet.known(XFS):
                FieldSet(XFS, atag=FieldMetadata(dimensions=Dimensions(Dimension.TRAJECTORY), field_type=np.int32,
                                                description='verification tag', units='1'))
            e.nb = max(e.mk(0, None, 0, 'ok').nbytes, e.mk(0, 1, 1, 'ok').nbytes)
            gc.collect()
            gc.freeze()          # TrajectoryStore.close() calls gc.collect(); keep that cheap
            cls._e = e
        return cls._e

    def mk(self, tag, fid, sig, kind, which='starting_mass', npts=2):
        np = self.np
        t = self.Trajectory(npts)
        for f in PF:
            setattr(t, f, np.full(npts, float(tag)))
        if not (kind == 'missing' and which == 'starting_mass'):
            t.starting_mass = float(tag)
        if not (kind == 'missing' and which == 'total_fuel_mass'):
            t.total_fuel_mass = float(tag)
        t.n_climb = 1
        t.n_cruise = 1
        t.n_descent = npts - 2
        if fid is not None:
            t.flight_id = fid
        if sig == 1:
            t.add_fields(self.FieldSet.from_registry(XFS))
            t.atag = 1000 + tag
        return t

    def cache_mb(self, nbytes):
        """cache_size_mb for a cache of `nbytes` bytes (None: the default, never reached here)."""
        if nbytes is None:
            return 2048
        return (nbytes + 0.5) / (1024.0 * 1024.0)

    def size_of(self, npts, sig):
        """Trajectory.nbytes of a payload trajectory: what the LRU cache charges for it"""
        key = (npts, sig)
        if key not in self._sizes:
            self._sizes[key] = int(self.mk(0, None, sig, 'ok', npts=npts).nbytes)
        return self._sizes[key]


NB = 288          # size of the default 2-point payload with the extra field set (284 without)


def cap_of(o, big=False):
    """capacity in bytes of the cache a create / open operation asks for (None: never reached).
    'cache': k = room for k default payloads; 'cache_b': bytes.  In-memory: 'cap' / 'cap_b'."""
    if big:
        return 2           # integer-cache-size scenarios: all payloads equal, unit = one payload, 1 MB holds two
    if o.get('cache_b') is not None:
        return int(o['cache_b'])
    if o.get('cap_b') is not None:
        return int(o['cap_b'])
    k = o.get('cap') if o['op'] == 'create_mem' else o.get('cache')
    return None if k is None else k * NB + 100


def size_of_add(o, big=False):
    if big:
        return 1
    npts = o.get('npts', 2)
    return 112 * npts + 60 + (4 if o.get('sig', 0) == 1 else 0)


def tag_of(t):
    return int(t.fuel_flow[0])


def real_path(root: Path, p) -> Path:
    d, b, e = p
    name = {0: f's{b}.nc', 1: f'm{b}.aeic-store', 2: f'x{b}.dat'}[e]
    return root / f'd{d}' / name


def err_of(ex: BaseException) -> str:
    m = str(ex)
    n = type(ex).__name__
    if isinstance(ex, InjectedFault):
        return 'ECrash'
    if n == 'EvictionOccurred':
        return 'EFull'
    if isinstance(ex, IndexError):
        return 'EIndex'
    if isinstance(ex, KeyError):
        return 'EKeyBase' if "'base'" in m else f'Other:KeyError:{m}'
    if isinstance(ex, AssertionError):
        return 'EAssert'
    if isinstance(ex, json.JSONDecodeError):
        return 'EBadMeta'
    if isinstance(ex, AttributeError):
        return 'EAttr'
    if isinstance(ex, TypeError):
        return 'ECorrupt' if 'cannot cast' in m else f'Other:TypeError:{m[:60]}'
    if isinstance(ex, RuntimeError):
        if 'not opened in write mode' in m:
            return 'ENotWritable'
        if 'non-indexable' in m:
            return 'ENotIndexable'
        return f'Other:RuntimeError:{m[:60]}'
    if isinstance(ex, FileNotFoundError):
        return 'EMissing'
    if isinstance(ex, ValueError):
        for pat, code in (('same data fields', 'ESchema'), ('must have flight_id', 'EIdUse'), ('is None', 'ERequired'),
                          ('already exists', 'EExists'), ('does not exist', 'EMissing'),
                          ('is not a NetCDF file', 'ENotNc'), ('".aeic-store"', 'EBadExt'),
                          ('distinct file names', 'EDupNames'), ('same field sets', 'EFieldsets'),
                          ('Either all or none', 'EIdMix'), ('only be opened in READ mode', 'EMergedAppend'),
                          ('Metadata file missing', 'ENoMeta'), ('No stores listed', 'EBadMeta'),
                          ('value too large', 'ETooLarge'), ('Specify either', 'EArgs'),
                          ('must also be specified', 'EArgs')):
            if pat in m:
                return code
        return f'Other:ValueError:{m[:60]}'
    return f'Other:{n}:{m[:60]}'


# ---------------------------------------------------------------------------------------------
# fault injection: the k-th file-system call of merge raises before taking effect
# ---------------------------------------------------------------------------------------------
class Inject:
    def __init__(self, budget):
        self.budget = budget
        self.calls = 0
        self.fired = False
        self.log = []

    def _wrap(self, name, fn):
        def w(*a, **k):
            if self.budget is not None and self.calls == self.budget and not self.fired:
                # ONE call fails (a transient I/O error); code that swallows it carries on with working calls
                self.fired = True
                self.log.append(name + '!')
                raise InjectedFault(f'injected failure at call {self.calls} ({name})')
            self.calls += 1
            self.log.append(name)
            return fn(*a, **k)
        return w

    def __enter__(self):
        e = Env.get()
        self.saved = (os.mkdir, os.rename, e.nc4.Dataset, json.dump)
        os.mkdir = self._wrap('mkdir', os.mkdir)
        os.rename = self._wrap('rename', os.rename)
        e.nc4.Dataset = self._wrap('Dataset', e.nc4.Dataset)
        json.dump = self._wrap('dump', json.dump)
        real_open = builtins.open
        inj = self

        def open_w(file, mode='r', *a, **k):
            if 'w' in mode:
                return inj._wrap('open', real_open)(file, mode, *a, **k)
            return real_open(file, mode, *a, **k)
        e.store_mod.open = open_w
        return self

    def __exit__(self, *exc):
        e = Env.get()
        os.mkdir, os.rename, e.nc4.Dataset, json.dump = self.saved
        try:
            del e.store_mod.open
        except AttributeError:
            pass
        return False


# ---------------------------------------------------------------------------------------------
# running a history on the implementation
# ---------------------------------------------------------------------------------------------
def impl_run(root: Path, hist):
    """-> (records, view).  records[k] = {'out': ..., 'keys': [...] | None, 'keeps': [[...]] (iter only)}"""
    e = Env.get()
    TS = e.TS
    root.mkdir(parents=True, exist_ok=True)
    ts = None
    has_assoc = False
    its = {}                 # live iterators of the current store object
    recs = []
    big = any(o.get('big') for o in hist)

    def keys():
        if ts is None or ts.base_file is None:
            return None
        return sorted(int(k) for k in ts._trajectories.keys())

    def cache_arg(o):
        return 1 if o.get('big') else e.cache_mb(cap_of(o))

    for o in hist:
        k = o['op']
        rec = {'out': 'OUnit', 'keys': None}
        if ts is None and k in ('add', 'get', 'len', 'iter', 'sync', 'close', 'get_flight', 'iter_new', 'iter_next'):
            rec['out'] = ['OErr', 'ENoHandle']      # no store object to call (an earlier open was refused)
            recs.append(rec)
            continue
        if ts is not None and k in ('create', 'create_mem', 'open_r', 'open_a', 'merge', 'inject_assoc'):
            rec['out'] = ['OErr', 'EBusy']          # the histories keep one live handle (model restriction)
            recs.append(rec)
            continue
        try:
            if k == 'create':
                p = real_path(root, o['p'])
                p.parent.mkdir(parents=True, exist_ok=True)
                ts = TS.create(base_file=p, cache_size_mb=cache_arg(o))
                has_assoc = False
            elif k == 'create_mem':
                ts = TS.create(cache_size_mb=e.cache_mb(cap_of(o)))
            elif k == 'open_r':
                kw = {}
                if o.get('assoc'):
                    kw['associated_files'] = [real_path(root, q) for q in o['assoc']]
                ts = TS.open(base_file=real_path(root, o['p']), cache_size_mb=cache_arg(o), **kw)
                has_assoc = bool(o.get('assoc'))
            elif k == 'inject_assoc':
                # an associated store file: written by a create session whose (throw-away) base file lives outside
                # the modelled directories; its records are atag = 1000 + tag
                p = real_path(root, o['p'])
                if p.exists():
                    raise ValueError(f'{p} already exists')
                p.parent.mkdir(parents=True, exist_ok=True)
                aux = root / '_aux'
                aux.mkdir(exist_ok=True)
                with TS.create(base_file=aux / f'b{len(list(aux.iterdir()))}.nc', associated_files=[(p, [XFS])]) as tmp:
                    for t_ in o['tags']:
                        tmp.add(e.mk(t_, None, 1, 'ok'))
            elif k == 'open_a':
                ts = TS.append(base_file=real_path(root, o['p']), cache_size_mb=cache_arg(o))
                has_assoc = False
            elif k == 'add':
                tr = e.mk(o['tag'], o.get('fid'), o.get('sig', 0), o.get('kind', 'ok'),
                          o.get('which', 'starting_mass'), 4000 if big else o.get('npts', 2))
                if not big and o.get('kind', 'ok') == 'ok':
                    assert int(tr.nbytes) == size_of_add(o), (int(tr.nbytes), size_of_add(o))
                idx = ts.add(tr)
                rec['out'] = ['OIdx', int(idx)]
            elif k == 'get':
                tr = ts[o['i']]
                rec['out'] = ['OItemA', tag_of(tr), [int(tr.atag)]] if has_assoc else ['OItem', tag_of(tr)]
            elif k == 'len':
                rec['out'] = ['OLen', int(len(ts))]
            elif k == 'iter':
                tags, keeps, er = [], [], None
                it = iter(ts)
                while True:
                    try:
                        t = next(it)
                    except StopIteration:
                        break
                    except Exception as ex:  # noqa: BLE001
                        er = err_of(ex)
                        break
                    tags.append(tag_of(t))
                    keeps.append(keys() or [])
                rec['out'] = ['OItems', tags, er]
                rec['keeps'] = keeps
            elif k == 'iter_new':
                its[o['k']] = iter(ts)
            elif k == 'iter_next':
                if o['k'] not in its:
                    rec['out'] = ['OErr', 'ENoHandle']
                else:
                    try:
                        rec['out'] = ['OItem', tag_of(next(its[o['k']]))]
                    except StopIteration:
                        rec['out'] = 'OStop'
            elif k == 'sync':
                ts.sync()
            elif k == 'close':
                ts.close()
                ts = None
                its = {}
            elif k == 'get_flight':
                t = ts.get_flight(o['id'])
                rec['out'] = 'ONone' if t is None else ['OItem', tag_of(t)]
            elif k == 'merge':
                out = real_path(root, o['out'])
                out.parent.mkdir(parents=True, exist_ok=True)
                ins = [real_path(root, p) for p in o['ins']]
                kw = {}
                if o.get('pattern') is not None:
                    d, lo, hi = o['pattern']
                    kw = dict(input_stores_pattern=root / f'd{d}' / 's{index}.nc', input_stores_index_range=(lo, hi))
                else:
                    kw = dict(input_stores=ins)
                with Inject(o.get('fault')) as inj:
                    try:
                        TS.merge(output_store=out, **kw)
                    finally:
                        rec['calls'] = list(inj.log)
                gc.collect()
            else:
                raise ValueError(f'unknown op {k}')
        except Exception as ex:  # noqa: BLE001
            rec['out'] = ['OErr', err_of(ex)]
            if k in ('create', 'create_mem', 'open_r', 'open_a'):
                ts = None
                has_assoc = False
                its = {}
            if k == 'close' and ts is not None:
                # as found, close() of a wedged store raises before releasing anything; release the files so
                # that later operations of this history are not disturbed (the comparison stops here anyway)
                try:
                    ts.index_stale = False
                    ts.close()
                except Exception:  # noqa: BLE001
                    pass
                rec['close_failed'] = True
        if k == 'merge':
            # merge() never closes the stores it opens to validate / index its inputs; they are released when the
            # last reference (here: the traceback of a refusal) goes away
            gc.collect()
        rec['keys'] = keys()
        recs.append(rec)
    if ts is not None:
        try:
            ts.close()
        except Exception:  # noqa: BLE001  (as-found: close of a wedged store raises; release the files anyway)
            try:
                ts.index_stale = False
                ts.close()
            except Exception:  # noqa: BLE001
                pass
    gc.collect()
    return recs, real_view(root)


def raw_tags(path: Path):
    """payload tags of a store file, read with netCDF4 directly (not through the code under test)."""
    e = Env.get()
    ds = e.nc4.Dataset(path, 'r')
    try:
        if 'base' not in ds.groups:          # an associated store: its records are the atag values
            v = ds.groups[XFS].variables['atag']
            return [int(v[i]) for i in range(len(ds.dimensions['trajectory']))]
        v = ds.groups['base'].variables['fuel_flow']
        # (a record that was skipped over has empty pointwise arrays: -1)
        return [int(v[i][0]) if len(v[i]) else -1 for i in range(len(ds.dimensions['trajectory']))]
    finally:
        ds.close()


def real_view(root: Path):
    """canonical listing of everything under root: [[d, b, e, node]] sorted."""
    e = Env.get()
    out = []
    for dd in sorted(root.glob('d*')):
        d = int(dd.name[1:])
        for f in sorted(dd.iterdir()):
            nm = f.name
            if nm.startswith('s') and nm.endswith('.nc') and f.is_file():
                out.append([d, int(nm[1:-3]), 0, ['VFile', raw_tags(f)]])
            elif nm.startswith('x') and nm.endswith('.dat') and f.is_file():
                out.append([d, int(nm[1:-4]), 2, ['VFile', raw_tags(f)]])
            elif nm.startswith('m') and nm.endswith('.aeic-store') and f.is_dir():
                members = []
                idx = 0
                meta = None
                mcode = 0
                for g in sorted(f.iterdir()):
                    if g.name.startswith('s') and g.name.endswith('.nc'):
                        members.append([int(g.name[1:-3]), raw_tags(g)])
                    elif g.name == '_index.nc':
                        idx = 1
                        try:
                            ds = e.nc4.Dataset(g, 'r')
                            try:
                                if '_index' in ds.groups and len(ds.groups['_index'].variables['flight_id']) > 0:
                                    idx = 2
                            finally:
                                ds.close()
                        except Exception:  # noqa: BLE001
                            idx = 1
                    elif g.name == 'metadata.json':
                        mcode = 1
                        try:
                            md = json.loads(g.read_text())
                            meta = [[int(s[0][1:-3]), int(s[1])] for s in md['stores']]
                            mcode = 2
                        except Exception:  # noqa: BLE001
                            meta = None
                out.append([d, int(nm[1:-len('.aeic-store')]), 1, ['VDir', sorted(members), idx, meta, mcode]])
            else:
                out.append([d, -1, 2, ['Other', nm]])
    return sorted(out, key=lambda x: (x[0], x[2], x[1]))


# ---------------------------------------------------------------------------------------------
# the history as Coq text, the model's answer
# ---------------------------------------------------------------------------------------------
def coq_path(p):
    return f'(P {p[0]} {p[1]} {p[2]})'


def coq_nats(l):
    return '[' + '; '.join(str(int(x)) for x in l) + ']'


def coq_cap(c):
    assert c is None or 0 <= c < 5000, 'no large nat literals'
    return 'None' if c is None else f'(Some {int(c)})'


def coq_op(o, rec=None, big=False, assoc=None):
    k = o['op']
    if k == 'create':
        return f"Create {coq_path(o['p'])} {coq_cap(cap_of(o, big))}"
    if k == 'create_mem':
        return f"CreateMem {int(cap_of(o, big))}"
    if k == 'open_r':
        return f"OpenR {coq_path(o['p'])} {coq_cap(cap_of(o, big))}"
    if k == 'open_a':
        return f"OpenA {coq_path(o['p'])} {coq_cap(cap_of(o, big))}"
    if k == 'add':
        fid = 'None' if o.get('fid') is None else f"(Some ({int(o['fid'])})%Z)"
        return (f"Add (T ({int(o['tag'])}) {fid} ({int(o.get('sig', 0))}) ({0 if o.get('kind', 'ok') == 'ok' else 1}) "
                f"{int(size_of_add(o, big))})")
    if k == 'get':
        if assoc:
            return f"GetA {int(o['i'])} [{'; '.join(coq_path(q) for q in assoc)}]"
        return f"Get {int(o['i'])}"
    if k == 'inject_assoc':
        return f"Inject {coq_path(o['p'])} [{'; '.join(f'({1000 + int(t)})%Z' for t in o['tags'])}]"
    if k == 'len':
        return 'Len'
    if k == 'iter':
        keeps = (rec or {}).get('keeps') or []
        return 'Iter [' + '; '.join(coq_nats(x) for x in keeps) + ']'
    if k == 'iter_new':
        return f"IterNew {int(o['k'])}"
    if k == 'iter_next':
        return f"IterNext {int(o['k'])}"
    if k == 'sync':
        return 'Sync'
    if k == 'close':
        return 'Close'
    if k == 'get_flight':
        return f"GetFlight ({int(o['id'])})"
    if k == 'merge':
        f = 'None' if o.get('fault') is None else f"(Some {int(o['fault'])})"
        return f"Merge {coq_path(o['out'])} [{'; '.join(coq_path(p) for p in o['ins'])}] {f}"
    raise ValueError(k)


def coq_cfg(cfg):
    return '(mkCfg ' + ' '.join('true' if cfg[f] else 'false' for f in FINDINGS) + ')'


def coq_history(hist, recs):
    """operations interleaved with the eviction choices the real LRU cache made"""
    ops = []
    big = any(o.get('big') for o in hist)
    assoc = None
    for o, r in zip(hist, recs):
        if o['op'] in ('create', 'create_mem', 'open_r', 'open_a', 'close'):
            assoc = None
        if o['op'] == 'open_r' and o.get('assoc') and r['out'] == 'OUnit':
            assoc = o['assoc']
        ops.append(coq_op(o, r, big, assoc))
        if r['keys'] is not None and o['op'] != 'close':
            ops.append(f"Evict {coq_nats(r['keys'])}")
    return ops


def model_out(v):
    """parsed Coq `out` -> the JSON form used for implementation outputs"""
    if v in ('OUnit', 'ONone', 'OStop'):
        return v
    if isinstance(v, tuple):
        h = v[0]
        if h in ('OIdx', 'OItem', 'OLen'):
            return [h, int(v[1])]
        if h == 'OErr':
            return ['OErr', str(v[1])]
        if h == 'OItems':
            return ['OItems', [int(x) for x in v[1]], None if v[2] is None else str(v[2])]
        if h == 'OItemA':
            return ['OItemA', int(v[1]), [int(x) for x in v[2]]]
    raise ValueError(f'model output {v!r}')


def model_view(v):
    out = []
    for (d, b, e, node) in v:
        if node[0] == 'VFile':
            nd = ['VFile', [int(x) for x in node[1]]]
        else:
            meta = None if node[3] is None else [[int(a), int(b_)] for (a, b_) in node[3]]
            nd = ['VDir', sorted([[int(a), [int(x) for x in ts]] for (a, ts) in node[1]]), int(node[2]), meta, int(node[4])]
        out.append([int(d), int(b), int(e), nd])
    return sorted(out, key=lambda x: (x[0], x[2], x[1]))


# ---------------------------------------------------------------------------------------------
# the oracle: per path a plain list, lookup through a plain dict
# ---------------------------------------------------------------------------------------------
HOLE = 'HOLE'


class Oracle:
    """Reference semantics of the property texts.  `f6=True` is the same oracle extended by the formula of
    finding F6 (a rejected missing-required addition to a file store leaves a hole; an in-memory store accepts
    it): used only to recognise that finding narrowly."""

    def __init__(self, f6=False, big=False):
        self.big = big         # integer-cache-size scenarios: unit sizes
        self.sizes = {}        # tag -> size of the payload (what a cache is charged for it)
        self.files = {}        # path -> {'items': [(tag, fid)], 'sig', 'ident'}
        self.merged = {}       # path -> [{'items', 'sig', 'ident'}]
        self.limbo = False     # after an interrupted merge the places of the inputs are not determined
        self.h = None
        self.f6 = f6

    @staticmethod
    def key(p):
        return tuple(p)

    def items(self):
        h = self.h
        if h['kind'] == 'mem':
            return h['items']
        if h['kind'] == 'merged':
            return [x for part in self.merged[h['path']] for x in part['items']]
        st = self.files.get(h['path'])
        return st['items'] if st else []

    def definition(self):
        h = self.h
        if h['kind'] == 'mem':
            return h['def']
        if h['kind'] == 'merged':
            parts = self.merged[h['path']]
            return (parts[0]['sig'], all(p['ident'] for p in parts))
        st = self.files.get(h['path'])
        return (st['sig'], st['ident']) if st else None

    def undo_last_add(self):
        h = self.h
        if h is None or h['kind'] != 'file' or h['path'] not in self.files:
            return
        st = self.files[h['path']]
        if st['items']:
            st['items'].pop()
            h['adds'] -= 1
        if not st['items'] and h['mode'] == 'create':
            del self.files[h['path']]

    def ctx(self):
        h = self.h
        if h is None:
            return None
        return {'kind': h['kind'], 'mode': h['mode'], 'n_open': h['n_open'], 'adds': h['adds'],
                'touched': h['touched'], 'items': list(self.items()), 'def': self.definition(),
                'rejected_missing': h['rejected_missing'], 'path': h.get('path'), 'cap': h.get('cap'),
                'sizes': self.sizes}

    def step(self, o):
        k = o['op']
        h = self.h
        if self.limbo:
            if k in ('open_r', 'open_a') :
                self.h = None
            return ['Any']
        if h is None and k in ('add', 'get', 'len', 'iter', 'sync', 'close', 'get_flight', 'iter_new', 'iter_next'):
            return ['OErr', 'ENoHandle']
        if h is not None and k in ('create', 'create_mem', 'open_r', 'open_a', 'merge', 'inject_assoc'):
            return ['OErr', 'EBusy']
        if k == 'inject_assoc':
            p = self.key(o['p'])
            if p in self.files or p in self.merged:
                return ['OErr', 'EExists']
            self.files[p] = {'items': [(1000 + t, None) for t in o['tags']], 'sig': 2, 'ident': False}
            return 'OUnit'
        if k == 'create':
            p = self.key(o['p'])
            if p in self.files or p in self.merged:
                return ['OErr', 'EExists']
            self.h = dict(kind='file', path=p, mode='create', n_open=0, adds=0, touched=False, rejected_missing=0,
                          cap=cap_of(o, self.big))
            return 'OUnit'
        if k == 'create_mem':
            self.h = dict(kind='mem', items=[], cap=cap_of(o, self.big), used=0, mode='create', **{'def': None}, n_open=0,
                          adds=0, touched=False, rejected_missing=0)
            return 'OUnit'
        if k in ('open_r', 'open_a'):
            p = self.key(o['p'])
            if p in self.merged:
                if k == 'open_a':
                    return ['OErr', 'EMergedAppend']
                self.h = dict(kind='merged', path=p, mode='read', n_open=len([x for q in self.merged[p] for x in q['items']]),
                              adds=0, touched=False, rejected_missing=0, cap=cap_of(o, self.big),
                              assoc=[self.key(q) for q in o.get('assoc', [])])
                return 'OUnit'
            if p not in self.files:
                return ['OErr', 'EMissing']
            self.h = dict(kind='file', path=p, mode='read' if k == 'open_r' else 'append',
                          n_open=len(self.files[p]['items']), adds=0, touched=False, rejected_missing=0,
                          cap=cap_of(o, self.big))
            return 'OUnit'
        if k == 'add':
            if h['mode'] == 'read':
                return ['OErr', 'ENotWritable']
            d = self.definition()
            has_id = o.get('fid') is not None
            sig = o.get('sig', 0)
            size = size_of_add(o, self.big)
            ok = o.get('kind', 'ok') == 'ok' and (d is None or (d[0] == sig and d[1] == has_id))
            if not ok:
                if self.f6 and o.get('kind', 'ok') == 'missing' and (d is None or (d[0] == sig and d[1] == has_id)):
                    if h['kind'] == 'mem':
                        if size > h['cap']:
                            return ['OErr', 'ETooLarge']
                        if h['used'] + size > h['cap']:
                            return ['OErr', 'EFull']
                        n = len(h['items'])
                        h['used'] += size
                        h['items'].append((o['tag'], o.get('fid')))
                        if h['def'] is None:
                            h['def'] = (sig, has_id)
                        return ['OIdx', n]
                    st = self.files.setdefault(h['path'], {'items': [], 'sig': sig, 'ident': has_id})
                    st['items'].append((HOLE, o['tag']))
                    h['adds'] += 1                 # physically the file has grown
                h['rejected_missing'] += 1 if o.get('kind', 'ok') == 'missing' else 0
                return ['OErr', 'EReject']
            # the store keeps every trajectory it accepted; one that is larger than the whole cache is refused,
            # and an in-memory store refuses what does not fit any more (it cannot evict)
            if h['kind'] == 'mem' and size > h['cap']:
                return ['OErr', 'ETooLarge']
            if h['kind'] == 'mem':
                if h['used'] + size > h['cap']:
                    return ['OErr', 'EFull']
                n = len(h['items'])
                h['used'] += size
                h['items'].append((o['tag'], o.get('fid')))
                if h['def'] is None:
                    h['def'] = (sig, has_id)
            else:
                st = self.files.setdefault(h['path'], {'items': [], 'sig': sig, 'ident': has_id})
                n = len(st['items'])
                st['items'].append((o['tag'], o.get('fid')))
            h['adds'] += 1
            h['touched'] = True
            self.sizes[o['tag']] = size
            return ['OIdx', n]
        if k == 'get':
            it = self.items()
            if h.get('assoc'):
                # data held in separately merged associated stores: the i-th record of each store's own concatenation
                cols = [[x for part in self.merged[q] for x in part['items']] for q in h['assoc']]
                if o['i'] < len(it) and all(o['i'] < len(c) for c in cols):
                    h['touched'] = True
                    return ['OItemA', it[o['i']][0], [c[o['i']][0] for c in cols]]
                return ['OErr', 'EIndex']
            if o['i'] < len(it):
                h['touched'] = True           # something is cached from now on
                x = it[o['i']]
                return ['OItemAny', [x[1]]] if x[0] == HOLE else ['OItem', x[0]]
            return ['OErr', 'EIndex']
        if k == 'iter_new':
            h.setdefault('iters', {})[o['k']] = 0          # every iterator has its own cursor
            return 'OUnit'
        if k == 'iter_next':
            cur = h.get('iters', {}).get(o['k'])
            if cur is None:
                return ['OErr', 'ENoHandle']
            it = self.items()
            if cur < len(it):
                h['iters'][o['k']] = cur + 1
                h['touched'] = True
                x = it[cur]
                return ['OItemAny', [x[1]]] if x[0] == HOLE else ['OItem', x[0]]
            return 'OStop'
        if k == 'len':
            return ['OLen', len(self.items())]
        if k == 'iter':
            it = self.items()
            h['touched'] = h['touched'] or len(it) > 0
            if any(x[0] == HOLE for x in it):
                return ['OItemsHoles', [x[1] if x[0] == HOLE else x[0] for x in it], [x[0] == HOLE for x in it]]
            return ['OItems', [x[0] for x in it], None]
        wedged = self.f6 and h is not None and h['kind'] == 'file' and (self.definition() or (0, False))[1] \
            and any(x[0] == HOLE for x in self.items())
        if k == 'sync':
            if wedged and h['mode'] != 'read':
                return ['F6Wedged', 'OUnit']
            return ['OErr', 'ENotWritable'] if h['mode'] == 'read' else 'OUnit'
        if k == 'close':
            self.h = None
            return ['F6Wedged', 'OUnit'] if wedged else 'OUnit'
        if k == 'get_flight':
            d = self.definition()
            if d is None or not d[1]:
                return ['OErr', 'ENotIndexable']
            if wedged:
                return ['F6Wedged', None]
            table = {}
            for x in self.items():
                if x[0] != HOLE and x[1] is not None and x[1] not in table:
                    table[x[1]] = x[0]
            if o['id'] in table:
                h['touched'] = True
                return ['OItem', table[o['id']]]
            return 'ONone'
        if k == 'merge':
            out = self.key(o['out'])
            ins = [self.key(p) for p in o['ins']]
            refuse = (len(ins) == 0 or any(p not in self.files or p[2] != 0 for p in ins) or out[2] != 1
                      or out in self.files or out in self.merged
                      or len({p[1] for p in ins}) < len(ins)
                      or len({self.files[p]['sig'] for p in ins}) > 1
                      or len({self.files[p]['ident'] for p in ins}) > 1)
            if refuse:
                return ['OErr', 'ERefused']
            if self.f6 and any(self.files[p]['ident'] and any(x[0] == HOLE for x in self.files[p]['items']) for p in ins):
                return ['F6Wedged', 'OUnit']      # building the merged index reads the masked identifiers
            if o.get('fault') is not None:
                self.limbo = True
                return ['MergeMaybeCrash']
            self.merged[out] = [self.files.pop(p) for p in ins]
            return 'OUnit'
        raise ValueError(k)


def coarse(out):
    if isinstance(out, list) and out[0] == 'OErr':
        if out[1] in REJECT:
            return ['OErr', 'EReject']
    return out


def coarse_merge(out):
    if isinstance(out, list) and out[0] == 'OErr' and out[1] in REFUSE:
        return ['OErr', 'ERefused']
    return out


def agrees(op, impl, want):
    """does the implementation's answer satisfy the oracle's expectation?"""
    if want == ['Any']:
        return True
    if op['op'] == 'merge':
        impl = coarse_merge(impl)
        if isinstance(want, list) and want[0] == 'F6Wedged':
            return impl == want[1] or (isinstance(impl, list) and impl[0] == 'OErr' and
                                       impl[1].startswith('Other:MaskError'))
        if want == ['MergeMaybeCrash']:
            return impl in ('OUnit', ['OErr', 'ECrash'])
        return impl == want
    impl = coarse(impl)
    if isinstance(want, list) and want[0] == 'F6Wedged':
        # an identified store with a half-written record: the flight ids read back contain a masked element
        if want[1] is None:
            return True
        return impl == want[1] or (isinstance(impl, list) and impl[0] == 'OErr' and
                                   (impl[1].startswith('Other:MaskError') or impl[1].startswith('Other:TypeError')))
    if isinstance(want, list) and want[0] == 'OItemAny':
        return impl in (['OItem', want[1][0]], ['OErr', 'ECorrupt'])
    if isinstance(want, list) and want[0] == 'OItemsHoles':
        if not (isinstance(impl, list) and impl[0] == 'OItems'):
            return False
        tags, er = impl[1], impl[2]
        vals, holes = want[1], want[2]
        for j, t in enumerate(tags):
            if j >= len(vals) or vals[j] != t:
                return False
        if er is None:
            return len(tags) == len(vals)
        return er == 'ECorrupt' and len(tags) < len(vals) and holes[len(tags)]
    return impl == want


# ---------------------------------------------------------------------------------------------
# recognising a known finding narrowly
# ---------------------------------------------------------------------------------------------
def classify(hist, k, impl, want, ctx, want_f6, ctx6=None):
    """signature of the finding whose formula explains the first disagreement (op k), or None"""
    o = hist[k]
    op = o['op']
    # C07a: a stored trajectory that is larger than the whole cache of this session cannot be read
    if ctx and ctx['kind'] in ('file', 'merged') and ctx.get('cap') is not None and op in ('get', 'iter', 'get_flight'):
        def oversized(tag):
            return ctx['sizes'].get(tag, 0) > ctx['cap']
        if op in ('get', 'get_flight') and impl == ['OErr', 'ETooLarge'] and isinstance(want, list) \
                and want[0] == 'OItem' and oversized(want[1]):
            return SIG['C07a']
        if op == 'iter' and isinstance(impl, list) and impl[0] == 'OItems' and impl[2] == 'ETooLarge' \
                and isinstance(want, list) and want[0] == 'OItems' and impl[1] == want[1][:len(impl[1])] \
                and len(impl[1]) < len(want[1]) and oversized(want[1][len(impl[1])]):
            return SIG['C07a']
    # C07b: a file-backed store refuses a valid trajectory only because it is larger than the cache
    if ctx and op == 'add' and ctx['kind'] == 'file' and ctx.get('cap') is not None and impl == ['OErr', 'ETooLarge'] \
            and isinstance(want, list) and want[0] == 'OIdx' and size_of_add(o) > ctx['cap']:
        return SIG['C07b']
    # F8: in-memory identified store
    if ctx and ctx['kind'] == 'mem' and op in ('get_flight', 'close', 'sync') and impl == ['OErr', 'EKeyBase'] \
            and ctx['def'] is not None and ctx['def'][1]:
        return SIG['F8']
    # F5: append session, after a additions: an uncached index i < n_open reads item i+j (1 <= j <= a);
    #     an uncached index >= n_open is out of range
    c5 = ctx6 if (ctx6 and any(x[0] == HOLE for x in ctx6['items'])) else ctx     # physical layout when there are holes
    if c5 and c5['kind'] == 'file' and c5['mode'] == 'append' and c5['adds'] >= 1 \
            and op in ('get', 'iter', 'get_flight'):
        items, n0, a = [(x[1], None) if x[0] == HOLE else x for x in c5['items']], c5['n_open'], c5['adds']

        holes = [x[0] == HOLE for x in c5['items']]

        def shifted(i, got):
            if i < n0:
                cands = [i + j for j in range(1, a + 1) if i + j < len(items)]
                if got == ['OErr', 'ECorrupt']:
                    return any(holes[c] for c in cands)          # the shifted read lands on a half-written record
                return isinstance(got, list) and got[0] == 'OItem' and got[1] in [items[c][0] for c in cands]
            return got == ['OErr', 'EIndex']
        if op == 'get' and o['i'] < len(items) and shifted(o['i'], impl):
            return SIG['F5']
        if op == 'get_flight' and isinstance(want, list) and want[0] == 'OItem':
            i = [x[0] for x in items].index(want[1])
            if shifted(i, impl):
                return SIG['F5']
        if op == 'iter' and isinstance(impl, list) and impl[0] == 'OItems':
            tags, er = impl[1], impl[2]
            j = next((j for j in range(min(len(tags), len(items))) if tags[j] != items[j][0]), None)
            if j is not None and shifted(j, ['OItem', tags[j]]):
                return SIG['F5']
            if j is None and er is not None and len(tags) < len(items) and shifted(len(tags), ['OErr', er]):
                return SIG['F5']
    # F6: the same oracle extended by "a rejected missing-required addition leaves a hole (file) / is
    #     accepted (in-memory)" predicts exactly this answer
    has_hole = bool(ctx6) and any(x[0] == HOLE for x in ctx6['items'])
    if ctx and want_f6 is not None and (has_hole or ctx['rejected_missing'] >= 1 or o.get('kind') == 'missing') \
            and agrees(o, impl, want_f6):
        return SIG['F6']
    if op == 'merge' and isinstance(want_f6, list) and want_f6[0] == 'F6Wedged' and agrees(o, impl, want_f6):
        return SIG['F6']
    # C08a: append session on an unidentified store accepts an identified trajectory
    if ctx and op == 'add' and ctx['kind'] == 'file' and ctx['mode'] == 'append' and o.get('fid') is not None \
            and ctx['def'] is not None and ctx['def'][1] is False and o.get('kind', 'ok') == 'ok' \
            and ctx['def'][0] == o.get('sig', 0) \
            and impl in (['OIdx', len(ctx['items'])], ['OIdx', len((ctx6 or ctx)['items'])]):
        return SIG['C08a']
    # C10a: first operation of an append session, other field sets: accepted, or half-done AttributeError
    if ctx and op == 'add' and ctx['kind'] == 'file' and ctx['mode'] == 'append' and not ctx['touched'] \
            and ctx['def'] is not None and ctx['def'][0] != o.get('sig', 0) \
            and impl in (['OIdx', len(ctx['items'])], ['OIdx', len((ctx6 or ctx)['items'])], ['OErr', 'EAttr']):
        return SIG['C10a']
    if op == 'merge':
        if want == ['OErr', 'ERefused'] and impl == 'OUnit' and len({p[1] for p in o['ins']}) < len(o['ins']):
            return SIG['C09a']
        # F7: the retry of a merge that was refused earlier finds the directory the refusal left behind
        if want == 'OUnit' and impl == ['OErr', 'EExists'] and \
                any(q['op'] == 'merge' and q['out'] == o['out'] for q in hist[:k]):
            return SIG['F7']
    return None


def detect_cfg(chk: Check):
    """Which of the known findings does this tree still show?  (True = repaired.)  Seven tiny probes."""
    root = chk.tmp / 'probe'
    cfg = {}

    def run(name, hist):
        return impl_run(root / name, hist)
    P0, P1, Q0, OUT = [0, 0, 0], [0, 1, 0], [1, 0, 0], [0, 9, 1]
    mk = lambda **k: dict(op='add', **k)  # noqa: E731
    r, _ = run('f5', [dict(op='create', p=P0), mk(tag=0), mk(tag=1), dict(op='close'),
                      dict(op='open_a', p=P0, cache=1), mk(tag=2), dict(op='get', i=0)])
    cfg['F5'] = r[-1]['out'] == ['OItem', 0]
    r, _ = run('f6', [dict(op='create', p=P0), mk(tag=0), mk(tag=1, kind='missing'), dict(op='len')])
    cfg['F6'] = r[-1]['out'] == ['OLen', 1]
    r, v = run('f7', [dict(op='create', p=P0), mk(tag=0, fid=1), dict(op='close'), dict(op='create', p=P1), mk(tag=1),
                      dict(op='close'), dict(op='merge', out=OUT, ins=[P0, P1])])
    cfg['F7'] = not any(x[2] == 1 for x in v)
    r, _ = run('f8', [dict(op='create_mem', cap=3), mk(tag=0, fid=5), dict(op='get_flight', id=5)])
    cfg['F8'] = r[-1]['out'] == ['OItem', 0]
    r, _ = run('c08a', [dict(op='create', p=P0), mk(tag=0), dict(op='close'), dict(op='open_a', p=P0), mk(tag=1, fid=3)])
    cfg['C08a'] = r[-1]['out'] == ['OErr', 'EIdUse']
    r, _ = run('c09a', [dict(op='create', p=P0), mk(tag=0), dict(op='close'), dict(op='create', p=Q0), mk(tag=1),
                        dict(op='close'), dict(op='merge', out=OUT, ins=[P0, Q0])])
    cfg['C09a'] = r[-1]['out'] != 'OUnit'
    r, _ = run('c10a', [dict(op='create', p=P0), mk(tag=0), dict(op='close'), dict(op='open_a', p=P0), mk(tag=1, sig=1)])
    cfg['C10a'] = r[-1]['out'] == ['OErr', 'ESchema']
    r, _ = run('c07a', [dict(op='create', p=P0), mk(tag=0, npts=12), dict(op='close'), dict(op='open_r', p=P0, cache_b=700),
                        dict(op='get', i=0)])
    cfg['C07a'] = r[-1]['out'] == ['OItem', 0]
    r, _ = run('c07b', [dict(op='create', p=P0, cache_b=700), mk(tag=0, npts=12)])
    cfg['C07b'] = r[-1]['out'] == ['OIdx', 0]
    return cfg


# ---------------------------------------------------------------------------------------------
# one batch of histories: implementation, oracle, model
# ---------------------------------------------------------------------------------------------
def check_histories(chk: Check, hists, cfg, nontrivial, label='cases', model=True, leftovers=True):
    """hists: list of dict(name, ops).  Runs everything, reports through chk."""
    impl = []
    for n, hc in enumerate(hists):
        recs, view = impl_run(chk.tmp / f'{label}{n}', hc['ops'])
        impl.append((recs, view))
    exprs = []
    for hc, (recs, view) in zip(hists, impl):
        ops = coq_history(hc['ops'], recs)
        exprs.append(f"let ops := [{'; '.join(ops)}] in (run_keys {coq_cfg(cfg)} empty_world ops, "
                     f"hist_okb (abs empty_world) ops, snd (spec_run (abs empty_world) ops))")
    mres = chk.coq_eval(HEADER, exprs, shard=40, label=label) if model else [None] * len(hists)
    for hc, (recs, view), mr in zip(hists, impl, mres):
        judge(chk, hc, recs, view, mr, cfg, nontrivial, leftovers)


def judge(chk: Check, hc, recs, view, mr, cfg, nontrivial, leftovers=True):
    hist = hc['ops']
    chk.case({'name': hc.get('name'), 'ops': hist}, nontrivial(hist))
    for o in hist:
        chk.count('op:' + o['op'] + (':' + o['kind'] if o.get('kind', 'ok') != 'ok' else '')
                  + (':fault' if o.get('fault') is not None else ''))
    # ---- oracle ----
    pending_refusal = False
    for o, r in zip(hist, recs):
        if o['op'] in ('create', 'create_mem', 'open_r', 'open_a', 'close'):
            pending_refusal = False
        if o['op'] == 'add' and r['out'] in (['OErr', 'EFull'], ['OErr', 'ETooLarge']):
            chk.count('add-refused:' + r['out'][1])
            pending_refusal = True
        elif o['op'] == 'add' and isinstance(r['out'], list) and r['out'][0] == 'OIdx' and pending_refusal:
            chk.count('add-accepted-after-refused-insertion')
            pending_refusal = False
    # the F6 formula (holes) is only on offer while the tree shows F6
    big = any(o.get('big') for o in hist)
    orc, orc6 = Oracle(big=big), Oracle(f6=not cfg['F6'], big=big)
    found = []              # (op index, expected, signature)
    wants = []
    cut = None              # the model is compared up to and including this operation
    oracle_alive = True
    for k, (o, r) in enumerate(zip(hist, recs)):
        ctx, ctx6 = orc.ctx(), orc6.ctx()
        want = orc.step(o)
        want6 = orc6.step(o)
        wants.append(want)
        if not agrees(o, r['out'], want):
            sig = classify(hist, k, r['out'], want, ctx, want6, ctx6)
            found.append((k, want, sig))
            if sig in (SIG['F5'], SIG['C07a']):
                continue                      # a wrong read changes nothing: the reference stays valid
            if sig == SIG['C07b']:
                orc.undo_last_add()           # the refusal itself is clean: follow the store as it now is
                orc6.undo_last_add()
                continue
            oracle_alive = False
            if sig is None or sig in (SIG['F6'], SIG['F8'], SIG['C08a'], SIG['C10a']):
                cut = k                       # the store itself is damaged / the handle is wedged from here on
                if (sig == SIG['F6'] and o['op'] in ('sync', 'close', 'get_flight', 'merge')) or sig == SIG['C10a']:
                    # re-indexing an identified store that holds a half-written record trips over netCDF masked
                    # values in several ways; the as-found model does not describe that: stop in front of it
                    cut = k - 1
            break
    safe_problem = final_state_check(hist, recs, view, orc, orc6, leftovers) if oracle_alive else None
    seen = set()
    for (k, want, sig) in found:
        if sig in seen:
            continue
        seen.add(sig)
        chk.fail(f"{hc.get('name')}: operation {k} {hist[k]}: implementation answered {recs[k]['out']!r}, "
                 f"the list/dict reference {want!r}",
                 {'name': hc.get('name'), 'ops': hist, 'first_diff': k, 'impl': [r['out'] for r in recs],
                  'reference': wants}, signature=sig)
    if safe_problem is not None:
        what, sig = safe_problem
        chk.fail(f"{hc.get('name')}: {what}", {'name': hc.get('name'), 'ops': hist, 'impl': [r['out'] for r in recs],
                                                'listing': view}, signature=sig)
    failed = found[0] if found else None
    # ---- model ----
    if mr is None:
        return
    mouts, mview, okb, spec_outs = mr          # Coq prints left-nested pairs flat
    has_merge = any(o['op'] == 'merge' for o in hist)
    ops_real = []
    for o, r in zip(hist, recs):
        ops_real.append(('op', o, r))
        if r['keys'] is not None and o['op'] != 'close':
            ops_real.append(('evict', o, r))
    if len(mouts) != len(ops_real):
        chk.broken('correspondence:Store_Model.run', f'{len(mouts)} model outputs for {len(ops_real)} operations', hist)
        return
    nop = -1
    for (kind, o, r), (mo, mkeys) in zip(ops_real, mouts):
        if kind == 'op':
            nop += 1
        if cut is not None and (nop > cut or (nop == cut and kind == 'evict')):
            break
        if kind == 'op':
            got = model_out(mo)
            if got != r['out']:
                chk.broken('correspondence:Store_Model.run',
                           f"{hc.get('name')}: {o}: model {got!r}, implementation {r['out']!r} (cfg {cfg})",
                           {'ops': hist, 'impl': [x['out'] for x in recs]})
                return
            if r['keys'] is not None and o['op'] != 'close' and not set(r['keys']) <= set(int(x) for x in mkeys):
                chk.broken('correspondence:Store_Model.cache',
                           f"{hc.get('name')}: {o}: real cache holds {r['keys']}, model cache {sorted(mkeys)}", hist)
                return
        else:
            if sorted(int(x) for x in mkeys) != sorted(r['keys']):
                chk.broken('correspondence:Store_Model.cache',
                           f"{hc.get('name')}: after {o}: real cache {r['keys']}, model {sorted(mkeys)}", hist)
                return
    if cut is not None:
        chk.count('compared_up_to_first_damage')
        chk.traces_validated += 1
        return
    if model_view(mview) != view:
        chk.broken('correspondence:Store_Model.view',
                   f"{hc.get('name')}: file system after the history: model {model_view(mview)!r}, real {view!r}",
                   {'ops': hist})
        return
    if not has_merge:
        if okb is not True:
            chk.broken('hypothesis:hist_ok', f"{hc.get('name')}: generated history violates the theorem's side condition", hist)
            return
        chk.count('theorem_hypothesis_checked')
        # the Coq specification and the Python reference are the same function on this history
        if failed is None:
            so = [model_out(x) for x, (kind, _, _) in zip(spec_outs, ops_real) if kind == 'op']
            for o, w, sp in zip(hist, wants, so):
                if isinstance(w, list) and w[0] in ('OItemAny', 'OItemsHoles', 'MergeMaybeCrash', 'Any', 'F6Wedged', 'OItemA'):
                    continue
                if sp != w:
                    chk.broken('oracle-vs-spec', f"{hc.get('name')}: {o}: Coq specification {sp!r}, Python reference {w!r}", hist)
                    return
    chk.traces_validated += 1


def final_state_check(hist, recs, view, orc: Oracle, orc6: Oracle = None, leftovers=True):
    """After the history: every store the reference knows must be on disk with exactly its payloads; after a
    refused merge nothing may have appeared; after an interrupted merge every input must be intact in exactly
    one place and a metadata file must not promise more than there is."""
    vmap = {(x[0], x[1], x[2]): x[3] for x in view}

    def hole_sig(p, got_tags):
        st6 = orc6.files.get(p) if orc6 is not None else None
        if st6 is not None and any(x[0] == HOLE for x in st6['items']) and \
                got_tags == [x[1] if x[0] == HOLE else x[0] for x in st6['items']]:
            return SIG['F6']           # exactly the half-written records of the rejected additions
        return None
    last_merge = next((o for o in reversed(hist) if o['op'] == 'merge'), None)
    if orc.limbo and last_merge is not None:
        out = tuple(last_merge['out'])
        ins = [tuple(p) for p in last_merge['ins']]
        d = vmap.get(out)
        members = {m[0]: m[1] for m in d[1]} if d else {}
        for p in ins:
            want = [t for (t, _) in orc.files[p]['items']]
            here = vmap.get(p)
            there = members.get(p[1])
            if (here is None) == (there is None):
                return (f'interrupted merge: input {p} is in {"both places" if here is not None else "neither place"}', None)
            got = here[1] if here is not None else there
            if got != want:
                return (f'interrupted merge: input {p} holds {got}, expected {want}', hole_sig(p, got))
        merge_out = next((r['out'] for o, r in zip(reversed(hist), reversed(recs)) if o['op'] == 'merge'), None)
        complete = bool(d) and d[4] == 2 and d[3] == [[p[1], len(orc.files[p]['items'])] for p in ins] \
            and sorted(members) == sorted(p[1] for p in ins) \
            and (not all(orc.files[p]['ident'] for p in ins) or d[2] == 2)
        # whether merge raised or returned: a directory that announces itself (metadata.json lists stores) must hold
        # every member and, if the inputs were identified, the index; and a merge that RETURNED must have completed
        if d and d[4] == 2 and not complete:
            return ('merge left a metadata.json that announces a complete store, but members or the identifier index '
                    f'are missing: {d}', None)
        if merge_out == 'OUnit' and not complete:
            return (f'merge returned normally although a file-system call failed, and the store is not complete: {d}', None)
        for p, st in orc.files.items():
            got = (vmap.get(p) or [None, None])[1]
            if p not in ins and got != [t for (t, _) in st['items']]:
                return (f'interrupted merge touched bystander {p}: {got}', hole_sig(p, got))
        return None
    for p, st in orc.files.items():
        got = vmap.get(p)
        if got is None or got[0] != 'VFile' or got[1] != [t for (t, _) in st['items']]:
            sig = hole_sig(p, got[1]) if got is not None else None
            return (f'store {p} on disk holds {got}, the reference list is {[t for (t, _) in st["items"]]}', sig)
    for p, parts in orc.merged.items():
        got = vmap.get(p)
        if got is None or got[0] != 'VDir' or got[4] != 2:
            return (f'merged store {p} is not complete on disk: {got}', None)
        if [len(x['items']) for x in parts] != [m[1] for m in got[3]]:
            return (f'merged store {p}: metadata {got[3]} does not list the inputs in order', None)
    known = set(orc.files) | set(orc.merged)
    extra = [k for k in vmap if k not in known]
    if extra and all(vmap[k][0] == 'VFile' and hole_sig(k, vmap[k][1]) for k in extra):
        return (f'a store file exists that holds only the half-written records of rejected additions: {extra}', SIG['F6'])
    if extra:
        # something exists that the reference does not know: the leftover of a refused merge?
        refused = [o for o, r in zip(hist, recs) if o['op'] == 'merge' and isinstance(r['out'], list) and r['out'][0] == 'OErr']
        if refused and all(vmap[k][0] == 'VDir' and vmap[k][1] == [] and vmap[k][4] == 0 for k in extra):
            if not leftovers:
                return None            # what a refused merge leaves behind is C10's subject
            return (f'refused merge left the empty output directory {extra}; a corrected retry is refused', SIG['F7'])
        return (f'unexpected entries on disk: {extra}', None)
    return None


# ---------------------------------------------------------------------------------------------
# history generators (one PRNG stream; the reference oracle keeps the generated operations sensible)
# ---------------------------------------------------------------------------------------------
class Gen:
    """focus: 'C07' sessions / caches / reads; 'C08' identifiers and lookups; 'C09' merges and seams;
    'C10' invalid additions, refused and interrupted merges."""

    def __init__(self, rng, focus):
        self.rng = rng
        self.focus = focus
        self.orc = Oracle()
        self.ops = []
        self.tag = 0
        self.ids = rng.sample(range(1, 900), 200)
        if rng.random() < 0.6:
            self.ids.insert(len(self.ids) - rng.randrange(0, 3), 0)     # identifier 0 is a valid identifier
        # identifiers are 64-bit: date-prefixed mission keys and values beyond 2**31 / 2**32 (gen pops from the end);
        # 2**32 + small and 2**31 + small would collide with small identifiers if a 32-bit buffer were used
        big = [20260930000123, 2 ** 31 + 7, 2 ** 32 + rng.randrange(1, 900), 2 ** 31, 2 ** 53 + 1, 2 ** 62 + 11]
        rng.shuffle(big)
        for b in big[:rng.randint(2, 4)]:
            self.ids.insert(len(self.ids) - rng.randrange(0, 12), b)
        self.nbase = {0: 0, 1: 0}          # next file name per directory
        self.nout = 0
        self.plan = {}                      # path -> (sig, ident)
        # payloads of different sizes (284 / 620 / 1404 bytes) and caches given in bytes: additions refused because
        # the value is larger than the whole cache, or because an in-memory store would have to evict, followed by
        # smaller ones that still fit
        self.mixed = focus in ('C07', 'C10') and rng.random() < 0.5
        self.maxsz = {}                     # path -> largest payload stored there

    # -- helpers --
    def emit(self, o):
        self.ops.append(o)
        path = (self.orc.h or {}).get('path')
        r = self.orc.step(o)
        if o['op'] == 'add' and isinstance(r, list) and r[0] == 'OIdx' and path is not None:
            self.maxsz[path] = max(self.maxsz.get(path, 0), size_of_add(o))
        if o['op'] == 'merge' and r == 'OUnit':
            self.maxsz[tuple(o['out'])] = max([self.maxsz.get(tuple(p), 0) for p in o['ins']] + [0])
        return r

    def cache(self, need=0):
        """the cache a session asks for; a session that reads a store must be able to hold its largest item"""
        if self.mixed:
            opts = [b for b in (300, 700, 700, 1500, 1500, 3000) if b >= need] + [None]
            return {'cache_b': self.rng.choice(opts)}
        k = self.rng.choice([1, 1, 1, 2, 2, 3, None])
        if k is not None and k * NB + 100 < need:
            k = None
        return {'cache': k}

    def new_tag(self):
        self.tag += 1
        return self.tag

    def valid_add(self, sig, ident):
        o = dict(op='add', tag=self.new_tag())
        if ident:
            o['fid'] = self.ids.pop()
        if sig:
            o['sig'] = sig
        if self.mixed:
            npts = self.rng.choice([2, 2, 2, 2, 5, 5, 12])
            if npts != 2:
                o['npts'] = npts
        return o

    def invalid_add(self, sig, ident, allow_sig=True):
        kinds = ['missing', 'missing2', 'iduse']
        if allow_sig:
            kinds.append('sig')
        if self.focus == 'C08':
            kinds = ['iduse']           # C08's subject; the other kinds are C10's
        kind = self.rng.choice(kinds)
        o = self.valid_add(sig, ident)
        if kind == 'missing':
            o['kind'] = 'missing'
        elif kind == 'missing2':
            o['kind'] = 'missing'
            o['which'] = 'total_fuel_mass'
        elif kind == 'iduse':
            if ident:
                o.pop('fid')
            else:
                o['fid'] = self.ids.pop()
        else:
            o['sig'] = 1 - sig
        return o

    def iterator_burst(self, sig, ident):
        """several iterators of ONE store: advanced alternately (zip), nested loops, a restart while another is half-way,
        iteration interleaved with additions and reads"""
        rng = self.rng
        n = min(len(self.orc.items()), 5)
        nx = lambda k: self.emit(dict(op='iter_next', k=k))  # noqa: E731
        new = lambda k: self.emit(dict(op='iter_new', k=k))  # noqa: E731
        pat = rng.choice(['zip', 'zip3', 'nested', 'restart', 'interleave'])
        if pat == 'zip':
            new(0), new(1)
            for _ in range(n + 1):
                nx(0), nx(1)
        elif pat == 'zip3':
            new(0), new(1), new(2)
            for _ in range(min(n, 3) + 1):
                nx(0), nx(1), nx(2)
        elif pat == 'nested':
            new(0)
            for _ in range(min(n, 3) + 1):
                if nx(0) == 'OStop':
                    break
                new(1)
                for _ in range(n + 1):
                    if nx(1) == 'OStop':
                        break
        elif pat == 'restart':
            new(0)
            for _ in range(rng.randint(1, max(n, 1))):
                nx(0)
            new(1), nx(1)
            nx(0)
            if rng.random() < 0.5:
                new(0)                     # the same iterator object restarted
            for _ in range(n + 1):
                nx(0)
            nx(1)
        else:
            new(0), nx(0)
            if self.orc.h['mode'] != 'read':
                self.emit(self.valid_add(sig, ident))
            nx(0)
            self.emit(dict(op='get', i=self.read_index()))
            new(1), nx(1), nx(0)
            if self.orc.h['mode'] != 'read':
                self.emit(self.valid_add(sig, ident))
            for _ in range(n + 2):
                nx(0)
            nx(1)

    def read_index(self):
        h = self.orc.h
        n = len(self.orc.items())
        r = self.rng.random()
        if h['mode'] == 'append' and h['adds'] > 0 and h['n_open'] > 0 and r < 0.5:
            return self.rng.randrange(h['n_open'])          # an old item, after additions in this session
        if r < 0.62 and n > 0:
            return self.rng.randrange(n)
        return self.rng.choice([0, max(n - 1, 0), n, n + 1, n + 3])

    def lookup_id(self):
        ids = [x[1] for x in self.orc.items() if x[1] is not None]
        if ids and self.rng.random() < 0.8:
            return self.rng.choice(ids)
        return self.rng.choice([0, 999, 1000 + self.rng.randrange(50)])

    # -- sessions --
    def session(self, maxops):
        """operations on the live handle until it is closed"""
        rng, orc = self.rng, self.orc
        f = self.focus
        n = 0
        while n < maxops and orc.h is not None:
            h = orc.h
            d = orc.definition()
            sig, ident = (d if d is not None else h.get('plan', (0, False)))
            w = {'add': 4 if h['mode'] != 'read' else 0.3, 'get': 4, 'len': 1.2, 'iter': 1.0, 'sync': 0.6,
                 'close': 0.9, 'lookup': 0.0, 'bad': 0.0, 'iters': 1.3 if f == 'C07' else 0.0}
            if f == 'C07':
                w['get'] = 6
                w['lookup'] = 0.5 if ident else 0.05
                # rejected additions (every kind, every position incl. the first of a session): no element of the list
                w['bad'] = 1.0 if h['mode'] != 'read' else 0.1
            if f == 'C08':
                w['lookup'] = 6 if ident else 0.4
                w['bad'] = 0.5
                w['get'] = 1.5
            if f == 'C09':
                w['get'] = 5
                w['lookup'] = 3 if ident else 0.2
            if f == 'C10':
                w['bad'] = 3.0 if h['mode'] != 'read' else 0.2
                w['lookup'] = 1.0 if ident else 0.1
            if h['kind'] == 'merged':
                w['add'] = 0.2
                w['bad'] = 0.0
            k = rng.choices(list(w), weights=list(w.values()))[0]
            if k == 'add':
                self.emit(self.valid_add(sig, ident))
            elif k == 'bad':
                # the field-set check of the code as found looks at a cached item: keep the "nothing cached yet"
                # situation for the dedicated scenarios
                allow_sig = not (h['kind'] == 'file' and h['mode'] == 'append' and not h['touched'])
                if d is None and f == 'C08':
                    self.emit(self.valid_add(sig, ident))
                elif d is None:
                    # the very first addition is rejected: with the identifier usage of the later ones, or the opposite
                    o = self.valid_add(sig, ident if rng.random() < 0.5 else not ident)
                    o['kind'] = 'missing'
                    if rng.random() < 0.5:
                        o['which'] = 'total_fuel_mass'
                    self.emit(o)
                else:
                    self.emit(self.invalid_add(sig, ident, allow_sig))
            elif k == 'get':
                self.emit(dict(op='get', i=self.read_index()))
            elif k == 'len':
                self.emit(dict(op='len'))
            elif k == 'iter':
                self.emit(dict(op='iter'))
            elif k == 'iters':
                self.iterator_burst(sig, ident)
            elif k == 'sync':
                self.emit(dict(op='sync'))
            elif k == 'lookup':
                self.emit(dict(op='get_flight', id=self.lookup_id()))
            elif k == 'close':
                self.emit(dict(op='close'))
            n += 1
        if orc.h is not None:
            self.emit(dict(op='close'))

    def new_store(self, minadds=0, maxops=12, directory=None, sig=None, ident=None, ext=0):
        rng = self.rng
        d = directory if directory is not None else rng.choice([0, 0, 0, 1])
        b = self.nbase[d]
        self.nbase[d] += 1
        p = [d, b, ext]
        if sig is None:
            sig = 1 if rng.random() < 0.15 else 0
        if ident is None:
            ident = rng.random() < {'C07': 0.3, 'C08': 0.9, 'C09': 0.6, 'C10': 0.5}[self.focus]
        self.emit(dict(op='create', p=p, **self.cache()))
        self.orc.h['plan'] = (sig, ident)
        for _ in range(minadds):
            self.emit(self.valid_add(sig, ident))
        self.session(maxops)
        return p

    def mem_store(self, maxops=10):
        rng = self.rng
        if self.mixed:
            self.emit(dict(op='create_mem', cap_b=rng.choice([300, 700, 1500, 1600, 2000, 3000])))
        else:
            self.emit(dict(op='create_mem', cap=rng.choice([1, 2, 3, 4, 6])))
        self.orc.h['plan'] = (0, rng.random() < {'C07': 0.0, 'C08': 0.9, 'C09': 0.3, 'C10': 0.0}[self.focus])
        self.session(maxops)

    def reopen(self, maxops=12, mode=None):
        rng = self.rng
        files = [p for p in self.orc.files if p[2] == 0] + list(self.orc.merged)
        if not files:
            return
        p = list(rng.choice(files))
        mode = mode or ('open_a' if rng.random() < (0.6 if tuple(p) in self.orc.files else 0.1) else 'open_r')
        r = self.emit(dict(op=mode, p=p, **self.cache(self.maxsz.get(tuple(p), 0))))
        if r == 'OUnit':
            self.session(maxops)

    def merge(self, invalid=None, fault=None, nin=None, out=None):
        rng, orc = self.rng, self.orc
        files = sorted(p for p in orc.files if p[2] == 0)
        if not files:
            return None
        nin = nin or rng.choice([1, 2, 2, 3, 3, 4, 5, 6])
        # inputs that can legally go together: same field sets, same identification, distinct names
        base = rng.choice(files)
        st = orc.files[base]
        comp = [p for p in files if orc.files[p]['sig'] == st['sig'] and orc.files[p]['ident'] == st['ident']]
        ins, names = [], set()
        for p in rng.sample(comp, len(comp)):
            if p[1] not in names and len(ins) < nin:
                ins.append(p)
                names.add(p[1])
        if rng.random() < 0.5:
            ins.sort()
        if out is None:
            out = [0, self.nout, 1]
            self.nout += 1
        o = dict(op='merge', out=out, ins=[list(p) for p in ins])
        if invalid == 'missing':
            o['ins'].insert(rng.randrange(len(ins) + 1), [1, 77, 0])
        elif invalid == 'badext':
            o['out'] = [0, self.nout, 2]
        elif invalid == 'exists':
            taken = list(orc.merged) + [p for p in orc.files]
            o['out'] = list(rng.choice(taken))
            if o['out'][2] != 1:
                o['out'] = [0, 900, 1]
        elif invalid == 'empty':
            o['ins'] = []
        elif invalid == 'dup':
            other = [p for p in files if p[1] in names and p not in ins]
            if other:
                o['ins'].append(list(rng.choice(other)))
        elif invalid == 'mixed':
            other = [p for p in files if p not in comp and p[1] not in names]
            if other:
                o['ins'].insert(rng.randrange(len(ins) + 1), list(rng.choice(other)))
        elif invalid == 'notnc':
            other = [p for p in orc.files if p[2] == 2]
            if other:
                o['ins'].append(list(rng.choice(other)))
        elif invalid is None and fault is None and len(ins) >= 2 and rng.random() < 0.4:
            # numbered pattern: the inputs must be s{lo}..s{hi} of one directory
            d = ins[0][0]
            run = sorted(p for p in comp if p[0] == d)
            bases = [p[1] for p in run]
            for lo in bases:
                hi = lo
                while hi + 1 in bases:
                    hi += 1
                if hi > lo and all((d, x, 0) in [tuple(q) for q in files] for x in range(lo, hi + 1)) \
                        and all(orc.files[(d, x, 0)]['sig'] == st['sig'] and orc.files[(d, x, 0)]['ident'] == st['ident']
                                for x in range(lo, hi + 1)):
                    o['ins'] = [[d, x, 0] for x in range(lo, hi + 1)]
                    o['pattern'] = [d, lo, hi]
                    break
        if fault is not None:
            o['fault'] = fault
        r = self.emit(o)
        return o, r

    def read_merged(self, out, thorough=True):
        """open the merged directory and read at every seam"""
        rng, orc = self.rng, self.orc
        if self.emit(dict(op='open_r', p=out, **self.cache(self.maxsz.get(tuple(out), 0)))) != 'OUnit':
            return
        parts = orc.merged[tuple(out)]
        self.emit(dict(op='len'))
        edges, acc = set(), 0
        for part in parts:
            edges |= {acc - 1, acc, acc + len(part['items']) - 1}
            acc += len(part['items'])
        edges |= {acc, acc + 1}
        idxs = sorted(i for i in edges if i >= 0)
        rng.shuffle(idxs)
        for i in idxs[: 14 if thorough else 6]:
            self.emit(dict(op='get', i=i))
        if all(p['ident'] for p in parts):
            for part in parts:
                ids = [x[1] for x in part['items']]
                for fid in {ids[0], ids[-1]}:
                    self.emit(dict(op='get_flight', id=fid))
            self.emit(dict(op='get_flight', id=999))
        else:
            self.emit(dict(op='get_flight', id=5))
        self.emit(dict(op='iter'))
        if rng.random() < 0.4:
            self.emit(self.valid_add(parts[0]['sig'], parts[0]['ident']))
            self.emit(dict(op='sync'))
        self.emit(dict(op='close'))
        if rng.random() < 0.3:
            self.emit(dict(op='open_a', p=out))


def gen_history(rng, focus):
    g = Gen(rng, focus)
    target = rng.randint(5, 60)
    if focus in ('C07', 'C08'):
        while len(g.ops) < target:
            r = rng.random()
            files = [p for p in g.orc.files if p[2] == 0]
            if not files or r < 0.25:
                g.new_store(minadds=rng.choice([0, 1, 2, 4]), maxops=rng.randint(3, 14))
            elif r < 0.40:
                g.mem_store(rng.randint(3, 10))
            elif focus == 'C08' and r < 0.55 and len(files) >= 1:
                res = g.merge(invalid=None)
                if res and res[1] == 'OUnit':
                    g.read_merged(res[0]['out'], thorough=False)
            else:
                g.reopen(rng.randint(3, 14))
        return g.ops[: max(target, 5) + 12]
    if focus == 'C09' and rng.random() < 0.3:
        return assoc_split_history(rng)
    if focus == 'C09':
        k = rng.choice([1, 2, 2, 3, 3, 4, 5, 6])
        ident = rng.random() < 0.6
        sig = 1 if rng.random() < 0.15 else 0
        dirs = [0] * k if rng.random() < 0.6 else [rng.choice([0, 1]) for _ in range(k)]
        for i in range(k):
            odd = rng.random() < 0.15           # a store that does not fit the others
            g.new_store(minadds=rng.choice([1, 1, 2, 3, 5]), maxops=rng.choice([1, 2, 4]), directory=dirs[i],
                        sig=(1 - sig) if odd and rng.random() < 0.5 else sig,
                        ident=(not ident) if odd else ident, ext=2 if rng.random() < 0.04 else 0)
        inv = rng.choice([None] * 7 + ['missing', 'badext', 'exists', 'empty', 'dup', 'mixed', 'notnc'])
        res = g.merge(invalid=inv)
        if res and res[1] == 'OUnit':
            g.read_merged(res[0]['out'])
            if rng.random() < 0.3:
                res2 = g.merge(invalid=None)
                if res2 and res2[1] == 'OUnit':
                    g.read_merged(res2[0]['out'], thorough=False)
        elif res:
            # refused: the inputs are still there and a corrected merge works
            g.reopen(4, mode='open_r')
            res2 = g.merge(invalid=None)
            if res2 and res2[1] == 'OUnit':
                g.read_merged(res2[0]['out'], thorough=False)
        return g.ops
    # C10
    mode = rng.random()
    if mode < 0.55:
        while len(g.ops) < target:
            r = rng.random()
            if not g.orc.files or r < 0.3:
                g.new_store(minadds=rng.choice([0, 0, 1, 2]), maxops=rng.randint(3, 12))
            elif r < 0.45:
                g.mem_store(rng.randint(3, 9))
            else:
                g.reopen(rng.randint(3, 12))
        return g.ops[: target + 12]
    k = rng.choice([1, 2, 2, 3, 3, 4])
    ident = rng.random() < 0.6
    for i in range(k):
        odd = rng.random() < 0.2
        g.new_store(minadds=rng.choice([1, 2, 3]), maxops=rng.choice([1, 2]), ident=(not ident) if odd else ident)
    if mode < 0.8:
        inv = rng.choice(['missing', 'badext', 'exists', 'empty', 'dup', 'mixed', 'mixed', None])
        res = g.merge(invalid=inv)
        if res and res[1] != 'OUnit':
            g.reopen(3)
            same = res[0]['out'] if (res[0]['out'][2] == 1 and tuple(res[0]['out']) not in g.orc.merged
                                     and rng.random() < 0.6) else None
            res2 = g.merge(invalid=None, out=same)          # the corrected retry, often into the same directory
            if res2 and res2[1] == 'OUnit':
                g.read_merged(res2[0]['out'], thorough=False)
        elif res:
            g.read_merged(res[0]['out'], thorough=False)
    else:
        g.merge(invalid=None, fault=rng.randrange(0, 3 * k + 5))
    return g.ops


def load_corpus(pid):
    d = Path(__file__).resolve().parent.parent / 'corpus' / pid
    out = []
    for f in sorted(d.glob('*.json')):
        j = json.loads(f.read_text())
        out.append({'name': 'corpus:' + f.stem, 'ops': j['ops']})
    return out


# ---------------------------------------------------------------------------------------------
# dedicated scenarios
# ---------------------------------------------------------------------------------------------
def A(**k):
    return dict(op='add', **k)


def make_stores(n, ident, sizes=None, start_tag=1, directory=0, first_base=0):
    """ops creating n closed stores s{first_base}.. with the given sizes; returns (ops, paths, next tag)"""
    ops, paths, t = [], [], start_tag
    for j in range(n):
        p = [directory, first_base + j, 0]
        paths.append(p)
        ops.append(dict(op='create', p=p, cache=2))
        for _ in range((sizes or [2] * n)[j]):
            ops.append(A(tag=t, fid=(0 if (t == 2 and start_tag == 1) else 1000 - t) if ident else None))
            t += 1
        ops.append(dict(op='close'))
    return ops, paths, t


def crash_scenarios(max_inputs):
    """a merge of n inputs made to fail in front of EVERY one of its file-system calls (and not at all)"""
    out = []
    for n in range(1, max_inputs + 1):
        for ident in (False, True):
            ncalls = 2 * n + 3 + ((n + 1) if ident else 0)
            for k in range(ncalls + 1):
                ops, paths, _ = make_stores(n, ident, sizes=[1 + (j % 3) for j in range(n)])
                ops.append(dict(op='merge', out=[0, 50, 1], ins=paths, fault=k))
                for p in paths:                       # where are the inputs now?  readable?
                    ops += [dict(op='open_r', p=p, cache=1), dict(op='iter'), dict(op='close')]
                ops += [dict(op='open_r', p=[0, 50, 1], cache=1), dict(op='len'), dict(op='iter')]
                if ident:                             # a complete identified store resolves every identifier
                    ops += [dict(op='get_flight', id=1000 - 1), dict(op='get_flight', id=0), dict(op='get_flight', id=3)]
                ops.append(dict(op='close'))
                out.append({'name': f'crash:n{n}:{"id" if ident else "noid"}:call{k}', 'ops': ops})
    return out


def refusal_scenarios():
    """every validation rule of merge: refused, nothing left behind, corrected retry into the same directory"""
    out = []
    base, paths, t = make_stores(3, True, sizes=[1, 2, 1])
    other, opaths, t = make_stores(1, False, start_tag=t, first_base=7)       # unidentified
    sig1 = [dict(op='create', p=[0, 8, 0]), A(tag=t, fid=1000 - t, sig=1), dict(op='close')]
    dup, dpaths, t2 = make_stores(1, True, start_tag=t + 1, directory=1, first_base=0)  # same name as s0, other dir
    dat = [dict(op='create', p=[0, 9, 2]), A(tag=t2, fid=1000 - t2), dict(op='close')]
    OUT = [0, 60, 1]
    rules = {
        'missing-input': (paths + [[0, 44, 0]], OUT),
        'not-nc-input': (paths + [[0, 9, 2]], OUT),
        'bad-output-ext': (paths, [0, 60, 2]),
        'empty-list': ([], OUT),
        'mixed-identification': (paths + opaths, OUT),
        'different-field-sets': (paths + [[0, 8, 0]], OUT),
        'same-file-names': (paths + dpaths, OUT),
    }
    for name, (ins, o) in rules.items():
        ops = base + other + sig1 + dup + dat
        ops = ops + [dict(op='merge', out=o, ins=ins), dict(op='merge', out=OUT, ins=paths),
                     dict(op='open_r', p=OUT, cache=1), dict(op='len'), dict(op='iter'), dict(op='get_flight', id=999),
                     dict(op='close')]
        out.append({'name': 'refusal:' + name, 'ops': ops})
    ops = base + [dict(op='merge', out=OUT, ins=paths[:2]), dict(op='merge', out=OUT, ins=paths[2:])]   # output exists
    out.append({'name': 'refusal:output-exists', 'ops': ops})
    return out


def first_op_schema_scenarios():
    """FC10a: the very first operation of an append session is a trajectory with other field sets"""
    out = []
    for store_sig in (0, 1):
        ops = [dict(op='create', p=[0, 0, 0]), A(tag=1, sig=store_sig), A(tag=2, sig=store_sig), dict(op='close'),
               dict(op='open_a', p=[0, 0, 0], cache=2), A(tag=3, sig=1 - store_sig), dict(op='len'),
               A(tag=4, sig=store_sig), dict(op='get', i=2), dict(op='iter'), dict(op='close'),
               dict(op='open_r', p=[0, 0, 0]), dict(op='len'), dict(op='iter'), dict(op='close')]
        out.append({'name': f'append-first-op-other-fieldsets:{"extra" if store_sig == 0 else "lacking"}', 'ops': ops})
    return out


def big_payload_scenarios(rng, n):
    """the documented integer cache size (1 MB) with 450 kB trajectories: the cache holds two"""
    out = []
    for j in range(n):
        ops = [dict(op='create', p=[0, 0, 0], big=True)]
        t = 1
        for _ in range(rng.randint(3, 5)):
            ops.append(A(tag=t))
            t += 1
        ops += [dict(op='get', i=0), dict(op='iter'), dict(op='close'), dict(op='open_a', p=[0, 0, 0], big=True)]
        for _ in range(rng.randint(1, 3)):
            ops.append(A(tag=t))
            t += 1
        ops += [dict(op='get', i=rng.randrange(3)), dict(op='get', i=t - 2), dict(op='len'), dict(op='iter'), dict(op='close'),
                dict(op='open_r', p=[0, 0, 0], big=True), dict(op='iter'), dict(op='get', i=t - 1), dict(op='close')]
        out.append({'name': f'integer-cache-size:{j}', 'ops': ops})
    return out


def assoc_merge_scenarios(chk: Check, rng, n):
    """C09: base stores with an associated file each; both families merged separately and opened together.
    Oracle only (plain lists): the i-th trajectory of the merged pair carries the i-th payload AND the i-th
    associated value of the concatenation.  (The per-field-set table lookup is C09_locate_is_concat_index.)"""
    e = Env.get()
    TS = e.TS
    for j in range(n):
        root = chk.tmp / f'assoc{j}'
        root.mkdir(parents=True, exist_ok=True)
        k = rng.randint(1, 5)
        sizes = [rng.randint(1, 4) for _ in range(k)]
        ident = rng.random() < 0.6
        bases, assocs, expect, t = [], [], [], 1
        rechunk = k > 1 and sum(sizes) > k and rng.random() < 0.5
        for i, sz in enumerate(sizes):
            bp, ap = root / f'b{i}.nc', root / f'a{i}.nc'
            with TS.create(base_file=bp, associated_files=[(ap, [XFS])], cache_size_mb=e.cache_mb(rng.choice([NB + 100, 2 * NB + 100, None]))) as ts:
                for _ in range(sz):
                    ts.add(e.mk(t, (5000 - t) if ident else None, 1, 'ok'))
                    expect.append((t, 1000 + t, (5000 - t) if ident else None))
                    t += 1
            bases.append(bp)
            assocs.append(ap)
        asizes = sizes
        if rechunk:
            # the same flights written again with another split over the files: these associated files are merged
            asizes = split_of(rng, sum(sizes), k)
            assocs, t2 = [], 1
            for i, sz in enumerate(asizes):
                bp2, ap2 = root / f'x{i}.nc', root / f'r{i}.nc'
                with TS.create(base_file=bp2, associated_files=[(ap2, [XFS])]) as ts:
                    for _ in range(sz):
                        ts.add(e.mk(t2, (5000 - t2) if ident else None, 1, 'ok'))
                        t2 += 1
                assocs.append(ap2)
            chk.count('assoc_merge_scenarios:different_split')
        mb, ma = root / 'mb.aeic-store', root / 'ma.aeic-store'
        case = {'name': f'assoc:{j}', 'sizes': sizes, 'assoc_sizes': asizes, 'ident': ident}
        chk.case(case, nontrivial=(k >= 2 and len(set(sizes)) > 1))
        chk.count('assoc_merge_scenarios')
        try:
            TS.merge(output_store=mb, input_stores=bases)
            TS.merge(output_store=ma, input_stores=assocs)
            gc.collect()
            with TS.open(base_file=mb, associated_files=[ma], cache_size_mb=e.cache_mb(rng.choice([NB + 100, 2 * NB + 100, None]))) as ts:
                got_len = len(ts)
                order = list(range(len(expect)))
                rng.shuffle(order)
                got = {i: (tag_of(ts[i]), int(ts[i].atag)) for i in order}
                beyond = None
                try:
                    ts[len(expect)]
                except IndexError:
                    beyond = 'IndexError'
                looked = {}
                if ident:
                    for (tg, _, fid) in expect:
                        r = ts.get_flight(fid)
                        looked[fid] = None if r is None else (tag_of(r), int(r.atag))
                    looked[-1] = ts.get_flight(4)
        except Exception as ex:  # noqa: BLE001
            chk.fail(f'assoc:{j}: merging / opening base + associated stores raised {type(ex).__name__}: {ex}',
                     dict(case, error=str(ex)), signature=None)
            continue
        ok = (got_len == len(expect) and all(got[i] == (expect[i][0], expect[i][1]) for i in range(len(expect)))
              and beyond == 'IndexError'
              and (not ident or (all(looked[f] == (tg, at) for (tg, at, f) in expect) and looked[-1] is None)))
        if not ok:
            chk.fail(f'assoc:{j}: merged base+associated store is not the concatenation: len {got_len}, items {got}, '
                     f'expected {expect}', dict(case, got={str(k_): v for k_, v in got.items()}), signature=None)
        else:
            chk.traces_validated += 1


# ---------------------------------------------------------------------------------------------
# the common run of the four checks
# ---------------------------------------------------------------------------------------------
def run_property(chk: Check, pid: str, props: str, generated, nontrivial, scenarios=(), extra=None, leftovers=True):
    chk.trusted += ['harness/store_util.py: history driver, Coq-output comparison, plain-Python list/dict reference, '
                    'fault injector (os.mkdir, os.rename, netCDF4.Dataset, open(w), json.dump)',
                    'netCDF4 / HDF5 / cachetools.LRUCache: exercised for real; modelled as total maps, negative index '
                    'from the current end, and arbitrary eviction']
    chk.assumptions += ['payload trajectories are identified by a tag (all pointwise fields = tag); contents of the other '
                        'fields are C03\'s subject',
                        'one live TrajectoryStore handle at a time (model restriction); every trajectory fits the cache alone',
                        'a file-system call is atomic (a failure is injected in FRONT of a call)']
    chk.coq_props(props)
    link_store_protocol(chk)
    cfg = detect_cfg(chk)
    chk.notes['tree_behaviour'] = {k: ('repaired' if v else 'as found') for k, v in cfg.items()}
    hists = load_corpus(pid) + list(scenarios) + generated
    for h in hists:
        h['ops'] = h['ops'][:90]
    check_histories(chk, hists, cfg, nontrivial, label='h', leftovers=leftovers)
    if extra is not None:
        extra(chk, cfg)


def finding_status(fid):
    from harness.common import VERIF
    st = None
    entries = list(json.loads((VERIF / 'known_findings.json').read_text())['findings'])
    for f in sorted((VERIF / 'known_findings.d').glob('*.json')):
        entries.append(json.loads(f.read_text()))
    for k in entries:
        if k.get('id') == fid:
            st = 'fixed' if k.get('status') == 'fixed' or st == 'fixed' else k.get('status')
    return st


def link_store_protocol(chk: Check):
    """Static tie: regenerate the protocol facts from trajectories/store.py (fail-closed, one obligation per method) and
    re-prove coq/link/Store_Link.v against them."""
    from harness.common import REPO
    from translator import store_extract
    chk.trusted.append('translator/store_extract.py (statement shapes of the store protocol methods)')
    text, status = store_extract.extract_store_protocol(REPO / 'src/AEIC/trajectories/store.py')
    for m, st in status.items():
        if m == '__cfg__':
            continue
        chk.obligations.append({'name': f'extract:trajectories/store.py:{m}', 'ok': st == 'ok'})
        if st != 'ok':
            chk.broken(f'extract:trajectories/store.py:{m}', st)
    xcfg = status.pop('__cfg__', None)
    if text is None:
        return False
    if finding_status('FC07b') == 'fixed':
        ok = bool(xcfg and xcfg['C07b'])
        chk.obligations.append({'name': 'Store_Link:Store_link_FC07b_applied', 'ok': ok})
        if not ok:
            chk.broken('link:Store_link_FC07b_applied', 'finding FC07b is recorded as fixed, but add() does not have the '
                       'repaired shape (cache insertion only if it fits, file creation and write from the trajectory itself)')
    if chk.coq_compile_gen('Store_Extracted', text) is None:
        return False
    return chk.coq_link('Store_Link.v')


def replay_property(chk: Check, rp, props: str, nontrivial):
    chk.coq_props(props)
    link_store_protocol(chk)
    cfg = detect_cfg(chk)
    case = rp.get('case') or {}
    if 'ops' in case:
        check_histories(chk, [{'name': case.get('name', 'replay'), 'ops': case['ops']}], cfg, nontrivial, label='r')


def oversized_read_scenarios():
    """FC07a: a session whose cache is smaller than one stored trajectory must still be able to read it (C07:
    "regardless of how small the in-memory cache is").  Oracle only: the Coq model keeps the harness convention that
    a reading session can hold the largest item."""
    out = []
    P = [0, 0, 0]
    for mode in ('open_r', 'open_a'):
        ops = [dict(op='create', p=P), A(tag=1), A(tag=2, npts=12), A(tag=3), A(tag=4, npts=5), dict(op='close'),
               dict(op=mode, p=P, cache_b=700), dict(op='len'), dict(op='get', i=0), dict(op='get', i=1), dict(op='get', i=3),
               dict(op='iter'), dict(op='get', i=2), dict(op='close'),
               dict(op='open_r', p=P, cache_b=300), dict(op='get', i=3), dict(op='get', i=1), dict(op='get', i=0), dict(op='close')]
        out.append({'name': f'read-item-larger-than-cache:{mode}', 'ops': ops})
    ops = [dict(op='create', p=P), A(tag=1, fid=9), A(tag=2, npts=12, fid=4), dict(op='close'),
           dict(op='create', p=[0, 1, 0]), A(tag=3, fid=7), dict(op='close'),
           dict(op='merge', out=[0, 5, 1], ins=[P, [0, 1, 0]]),
           dict(op='open_r', p=[0, 5, 1], cache_b=700), dict(op='get', i=1), dict(op='get_flight', id=4), dict(op='get', i=2),
           dict(op='iter'), dict(op='close')]
    out.append({'name': 'read-item-larger-than-cache:merged', 'ops': ops})
    return out


def rejected_first_add_scenarios():
    """C10: the FIRST trajectory of a fresh store is rejected (required value missing) and uses flight ids the other
    way round than the valid ones that follow: nothing of it may stick, not even the identification of the store"""
    out = []
    for kind in ('file', 'mem'):
        for bad_has_id in (True, False):
            for which in ('starting_mass', 'total_fuel_mass'):
                ops = [dict(op='create', p=[0, 0, 0], cache=2) if kind == 'file' else dict(op='create_mem', cap=4)]
                bad = A(tag=1, kind='missing', which=which)
                if bad_has_id:
                    bad['fid'] = 77
                fid = (lambda t: None) if bad_has_id else (lambda t: 500 - t)
                ops += [bad, dict(op='len'), A(tag=2, fid=fid(2)), A(tag=3, fid=fid(3)), dict(op='len'), dict(op='get', i=0),
                        dict(op='get_flight', id=498), dict(op='iter'), dict(op='close')]
                if kind == 'file':
                    ops += [dict(op='open_a', p=[0, 0, 0], cache=1), A(tag=4, fid=fid(4)), dict(op='len'), dict(op='close'),
                            dict(op='open_r', p=[0, 0, 0]), dict(op='iter'), dict(op='close')]
                out.append({'name': f'rejected-first-add:{kind}:{"id" if bad_has_id else "noid"}:{which}', 'ops': ops})
    return out


def split_of(rng, total, k):
    """a random composition of total into k positive parts"""
    cuts = sorted(rng.sample(range(1, total), k - 1)) if k > 1 else []
    return [b - a for a, b in zip([0] + cuts, cuts + [total])]


def assoc_split_history(rng, base_sizes=None, assoc_sizes=None, ident=None):
    """base stores and associated stores of the SAME flights, merged separately, the associated family split over its
    files like the base family or differently; opened together and read at every seam of both splits"""
    k = len(base_sizes) if base_sizes else rng.randint(1, 5)
    if base_sizes is None:
        base_sizes = [rng.randint(1, 4) for _ in range(k)]
    total = sum(base_sizes)
    if assoc_sizes is None:
        assoc_sizes = list(base_sizes) if (rng.random() < 0.35 or total == k) else split_of(rng, total, k)
    if ident is None:
        ident = rng.random() < 0.6
    ops, paths, t = make_stores(k, ident, sizes=base_sizes)
    apaths, t2 = [], 1
    for j, sz in enumerate(assoc_sizes):
        p = [1, j, 0]
        apaths.append(p)
        ops.append(dict(op='inject_assoc', p=p, tags=list(range(t2, t2 + sz))))
        t2 += sz
    MB, MA = [0, 70, 1], [0, 71, 1]
    ops += [dict(op='merge', out=MB, ins=paths), dict(op='merge', out=MA, ins=apaths),
            dict(op='open_r', p=MB, assoc=[MA], cache=rng.choice([1, 2, None])), dict(op='len')]
    edges = set()
    for sizes in (base_sizes, assoc_sizes):
        acc = 0
        for sz in sizes:
            edges |= {acc - 1, acc, acc + sz - 1}
            acc += sz
    idxs = sorted(i for i in edges | {total, total + 1} if i >= 0)
    rng.shuffle(idxs)
    ops += [dict(op='get', i=i) for i in idxs]
    if ident:
        ops += [dict(op='get_flight', id=1000 - 1), dict(op='get_flight', id=0), dict(op='get_flight', id=1000 - total),
                dict(op='get_flight', id=3)]
    ops += [dict(op='iter'), dict(op='get', i=rng.randrange(total)), dict(op='close'),
            dict(op='open_r', p=MB, cache=1), dict(op='get', i=0), dict(op='close')]
    return ops


def reserved_name_scenarios(chk: Check):
    """FC09b: an input store whose file is called `_index.nc` (the name of the merged flight-id index).  Oracle only:
    either the merge is refused and both inputs stay where they were, or the merged store is the concatenation."""
    e = Env.get()
    TS = e.TS
    for ident in (True, False):
        root = chk.tmp / f'reserved{int(ident)}'
        root.mkdir(parents=True, exist_ok=True)
        a, b, out = root / '_index.nc', root / 's1.nc', root / 'm.aeic-store'
        for p, tags in ((a, [1, 2]), (b, [3])):
            with TS.create(base_file=p) as ts:
                for t in tags:
                    ts.add(e.mk(t, (100 + t) if ident else None, 0, 'ok'))
        case = {'name': f'merge-input-named-_index.nc:{"id" if ident else "noid"}'}
        chk.case(case, nontrivial=True)
        chk.count('reserved_name_scenarios')
        try:
            TS.merge(output_store=out, input_stores=[a, b])
            outcome = 'returned'
        except ValueError as ex:
            outcome = 'refused:' + str(ex)[:60]
        except Exception as ex:  # noqa: BLE001
            outcome = f'raised {type(ex).__name__}: {ex}'[:120]
        gc.collect()
        ok = False
        detail = outcome
        if outcome.startswith('refused') and a.exists() and b.exists() and not out.exists():
            ok = raw_tags(a) == [1, 2] and raw_tags(b) == [3]
        elif outcome == 'returned':
            try:
                with TS.open(base_file=out) as ts:
                    got = [tag_of(t) for t in ts]
                    looked = tag_of(ts.get_flight(102)) if ident else 2
                ok = got == [1, 2, 3] and looked == 2
                detail += f', merged store reads {got}'
            except Exception as ex:  # noqa: BLE001
                detail += f', but the merged store cannot be read: {type(ex).__name__}: {ex}'[:160]
        if ok:
            chk.traces_validated += 1
        else:
            chk.fail(f"{case['name']}: {detail}; on disk: {sorted(x.name for x in root.rglob('*') if x.is_file())}",
                     dict(case, outcome=detail), signature=SIG['C09b'])


def declared_associated_scenarios(chk: Check):
    """FC10b: a store created with associated files; its FIRST trajectory lacks a field set declared for them.  The
    addition must be rejected and leave nothing: no files, length 0, the next (complete) trajectory gets index 0."""
    e = Env.get()
    TS = e.TS
    for ident in (False, True):
        root = chk.tmp / f'declared{int(ident)}'
        root.mkdir(parents=True, exist_ok=True)
        p, ap = root / 'b.nc', root / 'a.nc'
        case = {'name': f'first-add-lacks-declared-associated-fieldset:{"id" if ident else "noid"}'}
        chk.case(case, nontrivial=True)
        chk.count('declared_associated_scenarios')
        obs = {}
        ts = TS.create(base_file=p, associated_files=[(ap, [XFS])])
        try:
            ts.add(e.mk(1, 9 if ident else None, 0, 'ok'))
            obs['bad_add'] = 'accepted'
        except Exception as ex:  # noqa: BLE001
            obs['bad_add'] = type(ex).__name__
        obs['len_after'] = len(ts)
        obs['files_after'] = [p.exists(), ap.exists()]
        try:
            obs['good_add'] = int(ts.add(e.mk(2, 8 if ident else None, 1, 'ok')))
        except Exception as ex:  # noqa: BLE001
            obs['good_add'] = f'{type(ex).__name__}: {ex}'[:80]
        try:
            ts.close()
            with TS.open(base_file=p, associated_files=[ap]) as r:
                obs['reopen'] = [(tag_of(t), int(t.atag)) for t in r]
        except Exception as ex:  # noqa: BLE001
            obs['reopen'] = f'{type(ex).__name__}: {ex}'[:80]
        gc.collect()
        ok = (obs['bad_add'] != 'accepted' and obs['len_after'] == 0 and obs['files_after'] == [False, False]
              and obs['good_add'] == 0 and obs['reopen'] == [(2, 1002)])
        if ok:
            chk.traces_validated += 1
        else:
            chk.fail(f"{case['name']}: the rejected first addition left traces: {obs}", dict(case, observed=jsonable_obs(obs)),
                     signature=SIG['C10b'])


def jsonable_obs(o):
    return json.loads(json.dumps(o, default=str))


def _report(chk, name, ok, detail, sig=None, nontrivial=True):
    chk.case({'name': name}, nontrivial=nontrivial)
    if ok:
        chk.traces_validated += 1
    else:
        chk.fail(f'{name}: {detail}', {'name': name, 'observed': jsonable_obs(detail)}, signature=sig)


def save_then_lookup_scenarios(chk: Check, rng, n):
    """C08: an in-memory identified store is synced / queried while in memory, saved to files, and then every identifier
    must be found (the index has to be built when the files exist), also after closing and reopening."""
    e = Env.get()
    TS = e.TS
    for j in range(n):
        root = chk.tmp / f'save{j}'
        root.mkdir(parents=True, exist_ok=True)
        k = rng.randint(2, 6)
        ids = rng.sample(range(10, 500), k)
        ids[rng.randrange(k)] = 0
        pre = rng.choice(['sync', 'lookup', 'sync+lookup', 'none'])
        chk.count('save_then_lookup_scenarios:' + pre)
        obs = {}
        try:
            ts = TS.create()
            for t, fid in enumerate(ids):
                ts.add(e.mk(t, fid, 0, 'ok'))
            if 'sync' in pre:
                ts.sync()
            if 'lookup' in pre:
                obs['in_memory'] = tag_of(ts.get_flight(ids[0]))
            ts.save(base_file=root / 's.nc')
            extra = rng.random() < 0.5
            if extra:
                ids.append(900 + j)
                ts.add(e.mk(k, ids[-1], 0, 'ok'))
            obs['after_save'] = [None if (r := ts.get_flight(f)) is None else tag_of(r) for f in ids]
            obs['absent'] = ts.get_flight(7)
            ts.close()
            with TS.open(base_file=root / 's.nc') as r_:
                obs['reopened'] = [None if (r := r_.get_flight(f)) is None else tag_of(r) for f in ids]
                obs['len'] = len(r_)
        except Exception as ex:  # noqa: BLE001
            obs['error'] = f'{type(ex).__name__}: {ex}'[:120]
        want = list(range(len(ids)))
        ok = 'error' not in obs and obs['after_save'] == want and obs['reopened'] == want and obs['absent'] is None \
            and obs['len'] == len(ids) and obs.get('in_memory', 0) == 0
        _report(chk, f'in-memory:{pre}:save:lookup:{j}', ok, {'ids': ids, **obs})


def exception_in_with_block_scenarios(chk: Check, rng, n):
    """C08: additions inside a `with` block that is left by an exception: the store is closed by __exit__, and a reopen
    must find every identifier added (create and append sessions)."""
    e = Env.get()
    TS = e.TS
    for j in range(n):
        root = chk.tmp / f'withexc{j}'
        root.mkdir(parents=True, exist_ok=True)
        p = root / 's.nc'
        ids = rng.sample(range(10, 500), rng.randint(3, 7))
        ids[rng.randrange(len(ids))] = 0
        cut = rng.randint(1, len(ids) - 1)
        obs = {}
        try:
            try:
                with TS.create(base_file=p) as ts:
                    for t, fid in enumerate(ids[:cut]):
                        ts.add(e.mk(t, fid, 0, 'ok'))
                    if rng.random() < 0.5:
                        raise KeyboardInterrupt() if False else ZeroDivisionError('user code failed')
            except ZeroDivisionError:
                pass
            try:
                with TS.append(base_file=p) as ts:
                    for t, fid in enumerate(ids[cut:], start=cut):
                        ts.add(e.mk(t, fid, 0, 'ok'))
                    raise ZeroDivisionError('user code failed')
            except ZeroDivisionError:
                pass
            with TS.open(base_file=p) as r_:
                obs['len'] = len(r_)
                obs['lookups'] = [None if (r := r_.get_flight(f)) is None else tag_of(r) for f in ids]
        except Exception as ex:  # noqa: BLE001
            obs['error'] = f'{type(ex).__name__}: {ex}'[:120]
        ok = 'error' not in obs and obs['len'] == len(ids) and obs['lookups'] == list(range(len(ids)))
        _report(chk, f'with-block-left-by-exception:{j}', ok, {'ids': ids, 'cut': cut, **obs})


def rewrite_input_then_retry_scenarios(chk: Check, rng, n):
    """C10: a merge is refused; the offending input is regenerated IN PLACE (same path) so that it fits; the retry in
    the same process must succeed and give the concatenation (nothing about the refused attempt may be remembered)."""
    e = Env.get()
    TS = e.TS
    for j in range(n):
        root = chk.tmp / f'rewrite{j}'
        root.mkdir(parents=True, exist_ok=True)
        k = rng.randint(2, 4)
        bad = rng.randrange(k)
        why = rng.choice(['identification', 'fieldsets'])
        paths, expect, t = [], [], 1
        obs = {}
        try:
            for i in range(k):
                p = root / f's{i}.nc'
                paths.append(p)
                with TS.create(base_file=p) as ts:
                    for _ in range(rng.randint(1, 3)):
                        if i == bad:
                            ts.add(e.mk(900 + t, None if why == 'identification' else 700 + t, 1 if why == 'fieldsets' else 0, 'ok'))
                        else:
                            ts.add(e.mk(t, 700 + t, 0, 'ok'))
                        t += 1
            out = root / 'm.aeic-store'
            try:
                TS.merge(output_store=out, input_stores=paths)
                obs['first'] = 'returned'
            except ValueError as ex:
                obs['first'] = 'refused'
            gc.collect()
            os.remove(paths[bad])
            with TS.create(base_file=paths[bad]) as ts:
                ts.add(e.mk(500, 1500, 0, 'ok'))
                ts.add(e.mk(501, 1501, 0, 'ok'))
            for i, p in enumerate(paths):
                expect += raw_tags(p)
            TS.merge(output_store=out, input_stores=paths)
            gc.collect()
            with TS.open(base_file=out) as r_:
                obs['merged'] = [tag_of(x) for x in r_]
                obs['lookup'] = tag_of(r_.get_flight(1501))
        except Exception as ex:  # noqa: BLE001
            obs['error'] = f'{type(ex).__name__}: {ex}'[:140]
        ok = 'error' not in obs and obs['first'] == 'refused' and obs['merged'] == expect and obs['lookup'] == 501
        _report(chk, f'refused-merge:{why}:input-rewritten-in-place:retry:{j}', ok, {'expect': expect, **obs})


def fieldset_order_scenarios():
    """C09: inputs whose field sets differ, the richer one first and the poorer one first (subset / superset): refused
    either way, nothing changed, and the inputs that fit merge afterwards"""
    out = []
    for rich_first in (True, False):
        for ident in (True, False):
            ops, t = [], 1
            sigs = [1, 0, 0] if rich_first else [0, 0, 1]
            paths = []
            for i, sg in enumerate(sigs):
                p = [0, i, 0]
                paths.append(p)
                ops.append(dict(op='create', p=p, cache=2))
                for _ in range(1 + i % 2):
                    ops.append(A(tag=t, fid=(1000 - t) if ident else None, sig=sg))
                    t += 1
                ops.append(dict(op='close'))
            same = [p for p, sg in zip(paths, sigs) if sg == 0]
            ops += [dict(op='merge', out=[0, 60, 1], ins=paths), dict(op='merge', out=[0, 60, 1], ins=list(reversed(paths))),
                    dict(op='merge', out=[0, 60, 1], ins=same), dict(op='open_r', p=[0, 60, 1], cache=1), dict(op='len'),
                    dict(op='iter'), dict(op='close')]
            out.append({'name': f'fieldsets-{"superset" if rich_first else "subset"}-first:{"id" if ident else "noid"}',
                        'ops': ops})
    return out


def append_shorter_associated_scenarios(chk: Check, rng, n):
    """C07: a store created with an associated file, appended to through the base file ALONE (so that the associated
    file holds fewer trajectories than the base file), then reopened for appending with the associated file again.
    Oracle only (a plain list of tags): every add() returns the number of trajectories added before it, len() is
    that number + 1, and a reading session shows all of them in insertion order."""
    e = Env.get()
    TS = e.TS
    for j in range(n):
        root = chk.tmp / f'shortassoc{j}'
        root.mkdir(parents=True, exist_ok=True)
        bp, ap = root / 'b.nc', root / 'a.nc'
        n1, n2, n3 = rng.randint(1, 4), rng.randint(1, 3), rng.randint(1, 3)
        ident = rng.random() < 0.5
        cache = rng.choice([NB + 100, 2 * NB + 100, None])
        added, obs = [], {'add_returned': [], 'len_after_add': []}

        def put(ts, sig):
            t = len(added) + 1
            obs['add_returned'].append(int(ts.add(e.mk(t, (3000 - t) if ident else None, sig, 'ok'))))
            added.append(t)
            obs['len_after_add'].append(len(ts))
        try:
            with TS.create(base_file=bp, associated_files=[(ap, [XFS])]) as ts:
                for _ in range(n1):
                    put(ts, 1)
            with TS.append(base_file=bp) as ts:
                for _ in range(n2):
                    put(ts, 0)
            with TS.append(base_file=bp, associated_files=[ap], cache_size_mb=e.cache_mb(cache)) as ts:
                obs['len_on_reopen'] = len(ts)
                for _ in range(n3):
                    put(ts, 1)
            gc.collect()
            with TS.open(base_file=bp, cache_size_mb=e.cache_mb(cache)) as r_:
                obs['read_len'] = len(r_)
                obs['read_by_index'] = [tag_of(r_[i]) for i in range(len(added))]
                obs['read_iter'] = [tag_of(x) for x in r_]
                try:
                    r_[len(added)]
                    obs['beyond'] = 'returned'
                except IndexError:
                    obs['beyond'] = 'IndexError'
            obs['base_file_raw'] = raw_tags(bp)
        except Exception as ex:  # noqa: BLE001
            obs['error'] = f'{type(ex).__name__}: {ex}'[:140]
        gc.collect()
        total = n1 + n2 + n3
        ok = ('error' not in obs and obs['add_returned'] == list(range(total))
              and obs['len_after_add'] == list(range(1, total + 1)) and obs['len_on_reopen'] == n1 + n2
              and obs['read_len'] == total and obs['read_by_index'] == added and obs['read_iter'] == added
              and obs['beyond'] == 'IndexError' and obs['base_file_raw'] == added)
        chk.count('append_shorter_associated_scenarios')
        _report(chk, f'append-with-associated-file-shorter-than-base:{n1}+{n2}+{n3}:{"id" if ident else "noid"}:{j}', ok,
                {'sizes': [n1, n2, n3], 'added': added, **obs})


def mixed_merge_order_scenarios(chk: Check, rng, n):
    """C08 ("a store must be either fully identified or not at all"): a merge whose inputs are partly identified and
    partly not is refused WHATEVER the position of the unidentified ones (first, in the middle, last).  Oracle only:
    ValueError, no output store, every input still in place with its own trajectories and identifiers."""
    e = Env.get()
    TS = e.TS
    for j in range(n):
        root = chk.tmp / f'mixorder{j}'
        root.mkdir(parents=True, exist_ok=True)
        k = rng.randint(2, 4)
        if j == 0:
            kinds = [False] + [True] * (k - 1)          # unidentified first
        elif j == 1:
            kinds = [True] * (k - 1) + [False]          # unidentified last
        else:
            kinds = [rng.random() < 0.5 for _ in range(k)]
            if all(kinds) or not any(kinds):
                kinds[rng.randrange(k)] = not kinds[0]
        paths, content, t = [], [], 1
        obs = {}
        try:
            for i, idn in enumerate(kinds):
                p = root / f's{i}.nc'
                rows = []
                with TS.create(base_file=p) as ts:
                    for _ in range(rng.randint(1, 3)):
                        fid = (0 if t == 2 else 4000 - t) if idn else None
                        ts.add(e.mk(t, fid, 0, 'ok'))
                        rows.append((t, fid))
                        t += 1
                paths.append(p)
                content.append(rows)
            out = root / 'm.aeic-store'
            try:
                TS.merge(output_store=out, input_stores=paths)
                obs['merge'] = 'returned'
            except ValueError:
                obs['merge'] = 'refused'
            gc.collect()
            obs['output_exists'] = out.exists()
            obs['inputs_in_place'] = [p.exists() for p in paths]
            if obs['merge'] == 'returned' and out.exists():
                try:
                    with TS.open(base_file=out) as r_:
                        obs['merged_flight_ids'] = [None if x.flight_id is None else int(x.flight_id) for x in r_]
                        fids = [f for rows in content for (_, f) in rows if f is not None]
                        try:
                            obs['merged_lookups'] = [None if (r := r_.get_flight(f)) is None else tag_of(r) for f in fids]
                        except Exception as ex:  # noqa: BLE001
                            obs['merged_lookups'] = f'{type(ex).__name__}: {ex}'[:100]
                except Exception as ex:  # noqa: BLE001
                    obs['merged_open'] = f'{type(ex).__name__}: {ex}'[:100]
            seen = []
            for p, idn in zip(paths, kinds):
                if not p.exists():
                    seen.append(None)
                    continue
                with TS.open(base_file=p) as r_:
                    seen.append([(tag_of(x), None if x.flight_id is None else int(x.flight_id)) for x in r_])
                    if idn:
                        rows = content[paths.index(p)]
                        obs.setdefault('input_lookups_ok', []).append(
                            all((r := r_.get_flight(f)) is not None and tag_of(r) == tg for (tg, f) in rows))
            obs['inputs_read'] = seen
        except Exception as ex:  # noqa: BLE001
            obs['error'] = f'{type(ex).__name__}: {ex}'[:140]
        gc.collect()
        ok = ('error' not in obs and obs['merge'] == 'refused' and not obs['output_exists'] and all(obs['inputs_in_place'])
              and obs['inputs_read'] == [list(rows) for rows in content] and all(obs.get('input_lookups_ok', [True])))
        chk.count('mixed_merge_order_scenarios:' + ('unidentified-first' if not kinds[0] else 'identified-first'))
        _report(chk, f'merge-mixed-identification:{"".join("I" if x else "U" for x in kinds)}:{j}', ok,
                {'kinds': kinds, 'content': content, **obs})


def rejected_then_other_schema_scenarios(chk: Check):
    """C10: the FIRST trajectory ever offered to a fresh file-backed store is rejected (a required base value is
    missing); the NEXT one offered has other field sets (base + the extra set) and lacks the required per-trajectory
    value of the extra set.  Both are no-ops: length 0, valid additions (of either schema) then get indices 0, 1, the
    store closes, and a reopen shows exactly the valid ones.  Oracle only (plain list)."""
    e = Env.get()
    TS = e.TS
    for which in ('starting_mass', 'total_fuel_mass'):
        for ident in (False, True):
            for valid_sig in (1, 0):
                name = f'rejected-first-add-then-other-schema-missing-required:{which}:{"id" if ident else "noid"}:' \
                       f'{"extra" if valid_sig else "base"}-schema-follows'
                root = chk.tmp / f'rejother_{which}_{int(ident)}_{valid_sig}'
                root.mkdir(parents=True, exist_ok=True)
                p = root / 's.nc'
                fid = (lambda t: 600 - t) if ident else (lambda t: None)
                obs = {}
                ts = None
                try:
                    ts = TS.create(base_file=p)
                    try:
                        ts.add(e.mk(1, fid(1), 0, 'missing', which))
                        obs['bad1'] = 'accepted'
                    except ValueError:
                        obs['bad1'] = 'rejected'
                    obs['len_after_bad1'] = len(ts)
                    bad2 = e.mk(2, fid(2), 0, 'ok')
                    bad2.add_fields(e.FieldSet.from_registry(XFS))        # atag (required, per trajectory) stays None
                    try:
                        ts.add(bad2)
                        obs['bad2'] = 'accepted'
                    except ValueError:
                        obs['bad2'] = 'rejected'
                    except Exception as ex:  # noqa: BLE001
                        obs['bad2'] = f'raised {type(ex).__name__}: {ex}'[:100]
                    obs['len_after_bad2'] = len(ts)
                    obs['file_after_bad2'] = p.exists()
                    obs['good_returned'] = []
                    for t in (3, 4):
                        try:
                            obs['good_returned'].append(int(ts.add(e.mk(t, fid(t), valid_sig, 'ok'))))
                        except Exception as ex:  # noqa: BLE001
                            obs['good_returned'].append(f'{type(ex).__name__}: {ex}'[:80])
                    obs['len_after_good'] = len(ts)
                    try:
                        obs['read_in_session'] = [tag_of(ts[0]), tag_of(ts[1])]
                    except Exception as ex:  # noqa: BLE001
                        obs['read_in_session'] = f'{type(ex).__name__}: {ex}'[:80]
                except Exception as ex:  # noqa: BLE001
                    obs['error'] = f'{type(ex).__name__}: {ex}'[:140]
                try:
                    if ts is not None:
                        ts.close()
                    obs['close'] = 'ok'
                except Exception as ex:  # noqa: BLE001
                    obs['close'] = f'{type(ex).__name__}: {ex}'[:100]
                gc.collect()
                try:
                    with TS.open(base_file=p) as r_:
                        obs['reopen_len'] = len(r_)
                        obs['reopen'] = [tag_of(x) for x in r_]
                        if ident:
                            obs['reopen_lookup'] = [None if (r := r_.get_flight(fid(t))) is None else tag_of(r) for t in (1, 2, 3, 4)]
                except Exception as ex:  # noqa: BLE001
                    obs['reopen'] = f'{type(ex).__name__}: {ex}'[:100]
                gc.collect()
                ok = ('error' not in obs and obs['bad1'] == 'rejected' and obs['len_after_bad1'] == 0
                      and obs['bad2'] != 'accepted' and obs['len_after_bad2'] == 0 and obs['file_after_bad2'] is False
                      and obs['good_returned'] == [0, 1] and obs['len_after_good'] == 2 and obs['read_in_session'] == [3, 4]
                      and obs['close'] == 'ok' and obs.get('reopen_len') == 2 and obs['reopen'] == [3, 4]
                      and (not ident or obs.get('reopen_lookup') == [None, None, 3, 4]))
                chk.count('rejected_then_other_schema_scenarios')
                _report(chk, name, ok, obs)


def retry_after_interrupted_merge_scenarios(chk: Check, rng, n):
    """C10: a merge is interrupted while it moves its inputs (an OSError in front of one of the os.rename calls, after
    at least one input was moved); then a merge under the SAME output name is attempted (a) with the inputs that are
    still in place, (b) with those plus a file from another directory that has the name of an input already moved.
    Oracle only, and the same whether the retry is carried out or refused:
      (1) every trajectory ever added is readable from exactly one place: a file still where it was written, the
          merged store (if the directory has metadata.json: through TrajectoryStore.open of the directory), or, in a
          directory that does not announce itself as a store, one of the files lying in it;
      (2) a directory with metadata.json lists every .nc file that lies in it, and opening it gives the concatenation
          of the listed files;
      (3) nothing was overwritten: as many distinct tags are readable as were added."""
    e = Env.get()
    TS = e.TS
    for j in range(n):
        variant = 'remaining-inputs' if j % 2 == 0 else 'same-named-file-from-another-directory'
        root = chk.tmp / f'retry{j}'
        d1, d2 = root / 'run1', root / 'run2'
        d1.mkdir(parents=True, exist_ok=True)
        d2.mkdir(parents=True, exist_ok=True)
        k = rng.randint(2, 4)
        moved_before_fault = 1 if j < 2 else rng.randint(1, k - 1)
        ident = rng.random() < 0.5
        out = root / 'm.aeic-store'
        paths = [d1 / f's{i}.nc' for i in range(k)]
        other = d2 / 's0.nc'                          # the name of the input that is moved first
        written, t = {}, 1
        obs = {}
        try:
            for p in paths + [other]:
                rows = []
                with TS.create(base_file=p) as ts:
                    for _ in range(rng.randint(1, 3)):
                        ts.add(e.mk(t, (7000 - t) if ident else None, 0, 'ok'))
                        rows.append(t)
                        t += 1
                written[str(p.relative_to(root))] = rows
            real_rename, calls = os.rename, [0]

            def failing_rename(src, dst, *a, **kw):
                if calls[0] == moved_before_fault:
                    calls[0] += 1
                    raise InjectedFault(f'injected failure in front of rename number {moved_before_fault + 1}')
                calls[0] += 1
                return real_rename(src, dst, *a, **kw)
            os.rename = failing_rename
            try:
                TS.merge(output_store=out, input_stores=paths)
                obs['first_merge'] = 'returned'
            except InjectedFault:
                obs['first_merge'] = 'interrupted'
            except Exception as ex:  # noqa: BLE001
                obs['first_merge'] = f'{type(ex).__name__}: {ex}'[:100]
            finally:
                os.rename = real_rename
            gc.collect()
            obs['in_place_after_interruption'] = [p.exists() for p in paths]
            retry = [p for p in paths if p.exists()]
            if variant != 'remaining-inputs':
                retry.insert(rng.randrange(len(retry) + 1), other)
            obs['retry_inputs'] = [str(p.relative_to(root)) for p in retry]
            try:
                TS.merge(output_store=out, input_stores=retry)
                obs['retry'] = 'carried out'
            except ValueError as ex:
                obs['retry'] = f'refused: {ex}'[:100]
            except Exception as ex:  # noqa: BLE001
                obs['retry'] = f'raised {type(ex).__name__}: {ex}'[:100]
            gc.collect()

            def read(p):
                with TS.open(base_file=p) as r_:
                    return [tag_of(x) for x in r_]
            places = {}
            for p in paths + [other]:
                if p.exists():
                    places[str(p.relative_to(root))] = read(p)
            if out.exists():
                files = sorted(f.name for f in out.glob('*.nc') if f.name != '_index.nc')
                obs['files_in_output'] = files
                if (out / 'metadata.json').exists():
                    with open(out / 'metadata.json') as f:
                        listed = [s[0] for s in json.load(f)['stores']]
                    obs['listed_in_metadata'] = listed
                    places['<merged store>'] = read(out)
                    obs['concatenation_of_listed'] = [x for nm in listed for x in (raw_tags(out / nm) if (out / nm).exists() else ['missing'])]
                else:
                    for nm in files:
                        places[f'm.aeic-store/{nm} (no metadata.json)'] = read(out / nm)
            obs['readable'] = places
        except Exception as ex:  # noqa: BLE001
            obs['error'] = f'{type(ex).__name__}: {ex}'[:160]
        gc.collect()
        all_tags = sorted(x for rows in written.values() for x in rows)
        ok = 'error' not in obs and obs['first_merge'] == 'interrupted'
        if ok:
            seen = sorted(x for rows in obs['readable'].values() for x in rows)
            obs['lost'] = [x for x in all_tags if x not in seen]
            obs['more_than_once'] = sorted({x for x in seen if seen.count(x) > 1})
            ok = seen == all_tags and len(set(seen)) == len(all_tags)                       # (1), (3)
            if 'listed_in_metadata' in obs:                                                 # (2)
                obs['unlisted_files'] = [f for f in obs['files_in_output'] if f not in obs['listed_in_metadata']]
                ok = ok and sorted(obs['listed_in_metadata']) == obs['files_in_output'] \
                    and obs['readable']['<merged store>'] == obs['concatenation_of_listed']
        chk.count('retry_after_interrupted_merge_scenarios:' + variant)
        _report(chk, f'merge-interrupted-after-{moved_before_fault}-of-{k}-moves:retry-same-output:{variant}:'
                     f'{"id" if ident else "noid"}:{j}', ok, {'written': written, **obs})

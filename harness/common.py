"""Shared machinery of the AEIC Coq verification checks.

One `Check` object per run of `bin/check <ID>`.  It

* builds / re-checks the Coq development (`ensure_coq_built`, `coq_props`, `coq_compile_gen`),
* evaluates the executable Gallina model on generated cases inside Coq (`coq_eval`),
* collects the verdict: property-oracle failures (with replay), broken proof obligations or
  correspondence (`broken`), known findings (matched narrowly by signature),
* writes `/verif/evidence/<ID>.json` and prints the VIOLATION / KNOWN-FINDING lines.
"""

from __future__ import annotations

import fcntl
import hashlib
import json
import math
import os
import random
import re
import shutil
import subprocess
import sys
import time
import zlib
from concurrent.futures import ThreadPoolExecutor
from pathlib import Path

VERIF = Path(__file__).resolve().parent.parent
REPO = Path(os.environ.get('AEIC_REPO', '/repo'))
COQ = VERIF / 'coq'
COQ_ARGS = ['-R', str(COQ), 'AV', '-w',
            '-notation-overridden,-inexact-float,-deprecated-hint-without-locality,'
            '-deprecated-instance-without-locality,-abstract-large-number']
GUARD = 'MIT_LAE_AEIC_VERIF'
FORBIDDEN = re.compile(
    r'\b(Admitted|admit|Axiom|Axioms|Parameter|Parameters|Conjecture|Conjectures|Admit\s+Obligations|'
    r'Unset\s+Guard\s+Checking|Unset\s+Positivity\s+Checking|Unset\s+Universe\s+Checking|bypass_check|'
    r'type-in-type|impredicative-set|native_compute)\b')


def write_coqproject():
    """_CoqProject lists every .v under coq/{lib,model,proofs,props}; regenerated when the set changes."""
    files = [str(p.relative_to(COQ)) for d in ('lib', 'model', 'proofs', 'props') for p in sorted((COQ / d).glob('*.v'))]
    text = ('-R . AV\n-arg -w -arg -notation-overridden,-inexact-float,-deprecated-hint-without-locality,'
            '-deprecated-instance-without-locality,-abstract-large-number\n' + '\n'.join(files) + '\n')
    cp = COQ / '_CoqProject'
    if not cp.exists() or cp.read_text() != text or not (COQ / 'Makefile').exists():
        cp.write_text(text)
        subprocess.run(['coq_makefile', '-f', '_CoqProject', '-o', 'Makefile'], cwd=COQ, check=True,
                       capture_output=True)


def log(*a):
    print(*a, file=sys.stderr, flush=True)


# ----------------------------------------------------------------------------
# Python value -> Coq term text
# ----------------------------------------------------------------------------

class Raw(str):
    """Coq text passed through verbatim."""


def coq_float(x: float) -> str:
    if math.isnan(x):
        return 'nan'
    if math.isinf(x):
        return 'infinity' if x > 0 else 'neg_infinity'
    h = float(x).hex()
    if h.startswith('-'):
        return f'(-{h[1:]})%float'
    return f'({h})%float'


def to_coq(v) -> str:
    if isinstance(v, Raw):
        return str(v)
    if isinstance(v, bool):
        return 'true' if v else 'false'
    if isinstance(v, int):
        return f'({v})%Z'
    if isinstance(v, float):
        return coq_float(v)
    if isinstance(v, str):
        assert '"' not in v
        return f'"{v}"%string'
    if v is None:
        return 'None'
    if isinstance(v, tuple):
        if len(v) == 1:
            return to_coq(v[0])
        return '(' + ', '.join(to_coq(x) for x in v) + ')'
    if isinstance(v, list):
        return '[' + '; '.join(to_coq(x) for x in v) + ']'
    if isinstance(v, Some):
        return f'(Some {to_coq(v.v)})'
    if hasattr(v, '__float__'):
        return coq_float(float(v))
    raise TypeError(f'to_coq: {type(v)}')


class Some:
    def __init__(self, v):
        self.v = v


def nat(n: int) -> Raw:
    assert 0 <= n < 5000, 'no large nat literals'
    return Raw(f'{n}%nat')


# ----------------------------------------------------------------------------
# Coq printed value -> Python
# ----------------------------------------------------------------------------

_TOK = re.compile(r'''
    (?P<str>"(?:[^"]|"")*")(?:%\w+)? |
    (?P<num>-?(?:\d+\.?\d*(?:[eE][-+]?\d+)?|0x[0-9a-fA-F.]+p[-+]?\d+))(?P<suf>%\w+)? |
    (?P<id>[A-Za-z_][A-Za-z_0-9'.]*) |
    (?P<sym>[\[\]();,]) |
    (?P<scope>%\w+) |
    (?P<ws>\s+)
''', re.X)


def _tokenize(s):
    pos = 0
    out = []
    while pos < len(s):
        m = _TOK.match(s, pos)
        if not m:
            raise ValueError(f'coq value: cannot tokenize at {s[pos:pos+40]!r}')
        pos = m.end()
        if m.lastgroup == 'ws' or m.group('scope'):
            continue
        if m.group('str') is not None:
            out.append(('str', m.group('str')[1:-1].replace('""', '"')))
        elif m.group('num') is not None:
            t = m.group('num')
            suf = m.group('suf') or ''
            if suf == '%float' or '.' in t or 'e' in t.lower() and not t.startswith('0x') or 'p' in t:
                out.append(('val', float.fromhex(t) if 'x' in t else float(t)))
            else:
                out.append(('val', int(t)))
        elif m.group('id') is not None:
            out.append(('id', m.group('id')))
        else:
            out.append(('sym', m.group('sym')))
    return out


def parse_coq_value(s: str):
    toks = _tokenize(s)
    pos = [0]

    def peek():
        return toks[pos[0]] if pos[0] < len(toks) else ('eof', None)

    def nxt():
        t = peek()
        pos[0] += 1
        return t

    def atom():
        k, v = nxt()
        if k == 'val':
            return v
        if k == 'str':
            return v
        if k == 'id':
            return {'true': True, 'false': False, 'None': None, 'nan': math.nan, 'infinity': math.inf,
                    'neg_infinity': -math.inf, 'tt': ()}.get(v, Ident(v))
        if (k, v) == ('sym', '['):
            items = []
            if peek() == ('sym', ']'):
                nxt()
                return items
            while True:
                items.append(app())
                k2, v2 = nxt()
                if (k2, v2) == ('sym', ']'):
                    return items
                if (k2, v2) != ('sym', ';'):
                    raise ValueError(f'coq value: expected ; or ] got {v2!r}')
        if (k, v) == ('sym', '('):
            items = [app()]
            while peek() == ('sym', ','):
                nxt()
                items.append(app())
            if nxt() != ('sym', ')'):
                raise ValueError('coq value: expected )')
            return items[0] if len(items) == 1 else tuple(items)
        raise ValueError(f'coq value: unexpected token {v!r}')

    def app():
        head = atom()
        if isinstance(head, Ident):
            args = []
            while peek()[0] in ('val', 'str', 'id') or peek() in (('sym', '('), ('sym', '[')):
                args.append(atom())
            if head == 'Some' and len(args) == 1:
                return args[0]
            if not args:
                return str(head)
            return (str(head), *args)
        return head

    v = app()
    if pos[0] != len(toks):
        raise ValueError(f'coq value: trailing tokens {toks[pos[0]:pos[0]+5]}')
    return v


class Ident(str):
    pass


def _count(xs):
    d = {}
    for x in xs:
        d[x] = d.get(x, 0) + 1
    return d


_EVAL_SPLIT = re.compile(r'^     = ', re.M)


def parse_eval_output(out: str):
    """Split the stdout of a cases file into one parsed value per `Eval`."""
    vals = []
    parts = _EVAL_SPLIT.split(out)[1:]
    for p in parts:
        m = re.search(r'^     : ', p, re.M)
        body = p[:m.start()] if m else p
        vals.append(parse_coq_value(body))
    return vals


# ----------------------------------------------------------------------------
# numeric comparison
# ----------------------------------------------------------------------------

def close(a, b, rel=1e-9, scale=0.0, abs_=1e-12):
    """|a-b| <= rel*max(|a|,|b|) + abs_*max(scale,1e-300...) ; NaN equals NaN; inf equals same inf."""
    if isinstance(a, (list, tuple)) and isinstance(b, (list, tuple)):
        return len(a) == len(b) and all(close(x, y, rel, scale, abs_) for x, y in zip(a, b))
    if a is None or b is None:
        return a is None and b is None
    if isinstance(a, bool) or isinstance(b, bool) or isinstance(a, str) or isinstance(b, str):
        return a == b
    a = float(a)
    b = float(b)
    if math.isnan(a) or math.isnan(b):
        return math.isnan(a) and math.isnan(b)
    if math.isinf(a) or math.isinf(b):
        return a == b
    return abs(a - b) <= rel * max(abs(a), abs(b)) + abs_ * max(scale, 1.0 if scale == 0.0 else 0.0)


def canon(obj):
    return json.dumps(obj, sort_keys=True, default=_json_default)


def _json_default(o):
    try:
        import numpy as np
        if isinstance(o, np.generic):
            return o.item()
        if isinstance(o, np.ndarray):
            return o.tolist()
    except Exception:
        pass
    if isinstance(o, (set, frozenset)):
        return sorted(o, key=str)
    if isinstance(o, Path):
        return str(o)
    if isinstance(o, bytes):
        return o.decode('latin1')
    if hasattr(o, 'name') and hasattr(o, 'value'):
        return str(o.name)
    return repr(o)


def jsonable(o):
    return json.loads(json.dumps(o, default=_json_default))


# ----------------------------------------------------------------------------
# the run
# ----------------------------------------------------------------------------

class Check:
    def __init__(self, pid: str, tier: str, seed: int):
        self.pid = pid
        self.tier = tier
        self.seed = seed
        self.t0 = time.time()
        self.rng = random.Random(seed * 1000003 + zlib.crc32(pid.encode()))
        # one scratch directory per run (process), so that two runs of the same check never share files;
        # directories left by runs whose process is gone are removed first
        base = VERIF / 'build' / pid
        base.mkdir(parents=True, exist_ok=True)
        for old in base.iterdir():
            m = re.fullmatch(r'r(\d+)', old.name)
            if old.is_dir() and (m is None or not Path(f'/proc/{m.group(1)}').exists()):
                shutil.rmtree(old, ignore_errors=True)
            elif old.is_file():
                old.unlink(missing_ok=True)
        self.build = base / f'r{os.getpid()}'
        self.gen = self.build / 'gen'
        self.tmp = self.build / 'tmp'
        if self.build.exists():
            shutil.rmtree(self.build, ignore_errors=True)
        self.gen.mkdir(parents=True, exist_ok=True)
        self.tmp.mkdir(parents=True, exist_ok=True)
        self.obligations: list[dict] = []     # {name, ok, detail, axioms}
        self.failures: list[dict] = []        # property-oracle failures on the implementation
        self.breaks: list[dict] = []          # broken obligations / correspondence
        self.known_hits: dict[str, dict] = {}
        self.evaluations = 0
        self.nontrivial: set[str] = set()
        self.samples: list = []
        self.counters: dict[str, int] = {}
        self.traces_validated = 0
        self.exhaustive = False
        self.rule = ''
        self.assumptions: list[str] = []
        self.trusted: list[str] = []
        self.checker_cmds: list[str] = []
        self.notes: dict = {}
        allk = list(json.loads((VERIF / 'known_findings.json').read_text())['findings'])
        for f in sorted((VERIF / 'known_findings.d').glob('*.json')):      # staging area, merged by hand
            allk.append(json.loads(f.read_text()))
        self.known = [k for k in allk if k['property'] == pid]
        self._replay_n = 0

    # ---- scaling helper -------------------------------------------------
    def n(self, quick: int, thorough: int) -> int:
        return thorough if self.tier == 'thorough' else quick

    # ---- coverage accounting ---------------------------------------------
    def count(self, key: str, k: int = 1):
        self.counters[key] = self.counters.get(key, 0) + k

    def case(self, case, nontrivial: bool, sample_cap: int = 3):
        """Account one explored case."""
        self.evaluations += 1
        if nontrivial:
            self.nontrivial.add(hashlib.sha1(canon(case).encode()).hexdigest())
        if len(self.samples) < sample_cap:
            self.samples.append(jsonable(case))

    # ---- Coq -----------------------------------------------------------
    def ensure_coq_built(self, targets: list[str] | None = None):
        """Build (under a lock) the .vo files this property needs: every coq/{lib,model,proofs,props}
        file whose name starts with `<ID>_`, plus `targets` (paths relative to coq/, .v)."""
        lock = VERIF / 'build' / '.coq.lock'
        lock.parent.mkdir(exist_ok=True)
        want = [str(p.relative_to(COQ)) for d in ('model', 'proofs', 'props')
                for p in sorted((COQ / d).glob(f'{self.pid}_*.v'))]
        want += list(targets or [])
        with open(lock, 'w') as lf:
            fcntl.flock(lf, fcntl.LOCK_EX)
            self._forbidden_grep(want)
            write_coqproject()
            vos = [w[:-2] + '.vo' for w in want]
            r = subprocess.run(['timeout', '2400', 'make', '-j16', *vos], cwd=COQ, capture_output=True, text=True)
            if r.returncode != 0:
                self.broken('coq-build', 'make failed in /verif/coq:\n' + (r.stdout + r.stderr)[-3000:])
                return False
        return True

    def _forbidden_grep(self, want=()):
        """No declared axioms / admitted proofs / disabled checks in anything this property rests on
        (bin/setup greps the whole development)."""
        bad = []
        files = list((COQ / 'lib').glob('*.v')) + [COQ / w for w in want] + list((COQ / 'link').glob(f'{self.pid}_*.v'))
        for p in files:
            txt = re.sub(r'\(\*.*?\*\)', '', p.read_text(), flags=re.S)
            for m in FORBIDDEN.finditer(txt):
                bad.append(f'{p.relative_to(VERIF)}: {m.group(0)}')
        if bad:
            self.broken('hygiene-grep', 'forbidden vernacular in development: ' + '; '.join(bad[:10]))

    def _coqc(self, vfile: Path, extra_args=(), timeout=900):
        cmd = ['timeout', str(timeout), 'coqc', *COQ_ARGS, *extra_args, str(vfile)]
        r = subprocess.run(cmd, capture_output=True, text=True, cwd=vfile.parent)
        return r

    def coq_props(self, rel: str, extra_args=(), where: Path | None = None):
        """(Re)compile a Props/Link file, record each `Print Assumptions` as a discharged obligation."""
        src = (where or COQ) / rel
        txt = src.read_text()
        names = re.findall(r'^\s*Print Assumptions\s+([\w.\']+)\s*\.', txt, re.M)
        cmd_s = f'coqc -R coq AV {" ".join(extra_args)} {src.relative_to(VERIF) if src.is_relative_to(VERIF) else src}'
        self.checker_cmds.append(cmd_s)
        r = self._coqc(src, extra_args)
        if r.returncode != 0:
            for nme in names or [rel]:
                self.obligations.append({'name': f'{rel}:{nme}', 'ok': False})
            self.broken(f'proof:{rel}', (r.stdout + r.stderr)[-3000:])
            return False
        blocks = re.split(r'^(?=Closed under the global context|Axioms:)', r.stdout, flags=re.M)[1:]
        for i, nme in enumerate(names):
            ax = []
            if i < len(blocks) and blocks[i].startswith('Axioms:'):
                ax = re.findall(r'^([A-Za-z_][\w.\']*)\s*:', blocks[i], re.M)
            self.obligations.append({'name': f'{rel}:{nme}', 'ok': True, 'axioms': ax})
        return True

    def coq_compile_gen(self, name: str, text: str | None = None, obligation: str | None = None):
        """Compile build/<ID>/gen/<name>.v (logical path Gen.<name>)."""
        f = self.gen / f'{name}.v'
        if text is not None:
            f.write_text(text)
        r = self._coqc(f, ['-R', str(self.gen), 'Gen'])
        ob = obligation or f'gen:{name}'
        if r.returncode != 0:
            self.obligations.append({'name': ob, 'ok': False})
            self.broken(ob, (r.stdout + r.stderr)[-3000:])
            return None
        return r.stdout

    def coq_link(self, rel: str):
        """Copy coq/link/<rel> into gen/ and compile it there against the freshly generated modules."""
        src = COQ / 'link' / rel
        dst = self.gen / rel
        shutil.copy(src, dst)
        return self.coq_props(rel, ['-R', str(self.gen), 'Gen'], where=self.gen)

    def coq_eval(self, header: str, exprs: list[str], shard: int = 400, label: str = 'cases',
                 timeout: int = 1200):
        """Evaluate each Gallina expression with vm_compute inside Coq; return parsed values
        (None for shards that failed; those are reported as broken correspondence)."""
        files = []
        for k in range(0, len(exprs), shard):
            f = self.gen / f'{label}_{k // shard}.v'
            body = [header, 'Set Printing Depth 100000.', 'Set Printing Width 200.']
            body += [f'Eval vm_compute in ({e}).' for e in exprs[k:k + shard]]
            f.write_text('\n'.join(body) + '\n')
            files.append((f, len(exprs[k:k + shard])))

        def run(fn):
            f, cnt = fn
            r = self._coqc(f, ['-R', str(self.gen), 'Gen'], timeout=timeout)
            if r.returncode != 0:
                return f, cnt, None, (r.stdout + r.stderr)[-2000:]
            try:
                vals = parse_eval_output(r.stdout)
            except Exception as e:  # noqa: BLE001
                return f, cnt, None, f'parse error: {e}'
            if len(vals) != cnt:
                return f, cnt, None, f'expected {cnt} results, got {len(vals)}'
            return f, cnt, vals, ''

        results = []
        with ThreadPoolExecutor(max_workers=16) as ex:
            for f, cnt, vals, err in ex.map(run, files):
                if vals is None:
                    self.broken(f'model-eval:{f.name}', err)
                    results += [None] * cnt
                else:
                    results += vals
        return results

    def coqchk(self):
        """thorough tier: re-check the compiled closure of the property theorems with the independent checker
        and copy its axiom report into the evidence."""
        mods = [f'AV.props.{p.stem}' for p in sorted((COQ / 'props').glob(f'{self.pid}_*.v'))]
        if not mods:
            return
        cmd = ['timeout', '1500', 'coqchk', '-silent', '-o', '-R', str(COQ), 'AV', *mods]
        self.checker_cmds.append('coqchk -silent -o -R coq AV ' + ' '.join(mods))
        r = subprocess.run(cmd, capture_output=True, text=True, cwd=COQ)
        out = r.stdout + r.stderr
        if r.returncode != 0:
            self.obligations.append({'name': 'coqchk:' + ','.join(mods), 'ok': False})
            self.broken('coqchk', out[-2000:])
            return
        m = re.search(r'\* Axioms:(.*?)\n\s*\n\* Constants/Inductives relying on type-in-type:(.*?)\n\s*\n'
                      r'\* Constants/Inductives relying on unsafe \(co\)fixpoints:(.*?)\n\s*\n'
                      r'\* Inductives whose positivity is assumed:(.*?)\n', out, re.S)
        rep = {'axioms': ' '.join(m.group(1).split()) if m else '?',
               'type_in_type': ' '.join(m.group(2).split()) if m else '?',
               'unsafe_fixpoints': ' '.join(m.group(3).split()) if m else '?',
               'assumed_positivity': ' '.join(m.group(4).split()) if m else '?'}
        self.notes['coqchk'] = rep
        ok = bool(m) and all(rep[k] == '<none>' for k in ('type_in_type', 'unsafe_fixpoints', 'assumed_positivity'))
        self.obligations.append({'name': 'coqchk:' + ','.join(mods), 'ok': ok, 'axioms': []})
        if not ok:
            self.broken('coqchk', 'kernel checks relaxed or report unparsable: ' + json.dumps(rep))

    # ---- verdict ---------------------------------------------------------
    def broken(self, name: str, detail: str, case=None):
        """A proof obligation / extraction / correspondence that no longer checks."""
        self.breaks.append({'what': name, 'detail': detail, 'case': jsonable(case)})
        log(f'[{self.pid}] BROKEN {name}: {detail[:600]}')

    def fail(self, desc: str, case, signature: str | None = None, kind: str = 'property'):
        """The property predicate failed on the implementation for `case`.
        `signature` identifies the failure narrowly; a known finding with the same signature absorbs it."""
        for k in self.known:
            if k.get('status') == 'known' and signature is not None and k['signature'] == signature:
                hit = self.known_hits.setdefault(k['id'], {'finding': k, 'count': 0, 'example': jsonable(case)})
                hit['count'] += 1
                return 'known'
        self.failures.append({'desc': desc, 'case': jsonable(case), 'signature': signature, 'kind': kind})
        log(f'[{self.pid}] FAIL {desc[:400]}')
        return 'violation'

    def _write_replay(self, obj) -> Path:
        d = VERIF / 'replays' / self.pid
        d.mkdir(parents=True, exist_ok=True)
        p = d / f'{self.seed}-{self._replay_n}.json'
        self._replay_n += 1
        p.write_text(json.dumps(obj, indent=1, default=_json_default))
        return p

    def finish(self) -> int:
        wall = time.time() - self.t0
        lines = []
        rc = 0
        if self.failures:
            rc = 1
            f = self.failures[0]
            p = self._write_replay({'property': self.pid, 'kind': 'failing-input', 'desc': f['desc'],
                                    'signature': f['signature'], 'case': f['case'],
                                    'other_failures': len(self.failures) - 1,
                                    'broken': [b['what'] for b in self.breaks]})
            lines.append(f'VIOLATION property={self.pid} replay={p}')
        elif self.breaks:
            rc = 1
            b = self.breaks[0]
            p = self._write_replay({'property': self.pid, 'kind': 'broken-obligation',
                                    'no_longer_checks': [x['what'] for x in self.breaks],
                                    'detail': b['detail'], 'case': b['case']})
            lines.append(f'VIOLATION property={self.pid} replay={p} no-failing-input-found')
        for kid, h in sorted(self.known_hits.items()):
            lines.append(f"KNOWN-FINDING: property={self.pid} {kid} {h['finding']['what']} "
                         f"[{h['count']} case(s) this run]")
        n_ob = len(self.obligations)
        n_ok = sum(1 for o in self.obligations if o['ok'])
        axioms = sorted({a for o in self.obligations for a in o.get('axioms', [])})
        ev = {
            'property_id': self.pid, 'tier': self.tier, 'seed': self.seed, 'level': 'proof',
            'coverage': {
                'obligations': n_ob, 'discharged': n_ok,
                'checker_cmd': '; '.join(dict.fromkeys(self.checker_cmds)) or 'coqc',
                'trusted_base': ['Coq 8.16.1 kernel + vm_compute (no native_compute)',
                                 'axioms (Print Assumptions, stdlib only): ' + (', '.join(axioms) or 'none — closed under the global context'),
                                 *self.trusted],
                'obligation_list': [{'name': o['name'], 'ok': o['ok'], 'axioms': o.get('axioms', [])}
                                    for o in self.obligations],
                'evaluations': self.evaluations,
                'distinct_nontrivial': len(self.nontrivial),
                'rule': self.rule,
                'samples': self.samples[:5],
                'traces_validated_against_impl': self.traces_validated,
                'exhaustive': self.exhaustive,
                'input_distribution': self.counters,
                'known_findings_hit': {k: v['count'] for k, v in self.known_hits.items()},
                'broken': [b['what'] for b in self.breaks],
                'failure_signatures': _count([f['signature'] or f['desc'][:80] for f in self.failures]),
                **self.notes,
            },
            'assumptions': self.assumptions,
            'wall_s': round(wall, 2),
            'violations': len(self.failures) + (1 if (self.breaks and not self.failures) else 0),
        }
        (VERIF / 'evidence').mkdir(exist_ok=True)
        (VERIF / 'evidence' / f'{self.pid}.json').write_text(json.dumps(ev, indent=1, default=_json_default))
        shutil.rmtree(self.tmp, ignore_errors=True)
        for ln in lines:
            print(ln, flush=True)
        print(f'[{self.pid}] tier={self.tier} seed={self.seed} obligations={n_ok}/{n_ob} '
              f'evaluations={self.evaluations} nontrivial={len(self.nontrivial)} '
              f'failures={len(self.failures)} broken={len(self.breaks)} wall={wall:.1f}s', flush=True)
        return rc


# ----------------------------------------------------------------------------
# implementation-side helpers
# ----------------------------------------------------------------------------

def setup_impl_env():
    """Make `import AEIC` resolve to /repo's working tree, deterministic hashing, guard on."""
    os.environ[GUARD] = '1'
    os.environ.setdefault('PYTHONHASHSEED', '0')
    src = str(REPO / 'src')
    if src not in sys.path:
        sys.path.insert(0, src)
    os.environ['PYTHONPATH'] = src


def stub_shapely():
    import types
    if 'shapely' in sys.modules:
        return
    try:
        import shapely  # noqa: F401
        return
    except Exception:  # noqa: BLE001
        pass
    sh = types.ModuleType('shapely')
    geo = types.ModuleType('shapely.geometry')

    class Polygon:  # minimal stand-in; only constructed, never queried, by the gridding code paths we run
        def __init__(self, *a, **k):
            self.args = a
    geo.Polygon = Polygon
    sh.geometry = geo
    sh.Polygon = Polygon
    sys.modules['shapely'] = sh
    sys.modules['shapely.geometry'] = geo


def exc_class(e: BaseException) -> str:
    return type(e).__name__

"""C11 — every documented emissions option combination works or is refused by name; switched-off species
are absent / zero in the trajectory and LTO parts.

Proof:  props/C11_Props.v — kernel sweep of the complete 41 472-configuration product (x 8 environments),
        lifted with forallb_forall, for the repaired behaviour; `..._before_fix_refuted` for the code as found.
Tie:    translator/c11_extract.py regenerates the option enums, option fields, *_enabled switches, the
        enabled_species table and the method-dispatch tables from the source; link/C11_Link.v proves them
        equal to the model's.  Correspondence: outcome class + species written by each component of the real
        compute_emissions call vs `outcome_of` evaluated in Coq, on a simulated and a synthetic trajectory.
Oracle: classification of the real outcome (internal-error types => violation; a refusal must name the
        configured method) + C01's independent balance predicate on values + switched-off species absent/zero.
"""

from __future__ import annotations

import contextlib
import io
import itertools
import json
import os
import re
import tomllib
import warnings
from concurrent.futures import ProcessPoolExecutor

from harness import c01
from harness.common import REPO, VERIF, Check

COQ_TARGETS = ['model/C01_Model.v', 'proofs/C01_Lists.v', 'proofs/C01_Proofs.v']

OPTIONS = c01.OPTIONS
FIELDS = list(OPTIONS)
INTERNAL = ('KeyError', 'AttributeError', 'TypeError', 'IndexError', 'NameError', 'UnboundLocalError',
            'ZeroDivisionError', 'AssertionError')

# the documented switch governing each species (docstrings of EmissionsConfig, default_config.toml) — the
# oracle's own table
GOVERNS = {
    'CO2': lambda c: c['co2_enabled'], 'H2O': lambda c: c['h2o_enabled'],
    'SOx': lambda c: c['sox_enabled'], 'SO2': lambda c: c['sox_enabled'], 'SO4': lambda c: c['sox_enabled'],
    'NOx': lambda c: c['nox_method'] != 'none', 'NO': lambda c: c['nox_method'] != 'none',
    'NO2': lambda c: c['nox_method'] != 'none', 'HONO': lambda c: c['nox_method'] != 'none',
    'HC': lambda c: c['hc_method'] != 'none', 'CO': lambda c: c['co_method'] != 'none',
    'PMvol': lambda c: c['pmvol_method'] != 'none', 'OCic': lambda c: c['pmvol_method'] != 'none',
    'PMnvol': lambda c: c['pmnvol_method'] != 'none', 'PMnvolGMD': lambda c: c['pmnvol_method'] != 'none',
    'PMnvolN': lambda c: c['pmnvol_method'] != 'none',
}

METHOD_OPTS = ('nox_method', 'hc_method', 'co_method', 'pmvol_method', 'pmnvol_method')
OPTION_TAG = {'nox_method': r'nox', 'hc_method': r'(?<![a-z])hc(?![a-z])', 'co_method': r'(?<![a-z])co(?![a-z])',
              'pmvol_method': r'pmvol', 'pmnvol_method': r'pmnvol'}

JET_A = {'name': 'Jet-A', 'energy_MJ_per_kg': 43.2, 'EI_H2O': 1233.3865, 'EI_CO2': 3155.6,
         'non_volatile_carbon_fraction': 0.95, 'lifecycle_CO2': 89.0, 'fuel_sulfur_content_nom': 600.0,
         'sulfate_yield_nom': 0.02}
SAF = {'name': 'SAF', 'energy_MJ_per_kg': 44.1, 'EI_H2O': 1356.72515, 'EI_CO2': 3155.6,
       'non_volatile_carbon_fraction': 0.95, 'lifecycle_CO2': None, 'fuel_sulfur_content_nom': 0.0,
       'sulfate_yield_nom': 0.0}
FLIGHT_NAMES = ['simulated', 'synthetic']
_OBJECTS = None
ENVS = [{'apu': a, 'lifecycle_data': l} for a in ('running', 'unknown', 'none') for l in (True, False)]


# ---------------------------------------------------------------------------
# the two flights
# ---------------------------------------------------------------------------

_SIM = None


def simulated_flight():
    """One genuinely simulated trajectory (LegacyBuilder on the sample performance model, BOS-LAX),
    reduced to the arrays the emissions code reads, + the performance model's LTO row / APU / class."""
    global _SIM
    if _SIM is not None:
        return _SIM
    import AEIC.trajectories.builders as tb
    from AEIC.config import Config, config
    from AEIC.missions import Mission
    from AEIC.performance.models import PerformanceModel
    from AEIC.performance.types import ThrustMode
    os.environ['AEIC_PATH'] = str(REPO / 'tests/data')
    Config.reset()
    Config.load(data_path_overrides=[REPO / 'tests/data'])
    try:
        pm = PerformanceModel.load(config.file_location('performance/sample_performance_model.toml'))
        with open(config.file_location('missions/sample_missions_10.toml'), 'rb') as f:
            mission = Mission.from_toml(tomllib.load(f))[0]
        with warnings.catch_warnings(), contextlib.redirect_stdout(io.StringIO()):
            warnings.simplefilter('ignore')
            traj = tb.LegacyBuilder(options=tb.Options(iterate_mass=False)).fly(pm, mission)
        tm = lambda v: [float(v[m]) for m in ThrustMode]  # noqa: E731
        e = pm.edb
        case = {
            'traj': {'fuel_mass': [float(x) for x in traj.fuel_mass], 'altitude': [float(x) for x in traj.altitude],
                     'tas': [float(x) for x in traj.true_airspeed], 'fuel_flow': [float(x) for x in traj.fuel_flow],
                     'n_climb': int(traj.n_climb), 'n_descent': int(traj.n_descent)},
            'lto': {'fuel_flow': tm(pm.lto.fuel_flow), 'EI_NOx': tm(pm.lto.EI_NOx), 'EI_HC': tm(pm.lto.EI_HC),
                    'EI_CO': tm(pm.lto.EI_CO), 'thrust_pct': tm(pm.lto.thrust_pct), 'SN': tm(e.SN_matrix),
                    'nvPM_mass': tm(e.nvPM_mass_matrix), 'nvPM_num': tm(e.nvPM_num_matrix), 'PR': float(e.PR[ThrustMode.IDLE]),
                    'BPR': float(e.BP_Ratio), 'engine_type': e.engine_type, 'EImass_max': float(e.EImass_max),
                    'EImass_max_thrust': float(e.EImass_max_thrust), 'EInum_max': float(e.EInum_max),
                    'EInum_max_thrust': float(e.EInum_max_thrust), 'n_eng': int(pm.number_of_engines)},
            'apu': {'kind': pm.apu.name, 'fuel_kg_per_s': pm.apu.fuel_kg_per_s, 'NOx_g_per_kg': pm.apu.NOx_g_per_kg,
                    'CO_g_per_kg': pm.apu.CO_g_per_kg, 'HC_g_per_kg': pm.apu.HC_g_per_kg,
                    'PM10_g_per_kg': pm.apu.PM10_g_per_kg},
            'class': str(pm.aircraft_class.value),
        }
    finally:
        Config.reset()
    _SIM = case
    return case


def synthetic_flight():
    return {'traj': {'fuel_mass': [2000.0, 1994.0, 1987.5, 1987.5, 1960.0, 1945.0],
                     'altitude': [0.0, 1500.0, 6000.0, 11000.0, 9000.0, 2000.0],
                     'tas': [120.0, 150.0, 190.0, 210.0, 180.0, 140.0],
                     'fuel_flow': [0.3, 0.35, 0.55, 0.65, 0.5, 0.32], 'n_climb': 2, 'n_descent': 2},
            'lto': {'fuel_flow': [0.25, 0.5, 0.9, 1.2], 'EI_NOx': [8.0, 12.0, 32.0, 40.0], 'EI_HC': [4.0, 3.0, 1.5, 1.0],
                    'EI_CO': [20.0, 10.0, 3.0, 2.0], 'thrust_pct': [7.0, 30.0, 85.0, 100.0], 'SN': [6.0, 8.0, 11.0, 13.0],
                    'nvPM_mass': [5.0, 5.5, 6.0, 6.5], 'nvPM_num': [2.0e14, 2.1e14, 2.2e14, 2.3e14], 'PR': 22.0,
                    'BPR': 5.0, 'engine_type': 'TF', 'EImass_max': 8.0, 'EImass_max_thrust': 0.575,
                    'EInum_max': 2.4e14, 'EInum_max_thrust': 0.575, 'n_eng': 2},
            'apu': {'kind': 'Test APU', 'fuel_kg_per_s': 0.03, 'PM10_g_per_kg': 0.4, 'NOx_g_per_kg': 0.05,
                    'HC_g_per_kg': 0.02, 'CO_g_per_kg': 0.03},
            'class': 'wide'}


def shape_flights():
    """the synthetic flight's engine / APU / class on each deliberate trajectory shape of harness/c01.py"""
    base = synthetic_flight()
    return [(name, {**base, 'traj': traj}) for name, traj in c01.shape_trajectories()]


def all_flights():
    fl = [('simulated', simulated_flight()), ('synthetic', synthetic_flight())] + \
        [('shape:' + n, f) for n, f in shape_flights()]
    sim = simulated_flight()
    n = len(sim['traj']['fuel_mass'])
    fl.append(('shape:simulated-empty-window', {**sim, 'traj': {**sim['traj'], 'n_climb': n // 2, 'n_descent': n - n // 2}}))
    return [n for n, _ in fl], [f for _, f in fl]


METHOD_FIELDS = ['climb_descent_mode', 'nox_method', 'hc_method', 'co_method', 'pmvol_method', 'pmnvol_method']


def method_pairwise(rng):
    """every pair of values of the accounting mode and the five method options, on a random background"""
    out = []
    for f1, f2 in itertools.combinations(METHOD_FIELDS, 2):
        for v1 in OPTIONS[f1]:
            for v2 in OPTIONS[f2]:
                out.append({**c01.gen_config(rng), f1: v1, f2: v2})
    return out


def make_case(flight, cfg, env):
    apu = flight['apu'] if env['apu'] == 'running' else None if env['apu'] == 'none' else \
        {'kind': 'unknown', 'fuel_kg_per_s': 0.0, 'NOx_g_per_kg': 0.0, 'CO_g_per_kg': 0.0, 'HC_g_per_kg': 0.0,
         'PM10_g_per_kg': 0.0}
    return {'cfg': cfg, 'traj': flight['traj'], 'lto': flight['lto'], 'apu': apu,
            'fuel': JET_A if env['lifecycle_data'] else SAF, 'class': flight['class']}


# ---------------------------------------------------------------------------
# configurations
# ---------------------------------------------------------------------------

def cfg_key(c):
    return tuple(c[f] for f in FIELDS)


def pairwise_configs(rng):
    """every pair of option values occurs together: once on the default background, once on a random one"""
    out = []
    for (f1, f2) in itertools.combinations(FIELDS, 2):
        for v1 in OPTIONS[f1]:
            for v2 in OPTIONS[f2]:
                out.append({**c01.DEFAULT_CFG, f1: v1, f2: v2})
                out.append({**c01.gen_config(rng), f1: v1, f2: v2})
    return out


def history_triples(rng, n):
    """runs of 3-4 consecutive calls on the SAME flight under the SAME configuration that differ in one thing only
    (the fuel: with / without life-cycle datum and different EIs; or the APU), incl. A,B,A; and runs that flip one
    option and flip it back.  The outcome of every call must be what the property says whatever ran before."""
    out = []
    for _ in range(n):
        fi = rng.randint(0, 1)
        cfg = c01.gen_config(rng)
        ea = rng.choice(ENVS)
        kind = rng.choice(['fuel', 'fuel', 'apu', 'option'])
        if kind == 'fuel':
            eb = {**ea, 'lifecycle_data': not ea['lifecycle_data']}
            seq = [(cfg, ea), (cfg, eb), (cfg, ea)]
        elif kind == 'apu':
            eb = {**ea, 'apu': rng.choice([a for a in ('running', 'unknown', 'none') if a != ea['apu']])}
            seq = [(cfg, ea), (cfg, eb), (cfg, ea)]
        else:
            opt = rng.choice(FIELDS)
            cfg2 = {**cfg, opt: rng.choice([v for v in OPTIONS[opt] if v != cfg[opt]])}
            seq = [(cfg, ea), (cfg2, ea), (cfg, ea), (cfg2, ea)]
        out += [(fi, c, e) for c, e in seq]
    return out


def full_product():
    for vals in itertools.product(*[OPTIONS[f] for f in FIELDS]):
        yield dict(zip(FIELDS, vals))


# ---------------------------------------------------------------------------
# outcome of the real call, and its classification by the property
# ---------------------------------------------------------------------------

def outcome(case, idx=0):
    """-> dict(kind='value'|'refused'|'internal'|'other', ..., bad=[oracle violations])
    idx is the engine identity shown to the code: one per flight, so that the thousands of calls of a run present
    the same engine under changing configurations / fuels / APUs, as an inventory run does; the Config singleton
    is kept while the configuration does not change."""
    global _OBJECTS
    if _OBJECTS is None:
        _OBJECTS = c01.Objects()          # per process: the same performance model / fuel / trajectory objects are
    r = c01.run_impl(case, idx, session=True, objects=_OBJECTS)    # passed again and again, as a caller would
    cfg = case['cfg']
    if 'value' in r:
        v = r['value']
        bad = c01.oracle(case, v)
        if r.get('inputs_changed'):
            bad.append(('purity', 'compute_emissions modified its arguments: ' + r['inputs_changed']))
        for comp, label in (('traj_em', 'trajectory'), ('traj_idx', 'trajectory indices'), ('lto_em', 'LTO'),
                            ('lto_idx', 'LTO indices')):
            for s, x in v[comp].items():
                if not GOVERNS[s](cfg) and any(y != 0.0 for y in x):
                    bad.append(('switched-off', f'{s} is switched off but the {label} part holds non-zero values'))
        return {'kind': 'value', 'keys': {k: sorted(v[k]) for k in ('traj_em', 'lto_em', 'apu_em', 'gse_em', 'total')},
                'lifecycle_applied': bool(cfg['co2_enabled'] and cfg['lifecycle_enabled']),
                'lto_zero': sorted(s for s, x in v['lto_idx'].items() if all(y == 0.0 for y in x)), 'bad': bad}
    et, msg = r['error'], r['msg']
    if et in INTERNAL:
        return {'kind': 'internal', 'type': et, 'msg': msg[:200], 'key': r.get('key'), 'bad': [('internal-error', f'{et}: {msg[:160]}')]}
    # a refusal: which configured method does the message name?  candidates = options whose configured value occurs
    # as a token; if the message also says which option it is talking about (EI_PMnvol_method, pmnvolSwitch, ...)
    # only the options so tagged count.  Whether the blamed method really is an unsupported one is decided in
    # check_triples from the run itself: a method that returned an inventory elsewhere in the run is supported, and
    # a refusal that blames only supported methods does not "name the unsupported method".
    low = msg.lower()
    named = [o for o in METHOD_OPTS if re.search(rf'(?<![a-z0-9_]){re.escape(cfg[o])}(?![a-z0-9_])', low)]
    tagged = [o for o in named if re.search(OPTION_TAG[o], low)]
    blamed = tagged or named
    if et in ('NotImplementedError', 'ValueError') and blamed:
        return {'kind': 'refused', 'type': et, 'name': cfg[blamed[-1]], 'blamed': [[o, cfg[o]] for o in blamed],
                'msg': msg[:200], 'bad': []}
    if et == 'RuntimeError' and 'lifecycle' in low and case['fuel']['lifecycle_CO2'] is None and cfg['lifecycle_enabled']:
        return {'kind': 'refused', 'type': et, 'name': 'lifecycle', 'msg': msg[:200], 'bad': []}
    return {'kind': 'other', 'type': et, 'msg': msg[:200],
            'bad': [('unnamed-refusal', f'{et}: "{msg[:160]}" does not name an unsupported configured method')]}


def _worker(args):
    flights, state_unused, chunk = args
    from harness import common
    common.setup_impl_env()
    out = []
    try:
        for fi, cfg, env in chunk:
            out.append(outcome(make_case(flights[fi], cfg, env), f'F{fi}'))
    finally:
        c01.reset_config()
    return out


# ---------------------------------------------------------------------------
# model side
# ---------------------------------------------------------------------------

HEADER = ('From Coq Require Import List Bool String.\nFrom AV Require Import model.C11_Model.\n'
          'Import ListNotations.\nOpen Scope string_scope.\n')


def coq_env(env):
    present = env['apu'] != 'none'
    running = env['apu'] == 'running'
    return f"(mkEnv {c01.B(present)} {c01.B(running)} {c01.B(env['lifecycle_data'])})"


def coq_outcome_expr(state, cfg, env):
    tree = f"(mkTree {c01.B(not state['F9'])} {c01.B(not state['FC11a'])})"
    return (f"(outcome_of {tree} {coq_env(env)} {c01.coq_config(cfg)}, "
            f"keys (lto_zero_has {c01.coq_config(cfg)}))")


def same_outcome(o, m):
    """implementation outcome vs parsed Coq `outcome` (+ always-zero LTO keys) -> None or a description"""
    mo, mzero = m
    if isinstance(mo, tuple) and mo[0] == 'Balanced':
        _, tr, lt, ap, gs, lc = mo
        if o['kind'] != 'value':
            return f"model: Balanced; implementation: {o['kind']} {o.get('type')} {o.get('msg', '')[:100]}"
        for comp, want in (('traj_em', tr), ('lto_em', lt), ('apu_em', ap), ('gse_em', gs)):
            if sorted(want) != o['keys'][comp]:
                return f"{comp}: model writes {sorted(want)}, implementation {o['keys'][comp]}"
        if sorted(o['keys']['total']) != sorted(c01.SPECIES):
            return f"totals: implementation has {o['keys']['total']}"
        if bool(lc) != o['lifecycle_applied']:
            return 'life-cycle adjustment applied differently'
        if not set(mzero) & set(lt) <= set(o['lto_zero']):
            return f"LTO species the model says are identically zero are not: {sorted(set(mzero) & set(lt) - set(o['lto_zero']))}"
        return None
    if isinstance(mo, tuple) and mo[0] == 'Refused':
        if o['kind'] == 'refused' and o['name'] == mo[1]:
            return None
        return f"model: Refused {mo[1]!r}; implementation: {o['kind']} {o.get('name') or o.get('type')} {o.get('msg', '')[:80]}"
    if isinstance(mo, tuple) and mo[0] == 'Internal':
        et, _, what = mo[1].partition(':')
        if o['kind'] == 'internal' and o['type'] == et and (what == o.get('key') or what in o.get('msg', '')):
            return None
        return f"model: Internal {mo[1]!r}; implementation: {o['kind']} {o.get('type')} {o.get('msg', '')[:80]}"
    return f'unparsed model outcome {mo!r}'


# ---------------------------------------------------------------------------
# extraction + link
# ---------------------------------------------------------------------------

def extract(chk: Check, state):
    from translator import c01_extract, c11_extract, py2coq
    name = 'extract:config/emissions.py,emissions/trajectory.py,emissions/lto.py (options, enabled_species, dispatch)'
    try:
        text = c11_extract.extract_all(REPO / 'src/AEIC')
    except py2coq.Untranslatable as e:
        chk.obligations.append({'name': name, 'ok': False})
        chk.broken(name, str(e))
        return False
    chk.obligations.append({'name': name, 'ok': True})
    if chk.coq_compile_gen('C11_Extracted', text) is None:
        return False
    ok = chk.coq_link('C11_Link.v')
    # the APU read guard seen by the extractor must agree with the behaviour observed on the tree
    try:
        _, meta = c01_extract.extract_all(REPO / 'src/AEIC', want_meta=True)
        guarded = bool(meta['guards_missing_lto_keys'])
        agree = guarded == (not state['F9'])
        chk.obligations.append({'name': 'extract:apu.py: guard on the LTO SO2/SO4 read agrees with observed behaviour', 'ok': agree})
        if not agree:
            chk.broken('extract:apu.py:lto-read-guard',
                       f'source {"guards" if guarded else "does not guard"} the LTO SO2/SO4 read but the tree '
                       f'{"still raises" if state["F9"] else "does not raise"} KeyError on SOx off + APU on')
    except py2coq.Untranslatable as e:
        chk.obligations.append({'name': 'extract:apu.py', 'ok': False})
        chk.broken('extract:apu.py', str(e))
    return ok


# ---------------------------------------------------------------------------
# the run
# ---------------------------------------------------------------------------

def signature_of(o, case):
    if o['kind'] == 'internal':
        r = {'error': o['type'], 'key': o.get('key'), 'msg': o.get('msg', '')}
        if c01.is_fc11a(case, r):
            return c01.FC11A_SIGNATURE
        if c01.is_f9(case, r):
            return c01.F9_SIGNATURE
    return None


def check_triples(chk: Check, state, flights, triples, parallel=False):
    """triples: (flight index, cfg, env)"""
    if parallel and len(triples) > 4000:
        nproc = 8
        size = (len(triples) + nproc * 4 - 1) // (nproc * 4)
        chunks = [triples[i:i + size] for i in range(0, len(triples), size)]
        with ProcessPoolExecutor(max_workers=nproc) as ex:
            outs = [o for part in ex.map(_worker, [(flights, None, ch) for ch in chunks]) for o in part]
    else:
        try:
            outs = [outcome(make_case(flights[fi], cfg, env), f'F{fi}') for fi, cfg, env in triples]
        finally:
            c01.reset_config()
    exprs = [coq_outcome_expr(state, cfg, env) for _, cfg, env in triples]
    models = chk.coq_eval(HEADER, exprs, shard=2000, label='outcomes')
    # methods that demonstrably work in this run: (option, value) of every call that returned an inventory
    supported = {(o, cfg[o]) for (_, cfg, _), out in zip(triples, outs) if out['kind'] == 'value' for o in METHOD_OPTS}
    for out in outs:
        if out['kind'] == 'refused' and out.get('blamed') and all((o, v) in supported for o, v in out['blamed']):
            out['bad'].append(('misnamed-refusal',
                               f"{out['type']}: \"{out['msg'][:140]}\" blames {out['blamed']}, which this run shows to be "
                               'supported (it returned inventories): the refusal does not name the unsupported method'))
    for (fi, cfg, env), o, m in zip(triples, outs, models):
        case_small = {'flight': FLIGHT_NAMES[fi], 'cfg': cfg, 'env': env}
        chk.case(case_small, nontrivial=(cfg != c01.DEFAULT_CFG))
        chk.count('outcome:' + o['kind'] + (':' + str(o.get('name') or o.get('type')) if o['kind'] != 'value' else ''))
        chk.count('env:apu-' + env['apu'])
        if o['bad']:
            clause, detail = o['bad'][0]
            chk.fail(f'{clause}: {detail}', {**case_small, 'outcome': {k: v for k, v in o.items() if k != 'keys'}},
                     signature=signature_of(o, make_case(flights[fi], cfg, env)))
            # still compare with the as-found model below: any OTHER deviation must alarm
        if m is None:
            continue
        d = same_outcome(o, m)
        if d:
            chk.broken('correspondence:C11_Model.outcome_of', d, case_small)
        elif not o['bad']:
            chk.traces_validated += 1


def load_corpus(chk):
    out = []
    for f in sorted((VERIF / 'corpus' / chk.pid).glob('*.json')):
        d = json.loads(f.read_text())
        out.append((d['flight'], d['cfg'], d['env']))
    return out


def run(chk: Check):
    chk.rule = ('configurations of the 13 documented options x environments (APU running / unknown APU with zero fuel flow / '
                'no APU; fuel with / without a life-cycle datum) on one simulated trajectory (LegacyBuilder, sample '
                'performance model, BOS-LAX) and one synthetic 6-point trajectory, plus 18 deliberate trajectory shapes (empty / one-point accounting window, n_climb = 0, n_descent = 0, 1-3 points, zero-burn, the simulated flight with an empty window) crossed pairwise with the accounting mode and every method value; quick = pairwise-covering set (every '
                'pair of option values, on the default and on a random background) + 1500 random configurations; thorough '
                '= the complete 41 472 product; plus history runs: 3-4 consecutive calls in one process on the same flight / engine '
                'that differ only in the fuel, the APU, or one option flipped and flipped back; non-trivial = not the default configuration')
    chk.trusted += ['translator/c11_extract.py, translator/c01_extract.py (shape-specific, fail-closed)',
                    'harness/c11.py: outcome classification, key-set comparison; harness/c01.py: balance oracle',
                    'the Coq sweep covers the complete product for the MODEL; the implementation is sampled (quick) or '
                    'enumerated (thorough) and compared outcome by outcome']
    chk.assumptions += ['the performance model either has no APU, an APU record with zero fuel flow (APU.unknown), or a '
                        'running APU; the fuel either has or lacks lifecycle_CO2 — the 8 environments of the model',
                        'EI methods (BFFM2, HC/CO, PMvol, MEEM, SCOPE11) run without internal error on the two flights '
                        '(their numerics are property C12)']
    chk.coq_props('props/C11_Props.v')
    state = c01.tree_state()
    chk.notes['tree_state'] = {k: ('defect present' if v else 'repaired') for k, v in state.items()}
    extract(chk, state)
    global FLIGHT_NAMES
    FLIGHT_NAMES, flights = all_flights()
    rng = chk.rng
    triples = []
    names = {n: i for i, n in enumerate(FLIGHT_NAMES)}
    for fl, cfg, env in load_corpus(chk):
        triples.append((names[fl], cfg, env))
    if chk.tier == 'thorough':
        chk.exhaustive = True
        for k, cfg in enumerate(full_product()):
            triples.append((k % 2, cfg, ENVS[(k // 2) % len(ENVS)]))
            if k % 7 == 0:
                triples.append(((k + 1) % 2, cfg, rng.choice(ENVS)))
    else:
        seen = set()
        cfgs = pairwise_configs(rng) + [c01.gen_config(rng) for _ in range(1500)]
        for cfg in cfgs:
            env = ENVS[0] if rng.random() < 0.55 else rng.choice(ENVS)
            for fi in (0, 1):
                key = (fi, cfg_key(cfg), env['apu'], env['lifecycle_data'])
                if key not in seen:
                    seen.add(key)
                    triples.append((fi, cfg, env))
    # deliberate trajectory shapes x (accounting mode, every method value) pairwise; lto accounting forced on half
    for fi in range(2, len(flights)):
        for k, cfg in enumerate(method_pairwise(rng)):
            if k % 2 == 0:
                cfg = {**cfg, 'climb_descent_mode': 'lto'} if 'lto' != cfg['climb_descent_mode'] and rng.random() < 0.5 else cfg
            if chk.tier != 'thorough' and k % 3 == (fi % 3) and cfg['climb_descent_mode'] != 'lto':
                continue
            triples.append((fi, cfg, ENVS[0] if rng.random() < 0.6 else rng.choice(ENVS)))
        for pn in OPTIONS['pmnvol_method']:
            for pv in OPTIONS['pmvol_method']:
                triples.append((fi, {**c01.gen_config(rng), 'climb_descent_mode': 'lto', 'pmnvol_method': pn, 'pmvol_method': pv},
                                rng.choice(ENVS)))
    triples += history_triples(rng, chk.n(250, 2500))
    chk.notes['configurations_distinct'] = len({cfg_key(c) for _, c, _ in triples})
    check_triples(chk, state, flights, triples, parallel=(chk.tier == 'thorough'))


def replay(chk: Check, rp):
    chk.coq_props('props/C11_Props.v')
    state = c01.tree_state()
    extract(chk, state)
    case = rp.get('case') or {}
    if 'cfg' in case:
        global FLIGHT_NAMES
        FLIGHT_NAMES, flights = all_flights()
        fi = FLIGHT_NAMES.index(case['flight']) if case.get('flight') in FLIGHT_NAMES else 1
        # probes first: each method value on the default background, so that "supported" can be decided
        probes = [(1, {**c01.DEFAULT_CFG, 'lifecycle_enabled': False, o: v}, ENVS[0]) for o in METHOD_OPTS for v in OPTIONS[o]]
        check_triples(chk, state, flights, probes + [(fi, case['cfg'], case['env'])])

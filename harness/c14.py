"""C14 — mission queries return exactly the flight instances matching the filter; query objects are values.

Tie:    translator/c14_extract.py (Filter._normalize compatibility rule, counted kinds, plain conjuncts)
        -> Gen.C14_Extracted, link/C14_Link.v;
        correspondence: random Query / CountQuery / FrequentFlightQuery objects executed (repeatedly, with extra
        to_sql builds) through Database.__call__ on (a) a generated SQLite database written with the package's own
        schema and (b) the shipped tests/data/missions database; SQLite is the trusted evaluator of the generated
        SQL; results compared with `run_query` / `run_count` / `run_frequent` evaluated inside Coq on the rows
        exported from the same file.
Oracle: the property's predicate evaluated in plain Python over the tables read with `SELECT *` (no generated SQL,
        no AEIC code, no Coq).
"""

from __future__ import annotations

import datetime as dt
import json
import math
import os
import shutil
import sqlite3
from fractions import Fraction
from pathlib import Path

from harness.c13 import AIRPORTS, link_named
from harness.common import REPO, VERIF, Check, Raw, to_coq
from translator import c14_extract, py2coq

SIG_F12 = 'empty-filter-crashes'
SIG_RESAMPLE = 'sampled-query-reexecution-shrinks'
CONTINENT = {'GB': 'EU', 'US': 'NA', 'CA': 'NA', 'MX': 'NA', 'CO': 'SA', 'BR': 'SA', 'CL': 'SA', 'AU': 'OC', 'NZ': 'OC',
             'FJ': 'OC', 'WS': 'OC', 'AS': 'OC', 'KI': 'OC', 'IN': 'AS', 'NP': 'AS', 'IR': 'AS', 'AE': 'AS', 'SG': 'AS',
             'JP': 'AS', 'ZA': 'AF', 'EG': 'AF', 'IS': 'EU', 'FR': 'EU', 'DE': 'EU'}
LIST_ATTRS = ['airport', 'origin_airport', 'destination_airport', 'country', 'origin_country', 'destination_country',
              'continent', 'origin_continent', 'destination_continent', 'service_type', 'aircraft_type']
BOX_ATTRS = ['bounding_box', 'origin_bounding_box', 'destination_bounding_box']
BOX_MARGIN = 1e-4          # degrees: bounding-box edges keep this distance from every airport coordinate
DIST_MARGIN = 1e-5         # km: distance bounds are either exactly a stored distance or this far from all of them

HEADER0 = ('From Coq Require Import ZArith List String Bool.\n'
           'From AV Require Import lib.Dates model.C14_Model.\n'
           'Import ListNotations.\nOpen Scope Z_scope.\nOpen Scope string_scope.\n')


# ---------------------------------------------------------------------------------------------
# databases
# ---------------------------------------------------------------------------------------------

def build_generated_db(path: Path, seed: int, nflights: int):
    """A database with the package's own schema (WritableDatabase creates it), filled directly: ties in departure
    time, departures on / next to midnight UTC, both directions of a route, distances reused as filter bounds."""
    import random
    from AEIC.missions.writable_database import WritableDatabase
    rng = random.Random(seed * 7919 + 14)
    db = WritableDatabase(str(path))
    cur = db._conn.cursor()
    for code in sorted({a[5] for a in AIRPORTS}):
        cur.execute('INSERT INTO countries (code, name, continent) VALUES (?, ?, ?)', (code, 'Country ' + code, CONTINENT[code]))
    ids = {}
    for i, a in enumerate(AIRPORTS):
        cur.execute('INSERT INTO airports (id, iata_code, name, municipality, country, latitude, longitude, elevation) '
                    'VALUES (?, ?, ?, ?, ?, ?, ?, ?)', (i + 1, a[0], a[1], a[6] or None, a[5], a[2], a[3], a[4] * 0.3048))
        cur.execute('INSERT INTO airport_location_idx (id, min_latitude, max_latitude, min_longitude, max_longitude) '
                    'VALUES (?, ?, ?, ?, ?)', (i + 1, a[2], a[2], a[3], a[3]))
        ids[a[0]] = i + 1
    codes = [a[0] for a in AIRPORTS]
    hubs = codes[:8]
    day0 = (dt.date(2019, 3, 1) - dt.date(1970, 1, 1)).days
    shared_times = [(day0 + rng.randint(0, 40)) * 86400 + rng.choice([0, 0, 86399, 1, 43200, rng.randint(0, 86399)])
                    for _ in range(25)]
    for fid in range(1, nflights + 1):
        if rng.random() < 0.5:
            o, d = rng.sample(hubs, 2)
        else:
            o, d = rng.sample(codes, 2)
        miles = rng.choice([rng.randint(20, 9000), rng.randint(20, 9000), 500, 1000, 2500, 0])   # 0: distance not stated
        dist = miles * 1.609344
        seats = rng.choice([rng.randint(0, 550), rng.randint(0, 550), 100, 180, 300, 0])       # 0: all-cargo
        cur.execute(
            'INSERT INTO flights (id, carrier, flight_number, origin, destination, day_of_week_mask, departure_time, '
            'arrival_time, arrival_day_offset, service_type, aircraft_type, engine_type, distance, seat_capacity, '
            'effective_from, effective_to, number_of_flights, od_pair) VALUES (?,?,?,?,?,?,?,?,?,?,?,?,?,?,?,?,?,?)',
            (fid, rng.choice(['BA', 'AA', 'QF', 'NZ', '9W']), str(rng.randint(1, 9999)), ids[o], ids[d], 127, 600, 700, 0,
             rng.choice(['J', 'J', 'J', 'J', 'F', 'C', 'S', '']), rng.choice(['738', '320', '77W', '359', 'E90', '']),
             rng.choice(['', '', 'CFM56', 'GE90', None]),
             dist, seats, '2019-03-01', '2019-04-15', 0, min(o, d) + max(o, d)))
        n = rng.choice([1, 1, 2, 3, 4, 6, 0])          # some flights have no instance at all
        times = []
        for _ in range(n):
            if rng.random() < 0.3:
                t = rng.choice(shared_times)
            else:
                dd = day0 + rng.randint(0, 44)
                t = dd * 86400 + rng.choice([0, 0, 86399, 1, rng.randint(0, 86399), rng.randint(0, 86399)])
            times.append((t, t + rng.randint(1800, 50000)))
        if times and rng.random() < 0.1:
            times.append(times[0])                      # the same instance stored twice (distinct ids)
        for t, ta in times:
            cur.execute('INSERT INTO schedules (departure_timestamp, arrival_timestamp, day, flight_id) VALUES (?,?,?,?)',
                        (t, ta, t // 86400, fid))
        cur.execute('UPDATE flights SET number_of_flights = ? WHERE id = ?', (len(times), fid))
    db.commit()
    db.index()
    db.commit()
    db.close()


def export_rows(path: Path):
    """Joined rows read with plain SELECT * (no generated SQL)."""
    con = sqlite3.connect(f'file:{path}?mode=ro', uri=True)
    con.row_factory = sqlite3.Row
    airports = {r['id']: dict(r) for r in con.execute('SELECT * FROM airports')}
    countries = {r['code']: dict(r) for r in con.execute('SELECT * FROM countries')}
    flights = {r['id']: dict(r) for r in con.execute('SELECT * FROM flights')}
    rows, orphans = [], 0
    for s in con.execute('SELECT * FROM schedules'):
        f = flights.get(s['flight_id'])
        if f is None or f['origin'] not in airports or f['destination'] not in airports:
            orphans += 1
            continue
        o, d = airports[f['origin']], airports[f['destination']]
        rows.append({
            'sid': s['id'], 'dep': s['departure_timestamp'], 'arr': s['arrival_timestamp'], 'day': s['day'],
            'fid': f['id'], 'carrier': f['carrier'], 'fltno': f['flight_number'], 'engine': f['engine_type'],
            'dist': f['distance'], 'seats': f['seat_capacity'], 'service': f['service_type'],
            'actype': f['aircraft_type'],
            'o': o['iata_code'], 'octry': o['country'], 'ocont': countries.get(o['country'], {}).get('continent', ''),
            'olat': o['latitude'], 'olon': o['longitude'],
            'd': d['iata_code'], 'dctry': d['country'], 'dcont': countries.get(d['country'], {}).get('continent', ''),
            'dlat': d['latitude'], 'dlon': d['longitude'], 'od': f['od_pair'],
        })
    con.close()
    rows.sort(key=lambda r: (r['dep'], r['sid']))
    return rows, orphans, airports


def u6(x: float) -> int:
    return int(round(x * 1e6))


def coq_db(rows) -> str:
    def s(x):
        assert '"' not in x
        return f'"{x}"'
    items = []
    for r in rows:
        items.append(
            f'Row {r["sid"]} {r["dep"]} {r["day"]} {r["fid"]} {u6(r["dist"])} {r["seats"]} {s(r["service"])} '
            f'{s(r["actype"])} {s(r["o"])} {s(r["octry"])} {s(r["ocont"])} ({u6(r["olat"])}) ({u6(r["olon"])}) '
            f'{s(r["d"])} {s(r["dctry"])} {s(r["dcont"])} ({u6(r["dlat"])}) ({u6(r["dlon"])}) {s(r["od"])}')
    return 'Definition the_db : list row := [\n  ' + ';\n  '.join(items) + '].\n'


# ---------------------------------------------------------------------------------------------
# case generation.  A case is JSON: {'db', 'kind', 'filter', 'start', 'end', 'every_nth', 'sample', 'limit',
#                                    'offset', 'plan': ['sql'|'run', ...]}
# ---------------------------------------------------------------------------------------------

class World:
    def __init__(self, name, path, rows, airports):
        self.name, self.path, self.rows = name, path, rows
        self.codes = sorted({r['o'] for r in rows} | {r['d'] for r in rows})
        self.countries = sorted({r['octry'] for r in rows} | {r['dctry'] for r in rows})
        self.continents = sorted(({r['ocont'] for r in rows} | {r['dcont'] for r in rows}) - {''})
        alld = sorted({r['dist'] for r in rows})
        self.all_dists = alld
        self.dists = [d for d in alld if sum(1 for e in alld if u6(e) == u6(d)) == 1] or alld
        self.seats = sorted({r['seats'] for r in rows})
        self.services = sorted({r['service'] for r in rows})
        self.actypes = sorted({r['actype'] for r in rows})
        self.coords = [(a['latitude'], a['longitude']) for a in airports.values()]
        self.lats = sorted({c[0] for c in self.coords})
        self.lons = sorted({c[1] for c in self.coords})
        self.days = sorted({r['dep'] // 86400 for r in rows}) or [17956]


def _safe_edge(rng, vals, lo, hi):
    for _ in range(50):
        x = round(rng.uniform(lo, hi), 3) + 0.0005
        if all(abs(x - v) > BOX_MARGIN for v in vals):
            return x
    return None


def _mk_box(rng, w: World, box):
    """Round the edges to x.xxx5 and keep them BOX_MARGIN away from every airport coordinate (None if impossible)."""
    out = []
    for v, vals, lo, hi in ((box[0], w.lats, -95, 95), (box[1], w.lats, -95, 95), (box[2], w.lons, -185, 185),
                            (box[3], w.lons, -185, 185)):
        x = round(v, 3) + 0.0005
        if any(abs(x - y) <= BOX_MARGIN for y in vals):
            x = _safe_edge(rng, vals, max(lo, v - 1), min(hi, v + 1))
            if x is None:
                return None
        out.append(x)
    return out           # [min_lat, max_lat, min_lon, max_lon]


def gen_box(rng, w: World):
    m = rng.random()
    if m < 0.6 and w.coords:           # around a real airport
        lat, lon = rng.choice(w.coords)
        h = rng.choice([0.01, 0.5, 3.0, 15.0, 40.0])
        box = (lat - h, lat + h, lon - h, lon + h)
    elif m < 0.9:
        a, b = sorted([rng.uniform(-90, 90), rng.uniform(-90, 90)])
        c, d = sorted([rng.uniform(-180, 180), rng.uniform(-180, 180)])
        box = (a, b, c, d)
    else:                 # inverted (crossing the antimeridian the naive way): selects nothing
        box = (10.0, 60.0, 170.0, -170.0)
    return _mk_box(rng, w, box)


def _dist_bound(rng, w: World):
    if rng.random() < 0.12:
        return rng.choice([0, 0.0])             # falsy but set
    if rng.random() < 0.5:
        return rng.choice(w.dists)              # exactly a stored distance (inclusive boundary)
    for _ in range(50):
        x = round(rng.uniform(0, 15000), 2) + 0.005
        if all(abs(x - d) > DIST_MARGIN for d in w.all_dists):
            return x
    return 12345.675


def _lst(rng, pool, extra):
    k = rng.choice([1, 1, 2, 3, 5, 8])
    v = rng.sample(pool, min(k, len(pool)))
    if rng.random() < 0.1:
        v.append(extra)
    if rng.random() < 0.04:
        return rng.choice(['', ['']])            # the empty string is a value, not "unset"
    if len(v) == 1 and rng.random() < 0.5:
        return v[0]                              # plain string form
    return v


def gen_spatial(rng, w: World, flt: dict):
    pools = {'airport': (w.codes, 'XXX'), 'country': (w.countries, 'ZZ'), 'continent': (w.continents, 'AN')}

    def val(kind):
        if kind == 'bounding_box':
            return gen_box(rng, w)
        return _lst(rng, *pools[kind])
    kinds = ['airport', 'country', 'continent', 'bounding_box']
    m = rng.random()
    if m < 0.22:
        return 'none'
    if m < 0.45:
        k = rng.choice(kinds)
        flt[k] = val(k)
        return 'combined'
    if m < 0.56:          # the same kind of condition on both ends (two boxes, two airport lists, ...)
        k = rng.choice(['bounding_box', 'bounding_box', 'airport', 'country', 'continent'])
        flt['origin_' + k] = val(k)
        flt['destination_' + k] = val(k)
        return 'ends:both-' + k
    if m < 0.80:
        mode = rng.choice(['o', 'd', 'od', 'od'])
        if 'o' in mode:
            k = rng.choice(kinds)
            flt['origin_' + k] = val(k)
        if 'd' in mode:
            k = rng.choice(kinds)
            flt['destination_' + k] = val(k)
        return 'ends:' + mode
    if m < 0.92:          # illegal mixes
        t = rng.random()
        if t < 0.4:
            k1, k2 = rng.choice(kinds), rng.choice(kinds)
            flt[k1] = val(k1)
            flt[rng.choice(['origin_', 'destination_']) + k2] = val(k2)
        elif t < 0.7:
            k1, k2 = rng.sample(kinds, 2)
            flt[k1], flt[k2] = val(k1), val(k2)
        else:
            k1, k2 = rng.sample(kinds, 2)
            side = rng.choice(['origin_', 'destination_'])
            flt[side + k1], flt[side + k2] = val(k1), val(k2)
        return 'illegal'
    # empty lists in spatial positions (counted as "not given" by the compatibility rule)
    k = rng.choice(['airport', 'country', 'continent'])
    flt[rng.choice(['', 'origin_', 'destination_']) + k] = []
    if rng.random() < 0.5:
        k2 = rng.choice(kinds)
        flt[rng.choice(['origin_', 'destination_']) + k2] = val(k2)
    return 'empty-list'


def gen_filter(rng, w: World):
    m = rng.random()
    if m < 0.06:
        return None, 'no-filter'
    if m < 0.11:
        return {}, 'empty-filter'
    if m < 0.14:
        return {rng.choice(['service_type', 'aircraft_type']): []}, 'empty-filter'
    flt: dict = {}
    if rng.random() < 0.3:
        flt['min_distance'] = _dist_bound(rng, w)
    if rng.random() < 0.3:
        flt['max_distance'] = _dist_bound(rng, w)
    if 'min_distance' in flt and 'max_distance' in flt and flt['min_distance'] > flt['max_distance'] \
            and rng.random() < 0.8:
        flt['min_distance'], flt['max_distance'] = flt['max_distance'], flt['min_distance']
    if rng.random() < 0.15:
        flt['min_seat_capacity'] = rng.choice(w.seats + [rng.randint(0, 300), 0])
    if rng.random() < 0.15:
        flt['max_seat_capacity'] = rng.choice(w.seats + [rng.randint(100, 500), 0])
    if rng.random() < 0.2:
        flt['service_type'] = _lst(rng, w.services, 'Q') if rng.random() < 0.9 else []
    if rng.random() < 0.15:
        flt['aircraft_type'] = _lst(rng, w.actypes, 'ZZZ') if rng.random() < 0.9 else []
    tag = gen_spatial(rng, w, flt)
    if any(v is None for v in flt.values()):      # a box could not be placed safely
        flt = {k: v for k, v in flt.items() if v is not None}
    return flt, tag


def gen_case(rng, w: World):
    kind = rng.choices(['query', 'count', 'frequent'], weights=[70, 15, 15])[0]
    flt, tag = gen_filter(rng, w)
    c = {'db': w.name, 'kind': kind, 'filter': flt, 'tag': tag, 'start': None, 'end': None, 'every_nth': None,
         'sample': None, 'limit': None, 'offset': None}

    def date_of(daynum):
        d = dt.date(1970, 1, 1) + dt.timedelta(days=daynum)
        return [d.year, d.month, d.day]
    lo, hi = w.days[0], w.days[-1]
    a, b = sorted([rng.choice([rng.randint(lo - 2, hi + 2), rng.choice(w.days)]) for _ in range(2)])
    if rng.random() < 0.12:
        a, b = b, a
    if rng.random() < 0.3:
        c['start'] = date_of(a)
    if rng.random() < 0.3:
        c['end'] = date_of(b)
    if kind == 'query':
        if rng.random() < 0.3:
            c['every_nth'] = rng.choice([1, 2, 3, 5, 7, 2, 3, 2, 3, 4, 2, 3, 0, -2])
        r = rng.random()
        if r < 0.35:
            c['limit'] = rng.choice([1, 2, 5, 10, 50, 100000, 3, 7, 20, 30, 200, 1, 5, 0, -1])
            if rng.random() < 0.6:
                c['offset'] = rng.choice([0, 1, 3, 10, 40, 400, 5000, 2, 5, 7, 15, 25, 100, -1])
        elif r < 0.37:
            c['offset'] = rng.choice([0, 5])           # offset without limit: refused
        if rng.random() < 0.02:
            c['sample'] = rng.choice([0.0, 1.5, -0.1])  # invalid fractions
    elif kind == 'frequent':
        c['limit'] = rng.choice([1, 3, 5, 20, 20, 1000, 2, 10, 50, 7, 0])
    c['plan'] = rng.choice([['run'], ['run'], ['run', 'run'], ['sql', 'run'], ['run', 'sql', 'run'],
                            ['sql', 'sql', 'run', 'run'], ['run', 'run', 'run']])
    return c


def sample_cases(w: World):
    """Sampled queries on the unfiltered database, executed three times (size statistics)."""
    out = []
    for p in (0.5, 0.3):
        out.append({'db': w.name, 'kind': 'query', 'filter': None, 'tag': 'sampled', 'start': None, 'end': None,
                    'every_nth': None, 'sample': p, 'limit': None, 'offset': None, 'plan': ['run', 'run', 'run']})
    out.append({'db': w.name, 'kind': 'query', 'filter': None, 'tag': 'sampled', 'start': None, 'end': None,
                'every_nth': None, 'sample': 1.0, 'limit': None, 'offset': None, 'plan': ['run', 'run']})
    return out


def _case(w: World, kind, flt=None, tag='fixed', start=None, end=None, nth=None, sample=None, limit=None, offset=None,
          plan=('run',)):
    if kind == 'frequent' and limit is None:
        limit = 20
    return {'db': w.name, 'kind': kind, 'filter': flt, 'tag': tag, 'start': start, 'end': end, 'every_nth': nth,
            'sample': sample, 'limit': limit, 'offset': offset, 'plan': list(plan)}


def _date_of(daynum):
    d = dt.date(1970, 1, 1) + dt.timedelta(days=daynum)
    return [d.year, d.month, d.day]


def value_cases(w: World):
    """A query object is a value: no filter / Filter() / a filter holding only empty lists, for every query class,
    executed 1..4 times with to_sql() called in between, alone and together with date / every-n-th / sampling
    conditions (whose accumulation would show)."""
    out = []
    filters = [(None, 'no-filter'), ({}, 'empty-filter'), ({'service_type': []}, 'empty-filter'),
               ({'service_type': [], 'aircraft_type': []}, 'empty-filter')]
    plans = [['run'], ['run', 'run'], ['sql', 'run', 'sql', 'run'], ['run', 'sql', 'sql', 'run', 'run'],
             ['run', 'run', 'run', 'run']]
    mid = w.days[len(w.days) // 2]
    j = 0
    for flt, tag in filters:
        for kind in ('query', 'count', 'frequent'):
            for plan in plans:
                extra = [{}, {'start': _date_of(w.days[0])}, {'end': _date_of(mid)},
                         {'start': _date_of(w.days[0]), 'end': _date_of(w.days[-1])}][j % 4]
                nth = 2 if (kind == 'query' and j % 3 == 0) else None
                out.append(_case(w, kind, None if flt is None else dict(flt), tag, nth=nth, plan=plan, **extra))
                j += 1
        out.append(_case(w, 'query', None if flt is None else dict(flt), 'sampled', sample=0.5, plan=['run', 'run', 'run']))
        out.append(_case(w, 'query', None if flt is None else dict(flt), 'sampled', sample=0.5,
                         start=_date_of(w.days[0]), plan=['sql', 'run', 'sql', 'run']))
    return out


def falsy_cases(w: World):
    """Falsy-but-set values wherever a parameter is optional.  Reading of the property: a parameter is unset only when
    it is None.  0 / 0.0 are bounds like any other (max_seat_capacity=0 selects the all-cargo instances, max_distance=0
    the instances without a stated distance, min_* = 0 everything); '' is a code that simply matches the rows storing
    ''; offset=0 skips nothing; every_nth=1 keeps every day; sample=1.0 keeps everything; limit=0, every_nth=0 and
    sample=0.0 are refused as invalid."""
    out = []
    some_country = w.countries[:2] or ['US']
    filters = [
        {'max_seat_capacity': 0}, {'min_seat_capacity': 0}, {'max_distance': 0}, {'max_distance': 0.0},
        {'min_distance': 0}, {'min_distance': 0.0},
        {'min_seat_capacity': 0, 'max_seat_capacity': 0}, {'min_distance': 0.0, 'max_distance': 0.0},
        {'max_seat_capacity': 0, 'country': list(some_country)}, {'max_distance': 0, 'min_seat_capacity': 0},
        {'max_seat_capacity': 0, 'service_type': list(w.services[:2]) or ['J']},
        {'max_distance': 0.0, 'origin_continent': list(w.continents[:2]) or ['EU']},
        {'min_distance': 0, 'max_seat_capacity': max(w.seats or [0])},
        {'service_type': ''}, {'aircraft_type': ''}, {'service_type': ['']}, {'airport': ''}, {'origin_country': ''},
        {'destination_continent': ['']}, {'airport': '', 'max_seat_capacity': 0},
    ]
    for flt in filters:
        for kind in ('query', 'count', 'frequent'):
            out.append(_case(w, kind, dict(flt), 'falsy', plan=['run', 'run'] if kind == 'count' else ['run']))
    base = {'max_seat_capacity': 0}
    out.append(_case(w, 'query', None, 'falsy', limit=5, offset=0))
    out.append(_case(w, 'query', dict(base), 'falsy', limit=5, offset=0, plan=['run', 'run']))
    out.append(_case(w, 'query', None, 'falsy', limit=0))
    out.append(_case(w, 'query', None, 'falsy', limit=0, offset=0))
    out.append(_case(w, 'query', dict(base), 'falsy', nth=1))
    out.append(_case(w, 'query', None, 'falsy', nth=1, start=_date_of(w.days[0])))
    out.append(_case(w, 'query', None, 'falsy', nth=0))
    out.append(_case(w, 'query', dict(base), 'falsy', sample=1.0, plan=['run', 'run']))
    out.append(_case(w, 'query', None, 'falsy', sample=0.0))
    out.append(_case(w, 'frequent', dict(base), 'falsy', limit=0))
    out.append(_case(w, 'frequent', {'min_distance': 0}, 'falsy', limit=1))
    return out


def sample_nth_cases(w: World):
    """Sampling together with every-n-th-day selection (with and without a start date): the answer must be an ordered
    subset of the every-n-th-day set, of plausible size; with sample=1.0 exactly that set."""
    out = []
    mid = w.days[len(w.days) // 3]
    for smp in (0.5, 1.0):
        for n in (2, 3):
            for start in (None, _date_of(w.days[0]), _date_of(mid), _date_of(mid + 1)):
                out.append(_case(w, 'query', None, 'sample+nth', start=start, nth=n, sample=smp,
                                 plan=['run', 'run'] if smp == 1.0 else ['run']))
    out.append(_case(w, 'query', {'min_distance': 0}, 'sample+nth', nth=2, sample=1.0, limit=7, offset=2))
    out.append(_case(w, 'query', {}, 'sample+nth', nth=2, sample=0.5, start=_date_of(w.days[0]), plan=['sql', 'run']))
    return out


def single_route_cases(w: World):
    """Exactly one origin airport and one destination airport, on routes whose reverse direction is stored too: only
    the stated direction may come back (strings and one-element lists, all three query classes)."""
    out = []
    pairs = {(r['o'], r['d']) for r in w.rows}
    both = sorted(p_ for p_ in pairs if (p_[1], p_[0]) in pairs and p_[0] != p_[1])
    one_way = sorted(p_ for p_ in pairs if (p_[1], p_[0]) not in pairs)
    j = 0
    for o, d in both[:8] + one_way[:3]:
        for kind in ('query', 'count', 'frequent'):
            flt = {'origin_airport': o, 'destination_airport': d} if j % 2 else \
                {'origin_airport': [o], 'destination_airport': [d]}
            out.append(_case(w, kind, flt, 'single-route', plan=['run']))
            j += 1
        out.append(_case(w, 'query', {'origin_airport': [o], 'destination_airport': [d], 'min_seat_capacity': 0},
                         'single-route', plan=['run', 'run']))
    return out


def midnight_cases(w: World):
    """Date bounds against departures at exactly 00:00:00 and 23:59:59 UTC: end_date = D keeps 23:59:59 of D and
    excludes 00:00:00 of D+1; start_date = D keeps 00:00:00 of D."""
    out = []
    at0 = [r for r in w.rows if r['dep'] % 86400 == 0][:6]
    at1 = [r for r in w.rows if r['dep'] % 86400 == 86399][:4]
    kinds = ['query', 'count', 'frequent']
    j = 0
    for r in at0:
        day = r['dep'] // 86400
        for start, end in ((None, day - 1), (None, day), (day, None), (day + 1, None), (day, day), (day - 1, day - 1)):
            out.append(_case(w, kinds[j % 3], None, 'midnight', start=_date_of(start) if start is not None else None,
                             end=_date_of(end) if end is not None else None, plan=['run']))
            j += 1
    for r in at1:
        day = r['dep'] // 86400
        for start, end in ((None, day), (day + 1, None), (day, day)):
            out.append(_case(w, kinds[j % 3], None, 'midnight', start=_date_of(start) if start is not None else None,
                             end=_date_of(end) if end is not None else None, plan=['run']))
            j += 1
    return out


PROCESS_TZS = ('Asia/Tokyo', 'America/Los_Angeles', 'Pacific/Kiritimati', 'Asia/Kolkata')


def process_tz_cases(w: World):
    """The midnight stream again, built and executed in a process whose local time zone is not UTC (TZ + tzset):
    start/end dates are UTC days whatever the zone of the machine (seeded/C14-11)."""
    out = []
    for j, c in enumerate(midnight_cases(w)):
        c2 = dict(c, tag='process-tz', process_tz=PROCESS_TZS[j % len(PROCESS_TZS)], plan=list(c['plan']))
        out.append(c2)
    return out


def both_ends_box_cases(rng, w: World):
    """origin_bounding_box AND destination_bounding_box at once (a legal mix), built around stored routes so that
    the answer is non-empty and much smaller than 'everything leaving the origin box'."""
    out = []
    routes = []
    seen = set()
    for r in w.rows:
        if (r['o'], r['d']) not in seen:
            seen.add((r['o'], r['d']))
            routes.append(r)
    for r in rng.sample(routes, min(6, len(routes))):
        h1, h2 = rng.choice([0.5, 4.0, 12.0]), rng.choice([0.5, 4.0, 12.0])
        b1 = _mk_box(rng, w, (r['olat'] - h1, r['olat'] + h1, r['olon'] - h1, r['olon'] + h1))
        b2 = _mk_box(rng, w, (r['dlat'] - h2, r['dlat'] + h2, r['dlon'] - h2, r['dlon'] + h2))
        if b1 is None or b2 is None:
            continue
        for kind in ('query', 'count', 'frequent'):
            out.append(_case(w, kind, {'origin_bounding_box': b1, 'destination_bounding_box': b2}, 'ends:both-bounding_box',
                             plan=['run', 'run'] if kind == 'query' else ['run']))
    return out


def empty_db_cases(w: World):
    out = []
    box = [10.0005, 60.0005, -20.0005, 40.0005]
    for kind in ('query', 'count', 'frequent'):
        for flt in (None, {}, {'min_distance': 100.5}, {'country': ['US']}, {'origin_bounding_box': box,
                                                                             'destination_airport': 'LHR'}):
            out.append(_case(w, kind, flt, 'empty-db', plan=['run', 'run']))
        out.append(_case(w, kind, None, 'empty-db', start=[2019, 1, 1], end=[2019, 12, 31]))
    out.append(_case(w, 'query', None, 'empty-db', nth=2))
    out.append(_case(w, 'query', None, 'empty-db', nth=3, start=[2019, 3, 1]))
    out.append(_case(w, 'query', None, 'empty-db', limit=5, offset=2))
    out.append(_case(w, 'query', None, 'empty-db', sample=0.5, plan=['run', 'run']))
    out.append(_case(w, 'query', {'airport': 'LHR', 'origin_country': 'US'}, 'illegal'))
    out += [c for c in falsy_cases(w) if c['kind'] != 'frequent' or c['limit']][:40]
    return out


def interleaved(chk: Check, w: World, db, cases, impl, by_sid):
    """Two result generators of one Database object consumed alternately (with a count query in between): each must
    still deliver its own answer."""
    from itertools import zip_longest
    from AEIC.missions.query import CountQuery
    cand = [c for c, (st, _n) in zip(cases, impl)
            if c['kind'] == 'query' and c['sample'] is None and st and st[-1][0] == 'rows' and len(st[-1][1]) >= 2]
    pairs = list(zip(cand[0::2], cand[1::2]))[:chk.n(12, 60)]
    for c1, c2 in pairs:
        g1, g2 = db(make_query(c1)), db(make_query(c2))
        r1, r2 = [], []
        for k, (a, b) in enumerate(zip_longest(g1, g2)):
            if a is not None:
                r1.append(a.id)
            if b is not None:
                r2.append(b.id)
            if k == 1:
                n = db(CountQuery())
                if n != len(w.rows):
                    chk.fail(f'count of all instances taken while two result sets are open: {n}, stored {len(w.rows)}',
                             {'case': c1, 'interleaved_with': c2}, None)
                    return
        chk.count('interleaved-pairs')
        for c, got in ((c1, r1), (c2, r2)):
            orc = oracle(c, w)
            why = check_sequence(got, orc['matches'], *orc['window'], by_sid)
            if why:
                chk.fail(f'query consumed alternately with another one on the same Database: {why}',
                         {'case': c, 'interleaved_with': c2 if c is c1 else c1}, None)
                return


# ---------------------------------------------------------------------------------------------
# independent oracle
# ---------------------------------------------------------------------------------------------

def _as_list(v):
    return [v] if isinstance(v, str) else v


def oracle_filter(flt):
    """-> ('illegal', None) | ('ok', predicate or None).  Reading of the property: a condition is *given* when a
    number / box / non-empty list is supplied; an empty service or aircraft list is no condition; an empty list in
    a spatial position admits no airport; spatial conditions are legal if exactly one combined condition is given
    and nothing else, or at most one for the origin and at most one for the destination."""
    if flt is None:
        return 'ok', None
    given = {k: v for k, v in flt.items() if v is not None}

    def counted(k):
        v = given.get(k)
        return v is not None and (k.endswith('bounding_box') or len(_as_list(v)) > 0)
    kinds = ['airport', 'country', 'continent', 'bounding_box']
    nc = sum(counted(k) for k in kinds)
    no = sum(counted('origin_' + k) for k in kinds)
    nd = sum(counted('destination_' + k) for k in kinds)
    if not ((nc == 1 and no == 0 and nd == 0) or (nc == 0 and no <= 1 and nd <= 1)):
        return 'illegal', None

    def end_pred(kind, v, side):
        if kind == 'bounding_box':
            return lambda r: v[0] <= r[side + 'lat'] <= v[1] and v[2] <= r[side + 'lon'] <= v[3]
        vals = set(_as_list(v))
        key = {'airport': side, 'country': side + 'ctry', 'continent': side + 'cont'}[kind]
        return lambda r: r[key] in vals
    preds = []
    if 'min_distance' in given:
        preds.append(lambda r: r['dist'] >= given['min_distance'])
    if 'max_distance' in given:
        preds.append(lambda r: r['dist'] <= given['max_distance'])
    if 'min_seat_capacity' in given:
        preds.append(lambda r: r['seats'] >= given['min_seat_capacity'])
    if 'max_seat_capacity' in given:
        preds.append(lambda r: r['seats'] <= given['max_seat_capacity'])
    for attr, key in (('service_type', 'service'), ('aircraft_type', 'actype')):
        if attr in given and len(_as_list(given[attr])) > 0:
            vals = set(_as_list(given[attr]))
            preds.append(lambda r, key=key, vals=vals: r[key] in vals)
    for kind in kinds:
        if kind in given:
            po, pd = end_pred(kind, given[kind], 'o'), end_pred(kind, given[kind], 'd')
            preds.append(lambda r, po=po, pd=pd: po(r) or pd(r))
        else:
            if 'origin_' + kind in given:
                preds.append(end_pred(kind, given['origin_' + kind], 'o'))
            if 'destination_' + kind in given:
                preds.append(end_pred(kind, given['destination_' + kind], 'd'))
    return 'ok', (lambda r: all(p(r) for p in preds))


def oracle(case, w: World):
    """-> {'error': 'invalid'|'illegal'} or {'matches': [...rows in departure order...], 'window': (lo, hi)}"""
    k = case['kind']
    if k == 'query':
        s, n, lim, off = case['sample'], case['every_nth'], case['limit'], case['offset']
        if (s is not None and not (0.0 < s <= 1.0)) or (n is not None and n < 1) or (lim is not None and lim < 1) \
                or (off is not None and off < 0) or (off is not None and lim is None):
            return {'error': 'invalid'}
    if k == 'frequent' and case['limit'] < 1:
        return {'error': 'invalid'}
    st, pred = oracle_filter(case['filter'])
    if st == 'illegal':
        return {'error': 'illegal'}
    rows = w.rows
    if pred is not None:
        rows = [r for r in rows if pred(r)]

    def utc_date(ts):
        return (dt.datetime(1970, 1, 1) + dt.timedelta(seconds=ts)).date()
    if case['start']:
        d0 = dt.date(*case['start'])
        rows = [r for r in rows if utc_date(r['dep']) >= d0]
    if case['end']:
        d1 = dt.date(*case['end'])
        rows = [r for r in rows if utc_date(r['dep']) <= d1]
    n = case['every_nth']
    if k == 'query' and n is not None and n > 1:
        base = (dt.date(*case['start']) - dt.date(1970, 1, 1)).days if case['start'] else min((r['day'] for r in w.rows), default=0)
        rows = [r for r in rows if (r['day'] - base) % n == 0]
    rows = sorted(rows, key=lambda r: (r['dep'], r['sid']))
    lo, hi = 0, len(rows)
    if k == 'query' and case['limit'] is not None:
        lo = min(case['offset'] or 0, len(rows))
        hi = min(lo + case['limit'], len(rows))
    return {'matches': rows, 'window': (lo, hi)}


def check_sequence(got_ids, matches, lo, hi, by_sid):
    """Is got_ids an admissible answer: the window [lo, hi) of the departure-ordered matches, where rows with equal
    departure time may come in any order (SQL leaves it open)?  Returns None or a description."""
    want = matches[lo:hi]
    if len(got_ids) != len(want):
        return f'{len(got_ids)} rows returned, {len(want)} expected'
    if len(set(got_ids)) != len(got_ids):
        return 'an instance is returned twice'
    ok_ids = {r['sid'] for r in matches}
    for i, (g, wnt) in enumerate(zip(got_ids, want)):
        if g not in by_sid:
            return f'unknown instance id {g}'
        if g not in ok_ids:
            return f'instance {g} does not satisfy the conditions'
        if by_sid[g]['dep'] != wnt['dep']:
            return f'position {i}: departure {by_sid[g]["dep"]} returned, {wnt["dep"]} expected (order / window)'
    return None


def oracle_frequent(got, matches, limit):
    true = {}
    for r in matches:
        key = frozenset((r['o'], r['d']))
        true[key] = true.get(key, 0) + 1
    if len(got) != min(limit, len(true)):
        return f'{len(got)} routes returned, {min(limit, len(true))} expected'
    seen = set()
    prev = None
    for a1, a2, n in got:
        key = frozenset((a1, a2))
        if key in seen:
            return f'route {a1}-{a2} listed twice (direction dependent?)'
        seen.add(key)
        if true.get(key) != n:
            return f'route {a1}-{a2}: count {n}, true number of matching instances {true.get(key)}'
        if prev is not None and n > prev:
            return 'counts not in descending order'
        prev = n
    rest = [n for k2, n in true.items() if k2 not in seen]
    if rest and got and max(rest) > min(n for _, _, n in got):
        return 'a more frequent route was omitted'
    return None


# ---------------------------------------------------------------------------------------------
# implementation
# ---------------------------------------------------------------------------------------------

def make_query(case):
    from AEIC.missions import BoundingBox, Filter, FrequentFlightQuery, Query
    from AEIC.missions.query import CountQuery
    flt = None
    if case['filter'] is not None:
        kw = {}
        for k, v in case['filter'].items():
            if k in BOX_ATTRS and v is not None:
                kw[k] = BoundingBox(min_latitude=v[0], max_latitude=v[1], min_longitude=v[2], max_longitude=v[3])
            else:
                kw[k] = list(v) if isinstance(v, list) else v
        flt = Filter(**kw)
    dates = {'start_date': dt.date(*case['start']) if case['start'] else None,
             'end_date': dt.date(*case['end']) if case['end'] else None}
    if case['kind'] == 'query':
        return Query(filter=flt, every_nth=case['every_nth'], sample=case['sample'], limit=case['limit'],
                     offset=case['offset'], **dates)
    if case['kind'] == 'count':
        return CountQuery(filter=flt, **dates)
    return FrequentFlightQuery(filter=flt, limit=case['limit'], **dates)


def classify_error(e: Exception) -> str:
    msg = str(e)
    if isinstance(e, ValueError):
        if 'invalid combination of spatial filters' in msg:
            return 'illegal'
        if 'not enough values to unpack' in msg:
            return 'empty-filter-crash'
        if any(t in msg for t in ('sample frequency', 'every_nth', 'result limit', 'result offset', 'offset cannot')):
            return 'invalid'
    return f'{type(e).__name__}: {msg}'[:200]


def run_impl(db, case):
    """-> list of per-step outcomes: ('sql-ok',) | ('error', cls) | ('rows', [ids]) | ('count', n) | ('routes', [...])
    A case may name a process time zone (`process_tz`): the query is then built and executed with TZ set to it —
    the answer must not depend on the zone of the machine (dates are UTC days)."""
    tz = case.get('process_tz')
    if not tz:
        return _run_impl(db, case)
    import time as _time
    old = os.environ.get('TZ')
    os.environ['TZ'] = tz
    _time.tzset()
    try:
        return _run_impl(db, case)
    finally:
        if old is None:
            os.environ.pop('TZ', None)
        else:
            os.environ['TZ'] = old
        _time.tzset()


def _run_impl(db, case):
    try:
        q = make_query(case)
    except Exception as e:  # noqa: BLE001
        return [('error', 'construct:' + classify_error(e))], None
    out = []
    for step in case['plan']:
        try:
            if step == 'sql':
                q.to_sql()
                out.append(('sql-ok',))
            else:
                res = db(q)
                if case['kind'] == 'query':
                    res = list(res)
                    out.append(('rows', [r.id for r in res],
                                [(r.flight_id, r.origin, r.destination, r.origin_country, r.destination_country,
                                  r.distance, r.seat_capacity, r.service_type, r.aircraft_type,
                                  int(r.departure.timestamp()), int(r.arrival.timestamp()),
                                  r.carrier, r.flight_number, r.engine_type,
                                  type(r).__name__, type(r.departure).__name__) for r in res]))
                elif case['kind'] == 'count':
                    out.append(('count', int(res)))
                else:
                    out.append(('routes', [(r.airport1, r.airport2, r.number_of_flights) for r in res]))
        except Exception as e:  # noqa: BLE001
            out.append(('error', classify_error(e)))
    conds = getattr(q, '_conditions', None)
    return out, (len(conds) if isinstance(conds, list) else None)


def probe_flags():
    """Which behaviour does this tree have?  (reset_on_build, empty_ok)"""
    from AEIC.missions import Filter, Query
    q = Query(filter=Filter(min_distance=1.0))
    q.to_sql()
    q.to_sql()
    reset = len(getattr(q, '_conditions', [None])) == 1
    try:
        Filter().to_sql()
        empty_ok = True
    except ValueError:
        empty_ok = False
    return reset, empty_ok


# ---------------------------------------------------------------------------------------------
# model input
# ---------------------------------------------------------------------------------------------

def coq_filter(flt) -> str:
    if flt is None:
        return 'None'

    def num(k, scale):
        v = flt.get(k)
        return 'None' if v is None else f'(Some ({u6(v) if scale else int(v)})%Z)'

    def lst(k):
        v = flt.get(k)
        if v is None:
            return 'None'
        return '(Some [' + '; '.join(f'"{x}"' for x in _as_list(v)) + '])'

    def box(k):
        v = flt.get(k)
        if v is None:
            return 'None'
        return f'(Some (BBox ({u6(v[0])}) ({u6(v[1])}) ({u6(v[2])}) ({u6(v[3])})))'
    parts = [num('min_distance', True), num('max_distance', True), num('min_seat_capacity', False),
             num('max_seat_capacity', False),
             lst('airport'), lst('origin_airport'), lst('destination_airport'),
             lst('country'), lst('origin_country'), lst('destination_country'),
             lst('continent'), lst('origin_continent'), lst('destination_continent'),
             box('bounding_box'), box('origin_bounding_box'), box('destination_bounding_box'),
             lst('service_type'), lst('aircraft_type')]
    return '(Some (Filter ' + ' '.join(parts) + '))'


def coq_query(case) -> str:
    def od(c):
        return 'None' if c is None else f'(Some (({c[0]})%Z, ({c[1]})%Z, ({c[2]})%Z))'

    def oz(v):
        return 'None' if v is None else f'(Some ({int(v)})%Z)'
    s = case.get('sample')
    if s is None or case['kind'] != 'query':
        st = 'None'
    else:
        fr = Fraction(s).limit_denominator(1000)
        st = f'(Some (({fr.numerator})%Z, ({fr.denominator})%Z))'
    if case['kind'] == 'query':
        return (f'(Query {coq_filter(case["filter"])} {od(case["start"])} {od(case["end"])} {oz(case["every_nth"])} {st} '
                f'{oz(case["limit"])} {oz(case["offset"])})')
    return f'(Query {coq_filter(case["filter"])} {od(case["start"])} {od(case["end"])} None None None None)'


def coq_expr(case, flags) -> str:
    rs, eo = ('true' if flags[0] else 'false'), ('true' if flags[1] else 'false')
    k = len(case['plan'])              # builds performed when the last step completes
    q = coq_query(case)
    if case['kind'] == 'query':
        return f'run_query {rs} {eo} the_db {q} {k}%nat'
    if case['kind'] == 'count':
        return f'run_count {rs} {eo} the_db {q} {k}%nat'
    return f'run_frequent {rs} {eo} the_db {q} ({case["limit"]})%Z {k}%nat'


ERR_OF = {'EInvalid': 'invalid', 'EIllegalSpatialMix': 'illegal', 'EEmptyFilterCrash': 'empty-filter-crash'}


def same_as_model(case, m, last, w: World, by_sid):
    """model value of the last step vs. the implementation's last step"""
    if isinstance(m, tuple) and m[0] == 'Err':
        want = ERR_OF.get(m[1], m[1])
        return None if last == ('error', want) else f'model refuses ({want}), implementation {last[0]} {str(last[1:])[:80]}'
    if not (isinstance(m, tuple) and m[0] == 'Ok'):
        return f'unparsed model value {str(m)[:80]}'
    v = m[1]
    if last[0] == 'error':
        return f'model answers, implementation raised {last[1]}'
    if case['kind'] == 'count':
        return None if last == ('count', v) else f'count: model {v}, implementation {last[1]}'
    if case['kind'] == 'query':
        if case['sample'] is not None and case['sample'] < 1.0:
            return None                                   # random subset: not comparable row by row
        got = last[1]
        if len(got) != len(v):
            return f'rows: model {len(v)}, implementation {len(got)}'
        if [by_sid[i]['dep'] for i in got] != [by_sid[i]['dep'] for i in v]:
            return 'departure sequence differs from the model'
        if got != v and case['limit'] is None and sorted(got) != sorted(v):
            return 'same departures but different instances'
        return None         # differences inside groups of equal departure time are admissible
    # frequent: model gives the full ranking [(key, count)]
    table = {k2: c for k2, c in v}
    got = last[1]
    lim = case['limit']
    if [n for _, _, n in got] != [c for _, c in v][:lim]:
        return f'route counts differ: implementation {[n for _, _, n in got][:8]} model {[c for _, c in v][:8]}'
    for a1, a2, n in got:
        if table.get(a1 + a2) != n:
            return f'route {a1}{a2}: implementation {n}, model {table.get(a1 + a2)}'
    return None


# ---------------------------------------------------------------------------------------------
# judge
# ---------------------------------------------------------------------------------------------

def judge(chk: Check, case, steps, w: World, by_sid) -> bool:
    orc = oracle(case, w)
    info = {'case': case, 'impl': [(s[0], (s[1][:20] if isinstance(s[1], list) else s[1]) if len(s) > 1 else None)
                                   for s in steps]}
    runs = [s for s, p in zip(steps, case['plan']) if p == 'run']
    if 'error' in orc:
        for s in steps:
            if s != ('error', orc['error']):
                chk.fail(f'{case["kind"]} with {orc["error"]} parameters was not refused as such: {s[0]} '
                         f'{str(s[1:])[:100]}', info, signature=None)
                return True
        return False
    matches, (lo, hi) = orc['matches'], orc['window']
    n_all = len(matches)
    for idx, s in enumerate(runs):
        if s[0] == 'error':
            sig = None
            if s[1] == 'empty-filter-crash' and case['filter'] is not None and \
                    all(v is None or (isinstance(v, list) and not v) for v in case['filter'].values()):
                sig = SIG_F12
            chk.fail(f'{case["kind"]} raised {s[1]}; the property gives an answer of {hi - lo} instance(s)', info,
                     signature=sig)
            return True
        if case['kind'] == 'count':
            if s[1] != n_all:
                chk.fail(f'count {s[1]} on execution {idx + 1}, {n_all} instances satisfy the conditions', info, None)
                return True
        elif case['kind'] == 'frequent':
            why = oracle_frequent(s[1], matches, case['limit'])
            if why:
                chk.fail(f'frequent routes, execution {idx + 1}: {why}', info, None)
                return True
        elif case['sample'] is not None and case['sample'] < 1.0:
            p = case['sample']
            got = s[1]
            ok_ids = {r['sid'] for r in matches}
            deps = [by_sid[i]['dep'] for i in got if i in by_sid]
            if len(set(got)) != len(got) or not set(got) <= ok_ids or deps != sorted(deps):
                chk.fail(f'sampled query, execution {idx + 1}: not an ordered subset of the matching instances', info, None)
                return True
            sd = math.sqrt(n_all * p * (1 - p))
            if abs(len(got) - n_all * p) > 6.5 * sd + 1:
                sig = None
                if idx >= 1 and len(got) < n_all * p and abs(len(got) - n_all * p ** (idx + 1)) <= \
                        6.5 * math.sqrt(n_all * p ** (idx + 1)) + 1:
                    sig = SIG_RESAMPLE
                chk.fail(f'sampled query (fraction {p} of {n_all}) returned {len(got)} instances on execution {idx + 1}; '
                         f'expected {n_all * p:.0f} +- {6.5 * sd:.0f}', info, signature=sig)
                return True
        else:
            why = check_sequence(s[1], matches, lo, hi, by_sid)
            if why is None:
                for i, rec in zip(s[1], s[2]):
                    r = by_sid[i]
                    if rec != (r['fid'], r['o'], r['d'], r['octry'], r['dctry'], r['dist'], r['seats'], r['service'],
                               r['actype'], r['dep'], r['arr'], r['carrier'], r['fltno'], r['engine'],
                               'QueryResult', 'Timestamp'):
                        why = f'instance {i} is reported with other data than stored: {rec}'
                        break
            if why:
                chk.fail(f'query, execution {idx + 1}: {why}', info, None)
                return True
    for s, p in zip(steps, case['plan']):
        if p == 'sql' and s[0] == 'error':
            sig = SIG_F12 if s[1] == 'empty-filter-crash' else None
            chk.fail(f'to_sql raised {s[1]} for a query the property answers', info, signature=sig)
            return True
    return False


def nontrivial(case, orc) -> bool:
    if 'error' in orc:
        return case.get('tag') == 'illegal'
    n = len(orc['matches'])
    return (case['filter'] not in (None, {}) and n > 0) or len(case['plan']) > 1 or case.get('tag') in ('empty-filter',)


# ---------------------------------------------------------------------------------------------
# run
# ---------------------------------------------------------------------------------------------

def extract(chk: Check) -> bool:
    """Each source function is extracted under its own obligation name; the link lemmas are only attempted when all
    parts could be regenerated."""
    src = REPO / 'src' / 'AEIC' / 'missions'
    f, q = src / 'filter.py', src / 'query.py'
    parts = [('header', lambda: c14_extract.HEAD),
             ('extract:filter.py:Filter._normalize+_spatial', lambda: c14_extract.extract_normalize(f) + '\n'),
             ('extract:filter.py:Filter.to_sql', lambda: c14_extract.extract_to_sql(f) + '\n'),
             ('extract:filter.py:spatial condition builders', lambda: c14_extract.extract_spatial_builders(f) + '\n'),
             ('extract:query.py:_common_conditions+Query+CountQuery+FrequentFlightQuery',
              lambda: c14_extract.extract_query(q) + '\n'),
             ('extract:database.py:Database.__call__', lambda: c14_extract.extract_database(src / 'database.py'))]
    text, ok = '', True
    for name, fn in parts:
        try:
            t = fn()
        except py2coq.Untranslatable as e:
            chk.obligations.append({'name': name, 'ok': False})
            chk.broken(name, str(e))
            ok = False
            continue
        if name != 'header':
            chk.obligations.append({'name': name, 'ok': True})
        text += t
    if not ok:
        return False
    if chk.coq_compile_gen('C14_Extracted', text) is None:
        return False
    chk.notes['static_state'] = {'to_sql_guards_empty_condition_list': 'empty_guard : bool := true' in text,
                                 'conditions_reset_first': 'src_reset_first : bool := true' in text}
    return link_named(chk, 'C14_Link.v')


def check_world(chk: Check, w: World, cases, flags):
    from AEIC.missions import Database
    by_sid = {r['sid']: r for r in w.rows}
    with Database(str(w.path)) as db:
        impl = [run_impl(db, c) for c in cases]
        interleaved(chk, w, db, cases, impl, by_sid)
    (chk.gen / f'C14_Db_{w.name}.v').write_text(HEADER0 + coq_db(w.rows))
    if chk.coq_compile_gen(f'C14_Db_{w.name}', None, obligation=f'gen:database-{w.name}') is None:
        return
    header = HEADER0 + f'From Gen Require Import C14_Db_{w.name}.\n'
    model = chk.coq_eval(header, [coq_expr(c, flags) for c in cases], shard=25, label=f'cases_{w.name}')
    rs, eo = ('true' if flags[0] else 'false'), ('true' if flags[1] else 'false')
    nconds = chk.coq_eval(HEADER0, [f'run_ncond {rs} {eo} {coq_query(c)} {len(c["plan"])}%nat' for c in cases],
                          shard=400, label=f'nconds_{w.name}')
    for c, (steps, ncond), m, mn in zip(cases, impl, model, nconds):
        if ncond is not None and isinstance(mn, tuple) and mn[0] == 'Ok' and steps and steps[-1][0] != 'error' \
                and mn[1] != ncond:
            chk.broken('correspondence:C14_Model.build_times',
                       f'the query object holds {ncond} accumulated conditions after {len(c["plan"])} builds, the model '
                       f'{mn[1]}', {'case': c})
        orc = oracle(c, w)
        chk.case({k: v for k, v in c.items() if k != 'tag'}, nontrivial(c, orc))
        chk.count('db:' + w.name)
        chk.count('kind:' + c['kind'])
        chk.count('filter:' + str(c.get('tag')))
        chk.count('plan:' + '+'.join(c['plan']))
        if 'error' in orc:
            chk.count('refused:' + orc['error'])
        else:
            chk.count('answer:' + ('empty' if not orc['matches'] else 'all' if len(orc['matches']) == len(w.rows) else 'some'))
        failed = judge(chk, c, steps, w, by_sid)
        if m is None:
            continue
        diff = same_as_model(c, m, steps[-1], w, by_sid)
        if diff is not None:
            chk.broken('correspondence:C14_Model.run_' + c['kind'], diff, {'case': c})
        elif not failed:
            chk.traces_validated += 1


def preconditions(chk: Check, w: World, orphans: int):
    """What the model assumes of a database file (and the importer establishes, C13)."""
    if orphans:
        chk.broken(f'database-{w.name}', f'{orphans} schedule rows without flight/airports (joins would drop them)')
    if any(r['day'] != r['dep'] // 86400 for r in w.rows):
        chk.broken(f'database-{w.name}', 'schedules.day is not the UTC day number of the departure')
    bad = [r for r in w.rows if r['od'] != min(r['o'], r['d']) + max(r['o'], r['d'])]
    if bad:
        chk.broken(f'database-{w.name}', f'od_pair is not the direction-independent key for flight {bad[0]["fid"]}')
    chk.count(f'rows:{w.name}', len(w.rows))


def load_corpus(chk: Check):
    out = []
    for f in sorted((VERIF / 'corpus' / chk.pid).glob('*.json')):
        out.append(json.loads(f.read_text()))
    return out


def setup(chk: Check, db_seed: int, db_n: int):
    import os
    os.environ['AEIC_PATH'] = str(REPO / 'tests/data')
    gen_path = chk.tmp / 'generated.sqlite'
    build_generated_db(gen_path, db_seed, db_n)
    shipped = chk.tmp / 'oag-2019-test-subset.sqlite'
    shutil.copy(REPO / 'tests/data/missions/oag-2019-test-subset.sqlite', shipped)
    from AEIC.missions.writable_database import WritableDatabase
    empty = chk.tmp / 'empty.sqlite'
    e = WritableDatabase(str(empty))
    e.index()
    e.commit()
    e.close()
    worlds = {}
    for name, path in (('generated', gen_path), ('shipped', shipped), ('empty', empty)):
        rows, orphans, airports = export_rows(path)
        w = World(name, path, rows, airports)
        preconditions(chk, w, orphans)
        worlds[name] = w
    return worlds


def run(chk: Check):
    chk.rule = ('Query / CountQuery / FrequentFlightQuery objects over the full option grid (distance and seat ranges '
                'with bounds exactly on stored values, service/aircraft lists incl. empty and unknown values, airport / '
                'country / continent / bounding-box conditions on origin, destination or either end in every legal mix, '
                'illegal mixes, empty lists, Filter() and filter=None, start/end dates on and around the stored days, '
                'every-n-th day with either base, limit/offset incl. offsets past the end, invalid parameters), each '
                'executed by a plan of 1-4 to_sql builds / executions, on a generated database (ties and midnight-UTC '
                'departures, flights without instances, instances stored twice), the shipped test database and an '
                'empty database; fixed streams: no filter / Filter() / only-empty-lists filters for every query class '
                'run 1-4 times with to_sql in between (also sampled), date bounds against departures at 00:00:00 and '
                '23:59:59 UTC, falsy-but-set values (0, 0.0, empty string, offset 0, every_nth 1, sample 1.0; limit 0 / '
                'every_nth 0 / sample 0.0 refused), sampling combined with every-n-th-day selection, one origin and one '
                'destination airport on routes stored in both directions, boxes on both ends at once, pairs of queries consumed alternately on one Database; non-trivial = a non-empty filter with a non-empty answer, '
                'or a plan with more than one build, or an illegal mix, or an empty filter')
    chk.trusted += ['translator/c14_extract.py', 'harness/c14.py (row export, comparison modulo ties)',
                    'SQLite as evaluator of the generated SQL (incl. R-tree), sqlite3 module: exercised, not modelled']
    chk.assumptions += [
        f'bounding-box edges keep {BOX_MARGIN} degrees from every airport coordinate (the R-tree stores float32 '
        'bounds, granularity up to 1.5e-5 degrees); distance bounds equal a stored distance exactly or differ by more '
        f'than {DIST_MARGIN} km',
        'rows with equal departure time may be returned in any order; with a limit, which of them fall into the window '
        'is not determined by the SQL',
        'sampling is random in SQLite (not seedable): sizes are judged against a 6.5 sigma binomial band',
        'empty list in a spatial position = admits no airport but does not count for the legality rule; empty '
        'service/aircraft list = no condition (the property text is silent; reading follows the documentation)',
        'database files have no schedule row without flight/airports and od_pair = min+max of the codes (checked)']
    chk.coq_props('props/C14_Props.v')
    extract(chk)
    flags = probe_flags()
    chk.notes['tree_state'] = {'conditions_reset_on_build': flags[0], 'empty_filter_ok(F12 fixed)': flags[1]}
    st = chk.notes.get('static_state')
    if st is not None and st['conditions_reset_first'] != flags[0]:
        chk.broken('extract-vs-probe:QueryBase._common_conditions', 'the extracted shape (conditions and parameters '
                   f'cleared unconditionally at the start: {st["conditions_reset_first"]}) and the observed behaviour of two '
                   f'to_sql() calls (rebuilt from scratch: {flags[0]}) disagree')
    if st is not None and st['to_sql_guards_empty_condition_list'] != flags[1]:
        chk.broken('extract-vs-probe:Filter.to_sql', 'the extracted shape of to_sql and the observed behaviour of '
                   f'Filter().to_sql() disagree (guard extracted: {st}, empty filter accepted: {flags[1]})')
    db_seed, db_n = chk.seed, chk.n(220, 420)
    worlds = setup(chk, db_seed, db_n)
    corpus = load_corpus(chk)
    for name, n in (('generated', chk.n(330, 3000)), ('shipped', chk.n(130, 1200))):
        w = worlds[name]
        cases = ([c for c in corpus if c['db'] == name] + sample_cases(w) + value_cases(w) + falsy_cases(w) + sample_nth_cases(w) + single_route_cases(w)
                 + midnight_cases(w) + process_tz_cases(w)
                 + both_ends_box_cases(chk.rng, w) + [gen_case(chk.rng, w) for _ in range(n)])
        for c in cases:
            c['db_seed'], c['db_n'] = db_seed, db_n
        check_world(chk, w, cases, flags)
    _run_empty_world(chk, worlds, flags, db_seed, db_n)


def _run_empty_world(chk: Check, worlds, flags, db_seed, db_n):
    w = worlds['empty']
    cases = empty_db_cases(w)
    for c in cases:
        c['db_seed'], c['db_n'] = db_seed, db_n
    check_world(chk, w, cases, flags)


def replay(chk: Check, rp):
    chk.coq_props('props/C14_Props.v')
    extract(chk)
    flags = probe_flags()
    case = (rp.get('case') or {}).get('case')
    if not case:
        return
    worlds = setup(chk, case.get('db_seed', chk.seed), case.get('db_n', 220))
    if case:
        check_world(chk, worlds[case['db']], [case], flags)

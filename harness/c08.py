"""C08 — lookup by flight identifier returns exactly the matching trajectory.

Proof:  coq/props/C08_Props.v (lookup_refines_map, table / merged-table correctness, all-or-none identification).
Tie:    histories on real identified stores vs `Store_Model.run` inside Coq; Oracle: plain Python dict.
"""
from harness import store_util as su
from harness.common import Check

COQ_TARGETS = su.COQ_TARGETS
PROPS = 'props/C08_Props.v'


def nontrivial(hist):
    """a lookup right after an addition (no sync / close in between) in a store whose identifiers are not in
    ascending order, or a lookup in an append session / merged store"""
    pending, ids, mode = False, [], None
    for o in hist:
        if o['op'] in ('create', 'create_mem', 'open_r', 'open_a'):
            mode, pending = o['op'], False
            if o['op'] in ('create', 'create_mem'):
                ids = []
            if o['op'] == 'open_r' and o.get('p', [0, 0, 0])[2] == 1:
                mode = 'merged'
        elif o['op'] == 'add' and o.get('fid') is not None and o.get('kind', 'ok') == 'ok':
            ids.append(o['fid'])
            pending = True
        elif o['op'] in ('sync', 'close'):
            pending = False
        elif o['op'] == 'get_flight':
            if mode in ('open_a', 'merged'):
                return True
            if pending and len(ids) >= 2 and ids != sorted(ids):
                return True
    return False


def run(chk: Check):
    chk.rule = ('histories of 5-60 operations: stores with shuffled distinct flight identifiers (file, in-memory), lookups '
                'of present and absent identifiers immediately after additions, after sync, across append sessions, after '
                'reopening, in merged stores; inconsistent identifier use; tiny caches.  Non-trivial = a lookup before any '
                'sync in a store with unsorted identifiers, or in an append session / merged store')
    gen = [{'name': f'gen:{i}', 'ops': su.gen_history(chk.rng, 'C08')} for i in range(chk.n(150, 2000))]
    def extra(c, cfg):
        su.save_then_lookup_scenarios(c, c.rng, c.n(8, 60))
        su.exception_in_with_block_scenarios(c, c.rng, c.n(8, 60))
        su.mixed_merge_order_scenarios(c, c.rng, c.n(6, 40))
    su.run_property(chk, 'C08', PROPS, gen, nontrivial, extra=extra)


def replay(chk: Check, rp):
    su.replay_property(chk, rp, PROPS, nontrivial)

"""C03 — what is stored in a trajectory store is what is read back.

Tie:    correspondence on REAL NetCDF stores under chk.tmp: freshly registered field sets of all six dimension shapes
        and int32/int64/float32/float64/str, species subsets with gaps, different subsets per field, unset optionals,
        lengths 0..300, the three layouts (one file / base + associated / create_associated), close + reopen.
        The Coq model (`C03_Model.run_case`, run with vm_compute) predicts for the same case what comes back: values,
        species keys, or the class of the error; it is run in the version the tree has (before / after the repair of
        F2 — detected by a probe store).
Oracle: an independent field-by-field comparison (harness/c03_util.compare_field; not Container.__eq__) of every value
        that was added with the value read back after reopening.
"""

from __future__ import annotations

import json
import sys

from harness import c03_util as U
from harness.common import REPO, VERIF, Check
from translator import c03_extract
from translator.py2coq import Untranslatable

HEADER = ('From Coq Require Import ZArith List String.\nFrom AV Require Import model.C03_Model.\n'
          'Import ListNotations.\n')

SIG_F2 = 'species-written-at-enum-position-read-at-file-position'
SIG_UNSET_INDEXED = 'unset-or-empty-non-scalar-field-mishandled'
SIG_UNSET_STR = 'unset-optional-string-reads-back-empty'
SIG_ZERO_LEN = 'zero-length-trajectory-unreadable'
SIG_TP_STR = 'pointwise-string-field-unwritable'
SIG_STR_HOLE = 'unset-string-entry-before-a-set-one-hdf-error'


def extract(chk: Check):
    """translator tie: regenerate the dispatch tables / flags of the writer and reader from the source, prove them
    equal to the model's (link/C03_Link.v).  Returns True / False (tree repaired / as coded) or None (no tie)."""
    name = 'extract:trajectories/store.py:_write_to_nc_var,_read_from_nc_var,_create_dimensions,call sites'
    try:
        facts = c03_extract.extract_facts(REPO / 'src')
    except Untranslatable as e:
        chk.obligations.append({'name': name, 'ok': False})
        chk.broken(name, str(e))
        return None
    chk.obligations.append({'name': name, 'ok': True})
    if chk.coq_compile_gen('C03_Extracted', c03_extract.coq_text(facts)) is None:
        return None
    if not chk.coq_link('C03_Link.v'):
        return None
    return facts.repaired


def detect_fixed(chk: Check) -> bool:
    """Which behaviour does the tree have?  A store with one TS field holding {CO2, NOx} round-trips only with the
    repaired writer/reader."""
    case = {'uid': f'c03probe_{chk.seed}', 'layout': 'single', 'apart': [], 'out_of_dim': False,
            'sets': [{'fields': [{'shape': 'TS', 'dtype': 'float64', 'req': True},
                                 {'shape': 'TS', 'dtype': 'float64', 'req': True}]}],
            'trajs': [{'n': 2, 'base': {'seed': 1, 'flight_id': None, 'name': 'p', 'unset_phases': False,
                                        'scal': [1.0, 2.0], 'phases': [1] * 9},
                       'vals': {'1': [{'0': 1.5, '4': 2.5}, {'0': 3.5}]}}]}
    run = U.run_case_impl(case, chk.tmp)
    return run.outcome[0] == 'Added' and run.outcome[1][0][0] == 'ok' and not run.diffs[0]


# ---- classification of what the oracle finds ------------------------------------------------------------------------

def species_fields(case, tj_index):
    """[(set id, field index, shape, value-json)] of the species-indexed fields of trajectory tj_index"""
    out = []
    for k, fs in enumerate(case['sets']):
        for j, f in enumerate(fs['fields']):
            if f['shape'] in ('TS', 'TSP', 'TSM'):
                out.append((k + 1, j, f, case['trajs'][tj_index]['vals'][str(k + 1)][j]))
    return out


def file_species_expected(case, i):
    """species dimension (sorted enum positions) of the file that holds field set i, derived from the first
    trajectory exactly as the property's data model says (union over the species-indexed fields written together)."""
    layout, apart = case['layout'], case['apart']
    ids = list(range(1, len(case['sets']) + 1))
    if layout == 'mapped':
        group = apart if i in apart else [x for x in ids if x not in apart]
    else:
        group = ids
    sp = set()
    for (sid, _, _, v) in species_fields(case, 0):
        if sid in group and isinstance(v, dict):
            sp |= {int(s) for s in v}
    return sorted(sp)


def species_outside_dimension(case, k):
    """does trajectory k hold, in some species-indexed field, a species that the first record of the store gave no
    place in the species dimension of that field's file?  (Derived from the case itself, not from a generator flag.)"""
    if k >= len(case['trajs']):
        return False
    for (i, j, f, v) in species_fields(case, k):
        if isinstance(v, dict) and v and not set(int(s) for s in v) <= set(file_species_expected(case, i)):
            return True
    return False


def f2_applies(case, k, i, j):
    """F2 can show at field (i, j) of trajectory k: the field holds species, and either its species are not at
    their enum positions in the file, or the file has further species the field does not hold."""
    v = case['trajs'][k]['vals'][str(i)][j]
    fsp = file_species_expected(case, i)
    if not isinstance(v, dict) or not v:
        return False
    keys = sorted(int(s) for s in v)
    return fsp != list(range(len(fsp))) or keys != fsp


def classify_refusal(case, run, fixed):
    """An add / create_associated that raised.  Returns (is_failure, signature, why)."""
    _, phase, k, cls, msg = run.outcome
    tj = case['trajs'][k] if k < len(case['trajs']) else None
    has_tp_str = any(f['shape'] == 'TP' and f['dtype'] == 'str' for fs in case['sets'] for f in fs['fields'])
    if phase == 0:
        # refused when the field set is DEFINED (after the repair of F-C03c per-point string fields cannot be
        # registered at all): a refusal by name, before anything is stored
        if has_tp_str and cls == 'EValue' and 'str' in msg and 'point' in msg:
            return False, None, 'per-point string field refused by name at definition'
        return True, None, f'field set definition raised {msg}'
    if cls == 'EAttr' and "has no attribute 'size'" in msg and has_tp_str:
        return True, SIG_TP_STR, 'a per-point string field cannot be written'
    if species_outside_dimension(case, k) and cls == 'EValue' and 'species dimension' in msg:
        return False, None, 'refused by name: species outside the store\'s species dimension'
    if phase == 2 and cls == 'EHdf':
        sig = classify_read_error(case, k, cls, base_only=True, rorder=run.rorder1)
        if sig:
            return True, sig, 'reading the base store inside create_associated failed'
    if not fixed:
        if phase == 2 and tj is not None and tj['n'] == 0 and cls in ('EType', 'EAssert', 'EValue'):
            return True, SIG_ZERO_LEN, 'zero-length trajectory cannot be read back for mapping'
        if cls == 'EIndexBound':
            for (i, j, f, v) in species_fields(case, k):
                if isinstance(v, dict) and v:
                    fsp = file_species_expected(case, i)
                    if case.get('out_of_dim') or max(int(s) for s in v) >= len(fsp):
                        return True, SIG_F2, 'species written at enum position beyond the species dimension'
        if cls in ('EAssert', 'EAttr') and k == 0:
            if any(v is None for (_, _, _, v) in species_fields(case, 0)):
                return True, SIG_UNSET_INDEXED, 'unset optional species-indexed field in the first trajectory'
        if phase == 2 and cls in ('EValue', 'EStopIter', 'EType', 'EHdf'):
            # create_associated reads trajectory k of the base store first: a read failure of the kinds below
            sig = classify_read_error(case, k, cls, base_only=True, rorder=run.rorder1)
            if sig:
                return True, sig, 'reading the base store inside create_associated failed'
        if case.get('out_of_dim') and cls in ('EIndexBound',):
            return True, SIG_F2, 'species outside the dimension written at enum position'
    else:
        if phase == 2 and tj is not None and tj['n'] == 0:
            return True, SIG_ZERO_LEN, 'zero-length trajectory cannot be read back for mapping'
    return True, None, f'add/create_associated raised {msg}'


def first_point_field(case, k, rorder):
    """the field that decides the point count when trajectory k is loaded with the field sets visited in rorder"""
    for i in rorder:
        if i == 0:
            return (0, 0, {'shape': 'TP', 'dtype': 'float64', 'req': True}, {'a': 0})
        for j, f in enumerate(case['sets'][i - 1]['fields']):
            if f['shape'] in ('TP', 'TSP'):
                return (i, j, f, case['trajs'][k]['vals'][str(i)][j])
    return None


def classify_read_error(case, k, cls, base_only=False, rorder=None):
    tj = case['trajs'][k]
    if cls == 'EHdf':
        # a species-indexed string field with no species in trajectory k but with species in a later one
        for (i, j, f, v) in species_fields(case, k):
            if base_only and case['layout'] == 'mapped' and i in case['apart']:
                continue
            if f['shape'] == 'TS' and f['dtype'] == 'str' and not v and \
                    any(t['vals'][str(i)][j] for t in case['trajs'][k + 1:]):
                return SIG_STR_HOLE
        return None
    if tj['n'] == 0:
        return SIG_ZERO_LEN
    apart = case['apart'] if case['layout'] == 'mapped' else []
    fp = first_point_field(case, k, rorder) if rorder else None
    if fp is not None and fp[0] != 0:
        (i, j, f, v) = fp
        if cls == 'EType' and f['shape'] == 'TP' and v is None and not f['req']:
            return SIG_UNSET_INDEXED                        # len(None)
        if cls == 'EStopIter' and f['shape'] == 'TSP' and not v and not file_species_expected(case, i):
            return SIG_UNSET_INDEXED                        # next(iter({}.values()))
    for (i, j, f, v) in species_fields(case, k):
        if base_only and i in apart:
            continue
        if f['shape'] == 'TSP':
            fsp = file_species_expected(case, i)
            keys = sorted(int(s) for s in v) if isinstance(v, dict) else []
            if cls == 'EValue' and keys != fsp and fsp:
                return SIG_F2 if keys else SIG_UNSET_INDEXED          # invented species of length 0
            if cls in ('EStopIter', 'EType') and not keys:
                return SIG_UNSET_INDEXED
    return None


def classify_diff(case, k, i, j, kinds, fixed):
    if i == 0:
        name_idx = [n for n, _ in U.base_fields()].index('name')
        if j == name_idx and case['trajs'][k]['base']['name'] is None and kinds == ['unset-became-value']:
            return SIG_UNSET_STR
        return None
    f = case['sets'][i - 1]['fields'][j]
    v = case['trajs'][k]['vals'][str(i)][j]
    if f['shape'] == 'T' and f['dtype'] == 'str' and v is None and kinds == ['unset-became-value']:
        return SIG_UNSET_STR
    if fixed:
        return None
    unset = v is None or (isinstance(v, dict) and not v and f['shape'] in ('TS', 'TSP', 'TSM'))
    if f['shape'] in ('TS', 'TSP', 'TSM', 'TM') and unset and kinds == ['unset-became-value']:
        if f['shape'] == 'TM' or file_species_expected(case, i):
            return SIG_UNSET_INDEXED
    if f['shape'] in ('TS', 'TSP', 'TSM') and not unset and f2_applies(case, k, i, j) and \
            set(kinds) <= {'species-invented', 'species-lost', 'value-differs'}:
        return SIG_F2
    return None


# ---- one batch of cases ---------------------------------------------------------------------------------------------------

def flatten_reads(run):
    """implementation outcome in the shape of the model's: per trajectory ['ok', flat values in rorder] | ['err', cls]"""
    if run.outcome[0] == 'Refused':
        return run.outcome[:4]
    reads = []
    for r in run.outcome[1]:
        if r[0] == 'err':
            reads.append(['err', r[1]])
        else:
            reads.append(['ok', [v for i in run.rorder for v in r[1][str(i)]]])
    return ['Added', reads]


def check_cases(chk: Check, cases, fixed: bool):
    runs, exprs = [], []
    for c in cases:
        try:
            run = U.run_case_impl(c, chk.tmp)
        except Exception as e:  # noqa: BLE001
            import traceback
            chk.broken('harness:run_case_impl', traceback.format_exc()[-1500:], c)
            run = None
        runs.append(run)
        exprs.append(U.coq_case(c, run, fixed) if run is not None else 'Added []')
    model = chk.coq_eval(HEADER, exprs, shard=40)
    for c, run, mo in zip(cases, runs, model):
        if run is None:
            continue
        sp_fields = species_fields(c, 0)
        gaps = any(f2_applies(c, k, i, j) for k in range(len(c['trajs'])) for (i, j, _, _) in species_fields(c, k))
        chk.case({'uid': c['uid'], 'layout': c['layout'], 'sets': c['sets'], 'n': [t['n'] for t in c['trajs']]},
                 nontrivial=gaps or any(v is None for t in c['trajs'] for row in t['vals'].values() for v in row))
        chk.count('layout:' + c['layout'])
        chk.count(f'trajectories:{len(c["trajs"])}')
        for fs in c['sets']:
            for f in fs['fields']:
                chk.count(f'field:{f["shape"]}:{f["dtype"]}:{"req" if f["req"] else "opt"}')
        for t in c['trajs']:
            for row in t['vals'].values():
                for v in row:
                    for a in ([v] if isinstance(v, dict) and 'a' in v else
                              [x for x in v.values() if isinstance(x, dict) and 'a' in x] if isinstance(v, dict) else []):
                        chk.count('array-memory-layout:' + U.memory_layout(a['a'], t['n']))
            chk.count('length:' + ('0' if t['n'] == 0 else '1' if t['n'] == 1 else '2-20' if t['n'] <= 20 else '21-300'))
        if gaps:
            chk.count('species:gaps-or-differing-subsets')
        if sp_fields:
            chk.count('species:fields')
        unexplained = False

        def judge(reads, alldiffs, rorder, where, c=c, run=run):
            bad = False
            for k, (rd, diffs) in enumerate(zip(reads, alldiffs)):
                if rd is None:
                    continue
                if rd[0] == 'err':
                    sig = classify_read_error(c, k, rd[1], rorder=rorder)
                    r = chk.fail(f'{c["uid"]} ({c["layout"]}): trajectory {k} (n={c["trajs"][k]["n"]}) cannot be read '
                                 f'back {where}: {rd[2]}', {'case': c, 'trajectory': k, 'error': rd[1:], 'where': where},
                                 signature=sig)
                    bad |= r != 'known'
                    continue
                for (i, j, kinds) in diffs:
                    sig = classify_diff(c, k, i, j, kinds, fixed) if j >= 0 else None
                    fld = (c['sets'][i - 1]['fields'][j] if i > 0 else {'shape': 'base', 'dtype': ''}) if j >= 0 else {}
                    r = chk.fail(f'{c["uid"]} ({c["layout"]}): trajectory {k} {where}, field set {i}, field {j} '
                                 f'({fld.get("shape")} {fld.get("dtype")}): {", ".join(kinds)}; '
                                 f'file species {run.file_species.get(str(i))}',
                                 {'case': c, 'trajectory': k, 'set': i, 'field': j, 'kinds': kinds, 'where': where,
                                  'written': run.written[k][str(i)][j] if j >= 0 else None,
                                  'read': rd[1][str(i)][j] if j >= 0 else None}, signature=sig)
                    bad |= r != 'known'
            return bad
        # ---- oracle ----
        if run.outcome[0] == 'Refused':
            chk.count('outcome:refused:' + run.outcome[3][:12])
            failed, sig, why = classify_refusal(c, run, fixed)
            if failed:
                r = chk.fail(f'{c["uid"]} ({c["layout"]}): trajectory {run.outcome[2]} could not be stored: '
                             f'{run.outcome[4]} [{why}]', {'case': c, 'outcome': run.outcome}, signature=sig)
                unexplained = r != 'known'
        else:
            chk.count('outcome:added')
            unexplained |= judge(run.outcome[1], run.diffs, run.rorder, 'after reopening')
        if run.session_reads is not None:
            # reads made INSIDE the append session (before the close): same oracle, against what was added at each index
            chk.count('special:append-session')
            unexplained |= judge(run.session_reads, run.session_diffs, run.session_rorder, 'inside the append session')
            if run.outcome[0] == 'Added' and not unexplained:
                for k, (a, b) in enumerate(zip(run.session_reads, run.outcome[1])):
                    # (indices added in the session come from the cache — the very objects that were added; the ones
                    #  that were in the file before are read from the file both times and must agree exactly)
                    # (a read that FAILED on one side only is the oracle's business: F-C03e shows after the close only)
                    if a is not None and k < c['append_at'] and a[0] == 'ok' and b[0] == 'ok' and \
                            json.loads(json.dumps(a[:2])) != json.loads(json.dumps(b[:2])):
                        chk.broken('correspondence:append-session', f'{c["uid"]}: trajectory {k} reads differently inside '
                                                                    'the append session and after reopening', c)
        if unexplained or mo is None or (run.outcome[0] == 'Refused' and run.outcome[1] == 0):
            continue                  # (nothing reached the store: the model has nothing to say)
        # ---- correspondence with the model ----
        iv = flatten_reads(run)
        try:
            mv = U.model_outcome(mo, None)
        except Exception as e:  # noqa: BLE001
            chk.broken('correspondence:C03_Model.run_case', f'cannot read model output: {e}', c)
            continue
        if json.loads(json.dumps(iv)) != json.loads(json.dumps(mv)):
            chk.broken('correspondence:C03_Model.run_case',
                       f'{c["uid"]}: implementation {first_difference(iv, mv)}', c)
        else:
            chk.traces_validated += 1


def first_difference(iv, mv):
    if iv[0] != mv[0] or iv[0] == 'Refused':
        return f'{iv} vs model {mv}'
    for k, (a, b) in enumerate(zip(iv[1], mv[1])):
        if a != b:
            if a[0] != b[0] or a[0] == 'err':
                return f'trajectory {k}: {a[:2]} vs model {b[:2]}'
            for p, (x, y) in enumerate(zip(a[1], b[1])):
                if x != y:
                    return f'trajectory {k}, value {p}: {x} vs model {y}'
            return f'trajectory {k}: {len(a[1])} values vs model {len(b[1])}'
    return f'{len(iv[1])} reads vs model {len(mv[1])}'


def load_corpus(chk):
    d = VERIF / 'corpus' / chk.pid
    return [json.loads(f.read_text())['case'] for f in sorted(d.glob('*.json'))]


def spot_check_fill_values(chk: Check):
    """The fill constants of the Coq model are the library's."""
    import struct
    want = {'int8': -127, 'int16': -32767, 'uint8': 255, 'uint16': 65535, 'uint32': 4294967295,
            'uint64': 18446744073709551614, 'int32': -2147483647, 'int64': -9223372036854775806,
            'float32': struct.unpack('<f', struct.pack('<I', 2096103424))[0],
            'float64': struct.unpack('<d', struct.pack('<Q', 5160562223013167104))[0], 'str': ''}
    got = {d: U.fill_value(d) for d in want}
    got['float32'] = struct.unpack('<f', struct.pack('<f', got['float32']))[0]
    ok = all(got[d] == want[d] for d in want)
    chk.obligations.append({'name': 'library:netCDF4.default_fillvals = C03_Model.fill_of', 'ok': ok})
    if not ok:
        chk.broken('library:fill-values', f'netCDF4 {got} vs model {want}')


def pin_hash_seed():
    """The store iterates over *sets* of field-set names, so what the code before the repair of F2 does with a case
    depends on string hashing.  bin/check exports PYTHONHASHSEED=0 too late for its own interpreter; start again
    once with it in effect so that a run is a function of VERIF_SEED only."""
    import os
    if sys.flags.hash_randomization and os.environ.get('C03_HASH_PINNED') != '1':
        os.environ['C03_HASH_PINNED'] = '1'
        os.environ['PYTHONHASHSEED'] = '0'
        sys.stdout.flush()
        sys.stderr.flush()
        os.execv(sys.executable, [sys.executable] + sys.argv)


def per_trajectory_string_hole(chk: Check):
    """F-C03e for per-trajectory strings (chunks of 512 trajectories; not in the Coq model): 520 trajectories, the
    optional name unset in the first 515.  Oracle only: every trajectory must read back, name unset (or "", F-C03a)."""
    import numpy as np
    from AEIC.trajectories import TrajectoryStore
    from AEIC.trajectories.trajectory import Trajectory
    bf = U.base_fields()
    path = chk.tmp / f'c03big_{chk.seed}.nc'
    tj = {'n': 2, 'base': {'seed': 5, 'flight_id': None, 'name': None, 'unset_phases': False, 'scal': [1.0, 2.0],
                           'phases': [1] * 9}}
    vals = U.base_values(tj, bf)
    with TrajectoryStore.create(base_file=path) as ts:
        for k in range(520):
            t = Trajectory(2)
            for name, v in vals.items():
                setattr(t, name, v)
            t.name = None if k < 515 else f'n{k}'
            t.n_taxi_origin = None if k < 515 else k       # an optional NUMERIC field over the same chunk boundary
            ts.add(t)
    bad = []
    with TrajectoryStore.open(base_file=path) as ts:
        for k in (0, 1, 511, 512, 514, 515, 519):
            want = None if k < 515 else f'n{k}'
            try:
                got = ts[k].name
                if not np.array_equal(ts[k].fuel_flow, vals['fuel_flow']):
                    bad.append((k, 'per-point values differ', None))
                elif got != want and not (want is None and got == ''):
                    bad.append((k, f'name {got!r} instead of {want!r}', None))
                elif ts[k].n_taxi_origin != (None if k < 515 else k):
                    bad.append((k, f'optional int32 field reads {ts[k].n_taxi_origin!r}', None))
            except Exception as e:  # noqa: BLE001
                sig = SIG_STR_HOLE if (U.err_class(e) == 'EHdf' and k < 512) else None
                bad.append((k, f'{type(e).__name__}: {e}', sig))
    path.unlink()
    chk.case({'kind': 'per-trajectory-string-hole', 'trajectories': 520, 'name_unset_before': 515}, nontrivial=True)
    chk.count('special:per-trajectory-string-hole')
    for k, why, sig in bad:
        chk.fail(f'520 trajectories, name unset in the first 515: trajectory {k} cannot be read back: {why}',
                 {'special': 'per_trajectory_string_hole', 'trajectory': k}, signature=sig)


def two_open_stores(chk: Check):
    """Two stores over the same field set, with different species, OPEN AT THE SAME TIME: adds alternate between
    them, then both are reopened together and read alternately.  Oracle only (each store on its own is what the
    model describes): state shared between store objects shows here."""
    import numpy as np
    from AEIC.performance.types import ThrustModeValues
    from AEIC.storage import Dimensions, FieldMetadata, FieldSet
    from AEIC.trajectories import TrajectoryStore
    from AEIC.trajectories.trajectory import Trajectory
    from AEIC.types import Species, SpeciesValues
    name = f'c03two_{chk.seed}'
    flds = [{'shape': 'TS', 'dtype': 'float64', 'req': True}, {'shape': 'TSP', 'dtype': 'int16', 'req': True},
            {'shape': 'TM', 'dtype': 'float32', 'req': False}, {'shape': 'TSM', 'dtype': 'uint8', 'req': True}]
    fn = [f'{name}_f{j}' for j in range(len(flds))]
    if not FieldSet.known(name):
        FieldSet(name, **{fn[j]: FieldMetadata(dimensions=Dimensions.from_abbrev(f['shape']),
                                               field_type=U.np_dtype(f['dtype']), description='two', units='u',
                                               required=f['req']) for j, f in enumerate(flds)})
    bf = U.base_fields()
    sp = list(Species)
    pools = {'A': [sp[0], sp[4], sp[11]], 'B': [sp[1]]}
    paths = {k: chk.tmp / f'{name}_{k}.nc' for k in pools}

    def make(tag, k):
        n = 3 + k + (10 if tag == 'B' else 0)
        t = Trajectory(n, fieldsets=[name])
        tj = {'n': n, 'base': {'seed': 100 * k + ord(tag), 'flight_id': None, 'name': f'{tag}{k}',
                               'unset_phases': False, 'scal': [float(k), 2.0], 'phases': [k] * 9}}
        for nm, v in U.base_values(tj, bf).items():
            setattr(t, nm, v)
        pool = pools[tag] if k % 2 == 0 else pools[tag][:1]
        setattr(t, fn[0], SpeciesValues({s: float(k) + 0.5 + i for i, s in enumerate(pool)}))
        setattr(t, fn[1], SpeciesValues({s: U.handed_array(7 * k + i, n, 'int16') for i, s in enumerate(pool)}))
        setattr(t, fn[2], None if k == 1 else ThrustModeValues(1.0 + k, 2.0, 3.0, 4.5))
        setattr(t, fn[3], SpeciesValues({s: ThrustModeValues(*[np.uint8(k + i + m) for m in range(4)])
                                         for i, s in enumerate(pool)}))
        return t
    added = {k: [] for k in pools}
    stores = {k: TrajectoryStore.create(base_file=paths[k]) for k in pools}
    bad = []
    try:
        for k in range(3):
            for tag in ('A', 'B'):
                t = make(tag, k)
                try:
                    stores[tag].add(t)
                except Exception as e:  # noqa: BLE001
                    bad.append(f'store {tag}: trajectory {k} could not be added: {type(e).__name__}: {e}')
                    break
                added[tag].append(t)
            if bad:
                break
    finally:
        for st in stores.values():
            try:
                st.close()
            except Exception:  # noqa: BLE001
                pass
    if bad:
        for p in paths.values():
            if p.exists():
                p.unlink()
        chk.case({'kind': 'two-open-stores'}, nontrivial=True)
        chk.fail(f'two stores open at the same time: {bad[0]}', {'special': 'two_open_stores'}, signature=None)
        return
    stores = {k: TrajectoryStore.open(base_file=paths[k]) for k in pools}
    try:
        for k in (2, 0, 1):
            for tag in ('B', 'A'):
                try:
                    r = stores[tag][k]
                except Exception as e:  # noqa: BLE001
                    bad.append(f'store {tag}, trajectory {k}: {type(e).__name__}: {e}')
                    continue
                w = added[tag][k]
                if len(r) != len(w) or r.name != w.name:
                    bad.append(f'store {tag}, trajectory {k}: another trajectory came back ({r.name!r}, {len(r)} points)')
                for j, f in enumerate(flds):
                    d = U.compare_field(getattr(w, fn[j]), r._data[fn[j]], f)
                    if d:
                        bad.append(f'store {tag}, trajectory {k}, {f["shape"]} {f["dtype"]}: {", ".join(d)}')
                for nm, f in bf:
                    if f['shape'] == 'TP' and U.compare_field(getattr(w, nm), getattr(r, nm), f):
                        bad.append(f'store {tag}, trajectory {k}, base field {nm}: value differs')
    finally:
        for st in stores.values():
            st.close()
        for p in paths.values():
            if p.exists():
                p.unlink()
    chk.case({'kind': 'two-open-stores', 'species': {k: [s.name for s in v] for k, v in pools.items()}}, nontrivial=True)
    chk.count('special:two-open-stores')
    for why in bad:
        chk.fail(f'two stores open at the same time: {why}', {'special': 'two_open_stores'}, signature=None)


def cross_file_scenarios(seed):
    """Fixed histories: two species-indexed fields in different field sets; the first trajectory carries {CO2, H2O}
    in the first and {CO2} in the second, the second trajectory the other way round, a third both in both.  In every
    layout (the field sets in one file, in base + associated either way round, in two associated files, saved from
    memory, with the later trajectories added in an append session) each trajectory fits its field sets, so it must be
    accepted and read back exactly."""
    def val(shape, sp, salt):
        if shape == 'TS':
            return {str(s): 1.5 + s + salt for s in sp}
        if shape == 'TSP':
            return {str(s): {'a': 1000 + 17 * s + salt} for s in sp}
        return {str(s): [float(10 * salt + 4 * s + m) + 0.25 for m in range(4)] for s in sp}

    def base(k):
        return {'seed': 11 + k, 'flight_id': None, 'name': f'x{k}', 'unset_phases': False, 'scal': [1.0 + k, 2.0],
                'phases': [1] * 9}
    layouts = [('single', [], [], None), ('assoc', [2], [], None), ('assoc', [1], [], None), ('assoc', [1, 2], [], None),
               ('assocn', [1, 2], [[1], [2]], None), ('assocn', [1, 2], [[2], [1]], None), ('saved', [2], [], None),
               ('assoc', [2], [], 1), ('assocn', [1, 2], [[1], [2]], 2)]
    out = []
    for shape in ('TS', 'TSP', 'TSM'):
        for q, (layout, apart, parts, append_at) in enumerate(layouts):
            sets = [{'fields': [{'shape': shape, 'dtype': 'float64', 'req': True}]},
                    {'fields': [{'shape': shape, 'dtype': 'float64', 'req': True},
                                {'shape': 'T', 'dtype': 'int32', 'req': True}]}]
            sp = [([0, 1], [0]), ([0], [0, 1]), ([0, 1], [0, 1])]
            trajs = [{'n': 3 + k, 'base': base(k),
                      'vals': {'1': [val(shape, a, k)], '2': [val(shape, b, k + 3), 7 + k]}}
                     for k, (a, b) in enumerate(sp)]
            uid = f'c03x{seed}_{shape}_{q}'
            out.append({'uid': uid, 'fs_uid': uid, 'sets': sets, 'layout': layout, 'apart': apart, 'parts': parts,
                        'trajs': trajs, 'out_of_dim': False, 'append_at': append_at})
    return out


def run(chk: Check):
    pin_hash_seed()
    chk.rule = ('stores of 1-3 trajectories (lengths 0, 1, 2-20, 21-300) with 1-3 freshly registered field sets of 1-5 '
                'fields over the six shapes T/TP/TS/TSP/TM/TSM and int32/int64/float32/float64/str, 55% required; '
                'species pools sampled from the 16 species (so with gaps), per-field subsets, empty mappings, unset '
                'optionals (None), partial thrust-mode values; layouts single / base+associated / create_associated; '
                'always closed and reopened before reading; non-trivial = some species-indexed field whose species '
                'are not an initial segment of the enum or differ from the file\'s species dimension, or an unset '
                'optional field')
    chk.trusted += ['translator/c03_extract.py (writer / reader dispatch tables, species sources, call sites -> code_facts)',
                    'harness/c03.py + c03_util.py: generators, independent comparer, Coq encoding of cases',
                    'netCDF4/HDF5: returns the elements of an array it was given (arrays are opaque tokens in the '
                    'model; the comparer checks the elements); unwritten entries read as the default fill value, '
                    'empty string or empty array (spot-checked)']
    chk.assumptions += ['values equal to the NetCDF fill sentinel of their type (and empty strings inside '
                        'species-indexed string fields) are outside the generated domain: the file format cannot '
                        'tell them from "never written"',
                        'every trajectory of a store uses, per field set, only species the first trajectory of the '
                        'store used (the species dimension is fixed at creation); species outside it must be refused '
                        'by name, never dropped or misplaced (checked by the out-of-dimension cases)',
                        'string fields are generated for shapes T and TS (and TP, see F-C03c); thrust-mode values are '
                        'numeric']
    chk.coq_props('props/C03_Props.v')
    spot_check_fill_values(chk)
    extracted = extract(chk)
    fixed = detect_fixed(chk)
    if extracted is not None and extracted != fixed:
        chk.broken('extract-vs-probe', f'the source reads as {"repaired" if extracted else "as coded"} but the probe store '
                                       f'behaves as {"repaired" if fixed else "as coded"}')
    chk.notes['tree_behaviour'] = 'repaired (species by file position, unwritten entries skipped)' if fixed else \
        'as coded before the repair of F2 (species by enum position)'
    print(f'[C03] tree behaviour: {chk.notes["tree_behaviour"]}', file=sys.stderr)
    corpus = load_corpus(chk)
    for k, c in enumerate(corpus):
        c['uid'] = f'c03c{chk.seed}_{k}'
    cases = list(corpus)
    for k in range(chk.n(120, 1500)):
        c = U.gen_case(chk.rng, f'c03s{chk.seed}_{k}')
        cases.append(c)
        if chk.rng.random() < 0.15 and not any(f['shape'] == 'TP' and f['dtype'] == 'str'
                                               for fs in c['sets'] for f in fs['fields']):
            # a second store of the same process over the SAME registered field sets, with other species and
            # another layout (state kept per field set or per class instead of per store shows here)
            cases.append(U.gen_case(chk.rng, f'c03s{chk.seed}_{k}b', force={'sets': c['sets'], 'fs_uid': c['uid']}))
            chk.count('special:second-store-same-field-sets')
    # species that appear only AFTER the first record, on the write paths that do not go through add():
    # create_associated (the mapped result for trajectory k > 0 has a species the first result lacked) and save() of an
    # in-memory store whose species sets grow.  Either refused by name or read back exactly — never silently fewer.
    for layout in ('mapped', 'saved'):
        got, tries = 0, 0
        while got < 5 and tries < 200:
            tries += 1
            c = U.gen_case(chk.rng, f'c03g{chk.seed}_{layout}_{tries}', force={'layout': layout, 'out_of_dim': True})
            if c['out_of_dim'] and (layout != 'mapped' or c.get('ood_set') in c['apart']) and \
                    not any(f['shape'] == 'TP' and f['dtype'] == 'str' for fs in c['sets'] for f in fs['fields']):
                cases.append(c)
                got += 1
                chk.count(f'special:species-grow-after-first-record:{layout}')
    # append sessions: create with some trajectories, close, TrajectoryStore.append, add more, read EVERY index inside
    # the session (old ones first), close, reopen READ, read all again
    for k in range(chk.n(12, 120)):
        c = U.gen_case(chk.rng, f'c03a{chk.seed}_{k}', force={'layout': chk.rng.choice(['single', 'single', 'assoc', 'assocn']),
                                                              'append': True})
        if c.get('append_at') is not None and not any(f['shape'] == 'TP' and f['dtype'] == 'str'
                                                      for fs in c['sets'] for f in fs['fields']):
            cases.append(c)
    # one species list per store: a later trajectory carries, in a field of one field set / file, a species the first
    # trajectory carried only in fields of ANOTHER field set / file (fixed scenarios, then generated histories whose
    # later trajectories draw each field's species from everything the first trajectory uses anywhere)
    for c in cross_file_scenarios(chk.seed):
        cases.append(c)
        chk.count('special:species-of-another-file:fixed')
    for layout, want in (('assoc', 6), ('assocn', 6), ('saved', 4), ('single', 3), ('mapped', 3)):
        got, tries = 0, 0
        while got < chk.n(want, 8 * want) and tries < 60 * want:
            tries += 1
            c = U.gen_case(chk.rng, f'c03w{chk.seed}_{layout}_{tries}', force={'layout': layout, 'wide_species': True})
            if any(f['shape'] == 'TP' and f['dtype'] == 'str' for fs in c['sets'] for f in fs['fields']):
                continue
            across_files, across_sets = U.cross_species(c)
            if layout == 'saved' and not c['apart']:
                continue
            if across_files if layout in ('assoc', 'assocn', 'saved') else across_sets:
                cases.append(c)
                got += 1
                chk.count(f'special:species-of-another-{"file" if across_files else "field-set"}:{c["layout"]}')
    check_cases(chk, cases, fixed)
    per_trajectory_string_hole(chk)
    two_open_stores(chk)


def replay(chk: Check, rp):
    pin_hash_seed()
    chk.coq_props('props/C03_Props.v')
    extract(chk)
    fixed = detect_fixed(chk)
    case = (rp.get('case') or {}).get('case')
    if case:
        case['uid'] = f'c03r{chk.seed}'
        check_cases(chk, [case], fixed)
    elif (rp.get('case') or {}).get('special') == 'per_trajectory_string_hole':
        per_trajectory_string_hole(chk)
    elif (rp.get('case') or {}).get('special') == 'two_open_stores':
        two_open_stores(chk)

(* FloatMath.v — exp / ln / sin / cos on kernel binary64 by range reduction + series.
   Executed with vm_compute only; accuracy (about 1e-15 relative on the ranges used) is
   re-validated against Python's libm on every run by the harness (harness/common.py:floatmath_selfcheck). *)
From Coq Require Import ZArith PrimFloat Uint63 List Bool.
From AV Require Import lib.Num.
Import ListNotations.
Local Open Scope float_scope.

Definition fln2 : float := 0x1.62e42fefa39efp-1.
Definition fpi  : float := 0x1.921fb54442d18p+1.

Definition is_nan (x : float) : bool := negb (PrimFloat.eqb x x).

(* x * 2^k for k given in Z, by repeated doubling/halving (|k| small in our ranges) *)
Fixpoint pow2_pos (n : nat) : float := match n with O => 1 | S k => 2 * pow2_pos k end.
Definition scale2 (x : float) (k : Z) : float :=
  match k with
  | Z0 => x
  | Zpos p => x * pow2_pos (Pos.to_nat p)
  | Zneg p => x / pow2_pos (Pos.to_nat p)
  end.

(* integer part toward -inf of a float of moderate size, as Z *)
Definition f2z_floor (x : float) : Z :=
  let ax := PrimFloat.abs x in
  if PrimFloat.ltb 0x1p+62 ax then 0%Z else
  let (m, e) := frshiftexp ax in                     (* ax = m * 2^(e-shift), m in [0.5,1) *)
  let ez := (Uint63.to_Z e - 2101)%Z in              (* true exponent; shift = 2101 *)
  if (ez <=? 0)%Z then (if PrimFloat.ltb x 0 then (-1)%Z else 0%Z) else
  let mi := Uint63.to_Z (normfr_mantissa m) in       (* m * 2^53 *)
  let q := (if (ez <=? 53)%Z then Z.shiftr mi (53 - ez) else Z.shiftl mi (ez - 53))%Z in
  if PrimFloat.ltb x 0 then
    (if PrimFloat.eqb (PrimFloat.of_uint63 (Uint63.of_Z q)) ax then (- q)%Z else (- q - 1)%Z)
  else q.

Definition z2f (z : Z) : float :=
  match z with
  | Z0 => 0
  | Zpos _ => PrimFloat.of_uint63 (Uint63.of_Z z)
  | Zneg p => - PrimFloat.of_uint63 (Uint63.of_Z (Zpos p))
  end.

(* sum_{i<n} r^i / i!  by Horner *)
Fixpoint exp_horner (r : float) (n : nat) (k : float) : float :=
  match n with
  | O => 1
  | S m => 1 + r / k * exp_horner r m (k + 1)
  end.

Definition fexp (x : float) : float :=
  if is_nan x then x else
  if PrimFloat.ltb 710 x then infinity else
  if PrimFloat.ltb x (-746) then 0 else
  let k := f2z_floor (x / fln2 + 0.5) in
  let kf := z2f k in
  (* two-part ln2 for accuracy *)
  let r := (x - kf * 0x1.62e42feep-1) - kf * 0x1.a39ef35793c76p-33 in
  scale2 (exp_horner r 22 1) k.

(* atanh series: 2*(z + z^3/3 + z^5/5 + ...) *)
Fixpoint atanh_series (z2 : float) (n : nat) (k : float) : float :=
  match n with
  | O => 0
  | S m => 1 / k + z2 * atanh_series z2 m (k + 2)
  end.

Definition fln (x : float) : float :=
  if is_nan x then x else
  if PrimFloat.ltb x 0 then nan else
  if PrimFloat.eqb x 0 then neg_infinity else
  if PrimFloat.eqb x infinity then infinity else
  let (m, e) := frshiftexp x in
  let ez := (Uint63.to_Z e - 2101)%Z in
  (* m in [0.5,1): move to [sqrt(1/2), sqrt 2) *)
  let '(m', e') := if PrimFloat.ltb m 0x1.6a09e667f3bcdp-1 then (2 * m, (ez - 1)%Z) else (m, ez) in
  let z := (m' - 1) / (m' + 1) in
  let z2 := z * z in
  z2f e' * fln2 + 2 * z * atanh_series z2 18 1.

(* sin / cos by reduction to [-pi/4, pi/4] *)
Fixpoint sin_series (x2 : float) (n : nat) (k : float) : float :=
  (* 1 - x2/(k(k+1)) * (1 - x2/((k+2)(k+3)) * ...) , start k = 2 *)
  match n with
  | O => 1
  | S m => 1 - x2 / (k * (k + 1)) * sin_series x2 m (k + 2)
  end.
Definition sin_core (x : float) : float := x * sin_series (x * x) 12 2.
Definition cos_core (x : float) : float := sin_series (x * x) 12 1.

Definition reduce_pi2 (x : float) : Z * float :=
  let k := f2z_floor (x / (fpi / 2) + 0.5) in
  let kf := z2f k in
  let r := (x - kf * 0x1.921fb544p+0) - kf * 0x1.0b4611a626331p-34 in
  (k, r).

Definition fsin (x : float) : float :=
  if is_nan x then x else
  let (k, r) := reduce_pi2 x in
  match (k mod 4)%Z with
  | 0%Z => sin_core r | 1%Z => cos_core r | 2%Z => - sin_core r | _ => - cos_core r
  end.
Definition fcos (x : float) : float :=
  if is_nan x then x else
  let (k, r) := reduce_pi2 x in
  match (k mod 4)%Z with
  | 0%Z => cos_core r | 1%Z => - sin_core r | 2%Z => - cos_core r | _ => sin_core r
  end.

Definition FNum : Num := {|
  T := float; zero := 0; one := 1;
  add := PrimFloat.add; sub := PrimFloat.sub; mul := PrimFloat.mul; div := PrimFloat.div;
  opp := PrimFloat.opp; nabs := PrimFloat.abs;
  ltb := PrimFloat.ltb; leb := PrimFloat.leb; eqb := PrimFloat.eqb;
  lit := fun _ _ f => f;
  nsqrt := PrimFloat.sqrt; nexp := fexp; nln := fln; nsin := fsin; ncos := fcos;
  of_Z := z2f |}.

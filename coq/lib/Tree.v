(* Tree.v — TOML-like trees (nested dictionaries with leaves) and association-list helpers. *)
From Coq Require Import ZArith List String Bool.
Import ListNotations.
Open Scope string_scope.

Inductive tree := Leaf (v : Z) | Node (kids : list (string * tree)).

Definition kv := (string * tree)%type.

Fixpoint lookup (k : string) (l : list kv) : option tree :=
  match l with
  | [] => None
  | (k', v) :: r => if String.eqb k k' then Some v else lookup k r
  end.

(* Python dict assignment d[k] = v : replace in place, or append a new key *)
Fixpoint set (k : string) (v : tree) (l : list kv) : list kv :=
  match l with
  | [] => [(k, v)]
  | (k', v') :: r => if String.eqb k k' then (k', v) :: r else (k', v') :: set k v r
  end.

Definition is_node (t : tree) : bool := match t with Node _ => true | Leaf _ => false end.

Fixpoint get (p : list string) (t : tree) : option tree :=
  match p with
  | [] => Some t
  | k :: r => match t with
              | Node kids => match lookup k kids with Some c => get r c | None => None end
              | Leaf _ => None
              end
  end.

Lemma lookup_set_same k v l : lookup k (set k v l) = Some v.
Proof.
  induction l as [|[k' v'] r IH]; cbn.
  - now rewrite String.eqb_refl.
  - destruct (String.eqb k k') eqn:E; cbn; rewrite E; auto.
Qed.

Lemma lookup_set_other k k' v l : k' <> k -> lookup k' (set k v l) = lookup k' l.
Proof.
  intros Hne. induction l as [|[k2 v2] r IH]; cbn.
  - destruct (String.eqb k' k) eqn:E; auto. apply String.eqb_eq in E. contradiction.
  - destruct (String.eqb k k2) eqn:E; cbn.
    + apply String.eqb_eq in E; subst k2.
      destruct (String.eqb k' k) eqn:E2; auto. apply String.eqb_eq in E2. contradiction.
    + destruct (String.eqb k' k2); auto.
Qed.

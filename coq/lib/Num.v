(* Num.v — one model text, two number domains.
   RNum : Coq reals (theorems).  FNum : kernel binary64 (execution by vm_compute). *)
From Coq Require Import ZArith Reals PrimFloat List Bool.
Import ListNotations.

Record Num := MkNum {
  T    : Type;
  zero : T;  one : T;
  add  : T -> T -> T;  sub : T -> T -> T;  mul : T -> T -> T;  div : T -> T -> T;
  opp  : T -> T;  nabs : T -> T;
  ltb  : T -> T -> bool;  leb : T -> T -> bool;  eqb : T -> T -> bool;
  (* lit n d f : the rational n/d (exact decimal value of a source literal) and the
     binary64 [f] Python parses that literal to. *)
  lit  : Z -> Z -> float -> T;
  nsqrt : T -> T;  nexp : T -> T;  nln : T -> T;  nsin : T -> T;  ncos : T -> T;
  of_Z : Z -> T }.

Arguments zero {_}. Arguments one {_}.
Arguments add {_}. Arguments sub {_}. Arguments mul {_}. Arguments div {_}.
Arguments opp {_}. Arguments nabs {_}. Arguments ltb {_}. Arguments leb {_}. Arguments eqb {_}.
Arguments lit {_}. Arguments nsqrt {_}. Arguments nexp {_}. Arguments nln {_}.
Arguments nsin {_}. Arguments ncos {_}. Arguments of_Z {_}.

Declare Scope num_scope.
Delimit Scope num_scope with num.
Infix "+" := add : num_scope.
Infix "-" := sub : num_scope.
Infix "*" := mul : num_scope.
Infix "/" := div : num_scope.
Notation "- x" := (opp x) : num_scope.
Infix "<?" := ltb : num_scope.
Infix "<=?" := leb : num_scope.
Infix "=?" := eqb : num_scope.

Section Derived.
  Context {N : Num}.
  Local Open Scope num_scope.
  Definition nmax (a b : T N) : T N := if a <? b then b else a.
  Definition nmin (a b : T N) : T N := if b <? a then b else a.
  Definition gtb (a b : T N) : bool := b <? a.
  Definition geb (a b : T N) : bool := b <=? a.
  Fixpoint nsum (l : list (T N)) : T N :=
    match l with [] => zero | x :: r => x + nsum r end.
  (* left fold, the order Python's builtin sum / a for-loop accumulates in *)
  Definition nsum_l (l : list (T N)) : T N := fold_left add l zero.
  Fixpoint npow_nat (x : T N) (n : nat) : T N :=
    match n with O => one | S k => x * npow_nat x k end.
  (* x ** y for x > 0 *)
  Definition npow (x y : T N) : T N := nexp (y * nln x).
End Derived.

(* ---------- Real instance ---------- *)
Definition Rltb (a b : R) : bool := if Rlt_dec a b then true else false.
Definition Rleb (a b : R) : bool := if Rle_dec a b then true else false.
Definition Reqb (a b : R) : bool := if Req_EM_T a b then true else false.

Definition RNum : Num := {|
  T := R; zero := 0%R; one := 1%R;
  add := Rplus; sub := Rminus; mul := Rmult; div := Rdiv; opp := Ropp; nabs := Rabs;
  ltb := Rltb; leb := Rleb; eqb := Reqb;
  lit := fun n d _ => (IZR n / IZR d)%R;
  nsqrt := R_sqrt.sqrt; nexp := Rtrigo_def.exp; nln := Rpower.ln; nsin := Rtrigo_def.sin; ncos := Rtrigo_def.cos;
  of_Z := IZR |}.

Lemma Rltb_true a b : Rltb a b = true <-> (a < b)%R.
Proof. unfold Rltb; destruct (Rlt_dec a b); split; intros; auto; discriminate. Qed.
Lemma Rltb_false a b : Rltb a b = false <-> (b <= a)%R.
Proof. unfold Rltb; destruct (Rlt_dec a b); split; intros; auto; try discriminate.
  - exfalso; apply (Rlt_irrefl a); eapply Rlt_le_trans; eauto.
  - apply Rnot_lt_le; auto. Qed.
Lemma Rleb_true a b : Rleb a b = true <-> (a <= b)%R.
Proof. unfold Rleb; destruct (Rle_dec a b); split; intros; auto; discriminate. Qed.
Lemma Rleb_false a b : Rleb a b = false <-> (b < a)%R.
Proof. unfold Rleb; destruct (Rle_dec a b); split; intros; auto; try discriminate.
  - exfalso; apply (Rlt_irrefl a); eapply Rle_lt_trans; eauto.
  - apply Rnot_le_lt; auto. Qed.
Lemma Reqb_true a b : Reqb a b = true <-> a = b.
Proof. unfold Reqb; destruct (Req_EM_T a b); split; intros; auto; discriminate. Qed.
Lemma Reqb_false a b : Reqb a b = false <-> a <> b.
Proof. unfold Reqb; destruct (Req_EM_T a b); split; intros; auto; try discriminate; contradiction. Qed.

(* Unfold every projection of RNum so that lra/nra/field see plain R terms. *)
Ltac rnum := cbv [T zero one add sub mul div opp nabs ltb leb eqb lit nsqrt nexp nln nsin ncos of_Z RNum
                  nmax nmin gtb geb npow] in *.

(* Dates — proleptic Gregorian civil date <-> day number since 1970-01-01, ISO weekday.
   Discrete, axiom-free.  The conversion is the usual era/day-of-era algorithm (400-year eras starting
   on 1 March); its round trips and the year bounds are established by an exhaustive kernel sweep of
   1970-01-01 .. 2099-12-31 (47 482 days) lifted with forallb_forall, so the lemmas carry that range
   as an explicit hypothesis.  Used by C13 (schedule expansion) and C14 (query dates). *)
From Coq Require Import ZArith List Bool Lia.
Import ListNotations.
Open Scope Z_scope.

(* ---- ranges of integers as lists ---- *)
Fixpoint zrange_fuel (lo : Z) (fuel : nat) : list Z :=
  match fuel with
  | O => []
  | S k => lo :: zrange_fuel (lo + 1) k
  end.

(* [zrange lo hi] = lo, lo+1, ..., hi (inclusive); empty when hi < lo *)
Definition zrange (lo hi : Z) : list Z := zrange_fuel lo (Z.to_nat (hi - lo + 1)).

Lemma zrange_fuel_In : forall fuel lo d, In d (zrange_fuel lo fuel) <-> lo <= d < lo + Z.of_nat fuel.
Proof.
  induction fuel as [|k IH]; intros lo d; simpl zrange_fuel.
  - simpl. lia.
  - simpl In. rewrite IH. lia.
Qed.

Lemma zrange_In : forall lo hi d, In d (zrange lo hi) <-> lo <= d <= hi.
Proof.
  intros lo hi d. unfold zrange. rewrite zrange_fuel_In.
  destruct (Z_le_gt_dec lo hi) as [H|H].
  - rewrite Z2Nat.id by lia. lia.
  - replace (Z.to_nat (hi - lo + 1)) with O by lia. simpl. lia.
Qed.

Lemma zrange_fuel_length : forall fuel lo, length (zrange_fuel lo fuel) = fuel.
Proof. induction fuel; intros; simpl; auto. Qed.

(* ---- civil calendar ---- *)
Definition is_leap (y : Z) : bool :=
  ((y mod 4 =? 0) && negb (y mod 100 =? 0)) || (y mod 400 =? 0).

Definition days_in_month (y m : Z) : Z :=
  if m =? 2 then (if is_leap y then 29 else 28)
  else if (m =? 4) || (m =? 6) || (m =? 9) || (m =? 11) then 30 else 31.

Definition valid_date (y m d : Z) : bool :=
  (1 <=? m) && (m <=? 12) && (1 <=? d) && (d <=? days_in_month y m).

(* day number of the civil date y-m-d; 1970-01-01 = 0 *)
Definition days_from_civil (y m d : Z) : Z :=
  let y' := if m <=? 2 then y - 1 else y in
  let era := y' / 400 in
  let yoe := y' - era * 400 in
  let mp := (m + 9) mod 12 in
  let doy := (153 * mp + 2) / 5 + d - 1 in
  let doe := yoe * 365 + yoe / 4 - yoe / 100 + doy in
  era * 146097 + doe - 719468.

Definition civil_from_days (z : Z) : Z * Z * Z :=
  let z := z + 719468 in
  let era := z / 146097 in
  let doe := z - era * 146097 in
  let yoe := (doe - doe / 1460 + doe / 36524 - doe / 146096) / 365 in
  let y := yoe + era * 400 in
  let doy := doe - (365 * yoe + yoe / 4 - yoe / 100) in
  let mp := (5 * doy + 2) / 153 in
  let d := doy - (153 * mp + 2) / 5 + 1 in
  let m := if mp <? 10 then mp + 3 else mp - 9 in
  ((if m <=? 2 then y + 1 else y), m, d).

Definition year_of (z : Z) : Z := fst (fst (civil_from_days z)).

Definition jan1 (y : Z) : Z := days_from_civil y 1 1.
Definition dec31 (y : Z) : Z := days_from_civil y 12 31.

(* ISO weekday, Monday = 1 .. Sunday = 7; day 0 (1970-01-01) was a Thursday *)
Definition weekday (d : Z) : Z := (d + 3) mod 7 + 1.

Lemma weekday_range : forall d, 1 <= weekday d <= 7.
Proof. intros d. unfold weekday. pose proof (Z.mod_pos_bound (d + 3) 7). lia. Qed.

Lemma weekday_epoch : weekday 0 = 4.
Proof. reflexivity. Qed.

Lemma weekday_succ : forall d, weekday (d + 1) = if weekday d =? 7 then 1 else weekday d + 1.
Proof.
  intros d. unfold weekday.
  destruct ((d + 3) mod 7 + 1 =? 7) eqn:E.
  - apply Z.eqb_eq in E.
    assert (H : (d + 1 + 3) mod 7 = 0).
    { replace (d + 1 + 3) with ((d + 3) + 1) by lia.
      rewrite Z.add_mod by lia. replace ((d + 3) mod 7) with 6 by lia. reflexivity. }
    lia.
  - apply Z.eqb_neq in E.
    pose proof (Z.mod_pos_bound (d + 3) 7).
    assert (H' : (d + 1 + 3) mod 7 = (d + 3) mod 7 + 1).
    { replace (d + 1 + 3) with ((d + 3) + 1) by lia.
      rewrite Z.add_mod by lia. rewrite (Z.mod_small ((d + 3) mod 7 + 1 mod 7) 7).
      - reflexivity.
      - change (1 mod 7) with 1. lia. }
    lia.
Qed.

Lemma weekday_period : forall d, weekday (d + 7) = weekday d.
Proof.
  intros d. unfold weekday. replace (d + 7 + 3) with ((d + 3) + 1 * 7) by lia.
  rewrite Z.mod_add by lia. reflexivity.
Qed.

(* ---- exhaustive sweep 1970 .. 2099 ---- *)
Definition sweep_first_year : Z := 1970.
Definition sweep_last_year : Z := 2099.
Definition sweep_last_day : Z := 47481.        (* 2099-12-31 *)

Definition day_ok (z : Z) : bool :=
  let '(y, m, d) := civil_from_days z in
  valid_date y m d && (days_from_civil y m d =? z)
  && (jan1 y <=? z) && (z <=? dec31 y).

Definition year_ok (y : Z) : bool :=
  (jan1 (y + 1) =? dec31 y + 1)
  && forallb (fun z => year_of z =? y) (zrange (jan1 y) (dec31 y))
  && forallb (fun m => forallb (fun d =>
        negb (valid_date y m d) ||
        (let '(y2, m2, d2) := civil_from_days (days_from_civil y m d) in
         (y2 =? y) && (m2 =? m) && (d2 =? d))) (zrange 1 31)) (zrange 1 12).

Lemma sweep_days : forallb day_ok (zrange 0 sweep_last_day) = true.
Proof. vm_cast_no_check (eq_refl true). Qed.

Lemma sweep_years : forallb year_ok (zrange sweep_first_year sweep_last_year) = true.
Proof. vm_cast_no_check (eq_refl true). Qed.

Lemma sweep_bounds : jan1 sweep_first_year = 0 /\ dec31 sweep_last_year = sweep_last_day.
Proof. split; reflexivity. Qed.

Lemma day_sweep : forall z, 0 <= z <= sweep_last_day -> day_ok z = true.
Proof.
  intros z Hz. pose proof sweep_days as H. rewrite forallb_forall in H.
  apply H. apply zrange_In. exact Hz.
Qed.

Lemma year_sweep : forall y, sweep_first_year <= y <= sweep_last_year -> year_ok y = true.
Proof.
  intros y Hy. pose proof sweep_years as H. rewrite forallb_forall in H.
  apply H. apply zrange_In. exact Hy.
Qed.

(* round trip day -> civil -> day, with a valid civil date in between *)
Lemma civil_roundtrip_day : forall z, 0 <= z <= sweep_last_day ->
  let '(y, m, d) := civil_from_days z in
  valid_date y m d = true /\ days_from_civil y m d = z.
Proof.
  intros z Hz. pose proof (day_sweep z Hz) as H. unfold day_ok in H.
  destruct (civil_from_days z) as [[y m] d].
  repeat rewrite andb_true_iff in H. destruct H as [[[Hv He] _] _].
  split; [exact Hv | apply Z.eqb_eq; exact He].
Qed.

(* round trip civil -> day -> civil *)
Lemma civil_roundtrip_date : forall y m d, sweep_first_year <= y <= sweep_last_year ->
  valid_date y m d = true -> civil_from_days (days_from_civil y m d) = (y, m, d).
Proof.
  intros y m d Hy Hv. pose proof (year_sweep y Hy) as H. unfold year_ok in H.
  repeat rewrite andb_true_iff in H. destruct H as [_ H].
  rewrite forallb_forall in H.
  assert (Hm : 1 <= m <= 12 /\ 1 <= d <= 31).
  { unfold valid_date in Hv. repeat rewrite andb_true_iff in Hv.
    destruct Hv as [[[H1 H2] H3] H4].
    apply Z.leb_le in H1, H2, H3, H4.
    assert (days_in_month y m <= 31).
    { unfold days_in_month. destruct (m =? 2); [destruct (is_leap y); lia|].
      destruct ((m =? 4) || (m =? 6) || (m =? 9) || (m =? 11)); lia. }
    lia. }
  specialize (H m (proj2 (zrange_In 1 12 m) (proj1 Hm))).
  rewrite forallb_forall in H.
  specialize (H d (proj2 (zrange_In 1 31 d) (proj2 Hm))).
  rewrite Hv in H. cbn [negb orb] in H.
  destruct (civil_from_days (days_from_civil y m d)) as [[y2 m2] d2].
  repeat rewrite andb_true_iff in H. destruct H as [[H1 H2] H3].
  apply Z.eqb_eq in H1, H2, H3. subst. reflexivity.
Qed.

(* the days of civil year y are exactly jan1 y .. dec31 y *)
Lemma year_bounds : forall y z, sweep_first_year <= y <= sweep_last_year -> 0 <= z <= sweep_last_day ->
  (jan1 y <= z <= dec31 y <-> year_of z = y).
Proof.
  intros y z Hy Hz. split.
  - intros Hr. pose proof (year_sweep y Hy) as H. unfold year_ok in H.
    repeat rewrite andb_true_iff in H. destruct H as [[_ H] _].
    rewrite forallb_forall in H. apply Z.eqb_eq. apply H. apply zrange_In. exact Hr.
  - intros Hyz. pose proof (day_sweep z Hz) as H. unfold day_ok in H.
    unfold year_of in Hyz. destruct (civil_from_days z) as [[y' m] d]. simpl in Hyz. subst y'.
    repeat rewrite andb_true_iff in H. destruct H as [[_ H1] H2].
    apply Z.leb_le in H1, H2. lia.
Qed.

Lemma year_length : forall y, sweep_first_year <= y <= sweep_last_year ->
  dec31 y - jan1 y + 1 = if is_leap y then 366 else 365.
Proof.
  intros y Hy.
  assert (H : forallb (fun y => dec31 y - jan1 y + 1 =? (if is_leap y then 366 else 365))
                      (zrange sweep_first_year sweep_last_year) = true) by (vm_cast_no_check (eq_refl true)).
  rewrite forallb_forall in H. apply Z.eqb_eq. apply H. apply zrange_In. exact Hy.
Qed.

(* ---- the calendar's successor: consecutive civil dates are consecutive day numbers ---- *)
Definition next_date (c : Z * Z * Z) : Z * Z * Z :=
  let '(y, m, d) := c in
  if d <? days_in_month y m then (y, m, d + 1)
  else if m <? 12 then (y, m + 1, 1) else (y + 1, 1, 1).

Definition date_eqb (a b : Z * Z * Z) : bool :=
  let '(y, m, d) := a in let '(y', m', d') := b in (y =? y') && (m =? m') && (d =? d').

Lemma sweep_succ :
  forallb (fun z => date_eqb (civil_from_days (z + 1)) (next_date (civil_from_days z))) (zrange 0 (sweep_last_day - 1)) = true.
Proof. vm_cast_no_check (eq_refl true). Qed.

(* the day after civil date c is day number + 1 (1970-01-01 .. 2099-12-30) *)
Lemma civil_succ : forall z, 0 <= z < sweep_last_day -> civil_from_days (z + 1) = next_date (civil_from_days z).
Proof.
  intros z Hz. pose proof sweep_succ as H. rewrite forallb_forall in H.
  specialize (H z (proj2 (zrange_In 0 (sweep_last_day - 1) z) ltac:(lia))).
  unfold date_eqb in H. destruct (civil_from_days (z + 1)) as [[y m] d].
  destruct (next_date (civil_from_days z)) as [[y' m'] d'].
  repeat rewrite andb_true_iff in H. destruct H as [[H1 H2] H3].
  apply Z.eqb_eq in H1, H2, H3. subst. reflexivity.
Qed.

(* weekday is tied to the calendar: 1970-01-01 (day 0) is a Thursday, and the civil date following a date
   carries the following weekday *)
Lemma weekday_of_next_date : forall z, 0 <= z < sweep_last_day ->
  civil_from_days (z + 1) = next_date (civil_from_days z)
  /\ weekday (z + 1) = (if weekday z =? 7 then 1 else weekday z + 1).
Proof. intros z Hz. split; [apply civil_succ; exact Hz | apply weekday_succ]. Qed.

(* order preservation: a later day number is a later civil date and conversely (via the round trip) *)
Lemma days_from_civil_injective : forall y m d y' m' d',
  sweep_first_year <= y <= sweep_last_year -> sweep_first_year <= y' <= sweep_last_year ->
  valid_date y m d = true -> valid_date y' m' d' = true ->
  days_from_civil y m d = days_from_civil y' m' d' -> (y, m, d) = (y', m', d').
Proof.
  intros y m d y' m' d' Hy Hy' Hv Hv' He.
  rewrite <- (civil_roundtrip_date y m d Hy Hv), <- (civil_roundtrip_date y' m' d' Hy' Hv'), He. reflexivity.
Qed.

Example dates_nonvacuous :
  days_from_civil 2019 3 10 = 17965 /\ civil_from_days 17965 = (2019, 3, 10) /\ weekday 17965 = 7
  /\ days_from_civil 2020 2 29 = 18321 /\ jan1 2019 = 17897 /\ dec31 2019 = 18261.
Proof. repeat split; reflexivity. Qed.

(* C16 — obligations relating the text regenerated from weather.py / standard_atmosphere.py /
   constants.py on this run (Gen.C16_Extracted) to the model the theorems are about.
   Compiled in build/C16/gen. *)
From Coq Require Import ZArith Reals Bool.
From AV Require Import lib.Num model.C16_Model.
From Gen Require Import C16_Extracted.
Local Open Scope R_scope.

(* [ground_speed_query tas az f_u f_v]: f_u / f_v = the file's eastward / northward wind at the point.
   The air-vector decomposition and magnitude of get_ground_speed are one of the two readings of the
   model: the code as it stands (exchanged = true, F14) or the specification (false).  The harness
   reports which (by evaluating the extracted text) and runs the correspondence against that one. *)
Theorem C16_link_kernel :
  (forall tas az u v, @ground_speed_query RNum tas az u v = @gs RNum true tas az u v) \/
  (forall tas az u v, @ground_speed_query RNum tas az u v = @gs RNum false tas az u v).
Proof.
  first [ left; intros; reflexivity | right; intros; reflexivity
        | left; intros; unfold ground_speed_query, ground_speed_kernel, magnitude, u_air, v_air, heading_given,
                               gs, gs_rad, air, hypot, deg2rad, c_pi, c_180, fst, snd; rnum; f_equal; ring
        | right; intros; unfold ground_speed_query, ground_speed_kernel, magnitude, u_air, v_air, heading_given,
                               gs, gs_rad, air, hypot, deg2rad, c_pi, c_180, fst, snd; rnum; f_equal; ring ].
Qed.
Print Assumptions C16_link_kernel.

(* the heading used when no azimuth is passed is converted the same way *)
Theorem C16_link_heading :
  forall az, @heading_default RNum az = @deg2rad RNum az /\ @heading_given RNum az = @deg2rad RNum az.
Proof. intros; split; first [ reflexivity | unfold heading_default, heading_given, deg2rad, c_pi, c_180; rnum; ring ]. Qed.
Print Assumptions C16_link_heading.

(* which heading is converted: an explicitly passed azimuth — whatever its value, 0.0 included — and the
   ground-track point's azimuth only when none is passed *)
Theorem C16_link_heading_selection :
  forall (N : Num) (given : option (T N)) (pt : T N),
    @heading_choice N given pt = match given with None => @heading_default N pt | Some a => @heading_given N a end.
Proof. intros; destruct given; reflexivity. Qed.
Print Assumptions C16_link_heading_selection.

(* pressure level handed to the interpolation, for both wind components; range guard *)
Theorem C16_link_level :
  forall alt, @level_u RNum alt = @level RNum alt /\ @level_v RNum alt = @level RNum alt.
Proof. intros; split; reflexivity. Qed.
Print Assumptions C16_link_level.

Theorem C16_link_isa_pressure : forall alt, @C16_Extracted.isa_pressure RNum alt = @C16_Model.isa_pressure RNum alt.
Proof. intros; reflexivity. Qed.
Print Assumptions C16_link_isa_pressure.

Theorem C16_link_alt_guard : forall alt, @C16_Extracted.alt_out_of_range RNum alt = @C16_Model.alt_out_of_range RNum alt.
Proof. intros; reflexivity. Qed.
Print Assumptions C16_link_alt_guard.

(* C05 — obligations relating the text regenerated from gridding/grid.py on this run (Gen.C04_Extracted) to the
   model the attribution theorems are about.  Compiled in build/C05/gen. *)
From Coq Require Import ZArith List Bool Reals Lra Lia.
From AV Require Import lib.Num model.C04_Model.
From Gen Require Import C04_Extracted.
Import ListNotations.
Local Open Scope R_scope.

Ltac xr := cbn [T zero one add sub mul div opp nabs ltb leb eqb lit of_Z RNum] in *.
Ltac lit0 := repeat (replace (0 / 1) with 0 in * by lra); repeat (replace (1 / 1) with 1 in * by lra);
             repeat (replace (2 / 1) with 2 in * by lra).
Ltac rsign :=
  match goal with
  | |- context [Reqb ?a ?b] =>
      let E := fresh "E" in
      destruct (Reqb a b) eqn:E;
      [ apply Reqb_true in E | apply Reqb_false in E ];
      first [ reflexivity | exfalso; lra | exfalso; apply E; lra ]
  end.

(* ---- _cell_indices: searchsorted side, the -1, the clamp; and every call site pairs the right grid/values ---- *)
Theorem C05_link_cell_index :
  forall (g : list R) (x : R), @x_cell_index RNum g x = @cell_index RNum true g x.
Proof. intros. reflexivity. Qed.
Print Assumptions C05_link_cell_index.

Theorem C05_link_cell_sites : x_cell_sites_ok = true.
Proof. reflexivity. Qed.
Print Assumptions C05_link_cell_sites.

(* ---- which grid lines are met, sorting direction, midpoints, the piece-count rule ---- *)
Theorem C05_link_line_rule :
  (forall s j : Z, (s + x_line_step_lat true j = s - j)%Z /\ (s + x_line_step_lat false j = s + 1 + j)%Z) /\
  (forall s j : Z, (s + x_line_step_lon true j = s - j)%Z /\ (s + x_line_step_lon false j = s + 1 + j)%Z) /\
  x_sort_negate_lat = (-1)%Z /\ x_sort_negate_lon = (-1)%Z /\
  (forall k, x_drop_end_cell k = (k =? 0)%Z).
Proof.
  repeat split; try reflexivity; unfold x_line_step_lat, x_line_step_lon; lia.
Qed.
Print Assumptions C05_link_line_rule.

(* the crossed line indices of the model are start + step(j), j = 0 .. n-1 *)
Theorem C05_link_crossed :
  forall (s d : Z),
    crossed s d = map (fun j => (s + x_line_step_lat (d <? 0)%Z (Z.of_nat j))%Z) (seq 0 (Z.to_nat (Z.abs d))) /\
    crossed s d = map (fun j => (s + x_line_step_lon (d <? 0)%Z (Z.of_nat j))%Z) (seq 0 (Z.to_nat (Z.abs d))).
Proof.
  intros. unfold crossed, x_line_step_lat, x_line_step_lon.
  destruct (d <? 0)%Z eqn:E; [apply Z.ltb_lt in E|apply Z.ltb_ge in E].
  - replace (Z.to_nat (Z.abs d)) with (Z.to_nat (- d)) by lia. split; apply map_ext; intros; lia.
  - replace (Z.to_nat (Z.abs d)) with (Z.to_nat d) by lia. split; apply map_ext; intros; lia.
Qed.
Print Assumptions C05_link_crossed.

Theorem C05_link_midpoint :
  forall a b : R, @x_midpoint_lat RNum a b = @mid RNum a b /\ @x_midpoint_lon RNum a b = @mid RNum a b.
Proof. intros. unfold x_midpoint_lat, x_midpoint_lon, mid, two. xr. lit0. split; f_equal; lra. Qed.
Print Assumptions C05_link_midpoint.

(* the intersection points lie on the segment's line: stated on the regenerated slope / intercept text *)
Theorem C05_extracted_intersection_on_line :
  forall lat0 lon0 lat1 lon1 y : R, lat1 - lat0 <> 0 ->
    let s := @x_seg_slope RNum lat0 lon0 lat1 lon1 in
    let i := @x_seg_intercept RNum lat0 lon0 s in
    (@x_lon_at_lat RNum s i y - lon0) * (lat1 - lat0) = (y - lat0) * (lon1 - lon0) /\
    (s <> 0 -> forall x, @x_lon_at_lat RNum s i (@x_lat_at_lon RNum s i x) = x).
Proof.
  intros lat0 lon0 lat1 lon1 y H s i. subst s i.
  unfold x_lon_at_lat, x_lat_at_lon, x_seg_intercept, x_seg_slope, x_line_intercept, x_line_slope. xr. split.
  - field. exact H.
  - intros Hs x. field. split; [exact H|]. intros E. apply Hs. rewrite E. unfold Rdiv. apply Rmult_0_l.
Qed.
Print Assumptions C05_extracted_intersection_on_line.

(* ---- altitude / time / state of a piece: those of the segment's START point ---- *)
Theorem C05_link_start_point :
  (forall (A : Type) (l : list A), x_take_alt l = removelast l /\ x_take_time l = removelast l /\ x_take_state l = removelast l).
Proof. intros. repeat split; reflexivity. Qed.
Print Assumptions C05_link_start_point.

(* the point inserted at the antimeridian copies altitude / time / state of the crossing segment's START point *)
Theorem C05_link_inserted_point :
  x_dup_alt_first = 0%Z /\ x_dup_time_first = 0%Z /\ x_dup_state_first = 0%Z /\
  x_dup_alt_second = 0%Z /\ x_dup_time_second = 0%Z /\ x_dup_state_second = 0%Z.
Proof. repeat split; reflexivity. Qed.
Print Assumptions C05_link_inserted_point.

(* ---- antimeridian: threshold, crossing latitude, exit / entry longitude ---- *)
Theorem C05_link_crossing :
  forall lon1 lon2 : R, @x_crossing RNum lon1 lon2 = @crossing RNum lon1 lon2.
Proof. intros. reflexivity. Qed.
Print Assumptions C05_link_crossing.

(* the tree has either the interpolated latitude as it is (before the FC04e repair) or the clamped one *)
Theorem C05_link_crossing_lat :
  (forall sg (lat0 lon0 lat1 lon1 : R),
    @x_crossing_lat RNum (sg =? -1)%Z lat0 lon0 lat1 lon1 = @crossing_lat RNum true false sg (lat0, lon0) (lat1, lon1)) \/
  (forall sg (lat0 lon0 lat1 lon1 : R),
    @x_crossing_lat RNum (sg =? -1)%Z lat0 lon0 lat1 lon1 = @crossing_lat RNum true true sg (lat0, lon0) (lat1, lon1)).
Proof.
  first [ left; intros; unfold x_crossing_lat, crossing_lat, two; xr; lit0;
          destruct (sg =? -1)%Z; cbv zeta;
          [ assert (E : Reqb (- (1)) (- (1)) = true) by (apply Reqb_true; reflexivity); rewrite !E;
            replace (1 + 1) with 2 by lra; reflexivity
          | assert (E : Reqb 1 (- (1)) = false) by (apply Reqb_false; lra); rewrite !E;
            replace (1 + 1) with 2 by lra; reflexivity ]
        | right; intros; unfold x_crossing_lat, crossing_lat, clamp_between, two; xr; lit0;
          destruct (sg =? -1)%Z; cbv zeta;
          [ assert (E : Reqb (- (1)) (- (1)) = true) by (apply Reqb_true; reflexivity); rewrite !E;
            replace (1 + 1) with 2 by lra; reflexivity
          | assert (E : Reqb 1 (- (1)) = false) by (apply Reqb_false; lra); rewrite !E;
            replace (1 + 1) with 2 by lra; reflexivity ] ].
Qed.
Print Assumptions C05_link_crossing_lat.

Theorem C05_link_exit_entry :
  forall sg, @x_exit_lon RNum (sg =? -1)%Z = @exit_lon RNum sg /\ @x_entry_lon RNum (sg =? -1)%Z = @entry_lon RNum sg.
Proof.
  intros. unfold x_exit_lon, x_entry_lon, exit_lon, entry_lon. xr. lit0.
  destruct (sg =? -1)%Z; split; rsign.
Qed.
Print Assumptions C05_link_exit_entry.

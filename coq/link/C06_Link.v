(* C06 — obligations on the text regenerated from units.py / legacy.py on this run (state-independent part).
   Compiled in build/C06/gen against Gen.C06_Extracted. *)
From Coq Require Import Reals Lra.
From AV Require Import lib.Num model.C06_Model.
From Gen Require Import C06_Extracted.
Local Open Scope R_scope.

(* the library's factor for expressing a flight level in metres is the exact one: 100 ft = 30.48 m *)
Theorem C06_link_fl_to_meters : @FL_TO_METERS RNum = 3048 / 100.
Proof. unfold FL_TO_METERS, FEET_TO_METERS. rnum. lra. Qed.
Print Assumptions C06_link_fl_to_meters.

Theorem C06_link_fl_to_meters_nonzero : @FL_TO_METERS RNum <> 0.
Proof. rewrite C06_link_fl_to_meters. lra. Qed.
Print Assumptions C06_link_fl_to_meters_nonzero.

(* unit factors used when a PTF file is converted *)
Theorem C06_link_fpm_to_mps : @FPM_TO_MPS RNum = (3048 / 10000) / 60.
Proof. unfold FPM_TO_MPS, FEET_TO_METERS, MINUTES_TO_SECONDS. rnum. lra. Qed.
Print Assumptions C06_link_fpm_to_mps.

Theorem C06_link_minutes_to_seconds : @MINUTES_TO_SECONDS RNum = 60.
Proof. unfold MINUTES_TO_SECONDS. rnum. lra. Qed.
Print Assumptions C06_link_minutes_to_seconds.

(* 1 kt = 1852/3600 m/s; the library carries the six-digit rounding 0.514444 *)
Theorem C06_link_knots_to_mps :
  Rabs (@KNOTS_TO_MPS RNum - 1852 / 3600) <= 1 / 1000000 * (1852 / 3600) /\ 0 < @KNOTS_TO_MPS RNum.
Proof. unfold KNOTS_TO_MPS. rnum. split; [apply Rabs_le|]; lra. Qed.
Print Assumptions C06_link_knots_to_mps.

(* the ROCD tolerance separating the three phase sub-tables is the model's, in both number domains *)
Theorem C06_link_zero_rocd_tol : forall N : Num, @ZERO_ROCD_TOL N = @tol N.
Proof. reflexivity. Qed.
Print Assumptions C06_link_zero_rocd_tol.

(* the conversion used by PerformanceTable.interpolate is one of the two the model knows *)
Theorem C06_link_alt_to_fl_shape : forall N : Num,
  (forall a, @alt_to_fl N a = alt_to_fl_mul (@METERS_TO_FL N) a) \/
  (forall a, @alt_to_fl N a = alt_to_fl_div (@FL_TO_METERS N) a).
Proof. intros N. first [left; reflexivity | right; reflexivity]. Qed.
Print Assumptions C06_link_alt_to_fl_shape.

(* the conversion is Lipschitz (it is linear), the hypothesis of C06_evaluate_continuous *)
Theorem C06_link_alt_to_fl_lipschitz :
  exists K, 0 <= K /\ forall a a', Rabs (@alt_to_fl RNum a' - @alt_to_fl RNum a) <= K * Rabs (a' - a).
Proof.
  exists (@alt_to_fl RNum 1).
  assert (HK : 0 <= @alt_to_fl RNum 1).
  { unfold alt_to_fl, FL_TO_METERS, METERS_TO_FL, METERS_TO_FEET, FEET_TO_METERS. rnum. lra. }
  split; auto. intros a a'.
  replace (@alt_to_fl RNum a' - @alt_to_fl RNum a) with (@alt_to_fl RNum 1 * (a' - a)).
  - rewrite Rabs_mult, (Rabs_right (@alt_to_fl RNum 1)); lra.
  - unfold alt_to_fl, FL_TO_METERS, METERS_TO_FL, METERS_TO_FEET, FEET_TO_METERS. rnum. field.
Qed.
Print Assumptions C06_link_alt_to_fl_lipschitz.

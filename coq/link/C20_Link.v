(* Obligations relating the guard text regenerated from src/AEIC/trajectories/store.py on this run
   (Gen.C20_Extracted.guard) to the programs the theorems of props/C20_Props.v are about.
   Compiled in build/C20/gen.  Valid both before and after the repair of F19; the second theorem
   says which of the two the tree is, with the property (or its refutation) restated on the
   extracted text itself. *)
From Coq Require Import List Bool Arith.
From AV Require Import model.C20_Model proofs.C20_Proofs.
From Gen Require Import C20_Extracted.
Import ListNotations.

Theorem C20_link_guard_is_modelled : guard = guard_locked \/ guard = guard_as_coded.
Proof. first [left; reflexivity | right; reflexivity]. Qed.
Print Assumptions C20_link_guard_is_modelled.

Theorem C20_link_verdict_on_extracted_guard :
  (guard = guard_locked /\
   forall calls sched t1 t2,
     let st := run guard sched (init guard calls) in
     In (EvOk t1) (log st) -> In (EvOk t2) (log st) -> t1 = t2)
  \/
  (guard = guard_as_coded /\
   exists sched,
     let st := run guard sched (init guard two_first_calls) in
     In (EvOk 0) (log st) /\ In (EvOk 1) (log st)).
Proof.
  first [ left; split; [reflexivity | exact locked_single_owner]
        | right; split; [reflexivity | exact race_two_owners] ].
Qed.
Print Assumptions C20_link_verdict_on_extracted_guard.

(* C04 — obligations relating the text regenerated from gridding/grid.py on this run (Gen.C04_Extracted) to the
   model the conservation theorems are about, and the conservation laws stated DIRECTLY on the regenerated text.
   Compiled in build/C04/gen. *)
From Coq Require Import ZArith List Bool Reals Lra.
From AV Require Import lib.Num model.C04_Model proofs.C04_Proofs.
From Gen Require Import C04_Extracted.
Import ListNotations.
Local Open Scope R_scope.

Ltac xr := cbn [T zero one add sub mul div opp nabs ltb leb eqb lit of_Z RNum] in *.
(* decide the encoded sign test [Reqb (+-1) (-1)] *)
Ltac rsign :=
  match goal with
  | |- context [Reqb ?a ?b] =>
      let E := fresh "E" in
      destruct (Reqb a b) eqn:E;
      [ apply Reqb_true in E | apply Reqb_false in E ];
      first [ reflexivity | exfalso; lra | exfalso; apply E; lra ]
  end.
Ltac lit0 := repeat (replace (0 / 1) with 0 in * by lra); repeat (replace (1 / 1) with 1 in * by lra);
             repeat (replace (2 / 1) with 2 in * by lra).

(* ---- calculate_line_parameters and its call: slope / intercept of longitude as a function of latitude ---- *)
Theorem C04_link_line :
  forall lat0 lon0 lat1 lon1 : R,
    @x_seg_slope RNum lat0 lon0 lat1 lon1 = @line_slope RNum lat0 lon0 lat1 lon1 /\
    (forall s, @x_seg_intercept RNum lat0 lon0 s = @line_intercept RNum lat0 lon0 s) /\
    @x_seg_defined RNum lat0 lon0 lat1 lon1 = negb (@line_vertical RNum lat0 lat1) /\
    x_line_fill_inf = true /\ x_vertical_is_isinf = true.
Proof.
  intros. repeat split; try reflexivity.
  unfold x_seg_defined, x_line_defined, line_vertical. xr. lit0. reflexivity.
Qed.
Print Assumptions C04_link_line.

Theorem C04_link_intersections :
  forall s i y x lat0 lat1 : R,
    @x_lon_at_lat RNum s i y = @lon_at_lat RNum s i y /\
    @x_lat_at_lon RNum s i x = @lat_at_lon RNum false lat0 s i x /\
    @x_lat_at_lon_vertical RNum lat0 lat1 = @lat_at_lon RNum true lat0 s i x.
Proof. intros. repeat split; reflexivity. Qed.
Print Assumptions C04_link_intersections.

(* ---- sub-segment fraction (incl. the out= / where= arguments: the zero-length rule) and piece value ---- *)
Theorem C04_link_fraction :
  forall (v : R) cnt (D d : R),
    @x_frac RNum cnt D d = @frac RNum true cnt D d /\
    @x_piece_value RNum v cnt D d = @piece_value RNum true v cnt D d /\
    x_segment_length_ends = true.
Proof.
  intros. assert (E : @x_frac RNum cnt D d = @frac RNum true cnt D d).
  { unfold x_frac, frac. xr. lit0. destruct (Reqb D 0); reflexivity. }
  split; [exact E|split; [|reflexivity]]. unfold x_piece_value, piece_value. rewrite E. reflexivity.
Qed.
Print Assumptions C04_link_fraction.

(* the conservation law on the regenerated text itself *)
Theorem C04_extracted_pieces_sum :
  forall (v D : R) (ds : list R), D <> 0 ->
    Rsum (map (@x_piece_value RNum v (length ds) D) ds) = v * Rsum ds / D.
Proof.
  intros v D ds HD. rewrite (map_ext _ (@piece_value RNum true v (length ds) D)).
  - exact (seg_values_sum true v D ds HD).
  - intros d. apply C04_link_fraction.
Qed.
Print Assumptions C04_extracted_pieces_sum.

Theorem C04_extracted_zero_length_kept :
  forall (v : R) (ds : list R), ds <> [] -> Rsum (map (@x_piece_value RNum v (length ds) 0) ds) = v.
Proof.
  intros v ds Hne. rewrite (map_ext _ (@piece_value RNum true v (length ds) 0)).
  - exact (seg_values_zero_fixed v ds Hne).
  - intros d. apply C04_link_fraction.
Qed.
Print Assumptions C04_extracted_zero_length_kept.

(* ---- antimeridian: which length multiplies which part (resolved through the call sites) ---- *)
Theorem C04_link_split :
  forall v len1 len2 : R,
    @x_split_first RNum v len1 len2 = @split_val RNum true true v len1 (len1 + len2) /\
    @x_split_second RNum v len1 len2 = @split_val RNum true false v len2 (len1 + len2).
Proof.
  intros. unfold x_split_first, x_split_second, split_val. xr. lit0.
  destruct (Reqb (len1 + len2) 0); split; reflexivity.
Qed.
Print Assumptions C04_link_split.

Theorem C04_extracted_split_conserves :
  forall v len1 len2 : R, @x_split_first RNum v len1 len2 + @x_split_second RNum v len1 len2 = v.
Proof.
  intros. unfold x_split_first, x_split_second. xr. lit0.
  destruct (Reqb (len1 + len2) 0) eqn:E; cbn [negb].
  - lra.
  - apply Reqb_false in E. field. exact E.
Qed.
Print Assumptions C04_extracted_split_conserves.

(* the two part lengths are measured start -> crossing point (exit side) and crossing point (entry side) -> end *)
Theorem C04_link_part_lengths :
  forall sg (lat0 lon0 lat1 lon1 latx : R),
    let down := (sg =? -1)%Z in
    @x_len1_from RNum down lat0 lon0 lat1 lon1 latx = (lat0, lon0) /\
    @x_len1_to RNum down lat0 lon0 lat1 lon1 latx = (latx, @exit_lon RNum sg) /\
    @x_len2_from RNum down lat0 lon0 lat1 lon1 latx = (latx, @entry_lon RNum sg) /\
    @x_len2_to RNum down lat0 lon0 lat1 lon1 latx = (lat1, lon1).
Proof.
  intros. unfold x_len1_from, x_len1_to, x_len2_from, x_len2_to, exit_lon, entry_lon. subst down.
  repeat split; xr; lit0; destruct (sg =? -1)%Z; f_equal; rsign.
Qed.
Print Assumptions C04_link_part_lengths.

Theorem C04_link_crossing :
  forall lon1 lon2 : R, @x_crossing RNum lon1 lon2 = @crossing RNum lon1 lon2.
Proof. intros. reflexivity. Qed.
Print Assumptions C04_link_crossing.

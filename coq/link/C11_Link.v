(* C11 — obligations relating the decision data regenerated from config/emissions.py, emissions/trajectory.py
   and emissions/lto.py on this run (Gen.C11_Extracted) to the model the sweeps of props/C11_Props.v are
   about.  Compiled in build/C11/gen. *)
From Coq Require Import List Bool String.
From AV Require Import model.C11_Model proofs.C11_Proofs.
From Gen Require Import C11_Extracted.
Import ListNotations.
Open Scope string_scope.

Definition gas_eqb (a b : gas_method) : bool :=
  match a, b with G_BFFM2, G_BFFM2 | G_P3T3, G_P3T3 | G_NONE, G_NONE => true | _, _ => false end.
Definition pmvol_eqb (a b : pmvol_method) : bool :=
  match a, b with PV_FUEL_FLOW, PV_FUEL_FLOW | PV_FOA3, PV_FOA3 | PV_NONE, PV_NONE => true | _, _ => false end.

(* the species <-> switch table of EmissionsConfig.enabled_species *)
Theorem C11_link_enabled_table : x_enabled_table = enabled_table.
Proof. reflexivity. Qed.
Print Assumptions C11_link_enabled_table.

Theorem C11_link_switches : forall c w, x_switch_on c w = switch_on c w.
Proof. intros c w. destruct w; reflexivity. Qed.
Print Assumptions C11_link_switches.

(* hence the set computed by the source's add() calls is the model's [enabled] *)
Theorem C11_link_enabled_species : forall c s, enabled_gen x_enabled_table c s = enabled c s.
Proof. intros c s. rewrite C11_link_enabled_table. apply enabled_table_correct. Qed.
Print Assumptions C11_link_enabled_species.

(* the documented string values of the method options (the names a refusal has to contain) *)
Theorem C11_link_method_names :
  (forall m, x_gas_name m = gas_name m) /\ (forall m, x_pmvol_name m = pmvol_name m)
  /\ (forall m, x_pmnvol_name m = pmnvol_name m).
Proof. repeat split; intros m; destruct m; reflexivity. Qed.
Print Assumptions C11_link_method_names.

Theorem C11_link_option_fields :
  x_option_fields = ["climb_descent_mode"; "co2_enabled"; "h2o_enabled"; "sox_enabled"; "nox_method"; "hc_method";
                     "co_method"; "pmvol_method"; "pmnvol_method"; "apu_enabled"; "gse_enabled"; "lifecycle_enabled"].
Proof. reflexivity. Qed.
Print Assumptions C11_link_option_fields.

(* method dispatch: which members each dispatcher handles; every other member falls through to a branch that
   raises an error naming the configured value *)
Theorem C11_link_dispatch :
  (forall m, existsb (gas_eqb m) x_nox_traj_handled = nox_traj_handled m)
  /\ (forall m, existsb (pmvol_eqb m) x_pmvol_traj_handled = pmvol_traj_handled m)
  /\ (forall m, existsb (pmnvol_eqb m) x_pmnvol_traj_handled = pmnvol_traj_handled m)
  /\ (forall m, existsb (pmvol_eqb m) x_pmvol_lto_handled = pmvol_lto_handled m)
  /\ (forall m, existsb (pmnvol_eqb m) x_pmnvol_lto_handled = pmnvol_lto_handled m)
  /\ x_fallthrough_names_configured_value = true.
Proof. repeat split; intros m; destruct m; reflexivity. Qed.
Print Assumptions C11_link_dispatch.

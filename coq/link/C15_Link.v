(* C15 — obligations relating the text regenerated from missions/mission.py and
   trajectories/ground_track.py on this run (Gen.C15_Extracted) to the model.  Compiled in build/C15/gen. *)
From Coq Require Import ZArith Reals Bool.
From AV Require Import lib.Num model.C15_Model.
From Gen Require Import C15_Extracted.

(* the four arguments Mission.gc_distance hands to GEOD.inv are one of the two orders of the model:
   pyproj's (lon, lat, lon, lat) = the specification, or (lat, lon, lat, lon) = as coded before F13.
   The harness reports which one and runs the correspondence against it. *)
Theorem C15_link_gc_distance :
  (forall (N : Num) (a b c d : T N), @gc_distance_extracted N a b c d = @gc_distance N false a b c d) \/
  (forall (N : Num) (a b c d : T N), @gc_distance_extracted N a b c d = @gc_distance N true a b c d).
Proof. first [ left; intros; reflexivity | right; intros; reflexivity ]. Qed.
Print Assumptions C15_link_gc_distance.

(* azimuths are reduced modulo 360 *)
Theorem C15_link_azimuth_modulus : @azimuth_modulus RNum = @c_360 RNum.
Proof. unfold azimuth_modulus, c_360. rnum. reflexivity || (apply f_equal2; reflexivity) || (unfold Rdiv; f_equal). Qed.
Print Assumptions C15_link_azimuth_modulus.

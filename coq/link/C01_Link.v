(* C01 — obligations on the text regenerated from the source on this run (Gen.C01_Extracted):
   (i)  the property-relevant laws stated directly on the extracted text (fractions sum to one,
        SO2 + SO4 = SOx, PM split, positivity of the times in mode), and
   (ii) equality of the extracted constants / formulas with those of the hand model the theorems of
        props/C01_Props.v are about (over the reals for all arguments; bit-for-bit at binary64 for the
        closed constants).
   Compiled in build/C01/gen against the freshly generated module. *)
From Coq Require Import List Bool ZArith Reals Lra Lia PrimFloat.
From AV Require Import lib.Num lib.FloatMath model.C11_Model model.C01_Model proofs.C01_Lists proofs.C01_Proofs.
From Gen Require Import C01_Extracted.
Import ListNotations.
Local Open Scope R_scope.

Ltac unfold_ext :=
  unfold x_sp_no, x_sp_no2, x_sp_hono, nsp_noLnom, nsp_noAnom, nsp_noHnom, nsp_no2Lnom, nsp_no2Anom, nsp_no2Hnom,
    nsp_honoLnom, nsp_honoAnom, nsp_honoHnom, x_lto_tims, MINUTES_TO_SECONDS, PPM, KG_TO_GRAMS,
    C01_Extracted.MW_SO2, C01_Extracted.MW_SO4, C01_Extracted.MW_S in *.
Ltac unfold_model :=
  unfold sp_no, sp_no2, sp_hono, noL, noA, noH, no2L, no2A, no2H, honoL, honoA, honoH, c100, c100i, lto_tims, c_min2s,
    C01_Model.MW_SO2, C01_Model.MW_SO4, C01_Model.MW_S, gse_so4, gse_so2, gse_fsc, gse_kg2g, gse_eps, gse_mw_so4,
    gse_mw_so2, gse_mw_o2, gse_f_no, gse_f_no2, gse_f_hono, gse_half, apu_time, apu_bc in *.

Definition lk (s : species) (l : list (species * R)) : R :=
  match @lookup R s l with Some v => v | None => 0 end.

(* ---- NOx speciation (ei/nox.py:NOx_speciation) ---- *)
Theorem C01_link_speciation_sums_to_one :
  tm_add3 (@x_sp_no RNum) (@x_sp_no2 RNum) (@x_sp_hono RNum) = (1, 1, 1, 1).
Proof. unfold tm_add3. unfold_ext. rnum. apply tm4_eq; field. Qed.
Print Assumptions C01_link_speciation_sums_to_one.

Theorem C01_link_speciation_nonneg :
  tm_nonneg (@x_sp_no RNum) /\ tm_nonneg (@x_sp_no2 RNum) /\ tm_nonneg (@x_sp_hono RNum).
Proof. unfold tm_nonneg. unfold_ext. rnum. repeat split; lra. Qed.
Print Assumptions C01_link_speciation_nonneg.

Theorem C01_link_speciation_eq_model :
  @x_sp_no RNum = @sp_no RNum /\ @x_sp_no2 RNum = @sp_no2 RNum /\ @x_sp_hono RNum = @sp_hono RNum.
Proof. unfold_ext. unfold_model. rnum. repeat split; apply tm4_eq; lra. Qed.
Print Assumptions C01_link_speciation_eq_model.

Theorem C01_link_speciation_eq_model_binary64 :
  @x_sp_no FNum = @sp_no FNum /\ @x_sp_no2 FNum = @sp_no2 FNum /\ @x_sp_hono FNum = @sp_hono FNum.
Proof. vm_compute. repeat split; reflexivity. Qed.
Print Assumptions C01_link_speciation_eq_model_binary64.

(* ---- LTO times in mode (lto.py:_LTO_TIMS) ---- *)
Theorem C01_link_lto_tims_eq_model : @x_lto_tims RNum = @lto_tims RNum /\ @x_lto_tims FNum = @lto_tims FNum.
Proof. split; [unfold_ext; unfold_model; rnum; apply tm4_eq; lra | vm_compute; reflexivity]. Qed.
Print Assumptions C01_link_lto_tims_eq_model.

Theorem C01_link_lto_tims_icao : @x_lto_tims RNum = (1560, 240, 132, 42).
Proof. unfold_ext. rnum. apply tm4_eq; lra. Qed.
Print Assumptions C01_link_lto_tims_icao.

(* ---- SOx (ei/sox.py:EI_SOx) ---- *)
Theorem C01_link_sox_split : forall s y, let '(sox, so2, so4) := @EI_SOx RNum s y in so2 + so4 = sox.
Proof. intros s y. unfold EI_SOx. reflexivity. Qed.
Print Assumptions C01_link_sox_split.

Theorem C01_link_sox_eq_model : forall f : @fuel RNum, @EI_SOx RNum (f_sulfur f) (f_yield f) = ei_sox f.
Proof.
  intros f. unfold EI_SOx, ei_sox. unfold_ext. unfold_model. rnum.
  repeat (apply f_equal2); lra.
Qed.
Print Assumptions C01_link_sox_eq_model.

(* ---- GSE (gse.py) ---- *)
Theorem C01_link_gse_nominal_eq_model : forall k, @x_gse_nominal RNum k = @gse_nominal RNum k.
Proof. intros k. destruct k; unfold x_gse_nominal, gse_nominal; rnum; repeat (apply f_equal2); lra. Qed.
Print Assumptions C01_link_gse_nominal_eq_model.

Theorem C01_link_gse_splits : forall k a b,
  let em := fst (@x_gse RNum k a b) in
  lk NO em + lk NO2 em + lk HONO em = lk NOx em
  /\ lk SO2 em + lk SO4 em = lk SOx em
  /\ (let '(_, _, _, _, pm) := @x_gse_nominal RNum k in lk PMvol em + lk PMnvol em = pm - lk SO4 em)
  /\ lk PMnvolN em = 0 /\ lk PMnvolGMD em = 0 /\ lk OCic em = 0.
Proof.
  intros k a b. unfold x_gse.
  destruct (@x_gse_nominal RNum k) as [[[[co2 nox] hc] co] pm]. cbn [fst]. unfold lk. cbn. unfold_ext. rnum.
  repeat split; lra.
Qed.
Print Assumptions C01_link_gse_splits.

Theorem C01_link_gse_eq_model : forall k (f : @fuel RNum),
  @x_gse RNum k (f_EI_CO2 f) (f_EI_H2O f) = (dump (gse_em f k), gse_fuel f k).
Proof.
  intros k f. unfold x_gse, gse_em, gse_fuel. rewrite C01_link_gse_nominal_eq_model.
  destruct (@gse_nominal RNum k) as [[[[co2 nox] hc] co] pm]. unfold dump. cbn [flat_map all_species app].
  unfold_ext. unfold_model. rnum.
  apply f_equal2; [|reflexivity].
  repeat (apply f_equal2; [apply f_equal2; [reflexivity|lra]|]). reflexivity.
Qed.
Print Assumptions C01_link_gse_eq_model.

(* ---- APU (apu.py:get_APU_emissions) ---- *)
Theorem C01_link_apu_splits : forall s2 s4 fu pm nx hc co h2o,
  let '(idx, em, fuel) := @x_apu RNum s2 s4 fu pm nx hc co h2o in
  lk NO idx + lk NO2 idx + lk HONO idx = lk NOx idx
  /\ lk SO2 idx + lk SO4 idx = lk SOx idx
  /\ lk NO em + lk NO2 em + lk HONO em = lk NOx em
  /\ lk SO2 em + lk SO4 em = lk SOx em
  /\ (forall s, lk s em = lk s idx * fuel).
Proof.
  intros. pose proof C01_link_speciation_sums_to_one as S. unfold tm_add3 in S.
  unfold x_apu.
  destruct (@x_sp_no RNum) as [[[n1 n2] n3] n4], (@x_sp_no2 RNum) as [[[m1 m2] m3] m4],
           (@x_sp_hono RNum) as [[[h1 h2] h3] h4]. inversion S as [[S1 S2 S3 S4]].
  cbn [tm_takeoff]. unfold lk. cbn [lookup species_eqb].
  repeat split; try (rnum; nra).
  intros s; destruct s; cbn [lookup species_eqb]; first [reflexivity | rnum; ring].
Qed.
Print Assumptions C01_link_apu_splits.

Theorem C01_link_apu_pmnvoln_methods : forall c,
  apu_has c PMnvolN = existsb (pmnvol_eqb (pmnvol_m c)) x_apu_pmnvoln_methods.
Proof. intros c. unfold apu_has, x_apu_pmnvoln_methods. destruct (pmnvol_m c); reflexivity. Qed.
Print Assumptions C01_link_apu_pmnvoln_methods.

Theorem C01_link_apu_eq_model : forall c (f : @fuel RNum) l orc (a : @apu_data RNum) s,
  apu_has c s = true ->
  let '(idx, em, fuel) :=
    @x_apu RNum (tm_idle (getd_tm (lto_idx c f l orc SO2))) (tm_idle (getd_tm (lto_idx c f l orc SO4)))
           (a_fuel a) (a_pm10 a) (a_nox a) (a_hc a) (a_co a) (f_EI_H2O f) in
  @lookup R s idx = apu_idx c f l orc a s /\ @lookup R s em = apu_em c f l orc a s /\ fuel = apu_fuel a.
Proof.
  intros c f l orc a s Hs. pose proof C01_link_speciation_eq_model as (E1 & E2 & E3).
  unfold x_apu. rewrite E1, E2, E3. unfold apu_em, apu_idx. rewrite Hs. cbn [option_map].
  unfold apu_co2, apu_pmvol, apu_pmnvol, apu_pm10, apu_so, apu_running_b, apu_fuel.
  set (i2 := tm_idle (getd_tm (lto_idx c f l orc SO2))). set (i4 := tm_idle (getd_tm (lto_idx c f l orc SO4))).
  destruct (@sp_no RNum) as [[[n1 n2] n3] n4], (@sp_no2 RNum) as [[[m1 m2] m3] m4],
           (@sp_hono RNum) as [[[h1 h2] h3] h4]. cbn [tm_takeoff].
  unfold_model. rnum.
  assert (Z01 : 0 / 1 = 0) by lra. rewrite !Z01.
  destruct (Reqb (a_fuel a) 0); cbn [negb];
    repeat match goal with |- context [Rltb ?x ?y] => destruct (Rltb x y) end;
    destruct s; cbn [lookup species_eqb]; try discriminate Hs;
    (split; [|split]); try reflexivity; try (f_equal; first [lra | field | ring]); first [lra | field | ring].
Qed.
Print Assumptions C01_link_apu_eq_model.

(* ---- thrust category and BFFM2 speciation along the trajectory (utils.py:get_thrust_cat_cruise, ei/nox.py:BFFM2_EINOx,
        trajectory.py:compute_EI_NOx) ---- *)
Theorem C01_link_thrust_cat_eq_model : forall a b c d ff : R,
  @x_thrust_cat RNum a b c d ff = @thrust_cat RNum (a, b, c, d) ff.
Proof. intros. reflexivity. Qed.
Print Assumptions C01_link_thrust_cat_eq_model.

Theorem C01_link_thrust_cat_eq_model_binary64 : forall a b c d ff : PrimFloat.float,
  @x_thrust_cat FNum a b c d ff = @thrust_cat FNum (a, b, c, d) ff.
Proof. intros. reflexivity. Qed.
Print Assumptions C01_link_thrust_cat_eq_model_binary64.

Theorem C01_link_bffm2_parts_close : forall cat (nox : R),
  let '(no, no2, hono) := @x_bffm2_parts RNum cat nox in no + no2 + hono = nox.
Proof.
  intros cat nox. pose proof C01_link_speciation_sums_to_one as S. unfold tm_add3 in S. unfold x_bffm2_parts.
  destruct (@x_sp_no RNum) as [[[n1 n2] n3] n4], (@x_sp_no2 RNum) as [[[m1 m2] m3] m4],
           (@x_sp_hono RNum) as [[[h1 h2] h3] h4]. inversion S as [[S1 S2 S3 S4]].
  destruct cat; cbn; rnum; nra.
Qed.
Print Assumptions C01_link_bffm2_parts_close.

Theorem C01_link_bffm2_parts_eq_model : forall cat (nox : R),
  @x_bffm2_parts RNum cat nox = (nox * @tm_get RNum cat sp_no, nox * @tm_get RNum cat sp_no2, nox * @tm_get RNum cat sp_hono).
Proof.
  intros cat nox. pose proof C01_link_speciation_eq_model as (E1 & E2 & E3). unfold x_bffm2_parts.
  rewrite E1, E2, E3. reflexivity.
Qed.
Print Assumptions C01_link_bffm2_parts_eq_model.

(* C14 — obligations relating the text regenerated from missions/filter.py on this run
   (Gen.C14_Extracted) to the model the theorems are about. *)
From Coq Require Import ZArith List String Bool Lia.
From AV Require Import lib.Dates model.C14_Model.
From Gen Require Import C14_Extracted.
Import ListNotations.
Open Scope Z_scope.

(* the compatibility rule of Filter._normalize is the model's, for all counts *)
Theorem C14_link_spatial_rule :
  forall combined origin destination,
    spatial_ok_src combined origin destination = spatial_ok combined origin destination.
Proof.
  intros c o d. unfold spatial_ok_src, spatial_ok.
  repeat match goal with
         | |- context [?a =? ?b] => destruct (Z.eqb_spec a b)
         | |- context [?a <=? ?b] => destruct (Z.leb_spec a b)
         | |- context [?a <? ?b] => destruct (Z.ltb_spec a b)
         end; cbn [andb orb negb]; try reflexivity; exfalso; lia.
Qed.
Print Assumptions C14_link_spatial_rule.

(* what is counted: airports, countries, continents as non-empty lists; bounding boxes as given/not given *)
Theorem C14_link_spatial_kinds :
  spatial_kinds = [("airport"%string, true); ("country"%string, true); ("continent"%string, true);
                   ("bounding_box"%string, false)].
Proof. reflexivity. Qed.
Print Assumptions C14_link_spatial_kinds.

(* the plain conjuncts: inclusive ranges on distance and seat capacity, IN-lists guarded by non-emptiness *)
Theorem C14_link_plain_conjuncts :
  range_conjuncts = ["distance >= ? @min_distance"%string; "distance <= ? @max_distance"%string;
                     "seat_capacity >= ? @min_seat_capacity"%string; "seat_capacity <= ? @max_seat_capacity"%string]
  /\ inlist_conjuncts = ["service_type"%string; "aircraft_type"%string]
  /\ (forall a, In a ["airport"; "origin_airport"; "destination_airport"; "country"; "origin_country";
                      "destination_country"; "continent"; "origin_continent"; "destination_continent";
                      "service_type"; "aircraft_type"]%string -> In a normalised_attrs).
Proof.
  split; [reflexivity|]. split; [reflexivity|].
  intros a H. unfold normalised_attrs. simpl in *. tauto.
Qed.
Print Assumptions C14_link_plain_conjuncts.

(* C14 — obligations relating the text regenerated from missions/filter.py on this run
   (Gen.C14_Extracted) to the model the theorems are about. *)
From Coq Require Import ZArith List String Bool Lia.
From AV Require Import lib.Dates model.C14_Model model.C14_Sql proofs.C14_SqlProofs.
From Gen Require Import C14_Extracted.
Import ListNotations.
Open Scope Z_scope.

(* the compatibility rule of Filter._normalize is the model's, for all counts *)
Theorem C14_link_spatial_rule :
  forall combined origin destination,
    spatial_ok_src combined origin destination = spatial_ok combined origin destination.
Proof.
  intros c o d. unfold spatial_ok_src, spatial_ok.
  repeat match goal with
         | |- context [?a =? ?b] => destruct (Z.eqb_spec a b)
         | |- context [?a <=? ?b] => destruct (Z.leb_spec a b)
         | |- context [?a <? ?b] => destruct (Z.ltb_spec a b)
         end; cbn [andb orb negb]; try reflexivity; exfalso; lia.
Qed.
Print Assumptions C14_link_spatial_rule.

(* what is counted: airports, countries, continents as non-empty lists; bounding boxes as given/not given *)
Theorem C14_link_spatial_kinds :
  spatial_kinds = [("airport"%string, true); ("country"%string, true); ("continent"%string, true);
                   ("bounding_box"%string, false)].
Proof. reflexivity. Qed.
Print Assumptions C14_link_spatial_kinds.

(* the plain conjuncts: inclusive ranges on distance and seat capacity, IN-lists guarded by non-emptiness *)
Theorem C14_link_plain_conjuncts :
  range_conjuncts = ["distance >= ? @min_distance"%string; "distance <= ? @max_distance"%string;
                     "seat_capacity >= ? @min_seat_capacity"%string; "seat_capacity <= ? @max_seat_capacity"%string]
  /\ inlist_conjuncts = ["service_type"%string; "aircraft_type"%string]
  /\ (forall a, In a ["airport"; "origin_airport"; "destination_airport"; "country"; "origin_country";
                      "destination_country"; "continent"; "origin_continent"; "destination_continent";
                      "service_type"; "aircraft_type"]%string -> In a normalised_attrs).
Proof.
  split; [reflexivity|]. split; [reflexivity|].
  intros a H. unfold normalised_attrs. simpl in *. tauto.
Qed.
Print Assumptions C14_link_plain_conjuncts.

(* ---- missions/query.py ---- *)

(* the conjuncts QueryBase._common_conditions and Query.to_sql build — start_date `>=`, end_date `<` midnight of
   the following day, the sampling conjunct, every-n-th day anchored at start_date when given and at MIN(day)
   otherwise, in this order after the filter conjunct — are the model's, for every query *)
Theorem C14_link_query_conjuncts :
  forall eo q, conds_of_shape src_shape eo q = Some (own_conds eo q).
Proof. exact expected_shape_is_own_conds. Qed.
Print Assumptions C14_link_query_conjuncts.

Theorem C14_link_query_sql :
  src_query_sql = expected_query_sql /\ src_limit_offset = expected_limit_offset
  /\ src_where_clause = expected_where_clause /\ src_validations = expected_validations
  /\ src_sample = expected_sample /\ src_nth_min = expected_nth_min /\ src_nth_base = expected_nth_base.
Proof. repeat split; reflexivity. Qed.
Print Assumptions C14_link_query_sql.

(* QueryResult.from_row: which selected column becomes which result field *)
Theorem C14_link_result_fields : src_result_fields = expected_result_fields.
Proof. reflexivity. Qed.
Print Assumptions C14_link_result_fields.

(* CountQuery (count of s.id, joins only when there are conditions) and FrequentFlightQuery (GROUP BY the
   direction-independent od_pair, ORDER BY the count DESC, LIMIT) *)
Theorem C14_link_count_and_frequent : src_count = expected_count /\ src_frequent = expected_frequent.
Proof. split; reflexivity. Qed.
Print Assumptions C14_link_count_and_frequent.

(* ---- missions/filter.py ---- *)

(* a range bound is given unless it is None (0 and 0.0 are bounds) *)
Theorem C14_link_range_guard : range_guard = expected_range_guard.
Proof. reflexivity. Qed.
Print Assumptions C14_link_range_guard.

(* the three bounding-box branches: combined (either end), origin, destination — independent `if`s *)
Theorem C14_link_bbox_branches :
  bounding_box_subselect = expected_bounding_box_subselect /\ bounding_box_branches = expected_bounding_box_branches.
Proof. split; reflexivity. Qed.
Print Assumptions C14_link_bbox_branches.

(* airport / country / continent: which column (origin, destination, either) each attribute constrains *)
Theorem C14_link_spatial_columns :
  airport_subselect = expected_airport_subselect /\ airport_branches = expected_airport_branches
  /\ country_subselect = expected_country_subselect /\ country_branches = expected_country_branches
  /\ continent_subselect = expected_continent_subselect /\ continent_branches = expected_continent_branches.
Proof. repeat split; reflexivity. Qed.
Print Assumptions C14_link_spatial_columns.

(* ---- missions/database.py ---- *)

(* every query runs on a cursor of its own; no query state is kept on the Database object *)
Theorem C14_link_database_call :
  src_database_call = expected_database_call /\ src_yield_results = expected_yield_results
  /\ src_database_state = expected_database_state.
Proof. repeat split; reflexivity. Qed.
Print Assumptions C14_link_database_call.

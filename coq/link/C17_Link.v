(* Obligations relating what builders/base.py + builders/legacy.py say on this run (Gen.C17_Extracted: the names
   the builder classes write to and read from `self`, the fields of the context object) to the hypotheses of the
   C17 theorems.  Compiled in build/C17/gen. *)
From Coq Require Import ZArith List String Bool.
From AV Require Import model.C17_Model proofs.C17_Proofs.
From Gen Require Import C17_Extracted.
Import ListNotations.
Open Scope string_scope.

Definition mem (x : string) (l : list string) : bool := existsb (String.eqb x) l.

Lemma mem_In : forall x l, mem x l = true <-> In x l.
Proof.
  intros x l. unfold mem. rewrite existsb_exists. split.
  - intros (y & Hy & E). apply String.eqb_eq in E. subst. auto.
  - intros H. exists x. split; auto. apply String.eqb_refl.
Qed.

(* every name a flight writes on `self` is a field of the context (so it is stored there and dies with it), or
   the context itself, or is never read back *)
Theorem C17_link_leftovers_never_read :
  forallb (fun w => mem w g_ctx_fields || negb (mem w g_reads) || String.eqb w "ctx") g_flight_writes = true.
Proof. vm_compute. reflexivity. Qed.
Print Assumptions C17_link_leftovers_never_read.

(* the model knows every name written during a flight; constructor-time constants are never rewritten *)
Theorem C17_link_model_covers_writes :
  forallb (fun w => mem w ["ctx"; "starting_mass"; "total_fuel_mass"; "current_mass"]) g_flight_writes = true /\
  forallb (fun w => negb (mem w g_flight_writes)) g_init_writes = true /\
  forallb (fun w => negb (mem w g_ctx_fields)) g_init_writes = true.
Proof. vm_compute. repeat split. Qed.
Print Assumptions C17_link_model_covers_writes.

(* the three side conditions of [reads_only] for the extracted read set *)
Theorem C17_link_read_set :
  ~ In "current_mass" g_reads /\ In "starting_mass" g_reads /\ In "total_fuel_mass" g_reads /\
  In "starting_mass" g_ctx_fields /\ In "total_fuel_mass" g_ctx_fields /\ ~ In "current_mass" g_ctx_fields.
Proof.
  repeat split; try (apply mem_In; vm_compute; reflexivity);
    intro H; apply mem_In in H; vm_compute in H; discriminate.
Qed.
Print Assumptions C17_link_read_set.

(* the context constructor reads only constructor-time constants of the builder (`options`): nothing a flight writes *)
Theorem C17_link_ctor_reads :
  forallb (fun r => mem r g_init_writes && negb (mem r g_flight_writes)) g_ctor_builder_reads = true.
Proof. vm_compute. reflexivity. Qed.
Print Assumptions C17_link_ctor_reads.

(* the history theorem instantiated with the extracted read set and the extracted finally clause *)
Theorem C17_link_history_independent_for_this_tree : forall ctor calc iter_once small adjust,
  (forall o v1 v2 m, agree g_reads v1 v2 -> ctor o v1 m = ctor o v2 m) ->
  (forall o v1 v2, agree g_reads v1 v2 -> calc o v1 = calc o v2) ->
  (forall o v1 v2, agree g_reads v1 v2 -> iter_once o v1 = iter_once o v2) ->
  (forall v1 v2 r, agree g_reads v1 v2 -> adjust v1 r = adjust v2 r) ->
  forall o ms m,
    let b := fst (run ctor calc iter_once small adjust g_finally_guarded g_given_mass_fuel_derived (fresh o) ms) in
    snd (fly ctor calc iter_once small adjust g_finally_guarded g_given_mass_fuel_derived b m)
      = snd (fly ctor calc iter_once small adjust g_finally_guarded g_given_mass_fuel_derived (fresh o) m) /\
    idle g_reads o (fst (fly ctor calc iter_once small adjust g_finally_guarded g_given_mass_fuel_derived b m)).
Proof.
  intros ctor calc iter_once small adjust H0 H1 H2 H3 o ms m.
  destruct C17_link_read_set as (A & B & C & _).
  apply main_fly_history_independent. unfold reads_only. auto 10.
Qed.
Print Assumptions C17_link_history_independent_for_this_tree.

(* [reads_only] is satisfiable with the extracted read set by oracles that do depend on the view: the replaying
   oracles of the correspondence read "mission" and "starting_mass" *)
Example C17_link_replay_oracles_read_only_extracted_names : forall ss,
  reads_only (replay_ctor ss) (replay_calc ss) (replay_iter ss) replay_adjust g_reads.
Proof.
  intros ss.
  assert (Hm : In "mission" g_reads) by (apply mem_In; vm_compute; reflexivity).
  destruct C17_link_read_set as (A & B & C & _).
  unfold reads_only. split; [|split; [|split; [|split; [|split; [exact A|split; [exact B|exact C]]]]]].
  - intros o v1 v2 m Hag. reflexivity.
  - intros o v1 v2 Hag. unfold replay_calc, mission_of_view. rewrite (Hag "mission" Hm). reflexivity.
  - intros o v1 v2 Hag. unfold replay_iter, mission_of_view, iter_of_view.
    rewrite (Hag "mission" Hm), (Hag "starting_mass" B). reflexivity.
  - intros v1 v2 r Hag. unfold replay_adjust, mission_of_view, iter_of_view.
    rewrite (Hag "mission" Hm), (Hag "starting_mass" B). reflexivity.
Qed.

Example C17_link_replay_oracles_are_not_constant :
  replay_calc [] (mkopts false false 1 0) (fun a => if String.eqb a "mission" then Some (Some 3%Z) else None)
  <> replay_calc [] (mkopts false false 1 0) (fun _ => None).
Proof. vm_compute. discriminate. Qed.

(* ---- round 4 ---- *)
(* the finally clause does nothing but remove the context *)
Theorem C17_link_finally_body : g_finally_body = ["del self.ctx"].
Proof. reflexivity. Qed.
Print Assumptions C17_link_finally_body.

(* Builder._iterate_mass: `while not converged and iter < max_mass_iters` (the model's fuel max_mass_iters - 1), the
   test is on abs(residual) (the model's [small]), and exactly the starting mass and the fuel load are corrected, by the
   same amount (the model's [adjust] feeding both setattr) *)
Theorem C17_link_iterate_mass :
  g_iterate_limit_strict = true /\ g_iterate_test_uses_abs = true /\
  g_iterate_corrects = ["starting_mass"; "total_fuel_mass"].
Proof. repeat split; reflexivity. Qed.
Print Assumptions C17_link_iterate_mass.

(* Obligations relating the facts regenerated from src/AEIC/trajectories/store.py (and Container.species)
   on this run (Gen.C03_Extracted.facts) to the model the theorems of props/C03_Props.v are about.
   Compiled in build/C03/gen.  Valid before and after the repair of F2; the verdict theorem says which
   of the two the tree is, with the round trip (or its refutation) restated on the interpretation of the
   EXTRACTED dispatch tables. *)
From Coq Require Import ZArith List String Bool Arith.
From AV Require Import model.C03_Model proofs.C03_Proofs proofs.C03_Store proofs.C03_Files proofs.C03_Facts.
From Gen Require Import C03_Extracted.
Import ListNotations.

(* the extracted tables and flags are those of one of the two modelled versions of the code *)
Theorem C03_link_facts_are_modelled : facts = facts_of true \/ facts = facts_of false.
Proof. first [left; reflexivity | right; reflexivity]. Qed.
Print Assumptions C03_link_facts_are_modelled.

(* the model's writer and reader are the interpretation of the extracted tables *)
Theorem C03_link_writer_reader_are_the_extracted_tables :
  exists fixed, facts = facts_of fixed /\
    (forall fsp m v, field_patches fixed fsp m v = patches_by_case facts fsp m v) /\
    (forall fsp m g, read_field fixed fsp m g = read_by_case facts fsp m g).
Proof.
  first [ exists true; split; [reflexivity | split; intros;
            [change facts with (facts_of true); apply field_patches_by_case
            | change facts with (facts_of true); apply read_field_by_case]]
        | exists false; split; [reflexivity | split; intros;
            [change facts with (facts_of false); apply field_patches_by_case
            | change facts with (facts_of false); apply read_field_by_case]] ].
Qed.
Print Assumptions C03_link_writer_reader_are_the_extracted_tables.

(* what does not depend on the repair: every file is created with the species handed to
   _create_dimensions, written and decoded with its own species dimension; thrust modes in enum order *)
Theorem C03_link_files_keep_their_own_species :
  cf_reader_gets_species_of_its_file facts = true /\
  cf_species_dim_from_argument facts = true /\ cf_modes_dim_from_enum facts = true /\
  cf_create_species_of_first_trajectory facts = true /\ cf_mapped_species_of_first_result facts = true /\
  cf_write_none facts = (true, true) /\
  map (fun e => snd (fst (fst e))) (cf_read facts) = [false; false; false; false; true; true] /\
  wcase_of facts ShTM = Some (WModes OverThrustModes) /\
  rcase_of facts ShT = Some RScalarFillNone /\ rcase_of facts ShTP = Some RArrayEmptyNone.
Proof. repeat split; reflexivity. Qed.
Print Assumptions C03_link_files_keep_their_own_species.

(* verdict on the extracted tables: the round trip of every shape and kind, or its refutation *)
Theorem C03_link_verdict_on_extracted_tables :
  (facts = facts_of true /\
   forall n L m v, NoDup L -> fits n L m v ->
     exists ps, patches_by_case facts L m v = inl ps /\
                forall g, reads_patches m ps g -> read_by_case facts L m g = canon L m v)
  \/
  (facts = facts_of false /\
   patches_by_case facts [0; 4] ts_req (FSp [(0, one); (4, two)]) = inr EIndexBound /\
   exists g, read_by_case facts [0; 1] ts_req g = FSp [(0, one); (1, fill_of F64)]).
Proof.
  first [ left; split; [reflexivity |];
          intros n L m v HL Hfit; change facts with (facts_of true);
          destruct (roundtrip_field n L m v HL Hfit) as (ps & Hps & Hrd);
          exists ps; split; [rewrite <- field_patches_by_case; exact Hps
                            | intros g Hg; rewrite <- read_field_by_case; now apply Hrd]
        | right; split; [reflexivity | split; [reflexivity |]];
          exists (fun s _ => match s with O => CScal one | _ => CScal (fill_of F64) end); reflexivity ].
Qed.
Print Assumptions C03_link_verdict_on_extracted_tables.

(* C12_Link — obligations stated on the Gallina text regenerated from /repo on THIS run (Gen.C12_Extracted):
   (1) `Extracted = Model` for every kernel that has both texts (so the theorems of props/C12_Props.v speak
       about the code as it is now), (2) the property laws re-proved directly on the extracted text.
   Compiled in build/C12/gen.  A changed constant, formula, comparison or branch order breaks one of these. *)
From Coq Require Import ZArith Reals Lra Lia Bool List String.
From Coq Require PrimFloat.
From AV Require Import lib.Num lib.FloatMath model.C12_Base model.C12_Model proofs.C12_ISA proofs.C12_Proofs proofs.C12_MEEM.
From Gen Require C12_Extracted.
Module X := C12_Extracted.
Import ListNotations.
Local Open Scope R_scope.

(* equality of two real expressions with the same operator tree, leaves closed by linear / ring arithmetic *)
Ltac eqr :=
  first [ reflexivity | lra | ring
        | match goal with
          | |- ?f _ = ?f _ => f_equal; eqr
          | |- ?f _ _ = ?f _ _ => f_equal; eqr
          end ].

(* ---- constants -------------------------------------------------------------------------------------- *)
Theorem C12_link_constants :
  @X.T0 RNum = @c_T0 RNum /\ @X.p0 RNum = @c_p0 RNum /\ @X.g0 RNum = @c_g0 RNum /\ @X.R_air RNum = @c_R RNum /\
  @X.kappa RNum = @c_kappa RNum /\ @X.beta_tropo RNum = @c_beta RNum /\ @X.h_p_tropo RNum = @c_htrop RNum /\
  @X.MW_S RNum = @mw_S RNum /\ @X.MW_SO2 RNum = @mw_SO2 RNum /\ @X.MW_SO4 RNum = @mw_SO4 RNum /\
  @X.sls_default_z RNum = 19 / 5 /\ @X.sls_default_P_SL RNum = @c_p0 RNum /\ @X.sls_default_T_SL RNum = @c_T0 RNum /\
  @X.sls_default_n_eng RNum = 2 /\ @X.hcco_ACRP_slope RNum = - 52 /\
  @X.a0 RNum = 340294 / 1000 /\ @X.rho0 RNum = 1225 / 1000 /\ @X.R_E RNum = 6378100.
Proof.
  unfold X.T0, X.p0, X.g0, X.R_air, X.kappa, X.beta_tropo, X.h_p_tropo, X.MW_S, X.MW_SO2, X.MW_SO4,
    X.sls_default_z, X.sls_default_P_SL, X.sls_default_T_SL, X.sls_default_n_eng, X.hcco_ACRP_slope,
    X.a0, X.rho0, X.R_E,
    c_T0, c_p0, c_g0, c_R, c_kappa, c_beta, c_htrop, mw_S, mw_SO2, mw_SO4.
  rn. repeat split; lra. Qed.
Print Assumptions C12_link_constants.

(* ---- ISA ---------------------------------------------------------------------------------------------- *)
Lemma x_isa_T (h : R) : @X.temperature_at_altitude_isa_bada4 RNum h =
  Tg (@X.T0 RNum) (@X.beta_tropo RNum) (@X.h_p_tropo RNum) h.
Proof. reflexivity. Qed.
Lemma x_isa_p (h : R) : @X.pressure_at_altitude_isa_bada4 RNum h =
  Pg (@X.T0 RNum) (@X.p0 RNum) (@X.g0 RNum) (@X.R_air RNum) (@X.beta_tropo RNum) (@X.h_p_tropo RNum) h.
Proof. reflexivity. Qed.
Lemma x_isa_h (p : R) : @X.altitude_from_pressure_isa_bada4 RNum p =
  Hg (@X.T0 RNum) (@X.p0 RNum) (@X.g0 RNum) (@X.R_air RNum) (@X.beta_tropo RNum) (@X.h_p_tropo RNum) p.
Proof. unfold X.altitude_from_pressure_isa_bada4, X.temperature_at_altitude_isa_bada4, Hg, isa_altitude_g, isa_ptrop_g.
  rn. match goal with |- context [Rleb ?a ?a] => rewrite (proj2 (Rleb_true a a) (Rle_refl a)) end. reflexivity. Qed.

Lemma x_signs : 0 < @X.T0 RNum /\ 0 < @X.p0 RNum /\ 0 < @X.g0 RNum /\ 0 < @X.R_air RNum /\ @X.beta_tropo RNum < 0 /\
  0 < @X.T0 RNum + @X.beta_tropo RNum * @X.h_p_tropo RNum.
Proof. unfold X.T0, X.p0, X.g0, X.R_air, X.beta_tropo, X.h_p_tropo. rn. repeat split; lra. Qed.

Theorem C12_link_isa_inverse :
  (forall h : R, @X.altitude_from_pressure_isa_bada4 RNum (@X.pressure_at_altitude_isa_bada4 RNum h) = h) /\
  (forall p : R, 0 < p -> @X.pressure_at_altitude_isa_bada4 RNum (@X.altitude_from_pressure_isa_bada4 RNum p) = p).
Proof. destruct x_signs as (A & B & C & D & E & F). split; intros.
  - rewrite x_isa_p, x_isa_h. apply altitude_of_pressure_of_altitude; assumption.
  - rewrite x_isa_h, x_isa_p. apply pressure_of_altitude_of_pressure; assumption. Qed.
Print Assumptions C12_link_isa_inverse.

Theorem C12_link_isa_continuous :
  continuity_pt (@X.temperature_at_altitude_isa_bada4 RNum) (@X.h_p_tropo RNum) /\
  continuity_pt (@X.pressure_at_altitude_isa_bada4 RNum) (@X.h_p_tropo RNum).
Proof. destruct x_signs as (A & B & C & D & E & F). split.
  - apply temperature_continuous_at_tropopause.
  - apply pressure_continuous_at_tropopause; assumption. Qed.
Print Assumptions C12_link_isa_continuous.

Theorem C12_link_isa_is_model :
  (forall h : R, @X.temperature_at_altitude_isa_bada4 RNum h = @isa_temperature RNum h) /\
  (forall h : R, @X.pressure_at_altitude_isa_bada4 RNum h = @isa_pressure RNum h) /\
  (forall p : R, @X.altitude_from_pressure_isa_bada4 RNum p = @isa_altitude RNum p).
Proof. destruct C12_link_constants as (E1 & E2 & E3 & E4 & _ & E6 & E7 & _).
  split; [ | split]; [intros; rewrite x_isa_T | intros; rewrite x_isa_p | intros; rewrite x_isa_h];
  rewrite ?E1, ?E2, ?E3, ?E4, ?E6, ?E7; reflexivity. Qed.
Print Assumptions C12_link_isa_is_model.

(* ---- SOx ------------------------------------------------------------------------------------------------ *)
Theorem C12_link_sox_sulfur_conserved :
  forall fsc eps : R,
    let '(sx, so2, so4) := @X.EI_SOx RNum fsc eps in
    so2 * @X.MW_S RNum / @X.MW_SO2 RNum + so4 * @X.MW_S RNum / @X.MW_SO4 RNum = fsc / 1000 /\ sx = so2 + so4.
Proof. intros. unfold X.EI_SOx, X.MW_S, X.MW_SO2, X.MW_SO4. rn. split; [field | reflexivity]. Qed.
Print Assumptions C12_link_sox_sulfur_conserved.

Theorem C12_link_sox_is_model : forall fsc eps : R, @X.EI_SOx RNum fsc eps = @sox RNum fsc eps.
Proof. intros. unfold X.EI_SOx, X.MW_S, X.MW_SO2, X.MW_SO4, sox, mw_S, mw_SO2, mw_SO4. rn. reflexivity. Qed.
Print Assumptions C12_link_sox_is_model.

(* ---- Fuel Flow Method 2 ---------------------------------------------------------------------------------- *)
Theorem C12_link_ffm2_is_model :
  forall ff P Ta M z PSL TSL n : R,
    @X.get_SLS_equivalent_fuel_flow RNum ff P Ta M z PSL TSL n = @ffm2 RNum ff P Ta M z PSL TSL n.
Proof. intros. unfold X.get_SLS_equivalent_fuel_flow, ffm2. rn. simpl. eqr. Qed.
Print Assumptions C12_link_ffm2_is_model.

Theorem C12_link_ffm2_linear :
  forall k f1 f2 P Ta M z PSL TSL n : R,
    @X.get_SLS_equivalent_fuel_flow RNum (k * f1) P Ta M z PSL TSL n =
      k * @X.get_SLS_equivalent_fuel_flow RNum f1 P Ta M z PSL TSL n /\
    @X.get_SLS_equivalent_fuel_flow RNum (f1 + f2) P Ta M z PSL TSL n =
      @X.get_SLS_equivalent_fuel_flow RNum f1 P Ta M z PSL TSL n + @X.get_SLS_equivalent_fuel_flow RNum f2 P Ta M z PSL TSL n.
Proof. intros. rewrite !C12_link_ffm2_is_model. split; [apply ffm2_scales | apply ffm2_additive]. Qed.
Print Assumptions C12_link_ffm2_linear.

(* ---- thrust categories ------------------------------------------------------------------------------------ *)
Theorem C12_link_thrust_cat_is_model :
  forall ff a b c d : R, @X.get_thrust_cat_cruise RNum ff a b c d = @thrust_cat RNum ff (a, b, c, d).
Proof. intros. reflexivity. Qed.
Print Assumptions C12_link_thrust_cat_is_model.

Theorem C12_link_thrust_cat_monotone :
  forall f1 f2 a b c d : R, f1 <= f2 ->
    (mode_rank (@X.get_thrust_cat_cruise RNum f1 a b c d) <= mode_rank (@X.get_thrust_cat_cruise RNum f2 a b c d))%Z.
Proof. intros. rewrite !C12_link_thrust_cat_is_model. apply thrust_cat_monotone. assumption. Qed.
Print Assumptions C12_link_thrust_cat_monotone.

(* ---- NOx pieces --------------------------------------------------------------------------------------------- *)
Theorem C12_link_nox_speciation :
  let '(pno, pno2, phono) := @X.NOx_speciation RNum in
  forall m, (@tget RNum pno m, @tget RNum pno2 m, @tget RNum phono m) = @speciation RNum m /\
            @tget RNum pno m + @tget RNum pno2 m + @tget RNum phono m = 1.
Proof. unfold X.NOx_speciation. rn. intros m. destruct m; unfold speciation, tget; rn; split; try lra;
  (apply f_equal2; [apply f_equal2 | ]; lra). Qed.
Print Assumptions C12_link_nox_speciation.

Theorem C12_link_nox_pieces :
  (forall f : R, @X.nox_clamp_cal RNum f = @clamp_ff RNum f) /\
  (forall f : R, @X.nox_clamp_eval RNum f = @clamp_ff RNum f) /\
  (forall f : R, @X.nox_log RNum f = @log10 RNum f) /\
  (forall x s i : R, @X.nox_line RNum x s i = @pow10 RNum (x * s + i)) /\
  (forall Ta P sl : R, @X.nox_ambient RNum Ta P sl = sl * @nox_ambient_factor RNum Ta P).
Proof. split; [ | split; [ | split; [ | split]]]; intros.
  - unfold X.nox_clamp_cal, clamp_ff. rn. replace (0 / 1) with 0 by lra. reflexivity.
  - unfold X.nox_clamp_eval, clamp_ff. rn. replace (0 / 1) with 0 by lra. reflexivity.
  - unfold X.nox_log, log10, ten. rn. reflexivity.
  - unfold X.nox_line, pow10, ten. rn. reflexivity.
  - unfold X.nox_ambient, nox_ambient_factor, humidity_omega, sat_beta, log10, pow10, ten, c_T0, c_p0. rn. reflexivity. Qed.
Print Assumptions C12_link_nox_pieces.

(* ---- HC / CO pieces --------------------------------------------------------------------------------------- *)
Theorem C12_link_hcco_pieces :
  (forall Ta P : R, @X.hcco_cruise_factor RNum Ta P = @hcco_cruise RNum Ta P) /\
  (forall ff fI : R, @acrp_factor RNum ff fI = if Rlt_dec ff fI then 1 + @X.hcco_ACRP_slope RNum * (ff - fI) else 1).
Proof. split; intros.
  - unfold X.hcco_cruise_factor, hcco_cruise, c_T0, c_p0. rn. reflexivity.
  - unfold acrp_factor, X.hcco_ACRP_slope. rn. unfold Rltb. destruct (Rlt_dec ff fI); lra. Qed.
Print Assumptions C12_link_hcco_pieces.

(* ---- volatile PM --------------------------------------------------------------------------------------------- *)
Theorem C12_link_pmvol_is_model :
  (forall (ff : R) m, @X.EI_PMvol_FuelFlow RNum ff m = @pmvol_fuelflow RNum m) /\
  (forall t hc : R, @X.EI_PMvol_FOA3 RNum t hc = @pmvol_foa3 RNum t hc).
Proof. split; intros.
  - unfold X.EI_PMvol_FuelFlow, pmvol_fuelflow. rn. destruct (mode_eqb m Idle); reflexivity.
  - unfold X.EI_PMvol_FOA3, pmvol_foa3, foa3_nodes. rn. reflexivity. Qed.
Print Assumptions C12_link_pmvol_is_model.

(* ---- SCOPE11 ------------------------------------------------------------------------------------------------- *)
Theorem C12_link_scope11_is_model :
  @X.scope11_AFR RNum = (@afr RNum Idle, @afr RNum Approach, @afr RNum Climb, @afr RNum Takeoff) /\
  (forall (sn : R) m (bpr : R) et, @X.scope11_mode RNum sn (@afr RNum m) bpr et = @scope11_mode RNum sn m bpr et).
Proof. split; [reflexivity | ]. intros.
  unfold X.scope11_mode, scope11_mode, scope11_Q, scope11_kslm, scope11_cbc.
  destruct (String.eqb et "MTF"); [ | destruct (String.eqb et "TF")]; rn; replace (0 / 1) with 0 by lra;
  (destruct (Reqb sn (- (1 / 1)) || Reqb sn 0); [lra | ]); eqr. Qed.
Print Assumptions C12_link_scope11_is_model.

Theorem C12_link_scope11_nonneg :
  forall (sn : R) m (bpr : R) et, 0 <= bpr -> 0 <= @X.scope11_mode RNum sn (@afr RNum m) bpr et.
Proof. intros. destruct C12_link_scope11_is_model as [_ E]. rewrite E. apply scope11_mode_nonneg. assumption. Qed.
Print Assumptions C12_link_scope11_nonneg.

(* ---- atmosphere helpers and the per-trajectory atmospheric state ---------------------------------------------- *)
Theorem C12_link_atmos_state :
  (forall h tas : R, @X.atmos_state_init RNum h tas = @atmos_state RNum h tas) /\
  (* the state pressure inverts back to the altitude, at every altitude *)
  (forall h tas : R, let '(Ts, Ps, Ms) := @X.atmos_state_init RNum h tas in @isa_altitude RNum Ps = h) /\
  (* above the tropopause: constant temperature, pressure strictly below the tropopause value and strictly falling *)
  (forall h tas : R, @c_htrop RNum < h ->
     let '(Ts, Ps, Ms) := @X.atmos_state_init RNum h tas in
     Ts = @c_T0 RNum + @c_beta RNum * @c_htrop RNum /\ Ps < @isa_ptrop RNum) /\
  (forall h1 h2 tas : R, @c_htrop RNum < h1 -> h1 < h2 ->
     snd (fst (@X.atmos_state_init RNum h2 tas)) < snd (fst (@X.atmos_state_init RNum h1 tas))).
Proof.
  destruct C12_link_isa_is_model as (ET & EP & _). destruct C12_link_constants as (_ & _ & _ & E4 & E5 & _).
  assert (E : forall h tas : R, @X.atmos_state_init RNum h tas = @atmos_state RNum h tas).
  { intros. unfold X.atmos_state_init, atmos_state. rewrite ET, EP, E4, E5. reflexivity. }
  split; [exact E | split; [ | split]]; intros.
  - rewrite E. unfold atmos_state. apply isa_altitude_of_pressure.
  - rewrite E. unfold atmos_state. apply isa_stratosphere. assumption.
  - rewrite !E. unfold atmos_state. simpl. apply isa_stratosphere_decreasing; assumption. Qed.
Print Assumptions C12_link_atmos_state.

Theorem C12_link_atmos_helpers :
  (forall Tk : R, @X.calculate_speed_of_sound RNum Tk = sqrt (7 / 5 * (5741 / 20) * Tk)) /\
  (forall h : R, @X.speed_of_sound_at_altitude RNum h = @X.calculate_speed_of_sound RNum (@isa_temperature RNum h)) /\
  (forall p Tk : R, @X.calculate_air_density RNum p Tk = p / (@c_R RNum * Tk)) /\
  (* ideal gas: rho R T = p *)
  (forall p Tk : R, 0 < Tk -> @X.calculate_air_density RNum p Tk * (@c_R RNum * Tk) = p).
Proof. destruct C12_link_isa_is_model as (ET & _). destruct C12_link_constants as (_ & _ & _ & E4 & _).
  split; [ | split; [ | split]]; intros.
  - unfold X.calculate_speed_of_sound. rn. reflexivity.
  - unfold X.speed_of_sound_at_altitude. rewrite ET. reflexivity.
  - unfold X.calculate_air_density. rewrite E4. rn. reflexivity.
  - unfold X.calculate_air_density. rewrite E4. pose proof c_R_pos. asR (@c_R RNum) r. rn. field. split; lra. Qed.
Print Assumptions C12_link_atmos_helpers.

(* ---- MEEM: every elementwise statement of PMnvol_MEEM = the corresponding piece of the model ----------------- *)
Theorem C12_link_meem_pieces :
  (forall r : R, @X.meem_eta RNum r = @meem_eta_rate RNum r) /\
  (forall h hmax : R, @X.meem_lin RNum h hmax = @meem_lin RNum hmax h) /\
  (forall r l : R, @X.meem_pc RNum r l = @meem_pc_rate RNum r l) /\
  (forall Ta M : R, @X.meem_Tt RNum Ta M = @meem_Tt RNum Ta M) /\
  (forall P M : R, @X.meem_Pt RNum P M = @meem_Pt RNum P M) /\
  (forall P M pc pr : R, @X.meem_P3 RNum (@meem_Pt RNum P M) pc pr = @meem_P3 RNum P M pc pr) /\
  (forall Ta P M pc pr eta : R,
     @X.meem_T3 RNum (@meem_Tt RNum Ta M) eta (@meem_P3 RNum P M pc pr) (@meem_Pt RNum P M) = @meem_T3 RNum Ta P M pc pr eta) /\
  (forall T3 eta : R, @X.meem_P3ref RNum T3 eta = @meem_P3ref RNum T3 eta) /\
  (forall p3r pr : R, @X.meem_F RNum p3r pr = @meem_F RNum p3r pr) /\
  (forall ref P3 P3r : R, @X.meem_EI_mass RNum ref P3 P3r = @meem_adjust RNum ref P3 P3r) /\
  (forall rn em rm : R, @X.meem_EI_num RNum rn em rm = @meem_number RNum rn em rm).
Proof. destruct C12_link_constants as (E1 & E2 & _ & _ & E5 & _).
  split; [ | split; [ | split; [ | split; [ | split; [ | split; [ | split; [ | split; [ | split; [ | split]]]]]]]]]; intros.
  - unfold X.meem_eta, meem_eta_rate. rn. replace (0 / 1) with 0 by lra. reflexivity.
  - unfold X.meem_lin, meem_lin. rn. reflexivity.
  - unfold X.meem_pc, meem_pc_rate. rn. replace (0 / 1) with 0 by lra. reflexivity.
  - unfold X.meem_Tt, meem_Tt, meem_stag. rewrite E5. unfold npow_nat. rn. eqr.
  - unfold X.meem_Pt, meem_Pt, meem_stag. rewrite E5. unfold npow_nat. rn. eqr.
  - unfold X.meem_P3, meem_P3. rn. reflexivity.
  - unfold X.meem_T3, meem_T3. rewrite E5. rn. reflexivity.
  - unfold X.meem_P3ref, meem_P3ref. rewrite E1, E2, E5. rn. reflexivity.
  - unfold X.meem_F, meem_F. rewrite E2. rn. reflexivity.
  - unfold X.meem_EI_mass, meem_adjust. rn. reflexivity.
  - unfold X.meem_EI_num, meem_number. rn. reflexivity. Qed.
Print Assumptions C12_link_meem_pieces.

Theorem C12_link_meem_tables :
  @X.meem_GMD_mode RNum = map (@gmd_mode RNum) all_modes /\ @X.meem_AFR_mode RNum = map (@afr RNum) all_modes /\
  (forall (v : tm) (vmax : R), @X.meem_tgrid_0 RNum = map fst (@meem_grid RNum v vmax NoMax) /\
                               @X.meem_tgrid_1 RNum = map fst (@meem_grid RNum v vmax Max575) /\
                               @X.meem_tgrid_2 RNum = map fst (@meem_grid RNum v vmax Max925) /\
                               @X.meem_t_GMD RNum = map fst (@meem_grid RNum v vmax NoMax)).
Proof. split; [reflexivity | split; [reflexivity | ]]. intros [[[a0 a1] a2] a3] vmax. repeat split; reflexivity. Qed.
Print Assumptions C12_link_meem_tables.

Theorem C12_link_meem_reconstruction :
  (forall (sn : R) m (bpr : R) et,
     @X.meem_recon_mass RNum sn (@afr RNum m) bpr et =
     @meem_recon_mass RNum sn m (if String.eqb et "MTF" then bpr else @zero RNum)) /\
  (forall (mv : R) m, @X.meem_recon_num RNum mv (@gmd_mode RNum m) = @meem_recon_num RNum mv m).
Proof. split; intros.
  - unfold X.meem_recon_mass, meem_recon_mass, scope11_cbc, scope11_kslm. destruct (String.eqb et "MTF"); rn;
    replace (0 / 1) with 0 by lra; reflexivity.
  - unfold X.meem_recon_num, meem_recon_num, c_pi. rn. reflexivity. Qed.
Print Assumptions C12_link_meem_reconstruction.

(* the laws, restated on the extracted text *)
Theorem C12_link_meem_laws :
  (forall k ref P3 P3r : R, @X.meem_EI_mass RNum (k * ref) P3 P3r = k * @X.meem_EI_mass RNum ref P3 P3r) /\
  (forall ref P3 P3r : R, 0 < ref -> 0 < @X.meem_EI_mass RNum ref P3 P3r) /\
  (forall rn ref P3 P3r : R, 0 < ref ->
     @X.meem_EI_num RNum rn (@X.meem_EI_mass RNum ref P3 P3r) ref =
     rn * (@npow RNum (P3 / P3r) (@q RNum 27 20) * @npow RNum (@q RNum 11 10) (@q RNum 5 2))) /\
  (forall P M pc pr : R, 0 < P -> 0 <= pc -> 1 < pr -> 0 < @X.meem_P3 RNum (@X.meem_Pt RNum P M) pc pr) /\
  (forall T3 eta : R, 0 < @X.meem_P3ref RNum T3 eta).
Proof. destruct C12_link_meem_pieces as (_ & _ & _ & _ & EPt & EP3 & _ & EP3r & _ & EM & EN).
  split; [ | split; [ | split; [ | split]]]; intros.
  - rewrite !EM. apply meem_adjust_scales.
  - rewrite EM. apply meem_adjust_pos. assumption.
  - rewrite EM, EN. unfold meem_number. apply meem_number_index. assumption.
  - rewrite EPt, EP3. apply meem_P3_pos; assumption.
  - rewrite EP3r. apply meem_P3ref_pos. Qed.
Print Assumptions C12_link_meem_laws.

Import PrimFloat.
(* ================================================================================================ *)
(* binary64 side: the extracted text and the hand model EVALUATE to the same doubles on a fixed,       *)
(* stated table of inputs.  This is a test executed by the kernel (vm_compute), not a theorem for all   *)
(* inputs; the full-range binary64 tie is the per-run correspondence of harness/c12.py.                *)
(* ================================================================================================ *)
Definition tab_h : list PrimFloat.float := [(0x0.0p+0)%float; (0x1.c933333333333p+9)%float; (0x1.3880000000000p+12)%float; (0x1.57bffdf3b645ap+13)%float; (0x1.57c0000000000p+13)%float; (0x1.57c0020c49ba6p+13)%float; (0x1.d4c0000000000p+13)%float; (0x1.3882000000000p+14)%float; (0x1.86a0000000000p+14)%float].
Definition tab_p : list PrimFloat.float := [(0x1.8bcd000000000p+16)%float; (0x1.a607ccccccccdp+15)%float; (0x1.61a0290eaa6cdp+14)%float; (0x1.61a028f5c28f6p+14)%float; (0x1.7864ccccccccdp+13)%float; (0x1.3713333333333p+11)%float].
Definition tab_amb : list (PrimFloat.float * PrimFloat.float) := [((0x1.2026666666666p+8)%float, (0x1.8bcd000000000p+16)%float); ((0x1.ff4cccccccccdp+7)%float, (0x1.a607ccccccccdp+15)%float); ((0x1.b14cccccccccdp+7)%float, (0x1.61a028f5c28f6p+14)%float); ((0x1.b14cccccccccdp+7)%float, (0x1.562e666666666p+12)%float); ((0x1.cc00000000000p+7)%float, (0x1.d4c0000000000p+14)%float); ((0x1.2d4cccccccccdp+8)%float, (0x1.82b8000000000p+16)%float)].
Definition tab_ff : list PrimFloat.float := [(0x0.0p+0)%float; (-0x1.0000000000000p-1)%float; (0x1.47ae147ae147bp-7)%float; (0x1.acd9e83e425afp-4)%float; (0x1.3333333333333p-2)%float; (0x1.c3bcd35a85879p-1)%float; (0x1.8000000000000p+0)%float; (0x1.6000000000000p+1)%float].
Definition tab_cal : list (PrimFloat.float * PrimFloat.float * PrimFloat.float * PrimFloat.float) := [((0x1.999999999999ap-3)%float, (0x1.3333333333333p-1)%float, (0x1.8000000000000p+0)%float, (0x1.0000000000000p+1)%float); ((0x1.999999999999ap-2)%float, (0x1.999999999999ap-2)%float, (0x1.3333333333333p+0)%float, (0x1.ccccccccccccdp+0)%float); ((0x1.0000000000000p+0)%float, (0x1.3333333333333p-2)%float, (0x1.3333333333333p-2)%float, (0x1.0000000000000p+1)%float); ((0x1.0000000000000p-1)%float, (0x1.0000000000000p-1)%float, (0x1.0000000000000p-1)%float, (0x1.0000000000000p-1)%float)].
Definition tab_sox : list (PrimFloat.float * PrimFloat.float) := [((0x1.2c00000000000p+9)%float, (0x1.47ae147ae147bp-6)%float); ((0x0.0p+0)%float, (0x0.0p+0)%float); ((0x1.34a0000000000p+10)%float, (0x1.7ae147ae147aep-2)%float); ((0x1.7700000000000p+11)%float, (0x1.0000000000000p+0)%float)].
Definition tab_ffm2 : list (PrimFloat.float * float * PrimFloat.float * PrimFloat.float * PrimFloat.float) := [((0x1.ccccccccccccdp-1)%float, (0x1.61a028f5c28f6p+14)%float, (0x1.b14cccccccccdp+7)%float, (0x1.8f5c28f5c28f6p-1)%float, (0x1.0000000000000p+1)%float); ((0x0.0p+0)%float, (0x1.8bcd000000000p+16)%float, (0x1.2026666666666p+8)%float, (0x0.0p+0)%float, (0x1.0000000000000p+1)%float); ((0x1.199999999999ap+1)%float, (0x1.a607ccccccccdp+15)%float, (0x1.ff4cccccccccdp+7)%float, (0x1.0000000000000p-1)%float, (0x1.0000000000000p+2)%float); ((0x1.199999999999ap+0)%float, (0x1.3713333333333p+11)%float, (0x1.b14cccccccccdp+7)%float, (0x1.e666666666666p-1)%float, (0x1.0000000000000p+0)%float)].
Definition tab_line : list (PrimFloat.float * PrimFloat.float * PrimFloat.float) := [((-0x1.0000000000000p-1)%float, (-0x1.3333333333333p-2)%float, (0x1.6666666666666p+0)%float); ((0x1.999999999999ap-4)%float, (0x1.0000000000000p-2)%float, (0x1.3333333333333p+0)%float); ((-0x1.0000000000000p+1)%float, (0x0.0p+0)%float, (0x1.ccccccccccccdp-1)%float)].
Definition tab_thr : list PrimFloat.float := [(0x0.0p+0)%float; (0x1.4000000000000p+2)%float; (0x1.c000000000000p+2)%float; (0x1.2800000000000p+4)%float; (0x1.e000000000000p+4)%float; (0x1.c800000000000p+5)%float; (0x1.5400000000000p+6)%float; (0x1.8c00000000000p+6)%float; (0x1.9000000000000p+6)%float; (0x1.e000000000000p+6)%float].
Definition tab_sn : list PrimFloat.float := [(-0x1.0000000000000p+0)%float; (0x0.0p+0)%float; (0x1.999999999999ap-2)%float; (0x1.883126e978d50p+1)%float; (0x1.9000000000000p+3)%float; (0x1.4000000000000p+5)%float; (0x1.6800000000000p+5)%float].
Definition tab_rate : list PrimFloat.float := [(-0x1.e000000000000p+6)%float; (0x0.0p+0)%float; (0x1.5e80000000000p+8)%float].
Definition tab_alt : list (PrimFloat.float * PrimFloat.float) := [((0x1.f400000000000p+9)%float, (0x1.57c0000000000p+13)%float); ((0x1.7700000000000p+11)%float, (0x1.57c0000000000p+13)%float); ((0x1.f400000000000p+12)%float, (0x1.7700000000000p+13)%float); ((0x1.f400000000000p+9)%float, (0x1.3880000000000p+11)%float); ((0x1.7700000000000p+13)%float, (0x1.7700000000000p+13)%float)].
Definition tab_mach : list PrimFloat.float := [(0x0.0p+0)%float; (0x1.3333333333333p-2)%float; (0x1.8f5c28f5c28f6p-1)%float; (0x1.ccccccccccccdp-1)%float].

Definition uncurry2 {A B C} (f : A -> B -> C) (p : A * B) : C := f (fst p) (snd p).
Definition cal4 {A} (f : float -> float -> float -> float -> A) (c : float * PrimFloat.float * PrimFloat.float * PrimFloat.float) : A :=
  let '(a, b, c', d) := c in f a b c' d.

Theorem C12_link_binary64_evaluation_table :
  (* ISA + atmospheric state *)
  map (@X.temperature_at_altitude_isa_bada4 FNum) tab_h = map (@isa_temperature FNum) tab_h /\
  map (@X.pressure_at_altitude_isa_bada4 FNum) tab_h = map (@isa_pressure FNum) tab_h /\
  map (@X.altitude_from_pressure_isa_bada4 FNum) tab_p = map (@isa_altitude FNum) tab_p /\
  map (fun h => @X.atmos_state_init FNum h (0x1.cc00000000000p+7)%float) tab_h = map (fun h => @atmos_state FNum h (0x1.cc00000000000p+7)%float) tab_h /\
  (* SOx, FFM2 (with the extracted default arguments), thrust categories *)
  map (uncurry2 (@X.EI_SOx FNum)) tab_sox = map (uncurry2 (@sox FNum)) tab_sox /\
  map (fun x => let '(ff, P, Ta, M, n) := x in
         @X.get_SLS_equivalent_fuel_flow FNum ff P Ta M (@X.sls_default_z FNum) (@X.sls_default_P_SL FNum) (@X.sls_default_T_SL FNum) n) tab_ffm2
    = map (fun x => let '(ff, P, Ta, M, n) := x in @ffm2_std FNum ff P Ta M n) tab_ffm2 /\
  map (fun c => map (fun ff => cal4 (@X.get_thrust_cat_cruise FNum ff) c) tab_ff) tab_cal
    = map (fun c => map (fun ff => @thrust_cat FNum ff c) tab_ff) tab_cal /\
  (* NOx pieces, speciation, HC/CO cruise factor *)
  map (@X.nox_clamp_cal FNum) tab_ff = map (@clamp_ff FNum) tab_ff /\
  map (@X.nox_clamp_eval FNum) tab_ff = map (@clamp_ff FNum) tab_ff /\
  map (fun f => @X.nox_log FNum (@X.nox_clamp_eval FNum f)) tab_ff = map (fun f => @log10 FNum (@clamp_ff FNum f)) tab_ff /\
  map (fun x => let '(a, b, c) := x in @X.nox_line FNum a b c) tab_line
    = map (fun x => let '(a, b, c) := x in @pow10 FNum (a * b + c)%float) tab_line /\
  map (fun x => @X.nox_ambient FNum (fst x) (snd x) (0x1.4p+4)%float) tab_amb
    = map (fun x => (0x1.4p+4 * @nox_ambient_factor FNum (fst x) (snd x))%float) tab_amb /\
  (let '(pno, pno2, phono) := @X.NOx_speciation FNum in
   map (fun m => (@tget FNum pno m, @tget FNum pno2 m, @tget FNum phono m)) all_modes) = map (@speciation FNum) all_modes /\
  map (uncurry2 (@X.hcco_cruise_factor FNum)) tab_amb = map (uncurry2 (@hcco_cruise FNum)) tab_amb /\
  (* volatile PM, SCOPE11 *)
  map (@X.EI_PMvol_FuelFlow FNum 1%float) all_modes = map (@pmvol_fuelflow FNum) all_modes /\
  map (fun t => @X.EI_PMvol_FOA3 FNum t (0x1.8p+1)%float) tab_thr = map (fun t => @pmvol_foa3 FNum t (0x1.8p+1)%float) tab_thr /\
  map (fun et => map (fun m => map (fun sn => @X.scope11_mode FNum sn (@afr FNum m) (0x1.4p+2)%float et) tab_sn) all_modes) ["MTF"; "TF"; "TP"]%string
    = map (fun et => map (fun m => map (fun sn => @scope11_mode FNum sn m (0x1.4p+2)%float et) tab_sn) all_modes) ["MTF"; "TF"; "TP"]%string /\
  (* MEEM pieces *)
  map (@X.meem_eta FNum) tab_rate = map (@meem_eta_rate FNum) tab_rate /\
  map (fun x => @X.meem_lin FNum (fst x) (snd x)) tab_alt = map (fun x => @meem_lin FNum (snd x) (fst x)) tab_alt /\
  map (fun r => map (fun x => @X.meem_pc FNum r (@X.meem_lin FNum (fst x) (snd x))) tab_alt) tab_rate
    = map (fun r => map (fun x => @meem_pc_rate FNum r (@meem_lin FNum (snd x) (fst x))) tab_alt) tab_rate /\
  map (fun M => map (fun x => (@X.meem_Tt FNum (fst x) M, @X.meem_Pt FNum (snd x) M)) tab_amb) tab_mach
    = map (fun M => map (fun x => (@meem_Tt FNum (fst x) M, @meem_Pt FNum (snd x) M)) tab_amb) tab_mach /\
  map (fun M => map (fun x =>
         let Pt := @X.meem_Pt FNum (snd x) M in let P3 := @X.meem_P3 FNum Pt (0x1.e666666666666p-1)%float (0x1.9p+4)%float in
         let T3 := @X.meem_T3 FNum (@X.meem_Tt FNum (fst x) M) (0x1.c28f5c28f5c29p-1)%float P3 Pt in
         let P3r := @X.meem_P3ref FNum T3 (0x1.c28f5c28f5c29p-1)%float in
         (P3, T3, P3r, @X.meem_F FNum P3r (0x1.9p+4)%float, @X.meem_EI_mass FNum (0x1.4p+3)%float P3 P3r,
          @X.meem_EI_num FNum (0x1.c6bf52634p+49)%float (@X.meem_EI_mass FNum (0x1.4p+3)%float P3 P3r) (0x1.4p+3)%float)) tab_amb) tab_mach
    = map (fun M => map (fun x =>
         let '(P3, P3r, F) := @meem_thermo FNum (0x1.9p+4)%float (0x1.e666666666666p-1)%float (0x1.c28f5c28f5c29p-1)%float (fst x) (snd x) M in
         (P3, @meem_T3 FNum (fst x) (snd x) M (0x1.e666666666666p-1)%float (0x1.9p+4)%float (0x1.c28f5c28f5c29p-1)%float, P3r, F,
          @meem_adjust FNum (0x1.4p+3)%float P3 P3r,
          @meem_number FNum (0x1.c6bf52634p+49)%float (@meem_adjust FNum (0x1.4p+3)%float P3 P3r) (0x1.4p+3)%float)) tab_amb) tab_mach /\
  map (fun et => map (fun m => map (fun sn => @X.meem_recon_mass FNum sn (@afr FNum m) (0x1.4p+2)%float et) tab_sn) all_modes) ["MTF"; "TF"]%string
    = map (fun et => map (fun m => map (fun sn => @meem_recon_mass FNum sn m (if String.eqb et "MTF" then (0x1.4p+2)%float else 0)%float) tab_sn) all_modes) ["MTF"; "TF"]%string /\
  map (fun m => @X.meem_recon_num FNum (0x1.9p+4)%float (@gmd_mode FNum m)) all_modes = map (@meem_recon_num FNum (0x1.9p+4)%float) all_modes.
Proof. vm_compute. repeat split. Qed.
Print Assumptions C12_link_binary64_evaluation_table.

From AV Require Import lib.Num model.C12_Base model.C12_Model.
From Gen Require Import C12_Extracted.

(* C12_Link — obligations stated on the Gallina text regenerated from /repo on THIS run (Gen.C12_Extracted):
   (1) `Extracted = Model` for every kernel that has both texts (so the theorems of props/C12_Props.v speak
       about the code as it is now), (2) the property laws re-proved directly on the extracted text.
   Compiled in build/C12/gen.  A changed constant, formula, comparison or branch order breaks one of these. *)
From Coq Require Import ZArith Reals Lra Lia Bool List String.
From AV Require Import lib.Num lib.FloatMath model.C12_Base model.C12_Model proofs.C12_ISA proofs.C12_Proofs.
From Gen Require C12_Extracted.
Module X := C12_Extracted.
Import ListNotations.
Local Open Scope R_scope.

(* equality of two real expressions with the same operator tree, leaves closed by linear / ring arithmetic *)
Ltac eqr :=
  first [ reflexivity | lra | ring
        | match goal with
          | |- ?f _ = ?f _ => f_equal; eqr
          | |- ?f _ _ = ?f _ _ => f_equal; eqr
          end ].

(* ---- constants -------------------------------------------------------------------------------------- *)
Theorem C12_link_constants :
  @X.T0 RNum = @c_T0 RNum /\ @X.p0 RNum = @c_p0 RNum /\ @X.g0 RNum = @c_g0 RNum /\ @X.R_air RNum = @c_R RNum /\
  @X.kappa RNum = @c_kappa RNum /\ @X.beta_tropo RNum = @c_beta RNum /\ @X.h_p_tropo RNum = @c_htrop RNum /\
  @X.MW_S RNum = @mw_S RNum /\ @X.MW_SO2 RNum = @mw_SO2 RNum /\ @X.MW_SO4 RNum = @mw_SO4 RNum /\
  @X.sls_default_z RNum = 19 / 5 /\ @X.sls_default_P_SL RNum = @c_p0 RNum /\ @X.sls_default_T_SL RNum = @c_T0 RNum /\
  @X.sls_default_n_eng RNum = 2 /\ @X.hcco_ACRP_slope RNum = - 52 /\
  @X.a0 RNum = 340294 / 1000 /\ @X.rho0 RNum = 1225 / 1000 /\ @X.R_E RNum = 6378100.
Proof.
  unfold X.T0, X.p0, X.g0, X.R_air, X.kappa, X.beta_tropo, X.h_p_tropo, X.MW_S, X.MW_SO2, X.MW_SO4,
    X.sls_default_z, X.sls_default_P_SL, X.sls_default_T_SL, X.sls_default_n_eng, X.hcco_ACRP_slope,
    X.a0, X.rho0, X.R_E,
    c_T0, c_p0, c_g0, c_R, c_kappa, c_beta, c_htrop, mw_S, mw_SO2, mw_SO4.
  rn. repeat split; lra. Qed.
Print Assumptions C12_link_constants.

(* ---- ISA ---------------------------------------------------------------------------------------------- *)
Lemma x_isa_T (h : R) : @X.temperature_at_altitude_isa_bada4 RNum h =
  Tg (@X.T0 RNum) (@X.beta_tropo RNum) (@X.h_p_tropo RNum) h.
Proof. reflexivity. Qed.
Lemma x_isa_p (h : R) : @X.pressure_at_altitude_isa_bada4 RNum h =
  Pg (@X.T0 RNum) (@X.p0 RNum) (@X.g0 RNum) (@X.R_air RNum) (@X.beta_tropo RNum) (@X.h_p_tropo RNum) h.
Proof. reflexivity. Qed.
Lemma x_isa_h (p : R) : @X.altitude_from_pressure_isa_bada4 RNum p =
  Hg (@X.T0 RNum) (@X.p0 RNum) (@X.g0 RNum) (@X.R_air RNum) (@X.beta_tropo RNum) (@X.h_p_tropo RNum) p.
Proof. unfold X.altitude_from_pressure_isa_bada4, X.temperature_at_altitude_isa_bada4, Hg, isa_altitude_g, isa_ptrop_g.
  rn. match goal with |- context [Rleb ?a ?a] => rewrite (proj2 (Rleb_true a a) (Rle_refl a)) end. reflexivity. Qed.

Lemma x_signs : 0 < @X.T0 RNum /\ 0 < @X.p0 RNum /\ 0 < @X.g0 RNum /\ 0 < @X.R_air RNum /\ @X.beta_tropo RNum < 0 /\
  0 < @X.T0 RNum + @X.beta_tropo RNum * @X.h_p_tropo RNum.
Proof. unfold X.T0, X.p0, X.g0, X.R_air, X.beta_tropo, X.h_p_tropo. rn. repeat split; lra. Qed.

Theorem C12_link_isa_inverse :
  (forall h : R, @X.altitude_from_pressure_isa_bada4 RNum (@X.pressure_at_altitude_isa_bada4 RNum h) = h) /\
  (forall p : R, 0 < p -> @X.pressure_at_altitude_isa_bada4 RNum (@X.altitude_from_pressure_isa_bada4 RNum p) = p).
Proof. destruct x_signs as (A & B & C & D & E & F). split; intros.
  - rewrite x_isa_p, x_isa_h. apply altitude_of_pressure_of_altitude; assumption.
  - rewrite x_isa_h, x_isa_p. apply pressure_of_altitude_of_pressure; assumption. Qed.
Print Assumptions C12_link_isa_inverse.

Theorem C12_link_isa_continuous :
  continuity_pt (@X.temperature_at_altitude_isa_bada4 RNum) (@X.h_p_tropo RNum) /\
  continuity_pt (@X.pressure_at_altitude_isa_bada4 RNum) (@X.h_p_tropo RNum).
Proof. destruct x_signs as (A & B & C & D & E & F). split.
  - apply temperature_continuous_at_tropopause.
  - apply pressure_continuous_at_tropopause; assumption. Qed.
Print Assumptions C12_link_isa_continuous.

Theorem C12_link_isa_is_model :
  (forall h : R, @X.temperature_at_altitude_isa_bada4 RNum h = @isa_temperature RNum h) /\
  (forall h : R, @X.pressure_at_altitude_isa_bada4 RNum h = @isa_pressure RNum h) /\
  (forall p : R, @X.altitude_from_pressure_isa_bada4 RNum p = @isa_altitude RNum p).
Proof. destruct C12_link_constants as (E1 & E2 & E3 & E4 & _ & E6 & E7 & _).
  split; [ | split]; [intros; rewrite x_isa_T | intros; rewrite x_isa_p | intros; rewrite x_isa_h];
  rewrite ?E1, ?E2, ?E3, ?E4, ?E6, ?E7; reflexivity. Qed.
Print Assumptions C12_link_isa_is_model.

(* ---- SOx ------------------------------------------------------------------------------------------------ *)
Theorem C12_link_sox_sulfur_conserved :
  forall fsc eps : R,
    let '(sx, so2, so4) := @X.EI_SOx RNum fsc eps in
    so2 * @X.MW_S RNum / @X.MW_SO2 RNum + so4 * @X.MW_S RNum / @X.MW_SO4 RNum = fsc / 1000 /\ sx = so2 + so4.
Proof. intros. unfold X.EI_SOx, X.MW_S, X.MW_SO2, X.MW_SO4. rn. split; [field | reflexivity]. Qed.
Print Assumptions C12_link_sox_sulfur_conserved.

Theorem C12_link_sox_is_model : forall fsc eps : R, @X.EI_SOx RNum fsc eps = @sox RNum fsc eps.
Proof. intros. unfold X.EI_SOx, X.MW_S, X.MW_SO2, X.MW_SO4, sox, mw_S, mw_SO2, mw_SO4. rn. reflexivity. Qed.
Print Assumptions C12_link_sox_is_model.

(* ---- Fuel Flow Method 2 ---------------------------------------------------------------------------------- *)
Theorem C12_link_ffm2_is_model :
  forall ff P Ta M z PSL TSL n : R,
    @X.get_SLS_equivalent_fuel_flow RNum ff P Ta M z PSL TSL n = @ffm2 RNum ff P Ta M z PSL TSL n.
Proof. intros. unfold X.get_SLS_equivalent_fuel_flow, ffm2. rn. simpl. eqr. Qed.
Print Assumptions C12_link_ffm2_is_model.

Theorem C12_link_ffm2_linear :
  forall k f1 f2 P Ta M z PSL TSL n : R,
    @X.get_SLS_equivalent_fuel_flow RNum (k * f1) P Ta M z PSL TSL n =
      k * @X.get_SLS_equivalent_fuel_flow RNum f1 P Ta M z PSL TSL n /\
    @X.get_SLS_equivalent_fuel_flow RNum (f1 + f2) P Ta M z PSL TSL n =
      @X.get_SLS_equivalent_fuel_flow RNum f1 P Ta M z PSL TSL n + @X.get_SLS_equivalent_fuel_flow RNum f2 P Ta M z PSL TSL n.
Proof. intros. rewrite !C12_link_ffm2_is_model. split; [apply ffm2_scales | apply ffm2_additive]. Qed.
Print Assumptions C12_link_ffm2_linear.

(* ---- thrust categories ------------------------------------------------------------------------------------ *)
Theorem C12_link_thrust_cat_is_model :
  forall ff a b c d : R, @X.get_thrust_cat_cruise RNum ff a b c d = @thrust_cat RNum ff (a, b, c, d).
Proof. intros. reflexivity. Qed.
Print Assumptions C12_link_thrust_cat_is_model.

Theorem C12_link_thrust_cat_monotone :
  forall f1 f2 a b c d : R, f1 <= f2 ->
    (mode_rank (@X.get_thrust_cat_cruise RNum f1 a b c d) <= mode_rank (@X.get_thrust_cat_cruise RNum f2 a b c d))%Z.
Proof. intros. rewrite !C12_link_thrust_cat_is_model. apply thrust_cat_monotone. assumption. Qed.
Print Assumptions C12_link_thrust_cat_monotone.

(* ---- NOx pieces --------------------------------------------------------------------------------------------- *)
Theorem C12_link_nox_speciation :
  let '(pno, pno2, phono) := @X.NOx_speciation RNum in
  forall m, (@tget RNum pno m, @tget RNum pno2 m, @tget RNum phono m) = @speciation RNum m /\
            @tget RNum pno m + @tget RNum pno2 m + @tget RNum phono m = 1.
Proof. unfold X.NOx_speciation. rn. intros m. destruct m; unfold speciation, tget; rn; split; try lra;
  (apply f_equal2; [apply f_equal2 | ]; lra). Qed.
Print Assumptions C12_link_nox_speciation.

Theorem C12_link_nox_pieces :
  (forall f : R, @X.nox_clamp_cal RNum f = @clamp_ff RNum f) /\
  (forall f : R, @X.nox_clamp_eval RNum f = @clamp_ff RNum f) /\
  (forall f : R, @X.nox_log RNum f = @log10 RNum f) /\
  (forall x s i : R, @X.nox_line RNum x s i = @pow10 RNum (x * s + i)) /\
  (forall Ta P sl : R, @X.nox_ambient RNum Ta P sl = sl * @nox_ambient_factor RNum Ta P).
Proof. split; [ | split; [ | split; [ | split]]]; intros.
  - unfold X.nox_clamp_cal, clamp_ff. rn. replace (0 / 1) with 0 by lra. reflexivity.
  - unfold X.nox_clamp_eval, clamp_ff. rn. replace (0 / 1) with 0 by lra. reflexivity.
  - unfold X.nox_log, log10, ten. rn. reflexivity.
  - unfold X.nox_line, pow10, ten. rn. reflexivity.
  - unfold X.nox_ambient, nox_ambient_factor, humidity_omega, sat_beta, log10, pow10, ten, c_T0, c_p0. rn. reflexivity. Qed.
Print Assumptions C12_link_nox_pieces.

(* ---- HC / CO pieces --------------------------------------------------------------------------------------- *)
Theorem C12_link_hcco_pieces :
  (forall Ta P : R, @X.hcco_cruise_factor RNum Ta P = @hcco_cruise RNum Ta P) /\
  (forall ff fI : R, @acrp_factor RNum ff fI = if Rlt_dec ff fI then 1 + @X.hcco_ACRP_slope RNum * (ff - fI) else 1).
Proof. split; intros.
  - unfold X.hcco_cruise_factor, hcco_cruise, c_T0, c_p0. rn. reflexivity.
  - unfold acrp_factor, X.hcco_ACRP_slope. rn. unfold Rltb. destruct (Rlt_dec ff fI); lra. Qed.
Print Assumptions C12_link_hcco_pieces.

(* ---- volatile PM --------------------------------------------------------------------------------------------- *)
Theorem C12_link_pmvol_is_model :
  (forall (ff : R) m, @X.EI_PMvol_FuelFlow RNum ff m = @pmvol_fuelflow RNum m) /\
  (forall t hc : R, @X.EI_PMvol_FOA3 RNum t hc = @pmvol_foa3 RNum t hc).
Proof. split; intros.
  - unfold X.EI_PMvol_FuelFlow, pmvol_fuelflow. rn. destruct (mode_eqb m Idle); reflexivity.
  - unfold X.EI_PMvol_FOA3, pmvol_foa3, foa3_nodes. rn. reflexivity. Qed.
Print Assumptions C12_link_pmvol_is_model.

(* ---- SCOPE11 ------------------------------------------------------------------------------------------------- *)
Theorem C12_link_scope11_is_model :
  @X.scope11_AFR RNum = (@afr RNum Idle, @afr RNum Approach, @afr RNum Climb, @afr RNum Takeoff) /\
  (forall (sn : R) m (bpr : R) et, @X.scope11_mode RNum sn (@afr RNum m) bpr et = @scope11_mode RNum sn m bpr et).
Proof. split; [reflexivity | ]. intros.
  unfold X.scope11_mode, scope11_mode, scope11_Q, scope11_kslm, scope11_cbc.
  destruct (String.eqb et "MTF"); [ | destruct (String.eqb et "TF")]; rn; replace (0 / 1) with 0 by lra;
  (destruct (Reqb sn (- (1 / 1)) || Reqb sn 0); [lra | ]); eqr. Qed.
Print Assumptions C12_link_scope11_is_model.

Theorem C12_link_scope11_nonneg :
  forall (sn : R) m (bpr : R) et, 0 <= bpr -> 0 <= @X.scope11_mode RNum sn (@afr RNum m) bpr et.
Proof. intros. destruct C12_link_scope11_is_model as [_ E]. rewrite E. apply scope11_mode_nonneg. assumption. Qed.
Print Assumptions C12_link_scope11_nonneg.

(* C16 — the cache configuration regenerated from weather.py on this run (Gen.C16_CacheCfg) satisfies the
   condition under which the state machine is proved to serve the queried (day, hour).  Compiled in build/C16/gen. *)
From Coq Require Import ZArith List Bool.
From AV Require Import model.C16_CacheModel proofs.C16_CacheProofs.
From Gen Require Import C16_CacheCfg.

Theorem C16_link_cache_serves_the_queried_day_and_hour :
  forall (taxis : Z -> bool) ts, run weather_cfg taxis empty ts = map (wanted taxis) ts.
Proof. intros. apply run_correct_from_empty. reflexivity. Qed.
Print Assumptions C16_link_cache_serves_the_queried_day_and_hour.

(* C06 / finding F4 still present in this tree: the altitude -> flight-level conversion multiplies by
   METERS_TO_FL = 3.28084/100, which is not the inverse of FL_TO_METERS = 100 * 0.3048. *)
From Coq Require Import Reals Lra.
From AV Require Import lib.Num model.C06_Model.
From Gen Require Import C06_Extracted.
Local Open Scope R_scope.

Theorem C06_link_alt_to_fl_is_mul : forall a, @alt_to_fl RNum a = a * @METERS_TO_FL RNum.
Proof. reflexivity. Qed.
Print Assumptions C06_link_alt_to_fl_is_mul.

Theorem C06_fl_roundtrip_product : @FL_TO_METERS RNum * @METERS_TO_FL RNum = 1000000032 / 1000000000.
Proof. unfold FL_TO_METERS, METERS_TO_FL, METERS_TO_FEET, FEET_TO_METERS. rnum. lra. Qed.
Print Assumptions C06_fl_roundtrip_product.

(* a flight level expressed in metres with the library's own factor does not come back: every level but 0 moves *)
Theorem C06_fl_roundtrip_refuted : forall f, f <> 0 -> @alt_to_fl RNum (f * @FL_TO_METERS RNum) <> f.
Proof.
  intros f Hf. rewrite C06_link_alt_to_fl_is_mul, Rmult_assoc, C06_fl_roundtrip_product.
  intros H. apply Hf. lra.
Qed.
Print Assumptions C06_fl_roundtrip_refuted.

(* ... upwards, so the top tabulated level lands outside the table *)
Theorem C06_top_level_in_metres_lands_above : forall f, 0 < f -> f < @alt_to_fl RNum (f * @FL_TO_METERS RNum).
Proof.
  intros f Hf. rewrite C06_link_alt_to_fl_is_mul, Rmult_assoc, C06_fl_roundtrip_product. lra.
Qed.
Print Assumptions C06_top_level_in_metres_lands_above.

(* Store_Link — obligations relating the protocol regenerated from src/AEIC/trajectories/store.py on this run
   (Gen.Store_Extracted, written by translator/store_extract.py) to the model the C07-C10 theorems are about.
   Compiled in build/<ID>/…/gen by each of the four checks.  Every step constructor stands for ONE exact statement
   shape (see translator/store_extract.py:SHAPES); a statement of another shape does not translate at all. *)
From Coq Require Import List Bool.
From AV Require Import model.Store_Model.
From Gen Require Import Store_Extracted.
Import ListNotations.

(* the configuration the code shows is the repaired one: the machine of the theorems is [fixed_cfg] *)
Theorem Store_link_cfg : extracted_cfg = fixed_cfg.
Proof. reflexivity. Qed.
Print Assumptions Store_link_cfg.

(* ---- add ---- *)
(* AFieldsetsDeclaredForAssociated (fix FC10b) and CRefuseReservedIndexName (fix FC09b) are mandatory statements *)
Theorem Store_link_add_steps :
  steps_add = [AModeCheck; AFieldsetsAgainstFiles; AFieldsetsDeclaredForAssociated; AFieldsetsAgainstCached; AComputeHasId; AIdConsistencyCheck;
               ARequiredValuesCheck;
               ACounterRead; ACacheInsertIfItFits; ACounterBump; AIndexableAssign; AFileCreateFromThisTrajectory;
               AWriteThisTrajectory; AStaleSet; AReturnSavedIndex].
Proof. reflexivity. Qed.
Print Assumptions Store_link_add_steps.

Definition a_is_check (s : astep) : bool :=
  match s with
  | AModeCheck | AFieldsetsAgainstFiles | AFieldsetsAgainstCached | AIdConsistencyCheck | ARequiredValuesCheck
  | AFieldsetsDeclaredForAssociated => true
  | _ => false
  end.
Definition a_mutates (s : astep) : bool :=
  match s with
  | ACacheInsert | ACacheInsertIfItFits | ACounterBump | AIndexableAssign | AFileCreate | AFileCreateFromThisTrajectory
  | AWrite | AWriteThisTrajectory | AStaleSet => true
  | _ => false
  end.
Fixpoint checks_first (l : list astep) (touched : bool) : bool :=
  match l with
  | [] => true
  | s :: r => if a_is_check s then negb touched && checks_first r touched
              else checks_first r (touched || a_mutates s)
  end.
Fixpoint count_checks (l : list astep) : nat :=
  match l with [] => 0 | s :: r => (if a_is_check s then 1 else 0) + count_checks r end.

(* no state (counter, cache, indexable, files, stale flag) is touched before the last of the five checks; the cache
   insertion — the only mutating step that can itself refuse — comes before the counter is bumped *)
Theorem Store_link_add_no_state_touched_before_last_check :
  checks_first steps_add false = true /\
  count_checks steps_add = 6 /\
  exists pre post, steps_add = pre ++ [ACounterRead; ACacheInsertIfItFits; ACounterBump] ++ post
                   /\ forallb (fun s => negb (a_mutates s)) pre = true
                   /\ forallb (fun s => negb (a_is_check s)) post = true.
Proof.
  split; [reflexivity|]. split; [reflexivity|].
  exists [AModeCheck; AFieldsetsAgainstFiles; AFieldsetsDeclaredForAssociated; AFieldsetsAgainstCached; AComputeHasId;
          AIdConsistencyCheck; ARequiredValuesCheck],
         [AIndexableAssign; AFileCreateFromThisTrajectory; AWriteThisTrajectory; AStaleSet; AReturnSavedIndex].
  repeat split; reflexivity.
Qed.
Print Assumptions Store_link_add_no_state_touched_before_last_check.

(* ---- len / [] / iteration ---- *)
Theorem Store_link_len_source : steps_len = [LLinkedSumOfTrajectoryDimensions; LUnlinkedCacheSize].
Proof. reflexivity. Qed.
Print Assumptions Store_link_len_source.

Theorem Store_link_getitem :
  steps_getitem = [GCacheHitReturnsCached; GInitNone; GLoadIfLinked; GIndexErrorIfNone; GReturnLoaded].
Proof. reflexivity. Qed.
Print Assumptions Store_link_getitem.

Theorem Store_link_iteration_in_index_order :
  steps_iter = [IReturnIndexIterator] /\ steps_iteratorinit = [IKeepStore; IStartAtZero] /\
  steps_iteratornext = [INextByIndexUntilLen].
Proof. repeat split. Qed.
Print Assumptions Store_link_iteration_in_index_order.

(* ---- opening: no size snapshot for a single file; identified iff the file has an index group ---- *)
Theorem Store_link_open_single_file :
  single_file_size_index = SizeIndexNone /\ created_file_size_index = SizeIndexNone /\
  steps_open = [OAssertBase; OOpenBaseFile; OBaseChecks; OAppendCounterIsFileLength; OIndexableIffIndexGroup;
                OOpenAssociated].
Proof. repeat split. Qed.
Print Assumptions Store_link_open_single_file.

Theorem Store_link_merged_size_index_cumulative : merged_size_index = SizeIndexCumulative.
Proof. reflexivity. Qed.
Print Assumptions Store_link_merged_size_index_cumulative.

(* ---- _load_trajectory: every field set is located through its OWN store's size index ---- *)
Theorem Store_link_load_trajectory_per_fieldset :
  steps_load_trajectory = [TInitData; TInitNpoints; TPerFieldset; TAssertNpoints; TNewTrajectory; TAddFieldsets;
                           TSetValues; TCacheIfItFits; TReturnLoaded] /\
  steps_load_per_fieldset = [PRegistryFieldset; PFilesOfThisFieldset; PFileZero; PLocalIsGlobal;
                             PLocateThroughOwnSizeIndex; PGroupOfThatFile; PReadVariables].
Proof. split; reflexivity. Qed.
Print Assumptions Store_link_load_trajectory_per_fieldset.

(* ---- lookup by identifier ---- *)
Theorem Store_link_get_flight :
  steps_get_flight = [FRefuseUnidentified; FInMemoryScan; FRefreshStaleIndex; FAssertIndexGroup; FReadIds;
                      FReadIndexes; FBisectLeft; FGuardBoundsAndEquality; FReturnGetitemOfIndex].
Proof. reflexivity. Qed.
Print Assumptions Store_link_get_flight.

Theorem Store_link_reindex_sorted_by_id_in_index_order :
  steps_reindex = [RSkipUnlessIdentifiedAndStale; RSkipUnlinked; RBaseGroups; RIdsInit; RIdsInFileAndIndexOrder;
                   RSortEnumeratedById; RAssertIndexGroup; RWriteIds; RWriteIndexes; RClearStale].
Proof. reflexivity. Qed.
Print Assumptions Store_link_reindex_sorted_by_id_in_index_order.

Theorem Store_link_merged_index_cumulative_offsets :
  steps_create_merged_store_index =
  [XCreateIndexFile; XCreateDimension; XCreateGroup; XCreateIdVar; XCreateIndexVar; XIdsInit; XIndexesInit;
   XOffsetZero; XPerInputShiftByCumulativeLength; XSortById; XWriteIds; XWriteIndexes; XClose].
Proof. reflexivity. Qed.
Print Assumptions Store_link_merged_index_cumulative_offsets.

Theorem Store_link_sync_close_refresh_index :
  steps_sync = [SModeCheck; SReindexIfStale; SSyncDatasets; SSyncIndexDataset] /\
  steps_close = [KReindexIfStale; KDropIndexGroup; KCloseIndexDataset; KCloseDatasets; KClearNc; KClearFiles; KCollect].
Proof. split; reflexivity. Qed.
Print Assumptions Store_link_sync_close_refresh_index.

(* ---- merge ---- *)
Theorem Store_link_merge_arguments :
  steps_check_merge_arguments =
  [CRefuseListAndPattern; CRefusePatternWithoutRange; CExpandPatternFirstToLastInclusive; CAssertInputs;
   CEveryInputExistsAndIsNc; COutputExtension; COutputMustNotExist; CNames; CRefuseSharedFileNames;
   CRefuseReservedIndexName; CReturnInputs].
Proof. reflexivity. Qed.
Print Assumptions Store_link_merge_arguments.

Theorem Store_link_merge_steps :
  steps_merge = [MCheckArguments; MInitStoreData; MInitFieldsets; MInitIndexGroups; MAssertInputs; MValidateEveryInput;
                 MIndexableIfAll; MRefuseMixedIdentification; MMkdir; MRenameEveryInput; MIndexIfIdentified;
                 MMetadataListsStoresInOrder; MAttrTitle; MAttrComment; MAttrHistory; MAttrSource; MWriteMetadata].
Proof. reflexivity. Qed.
Print Assumptions Store_link_merge_steps.

(* the phases of Store_Model.merge_plan fixed_cfg: all validation, then mkdir, then the renames, then the index,
   then the metadata — written last; nothing else (no clean-up, no deletion) *)
Definition m_phase (s : mstep_py) : nat :=
  match s with
  | MCheckArguments | MInitStoreData | MInitFieldsets | MInitIndexGroups | MAssertInputs => 0
  | MValidateEveryInput | MIndexableIfAll | MRefuseMixedIdentification => 1
  | MMkdir => 2
  | MRenameEveryInput => 3
  | MIndexIfIdentified => 4
  | MMetadataListsStoresInOrder | MAttrTitle | MAttrComment | MAttrHistory | MAttrSource => 5
  | MWriteMetadata => 6
  end.
Fixpoint nondecreasing (l : list nat) : bool :=
  match l with
  | a :: ((b :: _) as r) => Nat.leb a b && nondecreasing r
  | _ => true
  end.
Theorem Store_link_merge_order :
  nondecreasing (map m_phase steps_merge) = true /\
  map m_phase (filter (fun s => Nat.leb 2 (m_phase s) && Nat.leb (m_phase s) 4 || Nat.eqb (m_phase s) 6) steps_merge)
  = [2; 3; 4; 6] /\
  last steps_merge MMkdir = MWriteMetadata.
Proof. repeat split. Qed.
Print Assumptions Store_link_merge_order.

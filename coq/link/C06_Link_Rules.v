(* C06 — Extracted = Model for the decision rules regenerated from legacy.py (mass-count rule, phase masks of
   __post_init__ and subset(), coverage / FL-only tests and their order, symbolic masses) and for the PTF
   column -> unit conversions of ptf_reader.py composed with the row construction of build_performance_table. *)
From Coq Require Import List Reals Lra Bool Arith PrimFloat.
From AV Require Import lib.Num lib.FloatMath model.C06_Model.
From Gen Require Import C06_Extracted.
Import ListNotations.

Lemma forallb_map' {A B} (f : B -> bool) (g : A -> B) l : forallb f (map g l) = forallb (fun x => f (g x)) l.
Proof. induction l as [|a l IH]; cbn; auto. rewrite IH. auto. Qed.

(* mass-count rule: which sub-table kind needs how many masses *)
Theorem C06_link_required_masses : forall (N : Num) (rows : list (row N)),
  @x_required_masses N (map (@r_rocd N) rows) = @required_masses N rows.
Proof. intros. unfold x_required_masses, required_masses. rewrite !forallb_map'. reflexivity. Qed.
Print Assumptions C06_link_required_masses.

(* the ROCD masks: the three of __post_init__ and the three of subset() are the model's phase filter *)
Theorem C06_link_phase_masks : forall (N : Num) (r : row N),
  (@x_mask_Climb N (r_rocd r) = @in_phase N Climb r /\ @x_mask_Cruise N (r_rocd r) = @in_phase N Cruise r /\
   @x_mask_Descent N (r_rocd r) = @in_phase N Descent r) /\
  (@x_subset_Climb N (r_rocd r) = @in_phase N Climb r /\ @x_subset_Cruise N (r_rocd r) = @in_phase N Cruise r /\
   @x_subset_Descent N (r_rocd r) = @in_phase N Descent r).
Proof. intros. repeat split; reflexivity. Qed.
Print Assumptions C06_link_phase_masks.

(* coverage and FL-only tests (after the repair of FC06c, or the count-only test before it) *)
Theorem C06_link_coverage_test : exists set_test : bool, forall (N : Num) s (sub : list (row N)),
  negb (x_coverage_fails (length (@dedup_pairs N (map (@key N) sub))) (length sub)
                         (length (@fls N sub)) (length (@masses N sub)))
  = @coverage_ok N (mkSw s set_test) sub.
Proof.
  first [ exists true; intros; unfold x_coverage_fails, coverage_ok; cbn [sw_set];
          destruct (Nat.eqb (length (dedup_pairs (map key sub))) (length sub)),
                   (Nat.eqb (length (fls sub) * length (masses sub)) (length sub)); reflexivity
        | exists false; intros; unfold x_coverage_fails, coverage_ok; cbn [sw_set];
          destruct (Nat.eqb (length (fls sub) * length (masses sub)) (length sub)); reflexivity ].
Qed.
Print Assumptions C06_link_coverage_test.

Theorem C06_link_fl_only_test : forall (N : Num) v (sub : list (row N)),
  negb (x_fl_only_fails (length (@dedup_pairs N (map (fun r => (r_fl r, @sel N v r)) sub))) (length (@fls N sub)))
  = @fl_only_ok N v sub.
Proof. intros. unfold x_fl_only_fails, fl_only_ok. rewrite negb_involutive. reflexivity. Qed.
Print Assumptions C06_link_fl_only_test.

(* the whole of __post_init__, assembled from the regenerated pieces in the regenerated order, is [validate] *)
Section Assemble.
  Context {N : Num}.
  Definition cov_fails (sub : list (row N)) : bool :=
    x_coverage_fails (length (dedup_pairs (map key sub))) (length sub) (length (fls sub)) (length (masses sub)).
  Definition flo_fails (v : var) (sub : list (row N)) : bool :=
    x_fl_only_fails (length (dedup_pairs (map (fun r => (r_fl r, sel v r)) sub))) (length (fls sub)).
  Fixpoint first_cov (rows : list (row N)) (l : list phase) : option err :=
    match l with [] => None | p :: r => if cov_fails (subset p rows) then Some (ECoverage p) else first_cov rows r end.
  Fixpoint first_flo (rows : list (row N)) (l : list (var * phase)) : option err :=
    match l with
    | [] => None
    | (v, p) :: r => if flo_fails v (subset p rows) then Some (EFlOnly v p) else first_flo rows r
    end.
  Definition x_validate (rows : list (row N)) : option err :=
    if negb (Nat.eqb (length (masses rows)) (x_required_masses (map r_rocd rows))) then Some EMassCount
    else match first_cov rows x_coverage_order with
         | Some e => Some e
         | None => first_flo rows x_fl_only_order
         end.
End Assemble.

Theorem C06_link_validate : exists set_test : bool, forall (N : Num) s (rows : list (row N)),
  @x_validate N rows = @validate N (mkSw s set_test) rows.
Proof.
  destruct C06_link_coverage_test as [b Hc]. exists b. intros N s rows.
  unfold x_validate, validate. rewrite C06_link_required_masses.
  destruct (negb (Nat.eqb (length (masses rows)) (required_masses rows))); [reflexivity|].
  unfold x_coverage_order, x_fl_only_order. cbn [first_cov first_flo].
  unfold cov_fails, flo_fails.
  rewrite <- !(Hc N s), <- !C06_link_fl_only_test.
  repeat match goal with
         | |- context [negb (negb ?x)] => rewrite (negb_involutive x)
         end.
  repeat match goal with
         | |- context [if x_coverage_fails ?a ?b ?c ?d then _ else _] => destruct (x_coverage_fails a b c d); [reflexivity|]
         | |- context [if x_fl_only_fails ?a ?b then _ else _] => destruct (x_fl_only_fails a b); [reflexivity|]
         end.
  reflexivity.
Qed.
Print Assumptions C06_link_validate.

(* symbolic masses *)
Theorem C06_link_resolve_mass : forall (N : Num) rows q, @x_resolve_mass N rows q = @resolve_mass N rows q.
Proof. intros. destruct q; reflexivity. Qed.
Print Assumptions C06_link_resolve_mass.

(* PTF: reader conversions composed with the builder's rows = the model's blocks with the regenerated unit factors *)
Theorem C06_link_ptf_climb : forall (N : Num) lo nom hi (c : pclimb N),
  (let '(tas, rl, rn, rh, ff) := @x_ptf_climb N (pc_tas c) (pc_lo c) (pc_nom c) (pc_hi c) (pc_ff c) in
   @x_build_climb N lo nom hi (pc_fl c) tas rl rn rh ff)
  = @climb_rows N (@KNOTS_TO_MPS N) (@FPM_TO_MPS N) (@MINUTES_TO_SECONDS N) lo nom hi c.
Proof. intros. reflexivity. Qed.
Print Assumptions C06_link_ptf_climb.

Theorem C06_link_ptf_descent : forall (N : Num) lo nom hi (d : pdesc N),
  (let '(tas, r, ff) := @x_ptf_descent N (pd_tas d) (pd_rocd d) (pd_ff d) in
   @x_build_descent N lo nom hi (pd_fl d) tas r ff)
  = [@descent_row N (@KNOTS_TO_MPS N) (@FPM_TO_MPS N) (@MINUTES_TO_SECONDS N) nom d].
Proof. intros. reflexivity. Qed.
Print Assumptions C06_link_ptf_descent.

(* the cruise rows carry the literal 0.0, the model [zero]: equal in both number domains *)
Theorem C06_link_ptf_cruise_R : forall lo nom hi (c : pcruise RNum),
  (let '(tas, fl_, fn, fh) := @x_ptf_cruise RNum (pr_tas c) (pr_lo c) (pr_nom c) (pr_hi c) in
   @x_build_cruise RNum lo nom hi (pr_fl c) tas fl_ fn fh)
  = @cruise_rows RNum (@KNOTS_TO_MPS RNum) (@MINUTES_TO_SECONDS RNum) lo nom hi c.
Proof.
  intros. unfold x_ptf_cruise, x_build_cruise, cruise_rows.
  assert (E : @lit RNum 0 1 0%float = @zero RNum) by (rnum; lra).
  rewrite E. reflexivity.
Qed.
Print Assumptions C06_link_ptf_cruise_R.

Theorem C06_link_ptf_cruise_F : forall lo nom hi (c : pcruise FNum),
  (let '(tas, fl_, fn, fh) := @x_ptf_cruise FNum (pr_tas c) (pr_lo c) (pr_nom c) (pr_hi c) in
   @x_build_cruise FNum lo nom hi (pr_fl c) tas fl_ fn fh)
  = @cruise_rows FNum (@KNOTS_TO_MPS FNum) (@MINUTES_TO_SECONDS FNum) lo nom hi c.
Proof. intros. reflexivity. Qed.
Print Assumptions C06_link_ptf_cruise_F.

(* C06 / finding F4 repaired in this tree: a flight level expressed in metres with the library's own factor
   FL_TO_METERS converts back to itself (hypothesis [conv_roundtrip] of C06_node_exact_in_metres). *)
From Coq Require Import Reals Lra PrimFloat.
From AV Require Import lib.Num lib.FloatMath model.C06_Model.
From Gen Require Import C06_Extracted.
Local Open Scope R_scope.

Theorem C06_fl_roundtrip : forall f, @alt_to_fl RNum (f * @FL_TO_METERS RNum) = f.
Proof.
  intros f. unfold alt_to_fl, FL_TO_METERS, METERS_TO_FL, METERS_TO_FEET, FEET_TO_METERS. rnum. field.
Qed.
Print Assumptions C06_fl_roundtrip.

Theorem C06_alt_to_fl_monotone : forall a b, a <= b -> @alt_to_fl RNum a <= @alt_to_fl RNum b.
Proof.
  intros a b H. unfold alt_to_fl, FL_TO_METERS, METERS_TO_FL, METERS_TO_FEET, FEET_TO_METERS. rnum. lra.
Qed.
Print Assumptions C06_alt_to_fl_monotone.

(* ... but not in binary64 (finding FC06e): on the regenerated text, level 230 expressed in metres comes back one ulp
   high, level 45 one ulp low, level 100 survives; the regenerated FL_TO_METERS is the double the Props theorem uses *)
Theorem C06_fl_roundtrip_binary64_refuted :
  PrimFloat.ltb 230 (@alt_to_fl FNum (PrimFloat.mul 230 (@FL_TO_METERS FNum))) = true /\
  PrimFloat.ltb (@alt_to_fl FNum (PrimFloat.mul 45 (@FL_TO_METERS FNum))) 45 = true /\
  PrimFloat.eqb (@alt_to_fl FNum (PrimFloat.mul 100 (@FL_TO_METERS FNum))) 100 = true /\
  @FL_TO_METERS FNum = 0x1.e7ae147ae147bp+4%float /\
  (forall a, @alt_to_fl FNum a = @alt_to_fl_div FNum 0x1.e7ae147ae147bp+4%float a).
Proof. repeat split; vm_compute; reflexivity. Qed.
Print Assumptions C06_fl_roundtrip_binary64_refuted.

(* C06 / finding F4 repaired in this tree: a flight level expressed in metres with the library's own factor
   FL_TO_METERS converts back to itself (hypothesis [conv_roundtrip] of C06_node_exact_in_metres). *)
From Coq Require Import Reals Lra.
From AV Require Import lib.Num model.C06_Model.
From Gen Require Import C06_Extracted.
Local Open Scope R_scope.

Theorem C06_fl_roundtrip : forall f, @alt_to_fl RNum (f * @FL_TO_METERS RNum) = f.
Proof.
  intros f. unfold alt_to_fl, FL_TO_METERS, METERS_TO_FL, METERS_TO_FEET, FEET_TO_METERS. rnum. field.
Qed.
Print Assumptions C06_fl_roundtrip.

Theorem C06_alt_to_fl_monotone : forall a b, a <= b -> @alt_to_fl RNum a <= @alt_to_fl RNum b.
Proof.
  intros a b H. unfold alt_to_fl, FL_TO_METERS, METERS_TO_FL, METERS_TO_FEET, FEET_TO_METERS. rnum. lra.
Qed.
Print Assumptions C06_alt_to_fl_monotone.

(* Obligations relating the text regenerated from units.py and builders/legacy.py on this run to the model the
   theorems are about.  Compiled in build/C02/gen against Gen.C02_Extracted.  All by conversion, for every
   number domain (so for the reals of the theorems and the binary64 of the correspondence alike). *)
From AV Require Import lib.Num model.C02_Model.
From Gen Require Import C02_Extracted.

Theorem C02_link_units : forall N : Num,
  @u_FEET_TO_METERS N = @FEET_TO_METERS N /\ @u_METERS_TO_FEET N = @METERS_TO_FEET N /\
  @u_METERS_TO_FL N = @METERS_TO_FL N /\ @u_NAUTICAL_MILES_TO_METERS N = @NAUTICAL_MILES_TO_METERS N /\
  @u_MINUTES_TO_SECONDS N = @MINUTES_TO_SECONDS N.
Proof. intros; repeat split; reflexivity. Qed.
Print Assumptions C02_link_units.

(* LegacyContext.__init__ : the altitude schedule and its three refusals *)
Theorem C02_link_schedule : forall (N : Num) o_alt d_alt max_alt,
  @schedule_gen N o_alt d_alt max_alt = @schedule N o_alt d_alt max_alt.
Proof. intros; reflexivity. Qed.
Print Assumptions C02_link_schedule.

(* LegacyBuilder.calc_starting_mass : the arithmetic *)
Theorem C02_link_calc_starting_mass : forall (N : Num) tas ff total_dist lf max_payload empty_mass max_mass,
  @calc_gen N tas ff total_dist lf max_payload empty_mass max_mass =
  @calc_formula N tas ff total_dist lf max_payload empty_mass max_mass.
Proof. intros; reflexivity. Qed.
Print Assumptions C02_link_calc_starting_mass.

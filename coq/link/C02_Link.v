(* Obligations relating the text regenerated from units.py and builders/legacy.py on this run to the model the
   theorems are about.  Compiled in build/C02/gen against Gen.C02_Extracted.  All by conversion, for every
   number domain (so for the reals of the theorems and the binary64 of the correspondence alike). *)
From AV Require Import lib.Num model.C02_Model.
From Gen Require Import C02_Extracted.

Theorem C02_link_units : forall N : Num,
  @u_FEET_TO_METERS N = @FEET_TO_METERS N /\ @u_METERS_TO_FEET N = @METERS_TO_FEET N /\
  @u_METERS_TO_FL N = @METERS_TO_FL N /\ @u_NAUTICAL_MILES_TO_METERS N = @NAUTICAL_MILES_TO_METERS N /\
  @u_MINUTES_TO_SECONDS N = @MINUTES_TO_SECONDS N.
Proof. intros; repeat split; reflexivity. Qed.
Print Assumptions C02_link_units.

(* LegacyContext.__init__ : the altitude schedule and its three refusals *)
Theorem C02_link_schedule : forall (N : Num) o_alt d_alt max_alt,
  @schedule_gen N o_alt d_alt max_alt = @schedule N o_alt d_alt max_alt.
Proof. intros; reflexivity. Qed.
Print Assumptions C02_link_schedule.

(* LegacyBuilder.calc_starting_mass : the arithmetic *)
Theorem C02_link_calc_starting_mass : forall (N : Num) tas ff total_dist lf max_payload empty_mass max_mass,
  @calc_gen N tas ff total_dist lf max_payload empty_mass max_mass =
  @calc_formula N tas ff total_dist lf max_payload empty_mass max_mass.
Proof. intros; reflexivity. Qed.
Print Assumptions C02_link_calc_starting_mass.

(* ---- round 4: more of the anchored code, re-extracted and tied to the model ---- *)
From Coq Require Import ZArith List Bool.

(* builders/base.py:_start_point — the first point carries the starting mass itself (unclamped), the fuel load, time 0,
   distance 0, the initial altitude and the start of the ground track *)
Theorem C02_link_start_point : forall (N : Num) (f : @flight N) (s : @sched N) sm tf,
  @start_point_gen N (s_clm s) sm tf (f_o_lon f) (f_o_lat f) (f_az0 f) = @start_point N f s sm tf.
Proof. intros; reflexivity. Qed.
Print Assumptions C02_link_start_point.

(* builders/legacy.py:_fly_level_change — the three points the loop body produces: the last point of the phase, the point
   appended at the start of a segment, the state at its end (same segment fuel taken from fuel mass and aircraft mass,
   clamp at zero, time and distance accumulation, position from the track step) *)
Theorem C02_link_level_change_step : forall (N : Num) start idx delta lhv (p : @pt N) tas rocd ff gs lon lat az tas_end r2 f2,
  @lc_last_gen N start idx delta p tas rocd ff = @lc_last N (start + idx * delta)%num p (tas, rocd, ff) /\
  @lc_q_gen N start idx delta p tas rocd ff gs = @lc_q N (start + idx * delta)%num p (tas, rocd, ff) gs /\
  @lc_next_gen N start idx delta lhv p tas rocd ff gs lon lat az tas_end
    = @lc_next N (start + idx * delta)%num delta lhv p (tas, rocd, ff) gs (lon, lat, az) (tas_end, r2, f2) /\
  @fwd_tas_gen N tas rocd = @fwd_tas N (tas, rocd, ff).
Proof. intros; repeat split; reflexivity. Qed.
Print Assumptions C02_link_level_change_step.

(* builders/legacy.py:fly_cruise — the appended point and the state after the segment *)
Theorem C02_link_cruise_step : forall (N : Num) step (p : @pt N) gs lon lat az tas rocd ff,
  @crz_q_gen N p gs = @crz_q N p gs /\
  @crz_next_gen N step p gs lon lat az tas rocd ff = @crz_next N step p gs (lon, lat, az) (tas, rocd, ff).
Proof. intros; split; reflexivity. Qed.
Print Assumptions C02_link_cruise_step.

(* storage/container.py — make_point checks the bounds against the size and resolves a negative index against the size
   (the model's [fixed = true]); growth by CAPACITY_EXPANSION from STARTING_CAPACITY when full, np.resize refill,
   reads sliced to the size (shape matched by the extractor) *)
Theorem C02_link_make_point : forall (A : Type) (d : A) (c : cont A) idx,
  g_mp_bounds_checked = true /\ make_point d g_mp_normalises_negative c idx = make_point d true c idx.
Proof. intros; split; reflexivity. Qed.
Print Assumptions C02_link_make_point.

Theorem C02_link_container_growth : g_start_capacity = START_CAP /\ g_capacity_expansion = EXPAND.
Proof. split; reflexivity. Qed.
Print Assumptions C02_link_container_growth.

(* trajectories/trajectory.py:interpolate_time — np.interp(left = right = nan) on the stored points only, no other path *)
Theorem C02_link_interpolate_time : g_interp_slices_time = true /\ g_interp_slices_values = true.
Proof. split; reflexivity. Qed.
Print Assumptions C02_link_interpolate_time.

(* trajectories/ground_track.py:_overstep — from waypoint [-2] along azimuths[-1] by distance - index[-2]: one geodesic
   from the start of the last leg, which is what [geo k (from + step)] stands for *)
Theorem C02_link_overstep : g_overstep = ((-2)%Z, (-1)%Z, (-2)%Z).
Proof. reflexivity. Qed.
Print Assumptions C02_link_overstep.

(* builders/base.py:fly — the fuel load is derived also when a starting mass is handed in (the model's [gfix = true]) *)
Theorem C02_link_given_mass : forall (N : Num) perf geo fixed gsp wx f given it mi tol,
  @fly N perf geo fixed gsp wx g_given_mass_fuel_derived f given it mi tol = @fly N perf geo fixed gsp wx true f given it mi tol.
Proof. intros; reflexivity. Qed.
Print Assumptions C02_link_given_mass.

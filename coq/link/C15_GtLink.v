(* C15 — the Gallina text regenerated from trajectories/ground_track.py on this run (Gen.C15_GtExtracted) is, method
   by method and for every number domain, the executable model the theorems are about.  Compiled in build/C15/…/gen. *)
From Coq Require Import ZArith List Bool Arith.
From AV Require Import lib.Num model.C15_Model.
From Gen Require Import C15_GtExtracted.

(* __init__: the waypoint index is the running sum of the leg distances, starting at 0 *)
Theorem C15_link_index : forall (N : Num) (g : track N), @index_x N g = @index N g.
Proof. intros; reflexivity. Qed.
Print Assumptions C15_link_index.

(* __contains__: the closed interval [index[0], index[-1]], no tolerance band *)
Theorem C15_link_contains : forall (N : Num) (g : track N) (d : T N), @contains_x N g d = @contains N g d.
Proof. intros; reflexivity. Qed.
Print Assumptions C15_link_contains.

(* lookup_waypoint: a pure function of the track and the distance — bisect_left over the whole index *)
Theorem C15_link_lookup_is_stateless :
  forall (N : Num) (g : track N) (d : T N),
    @lookup_x N g d = (if negb (@contains N g d) then None else Some (@bisect_left N (@index N g) d))
    /\ lookups_are_stateless = true.
Proof. intros; split; reflexivity. Qed.
Print Assumptions C15_link_lookup_is_stateless.

(* location: start, end-of-track branch, else forward from the waypoint before along that leg's azimuth over
   d - index[waypoint before]; azimuth towards the waypoint after *)
Theorem C15_link_location : forall (N : Num) (g : track N) (d : T N), @location_x N g d = @location N g d.
Proof.
  intros. unfold location_x, location, lookup_x. change (@contains_x N g d) with (@contains N g d).
  destruct (negb (@contains N g d)); [reflexivity|].
  destruct (@bisect_left N (@index N g) d) as [|k]; [reflexivity|].
  simpl Nat.eqb. cbv iota. replace (S k - 1)%nat with k by (simpl; rewrite Nat.sub_0_r; reflexivity). reflexivity.
Qed.
Print Assumptions C15_link_location.

(* _overstep: from the start of the last leg along its azimuth over d - index[-2]; azimuth from the last waypoint *)
Theorem C15_link_overstep : forall (N : Num) (g : track N) (d : T N), @overstep_x N g d = @overstep N g d.
Proof. intros; reflexivity. Qed.
Print Assumptions C15_link_overstep.

(* step: negative refusal, range test on from and from+by, crossing rule, location of the sum, overstep rule *)
Theorem C15_link_step : forall (N : Num) (g : track N) (a b : T N), @step_x N g a b = @step N g a b.
Proof.
  intros. unfold step_x, step, lookup_x.
  change (@contains_x N g a) with (@contains N g a). change (@contains_x N g (add a b)) with (@contains N g (add a b)).
  destruct (orb _ _); [reflexivity|]. cbv zeta.
  destruct (@contains N g a); destruct (@contains N g (add a b)); simpl; try reflexivity.
  rewrite C15_link_location. reflexivity.
Qed.
Print Assumptions C15_link_step.

(* Point: normalisation modulo 360 in __post_init__, which the dataclass constructor runs on every construction *)
Theorem C15_link_point_normalised_on_every_construction :
  every_point_is_normalised = true /\ @point_azimuth_modulus RNum = @c_360 RNum.
Proof. split; [reflexivity|]. unfold point_azimuth_modulus, c_360. reflexivity. Qed.
Print Assumptions C15_link_point_normalised_on_every_construction.

(* Obligations relating the text regenerated from config/core.py on this run to the model the
   theorems are about.  Compiled in build/C18/gen against Gen.C18_Extracted. *)
From AV Require Import lib.Tree model.C18_Model proofs.C18_Proofs.
From Gen Require Import C18_Extracted.

Theorem C18_link_deep_update : deep_update = du.
Proof. reflexivity. Qed.
Print Assumptions C18_link_deep_update.

Theorem C18_link_load_composition : forall d f k, load_effective d f k = effective d f k.
Proof. reflexivity. Qed.
Print Assumptions C18_link_load_composition.

(* the singleton is registered unconditionally by the last after-validator, and nowhere else:
   the machine the theorems are about is the one with late = true *)
Theorem C18_link_late_registration : late_registration = true.
Proof. reflexivity. Qed.
Print Assumptions C18_link_late_registration.

Theorem C18_link_machine : forall d ops s, run d late_registration s ops = spec_run d s ops.
Proof. exact AV.proofs.C18_Proofs.run_refines_spec. Qed.
Print Assumptions C18_link_machine.

Theorem C18_link_models_frozen : all_models_frozen = true.
Proof. reflexivity. Qed.
Print Assumptions C18_link_models_frozen.

(* Obligations relating the text regenerated from config/core.py on this run to the model the
   theorems are about.  Compiled in build/C18/gen against Gen.C18_Extracted. *)
From AV Require Import lib.Tree model.C18_Model.
From Gen Require Import C18_Extracted.

Theorem C18_link_deep_update : deep_update = du.
Proof. reflexivity. Qed.
Print Assumptions C18_link_deep_update.

Theorem C18_link_load_composition : forall d f k, load_effective d f k = effective d f k.
Proof. reflexivity. Qed.
Print Assumptions C18_link_load_composition.

(* Obligations relating the text regenerated from config/core.py on this run to the model the
   theorems are about.  Compiled in build/C18/gen against Gen.C18_Extracted. *)
From Coq Require Import List String.
From AV Require Import lib.Tree model.C18_Model proofs.C18_Proofs.
Import ListNotations.
From Gen Require Import C18_Extracted.

Theorem C18_link_deep_update : deep_update = du.
Proof. reflexivity. Qed.
Print Assumptions C18_link_deep_update.

Theorem C18_link_load_composition : forall d f k, load_effective d f k = effective d f k.
Proof. reflexivity. Qed.
Print Assumptions C18_link_load_composition.

(* the singleton is registered unconditionally by the last after-validator, and nowhere else:
   the machine the theorems are about is the one with late = true *)
Theorem C18_link_late_registration : late_registration = true.
Proof. reflexivity. Qed.
Print Assumptions C18_link_late_registration.

Theorem C18_link_machine : forall d ops s, run d late_registration s ops = spec_run d s ops.
Proof. exact AV.proofs.C18_Proofs.run_refines_spec. Qed.
Print Assumptions C18_link_machine.

Theorem C18_link_models_frozen : all_models_frozen = true.
Proof. reflexivity. Qed.
Print Assumptions C18_link_models_frozen.

(* round 2: the validator stage list and the frozen flags regenerated from the source are the repaired ones *)
Theorem C18_link_stage_list : extracted_stages = repaired_stages.
Proof. reflexivity. Qed.
Print Assumptions C18_link_stage_list.

Theorem C18_link_failed_load_leaves_unset_on_extracted_stages :
  forall d frozen f k fk,
    snd (step_g d extracted_stages frozen None (LoadG f k fk)) <> OkUnit ->
    fst (step_g d extracted_stages frozen None (LoadG f k fk)) = None.
Proof. intros. apply failed_load_leaves_unset_general; [reflexivity|assumption]. Qed.
Print Assumptions C18_link_failed_load_leaves_unset_on_extracted_stages.

Theorem C18_link_every_owner_frozen :
  extracted_frozen [] = true /\ extracted_frozen ["weather"%string] = true /\ extracted_frozen ["emissions"%string] = true.
Proof. repeat split; reflexivity. Qed.
Print Assumptions C18_link_every_owner_frozen.

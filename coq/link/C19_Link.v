(* C19 — the text regenerated from BADA/model.py, utils/standard_atmosphere.py, constants.py, units.py on this
   run (Gen.C19_Extracted) is, definition by definition and for every number domain, the text of part 1 of
   model/C19_Model.v that the theorems are about.  Compiled in build/C19/gen. *)
From Coq Require Import ZArith Bool.
From AV Require Import lib.Num model.C19_Model.
From Gen Require Import C19_Extracted.

Theorem C19_link_k_p0 : forall (N : Num) ,
  @C19_Extracted.k_p0 N  = @C19_Model.k_p0 N .
Proof. intros; reflexivity. Qed.

Theorem C19_link_k_T0 : forall (N : Num) ,
  @C19_Extracted.k_T0 N  = @C19_Model.k_T0 N .
Proof. intros; reflexivity. Qed.

Theorem C19_link_k_g0 : forall (N : Num) ,
  @C19_Extracted.k_g0 N  = @C19_Model.k_g0 N .
Proof. intros; reflexivity. Qed.

Theorem C19_link_k_R_air : forall (N : Num) ,
  @C19_Extracted.k_R_air N  = @C19_Model.k_R_air N .
Proof. intros; reflexivity. Qed.

Theorem C19_link_k_METERS_TO_FEET : forall (N : Num) ,
  @C19_Extracted.k_METERS_TO_FEET N  = @C19_Model.k_METERS_TO_FEET N .
Proof. intros; reflexivity. Qed.

Theorem C19_link_k_KNOTS_TO_MPS : forall (N : Num) ,
  @C19_Extracted.k_KNOTS_TO_MPS N  = @C19_Model.k_KNOTS_TO_MPS N .
Proof. intros; reflexivity. Qed.

Theorem C19_link_k_MPS_TO_KNOTS : forall (N : Num) ,
  @C19_Extracted.k_MPS_TO_KNOTS N  = @C19_Model.k_MPS_TO_KNOTS N .
Proof. intros; reflexivity. Qed.

Theorem C19_link_k_beta_tropo : forall (N : Num) ,
  @C19_Extracted.k_beta_tropo N  = @C19_Model.k_beta_tropo N .
Proof. intros; reflexivity. Qed.

Theorem C19_link_k_h_p_tropo : forall (N : Num) ,
  @C19_Extracted.k_h_p_tropo N  = @C19_Model.k_h_p_tropo N .
Proof. intros; reflexivity. Qed.

Theorem C19_link_isa_temperature : forall (N : Num) (a : T N),
  @C19_Extracted.isa_temperature N a = @C19_Model.isa_temperature N a.
Proof. intros; reflexivity. Qed.

Theorem C19_link_isa_pressure : forall (N : Num) (a : T N),
  @C19_Extracted.isa_pressure N a = @C19_Model.isa_pressure N a.
Proof. intros; reflexivity. Qed.

Theorem C19_link_air_density : forall (N : Num) (a : T N) (b : T N),
  @C19_Extracted.air_density N a b = @C19_Model.air_density N a b.
Proof. intros; reflexivity. Qed.

Theorem C19_link_jet_sfc : forall (N : Num) (P : params N) (a : T N),
  @C19_Extracted.jet_sfc N P a = @C19_Model.jet_sfc N P a.
Proof. intros; reflexivity. Qed.

Theorem C19_link_jet_nominal_fuel_flow : forall (N : Num) (P : params N) (a : T N) (b : T N),
  @C19_Extracted.jet_nominal_fuel_flow N P a b = @C19_Model.jet_nominal_fuel_flow N P a b.
Proof. intros; reflexivity. Qed.

Theorem C19_link_jet_cruise_fuel_flow : forall (N : Num) (P : params N) (a : T N) (b : T N),
  @C19_Extracted.jet_cruise_fuel_flow N P a b = @C19_Model.jet_cruise_fuel_flow N P a b.
Proof. intros; reflexivity. Qed.

Theorem C19_link_jet_max_climb_thrust_isa : forall (N : Num) (P : params N) (a : T N) (b : T N),
  @C19_Extracted.jet_max_climb_thrust_isa N P a b = @C19_Model.jet_max_climb_thrust_isa N P a b.
Proof. intros; reflexivity. Qed.

Theorem C19_link_tp_sfc : forall (N : Num) (P : params N) (a : T N),
  @C19_Extracted.tp_sfc N P a = @C19_Model.tp_sfc N P a.
Proof. intros; reflexivity. Qed.

Theorem C19_link_tp_nominal_fuel_flow : forall (N : Num) (P : params N) (a : T N) (b : T N),
  @C19_Extracted.tp_nominal_fuel_flow N P a b = @C19_Model.tp_nominal_fuel_flow N P a b.
Proof. intros; reflexivity. Qed.

Theorem C19_link_tp_cruise_fuel_flow : forall (N : Num) (P : params N) (a : T N) (b : T N),
  @C19_Extracted.tp_cruise_fuel_flow N P a b = @C19_Model.tp_cruise_fuel_flow N P a b.
Proof. intros; reflexivity. Qed.

Theorem C19_link_tp_max_climb_thrust_isa : forall (N : Num) (P : params N) (a : T N) (b : T N),
  @C19_Extracted.tp_max_climb_thrust_isa N P a b = @C19_Model.tp_max_climb_thrust_isa N P a b.
Proof. intros; reflexivity. Qed.

Theorem C19_link_piston_nominal_fuel_flow : forall (N : Num) (P : params N) (a : T N) (b : T N),
  @C19_Extracted.piston_nominal_fuel_flow N P a b = @C19_Model.piston_nominal_fuel_flow N piston_per_second P a b.
Proof. intros; reflexivity. Qed.

Theorem C19_link_piston_cruise_fuel_flow : forall (N : Num) (P : params N) (a : T N) (b : T N),
  @C19_Extracted.piston_cruise_fuel_flow N P a b = @C19_Model.piston_cruise_fuel_flow N piston_per_second P a b.
Proof. intros; reflexivity. Qed.

Theorem C19_link_piston_max_climb_thrust_isa : forall (N : Num) (P : params N) (a : T N) (b : T N),
  @C19_Extracted.piston_max_climb_thrust_isa N P a b = @C19_Model.piston_max_climb_thrust_isa N P a b.
Proof. intros; reflexivity. Qed.

Theorem C19_link_nominal_fuel_flow : forall (N : Num) (E : engine) (P : params N) (a : T N) (b : T N),
  @C19_Extracted.nominal_fuel_flow N E P a b = @C19_Model.nominal_fuel_flow N piston_per_second E P a b.
Proof. intros; reflexivity. Qed.

Theorem C19_link_cruise_fuel_flow : forall (N : Num) (E : engine) (P : params N) (a : T N) (b : T N),
  @C19_Extracted.cruise_fuel_flow N E P a b = @C19_Model.cruise_fuel_flow N piston_per_second E P a b.
Proof. intros; reflexivity. Qed.

Theorem C19_link_max_climb_thrust_isa : forall (N : Num) (E : engine) (P : params N) (a : T N) (b : T N),
  @C19_Extracted.max_climb_thrust_isa N E P a b = @C19_Model.max_climb_thrust_isa N E P a b.
Proof. intros; reflexivity. Qed.

Theorem C19_link_max_climb_thrust : forall (N : Num) (E : engine) (P : params N) (a : T N) (b : T N) (c : T N),
  @C19_Extracted.max_climb_thrust N E P a b c = @C19_Model.max_climb_thrust N E P a b c.
Proof. intros; reflexivity. Qed.

Theorem C19_link_max_cruise_thrust : forall (N : Num) (E : engine) (P : params N) (a : T N) (b : T N) (c : T N),
  @C19_Extracted.max_cruise_thrust N E P a b c = @C19_Model.max_cruise_thrust N E P a b c.
Proof. intros; reflexivity. Qed.

Theorem C19_link_descent_thrust_high : forall (N : Num) (E : engine) (P : params N) (a : T N) (b : T N) (c : T N),
  @C19_Extracted.descent_thrust_high N E P a b c = @C19_Model.descent_thrust_high N E P a b c.
Proof. intros; reflexivity. Qed.

Theorem C19_link_descent_thrust_low : forall (N : Num) (E : engine) (P : params N) (a : T N) (b : T N) (c : T N),
  @C19_Extracted.descent_thrust_low N E P a b c = @C19_Model.descent_thrust_low N E P a b c.
Proof. intros; reflexivity. Qed.

Theorem C19_link_calc_cl : forall (N : Num) (P : params N) (a : T N) (b : T N) (c : T N),
  @C19_Extracted.calc_cl N P a b c = @C19_Model.calc_cl N P a b c.
Proof. intros; reflexivity. Qed.

Theorem C19_link_calc_cd : forall (N : Num) (P : params N) (a : T N),
  @C19_Extracted.calc_cd N P a = @C19_Model.calc_cd N P a.
Proof. intros; reflexivity. Qed.

Theorem C19_link_calc_drag : forall (N : Num) (P : params N) (a : T N) (b : T N) (c : T N),
  @C19_Extracted.calc_drag N P a b c = @C19_Model.calc_drag N P a b c.
Proof. intros; reflexivity. Qed.

Theorem C19_link_thrust_total_energy : forall (N : Num) (P : params N) (a : T N) (b : T N) (c : T N) (d : T N) (e : T N),
  @C19_Extracted.thrust_total_energy N P a b c d e = @C19_Model.thrust_total_energy N P a b c d e.
Proof. intros; reflexivity. Qed.

Theorem C19_link_calc_thrust : forall (N : Num) (E : engine) (P : params N) (a : T N) (b : T N) (c : T N) (d : T N) (e : T N) (f : T N) (cr : bool),
  @C19_Extracted.calc_thrust N E P a b c d e f cr = @C19_Model.calc_thrust N E P a b c d e f cr.
Proof. intros; reflexivity. Qed.

Print Assumptions C19_link_k_p0.
Print Assumptions C19_link_k_T0.
Print Assumptions C19_link_k_g0.
Print Assumptions C19_link_k_R_air.
Print Assumptions C19_link_k_METERS_TO_FEET.
Print Assumptions C19_link_k_KNOTS_TO_MPS.
Print Assumptions C19_link_k_MPS_TO_KNOTS.
Print Assumptions C19_link_k_beta_tropo.
Print Assumptions C19_link_k_h_p_tropo.
Print Assumptions C19_link_isa_temperature.
Print Assumptions C19_link_isa_pressure.
Print Assumptions C19_link_air_density.
Print Assumptions C19_link_jet_sfc.
Print Assumptions C19_link_jet_nominal_fuel_flow.
Print Assumptions C19_link_jet_cruise_fuel_flow.
Print Assumptions C19_link_jet_max_climb_thrust_isa.
Print Assumptions C19_link_tp_sfc.
Print Assumptions C19_link_tp_nominal_fuel_flow.
Print Assumptions C19_link_tp_cruise_fuel_flow.
Print Assumptions C19_link_tp_max_climb_thrust_isa.
Print Assumptions C19_link_piston_nominal_fuel_flow.
Print Assumptions C19_link_piston_cruise_fuel_flow.
Print Assumptions C19_link_piston_max_climb_thrust_isa.
Print Assumptions C19_link_nominal_fuel_flow.
Print Assumptions C19_link_cruise_fuel_flow.
Print Assumptions C19_link_max_climb_thrust_isa.
Print Assumptions C19_link_max_climb_thrust.
Print Assumptions C19_link_max_cruise_thrust.
Print Assumptions C19_link_descent_thrust_high.
Print Assumptions C19_link_descent_thrust_low.
Print Assumptions C19_link_calc_cl.
Print Assumptions C19_link_calc_cd.
Print Assumptions C19_link_calc_drag.
Print Assumptions C19_link_thrust_total_energy.
Print Assumptions C19_link_calc_thrust.

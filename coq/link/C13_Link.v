(* C13 — obligations relating the text regenerated from oag.py / writable_database.py / units.py /
   types/time.py on this run (Gen.C13_Extracted) to the model the theorems are about. *)
From Coq Require Import ZArith List String Bool Ascii Lia.
From AV Require Import lib.Dates model.C13_Model model.C13_Parse.
From Gen Require Import C13_Extracted.
Import ListNotations.
Open Scope Z_scope.

(* the row validity rule of the source is the model's ordered chain of documented reasons *)
Theorem C13_link_row_valid :
  forall r, is_row_valid r = match row_skip_reason exclude_equipment r with None => true | Some _ => false end.
Proof.
  intros r. unfold is_row_valid, row_skip_reason, eof_marker.
  repeat match goal with
         | |- context [if ?c then _ else _] => destruct c
         end; reflexivity.
Qed.
Print Assumptions C13_link_row_valid.

(* the decision part of _distance_check is the model's rule (1 km, 50 km, 10 %), for every geodesic
   distance (or NaN) and every stated distance *)
Theorem C13_link_distance_rule :
  forall gc given, distance_check_verdict gc given = distance_verdict gc given.
Proof.
  intros [g|] given; unfold distance_check_verdict, distance_verdict, distance_verdict_gen.
  - repeat match goal with
           | |- context [?a <? ?b] => destruct (Z.ltb_spec a b)
           | |- context [?a <=? ?b] => destruct (Z.leb_spec a b)
           end; cbn [andb orb negb]; try reflexivity; exfalso; lia.
  - repeat match goal with
           | |- context [?a <? ?b] => destruct (Z.ltb_spec a b)
           | |- context [?a <=? ?b] => destruct (Z.leb_spec a b)
           end; cbn [andb orb negb]; reflexivity.
Qed.
Print Assumptions C13_link_distance_rule.

Theorem C13_link_miles : statute_miles_to_mm = miles_to_mm.
Proof. reflexivity. Qed.
Print Assumptions C13_link_miles.

(* open-ended defaults are 1 January / 31 December of the data year *)
Theorem C13_link_date_defaults :
  forall y, days_from_civil y (fst default_from_md) (snd default_from_md) = jan1 y
         /\ days_from_civil y (fst default_to_md) (snd default_to_md) = dec31 y.
Proof. intros y. split; reflexivity. Qed.
Print Assumptions C13_link_date_defaults.

Theorem C13_link_dow_mask : make_dow_mask = dow_mask /\ dayofweek_values = [1; 2; 3; 4; 5; 6; 7].
Proof. split; reflexivity. Qed.
Print Assumptions C13_link_dow_mask.

(* the CSV conventions of from_csv_row (date markers and YYYYMMDD split, hhmm split, day-offset codes,
   weekday digits 1..7) are the model's; the field mapping and the catch-all `return None` are checked by
   the extractor itself *)
Theorem C13_link_csv_conventions :
  src_parse_date = parse_date /\ src_parse_time = parse_time /\ src_parse_arrday = parse_arrday
  /\ src_parse_days = parse_days.
Proof. repeat split; reflexivity. Qed.
Print Assumptions C13_link_csv_conventions.

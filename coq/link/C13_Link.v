(* C13 — obligations relating the text regenerated from oag.py / writable_database.py / units.py /
   types/time.py on this run (Gen.C13_Extracted) to the model the theorems are about. *)
From Coq Require Import ZArith List String Bool Ascii Lia.
From AV Require Import lib.Dates model.C13_Model model.C13_Parse model.C13_Shape.
From Gen Require Import C13_Extracted.
Import ListNotations.
Open Scope Z_scope.

(* the row validity rule of the source is the model's ordered chain of documented reasons *)
Theorem C13_link_row_valid :
  forall r, is_row_valid r = match row_skip_reason exclude_equipment r with None => true | Some _ => false end.
Proof.
  intros r. unfold is_row_valid, row_skip_reason, eof_marker.
  repeat match goal with
         | |- context [if ?c then _ else _] => destruct c
         end; reflexivity.
Qed.
Print Assumptions C13_link_row_valid.

(* the decision part of _distance_check is the model's rule (1 km, 50 km, 10 %), for every geodesic
   distance (or NaN) and every stated distance *)
Theorem C13_link_distance_rule :
  forall gc given, distance_check_verdict gc given = distance_verdict gc given.
Proof.
  intros [g|] given; unfold distance_check_verdict, distance_verdict, distance_verdict_gen.
  - repeat match goal with
           | |- context [?a <? ?b] => destruct (Z.ltb_spec a b)
           | |- context [?a <=? ?b] => destruct (Z.leb_spec a b)
           end; cbn [andb orb negb]; try reflexivity; exfalso; lia.
  - repeat match goal with
           | |- context [?a <? ?b] => destruct (Z.ltb_spec a b)
           | |- context [?a <=? ?b] => destruct (Z.leb_spec a b)
           end; cbn [andb orb negb]; reflexivity.
Qed.
Print Assumptions C13_link_distance_rule.

Theorem C13_link_miles : statute_miles_to_mm = miles_to_mm.
Proof. reflexivity. Qed.
Print Assumptions C13_link_miles.

(* open-ended defaults are 1 January / 31 December of the data year *)
Theorem C13_link_date_defaults :
  forall y, days_from_civil y (fst default_from_md) (snd default_from_md) = jan1 y
         /\ days_from_civil y (fst default_to_md) (snd default_to_md) = dec31 y.
Proof. intros y. split; reflexivity. Qed.
Print Assumptions C13_link_date_defaults.

Theorem C13_link_dow_mask : make_dow_mask = dow_mask /\ dayofweek_values = [1; 2; 3; 4; 5; 6; 7].
Proof. split; reflexivity. Qed.
Print Assumptions C13_link_dow_mask.

(* the CSV conventions of from_csv_row (date markers and YYYYMMDD split, hhmm split, day-offset codes,
   weekday digits 1..7) are the model's; the field mapping and the catch-all `return None` are checked by
   the extractor itself *)
Theorem C13_link_csv_conventions :
  src_parse_date = parse_date /\ src_parse_time = parse_time /\ src_parse_arrday = parse_arrday
  /\ src_parse_days = parse_days.
Proof. repeat split; reflexivity. Qed.
Print Assumptions C13_link_csv_conventions.

(* the instance arithmetic of _add_schedule: inclusive date range, weekday test, wall-clock time built first
   and localised afterwards (departure in the origin's zone, arrival — day offset added to the date — in the
   destination's), arrival-before-departure drop test, UTC day of the departure, and the number of kept
   instances as the returned count *)
Theorem C13_link_add_schedule :
  sched_params = expected_sched_params /\ sched_range = expected_sched_range
  /\ sched_weekday_skip = expected_sched_weekday_skip
  /\ sched_dep_local = expected_sched_dep_local /\ sched_arr_local = expected_sched_arr_local
  /\ sched_dep_utc = expected_sched_dep_utc /\ sched_arr_utc = expected_sched_arr_utc
  /\ sched_drop_test = expected_sched_drop_test /\ sched_day = expected_sched_day
  /\ sched_append = expected_sched_append /\ sched_insert_guard = expected_sched_insert_guard
  /\ sched_insert_sql = expected_sched_insert_sql /\ sched_return = expected_sched_return
  /\ sched_epoch = expected_sched_epoch.
Proof. repeat split; reflexivity. Qed.
Print Assumptions C13_link_add_schedule.

(* the importer keeps no state between rows beyond its caches and logs; the distance rule reads only its
   arguments, the geodesic and the warning types *)
Theorem C13_link_importer_state :
  importer_state = expected_importer_state /\ distance_check_names = expected_distance_check_names.
Proof. split; reflexivity. Qed.
Print Assumptions C13_link_importer_state.

(* the direction-independent route key *)
Theorem C13_link_od_pair : od_pair_expr = expected_od_pair_expr.
Proof. reflexivity. Qed.
Print Assumptions C13_link_od_pair.

(* which airports are known: every row of the main file and of airports-patch.csv with a non-empty IATA code,
   whatever its type; the patch file is laid over the main file *)
Theorem C13_link_known_airports :
  (forall main patch code,
     known_of_src airport_row_key airport_row_filter main patch code = Some (known_airport main patch code))
  /\ airport_sources = expected_airport_sources /\ airport_lookup = expected_airport_lookup.
Proof. split; [intros; reflexivity | split; reflexivity]. Qed.
Print Assumptions C13_link_known_airports.

(* C17 — proofs: for ALL histories of successful and failing flights on one builder the next flight behaves as
   on a fresh builder, and the builder is left without a context; the original error surfaces when the
   finally clause is guarded, and is masked when it is not; the mass iteration returns only converged
   trajectories. *)
From Coq Require Import ZArith List String Bool Lia.
From AV Require Import model.C17_Model.
Import ListNotations.
Open Scope string_scope.

(* ---- dictionaries ---- *)
Lemma lookup_update_eq : forall k v d, lookup k (update k v d) = Some v.
Proof.
  induction d as [|[k' v'] d IH]; simpl.
  - rewrite String.eqb_refl. reflexivity.
  - destruct (String.eqb k k') eqn:E; simpl; [rewrite String.eqb_refl|rewrite E]; auto.
Qed.

Lemma lookup_update_neq : forall k k' v d, k <> k' -> lookup k' (update k v d) = lookup k' d.
Proof.
  induction d as [|[k0 v0] d IH]; intros Hne; simpl.
  - destruct (String.eqb k' k) eqn:E; auto. apply String.eqb_eq in E. congruence.
  - destruct (String.eqb k k0) eqn:E; simpl.
    + apply String.eqb_eq in E. subst k0.
      destruct (String.eqb k' k) eqn:E2; auto. apply String.eqb_eq in E2. congruence.
    + destruct (String.eqb k' k0); auto.
Qed.

Lemma has_update : forall k k' v d, has k' (update k v d) = (String.eqb k' k || has k' d)%bool.
Proof.
  intros. unfold has. destruct (String.eqb k' k) eqn:E.
  - apply String.eqb_eq in E. subst. rewrite lookup_update_eq. reflexivity.
  - rewrite lookup_update_neq; auto. intro H; subst. rewrite String.eqb_refl in E. discriminate.
Qed.

(* ---- setattr / getattr ---- *)
Lemma setattr_opts : forall b a v, b_opts (setattr b a v) = b_opts b.
Proof. intros [o own [c|]] a v; unfold setattr; simpl; auto. destruct (has a c); auto. Qed.

Lemma setattr_ctx_none : forall b a v, b_ctx b = None -> b_ctx (setattr b a v) = None.
Proof. intros [o own [c|]] a v H; simpl in *; [discriminate|reflexivity]. Qed.

Section Proofs.
  Variable ctor : options -> (string -> option value) -> mission -> dict + Z.
  Variable calc : options -> (string -> option value) -> (Z * Z) + Z.
  Variable iter_once : options -> (string -> option value) -> (Z * Z) + Z.
  Variable small : options -> Z -> bool.
  Variable adjust : (string -> option value) -> Z -> Z * Z.

  (* the names the flight code reads through `self.<name>` (re-extracted from the source on every run and
     compared in link/C17_Link.v) *)
  Variable reads : list string.
  Definition agree (v1 v2 : string -> option value) : Prop := forall a, In a reads -> v1 a = v2 a.
  Hypothesis ctor_reads : forall o v1 v2 m, agree v1 v2 -> ctor o v1 m = ctor o v2 m.
  Hypothesis calc_reads : forall o v1 v2, agree v1 v2 -> calc o v1 = calc o v2.
  Hypothesis iter_reads : forall o v1 v2, agree v1 v2 -> iter_once o v1 = iter_once o v2.
  Hypothesis adjust_reads : forall v1 v2 r, agree v1 v2 -> adjust v1 r = adjust v2 r.
  (* the only name written outside the context during a flight is never read *)
  Hypothesis current_mass_not_read : ~ In "current_mass" reads.

  Notation fly_iteration := (fly_iteration iter_once).
  Notation iterate := (iterate iter_once small adjust).
  Variable gfix : bool.
  Notation prepare := (prepare calc gfix).
  Notation body_after := (body_after iter_once small adjust).
  Notation body := (body calc iter_once small adjust gfix).
  Notation fly := (fun g => fly ctor calc iter_once small adjust g gfix).
  Notation run := (fun g => run ctor calc iter_once small adjust g gfix).

  (* ---- the state relation: same options, same context, nothing readable left on either builder ---- *)
  Definition clean (b : builder) : Prop := forall a, In a reads -> lookup a (b_own b) = None.
  Definition ctx_ok (b : builder) : Prop :=
    match b_ctx b with
    | Some c => has "starting_mass" c = true /\ has "total_fuel_mass" c = true
    | None => True
    end.
  Definition sim (b1 b2 : builder) : Prop :=
    b_opts b1 = b_opts b2 /\ b_ctx b1 = b_ctx b2 /\ clean b1 /\ clean b2 /\ ctx_ok b1.

  Lemma sim_view : forall b1 b2, sim b1 b2 -> agree (view b1) (view b2).
  Proof.
    intros b1 b2 (Ho & Hc & C1 & C2 & _) a Ha. unfold view, getattr.
    rewrite (C1 a Ha), (C2 a Ha), Hc. reflexivity.
  Qed.

  Lemma sim_getattr : forall b1 b2 a, sim b1 b2 -> In a reads -> getattr b1 a = getattr b2 a.
  Proof. intros. apply (sim_view b1 b2 H a H0). Qed.

  (* writing a context attribute, or a name nobody reads, keeps the relation *)
  Lemma sim_setattr : forall b1 b2 a v, sim b1 b2 ->
    (match b_ctx b1 with Some c => has a c = true | None => False end \/ ~ In a reads) ->
    sim (setattr b1 a v) (setattr b2 a v).
  Proof.
    intros [o1 own1 c1] [o2 own2 c2] a v (Ho & Hc & C1 & C2 & Hok) Hw. simpl in *. subst o2 c2.
    assert (Hclean : forall own, (forall a', In a' reads -> lookup a' own = None) -> ~ In a reads ->
                     forall a', In a' reads -> lookup a' (update a v own) = None).
    { intros own Hown Hna a' Ha'. rewrite lookup_update_neq; auto. intro; subst; contradiction. }
    unfold setattr; simpl. destruct c1 as [c|].
    - destruct (has a c) eqn:Eh.
      + unfold sim, clean, ctx_ok in *; simpl in *. destruct Hok as (H1 & H2).
        split; [reflexivity|]. split; [reflexivity|]. split; [exact C1|]. split; [exact C2|].
        rewrite !has_update, H1, H2, !orb_true_r. auto.
      + destruct Hw as [Hw|Hw]; [congruence|].
        unfold sim, clean, ctx_ok in *; simpl in *.
        split; [reflexivity|]. split; [reflexivity|]. split; [apply Hclean; auto|]. split; [apply Hclean; auto|exact Hok].
    - destruct Hw as [[]|Hw].
      unfold sim, clean, ctx_ok in *; simpl in *.
      split; [reflexivity|]. split; [reflexivity|]. split; [apply Hclean; auto|]. split; [apply Hclean; auto|exact I].
  Qed.

  Lemma ctx_has_after : forall b a v k,
    match b_ctx b with Some c => has k c = true | None => False end ->
    match b_ctx (setattr b a v) with Some c => has k c = true | None => False end.
  Proof.
    intros [o own [c|]] a v k H; simpl in *; auto. unfold setattr; simpl.
    destruct (has a c) eqn:E; simpl; auto. rewrite has_update, H. apply orb_true_r.
  Qed.

  Definition has_ctx_attr (b : builder) (k : string) : Prop :=
    match b_ctx b with Some c => has k c = true | None => False end.

  Lemma sim_has : forall b1 b2 k, sim b1 b2 -> has_ctx_attr b1 k -> has_ctx_attr b2 k.
  Proof. intros b1 b2 k (_ & Hc & _) H. unfold has_ctx_attr in *. rewrite <- Hc. auto. Qed.

  (* both mass attributes live on the context while it exists *)
  Definition armed (b : builder) : Prop := has_ctx_attr b "starting_mass" /\ has_ctx_attr b "total_fuel_mass".

  Lemma armed_setattr : forall b a v, armed b -> armed (setattr b a v).
  Proof. intros b a v (H1 & H2). split; apply ctx_has_after; auto. Qed.

  Hypothesis starting_mass_read : In "starting_mass" reads.
  Hypothesis total_fuel_mass_read : In "total_fuel_mass" reads.

  Lemma sim_refl_of : forall b, clean b -> ctx_ok b -> sim b b.
  Proof. intros b C K. unfold sim; auto. Qed.

  Lemma sim_fly_iteration : forall b1 b2, sim b1 b2 -> armed b1 ->
    sim (fst (fly_iteration b1)) (fst (fly_iteration b2)) /\ snd (fly_iteration b1) = snd (fly_iteration b2) /\
    armed (fst (fly_iteration b1)).
  Proof.
    intros b1 b2 H Ha. unfold C17_Model.fly_iteration.
    rewrite <- (sim_getattr b1 b2 "starting_mass" H starting_mass_read).
    destruct (getattr b1 "starting_mass") as [v|]; simpl.
    - assert (H' : sim (setattr b1 "current_mass" v) (setattr b2 "current_mass" v))
        by (apply sim_setattr; auto).
      split; [exact H'|]. split; [|apply armed_setattr; auto].
      destruct H' as (Ho & Hr). rewrite Ho. apply iter_reads. apply sim_view. split; auto.
    - split; [exact H|]. split; [|exact Ha].
      destruct H as (Ho & Hr). rewrite Ho. apply iter_reads. apply sim_view. split; auto.
  Qed.

  Lemma fly_iteration_opts_armed : forall b, armed b ->
    b_opts (fst (fly_iteration b)) = b_opts b /\ armed (fst (fly_iteration b)).
  Proof.
    intros b Ha. unfold C17_Model.fly_iteration. destruct (getattr b "starting_mass") as [v|]; simpl.
    - rewrite setattr_opts. split; auto. apply armed_setattr; auto.
    - split; auto.
  Qed.

  Opaque C17_Model.fly_iteration.

  Lemma armed_left : forall b k, armed b -> (k = "starting_mass" \/ k = "total_fuel_mass") ->
    match b_ctx b with Some c => has k c = true | None => False end.
  Proof. intros b k (H1 & H2) [->| ->]; auto. Qed.

  Lemma iterate_S : forall k b t r,
    iterate (S k) b t r =
    if small (b_opts b) r then (b, inl t)
    else let '(sm, tf) := adjust (view b) r in
         match fly_iteration (setattr (setattr b "starting_mass" (Some sm)) "total_fuel_mass" (Some tf)) with
         | (b2, inl (t', r')) => iterate k b2 t' r'
         | (b2, inr e) => (b2, inr e)
         end.
  Proof. reflexivity. Qed.

  Lemma sim_iterate : forall k b1 b2 t r, sim b1 b2 -> armed b1 ->
    sim (fst (iterate k b1 t r)) (fst (iterate k b2 t r)) /\ snd (iterate k b1 t r) = snd (iterate k b2 t r).
  Proof.
    induction k as [|k IH]; intros b1 b2 t r H Ha; [simpl; split; auto|].
    rewrite !iterate_S.
    assert (Ho : b_opts b1 = b_opts b2) by (destruct H; auto).
    rewrite <- Ho. destruct (small (b_opts b1) r); [simpl; split; auto|].
    rewrite <- (adjust_reads (view b1) (view b2) r (sim_view _ _ H)).
    destruct (adjust (view b1) r) as [sm tf].
    set (c1 := setattr (setattr b1 "starting_mass" (Some sm)) "total_fuel_mass" (Some tf)).
    set (c2 := setattr (setattr b2 "starting_mass" (Some sm)) "total_fuel_mass" (Some tf)).
    assert (Hs : sim c1 c2).
    { unfold c1, c2. apply sim_setattr.
      - apply sim_setattr; auto. left. apply armed_left; auto.
      - left. apply armed_left; [apply armed_setattr; auto|auto]. }
    assert (Hac : armed c1) by (unfold c1; repeat apply armed_setattr; auto).
    destruct (sim_fly_iteration c1 c2 Hs Hac) as (S1 & S2 & S3).
    fold c1 c2.
    destruct (fly_iteration c1) as [x1 y1]. destruct (fly_iteration c2) as [x2 y2]. simpl in S1, S2, S3. subst y2.
    destruct y1 as [[t' r']|e]; [apply IH; auto|simpl; split; auto].
  Qed.

  Lemma iterate_opts_ctx : forall k b t r, armed b ->
    b_opts (fst (iterate k b t r)) = b_opts b.
  Proof.
    induction k as [|k IH]; intros b t r Ha; [simpl; auto|].
    rewrite iterate_S. destruct (small (b_opts b) r); [simpl; auto|].
    destruct (adjust (view b) r) as [sm tf].
    set (c := setattr (setattr b "starting_mass" (Some sm)) "total_fuel_mass" (Some tf)).
    assert (Hc : b_opts c = b_opts b) by (unfold c; rewrite !setattr_opts; auto).
    assert (Hac : armed c) by (unfold c; repeat apply armed_setattr; auto).
    assert (Hf : b_opts (fst (fly_iteration c)) = b_opts b /\ armed (fst (fly_iteration c))).
    { destruct (fly_iteration_opts_armed c Hac) as (A & B). rewrite A, Hc. auto. }
    destruct (fly_iteration c) as [x [[t' r']|e]]; simpl in Hf; destruct Hf as (Hf1 & Hf2).
    - rewrite IH; auto.
    - simpl. auto.
  Qed.

  Lemma sim_prepare : forall b1 b2, sim b1 b2 -> armed b1 ->
    match prepare b1, prepare b2 with
    | inl d1, inl d2 => sim d1 d2 /\ armed d1
    | inr e1, inr e2 => e1 = e2
    | _, _ => False
    end.
  Proof.
    intros b1 b2 H Ha. unfold C17_Model.prepare.
    rewrite <- (sim_getattr b1 b2 "starting_mass" H starting_mass_read).
    assert (Ho : b_opts b1 = b_opts b2) by (destruct H; auto).
    destruct (getattr b1 "starting_mass") as [[v|]|]; auto.
    - destruct gfix; auto.
      rewrite <- Ho. rewrite <- (calc_reads (b_opts b1) (view b1) (view b2) (sim_view _ _ H)).
      destruct (calc (b_opts b1) (view b1)) as [[sm tf]|e]; auto. split.
      + apply sim_setattr; auto. left. apply armed_left; auto.
      + apply armed_setattr; auto.
    - rewrite <- Ho. rewrite <- (calc_reads (b_opts b1) (view b1) (view b2) (sim_view _ _ H)).
      destruct (calc (b_opts b1) (view b1)) as [[sm tf]|e]; auto. split.
      + apply sim_setattr.
        * apply sim_setattr; auto. left. apply armed_left; auto.
        * left. apply armed_left; [apply armed_setattr; auto|auto].
      + repeat apply armed_setattr; auto.
  Qed.

  Lemma prepare_opts_armed : forall b d, armed b -> prepare b = inl d -> b_opts d = b_opts b /\ armed d.
  Proof.
    intros b d Ha. unfold C17_Model.prepare. destruct (getattr b "starting_mass") as [[v|]|].
    - destruct gfix.
      + destruct (calc (b_opts b) (view b)) as [[sm tf]|e]; intros H; inversion H; subst.
        rewrite setattr_opts. split; auto. apply armed_setattr; auto.
      + intros H; inversion H; subst; auto.
    - destruct (calc (b_opts b) (view b)) as [[sm tf]|e]; intros H; inversion H; subst.
      rewrite !setattr_opts. split; auto. repeat apply armed_setattr; auto.
    - intros H; inversion H; subst; auto.
  Qed.

  Lemma sim_body_after : forall d1 d2, sim d1 d2 -> armed d1 ->
    sim (fst (body_after d1)) (fst (body_after d2)) /\ snd (body_after d1) = snd (body_after d2).
  Proof.
    intros d1 d2 Hd Had. unfold C17_Model.body_after.
    assert (Hod : b_opts d1 = b_opts d2) by (destruct Hd; auto).
    rewrite <- Hod. destruct (o_optimize (b_opts d1)); simpl; [split; auto|].
    destruct (sim_fly_iteration d1 d2 Hd Had) as (S1 & S2 & S3).
    destruct (fly_iteration d1) as [x1 y1]. destruct (fly_iteration d2) as [x2 y2]. simpl in *. subst y2.
    destruct y1 as [[t r]|e]; simpl; [|split; auto].
    assert (Hox : b_opts x1 = b_opts x2) by (destruct S1; auto).
    rewrite <- Hox. destruct (o_iterate (b_opts x1)); simpl.
    - destruct (sim_iterate (Nat.pred (o_max_iters (b_opts x1))) x1 x2 t r S1 S3) as (I1 & I2).
      destruct (iterate _ x1 t r) as [z1 w1]. destruct (iterate _ x2 t r) as [z2 w2]. simpl in *. subst w2.
      destruct w1 as [t3|e]; simpl; [|split; auto]. split; auto.
      rewrite (sim_getattr z1 z2 "starting_mass" I1 starting_mass_read).
      rewrite (sim_getattr z1 z2 "total_fuel_mass" I1 total_fuel_mass_read). reflexivity.
    - split; auto.
      rewrite (sim_getattr x1 x2 "starting_mass" S1 starting_mass_read).
      rewrite (sim_getattr x1 x2 "total_fuel_mass" S1 total_fuel_mass_read). reflexivity.
  Qed.

  Lemma sim_body : forall b1 b2, sim b1 b2 -> armed b1 ->
    sim (fst (body b1)) (fst (body b2)) /\ snd (body b1) = snd (body b2).
  Proof.
    intros b1 b2 H Ha. unfold C17_Model.body.
    pose proof (sim_prepare b1 b2 H Ha) as Hp.
    destruct (prepare b1) as [d1|e1]; destruct (prepare b2) as [d2|e2]; try contradiction.
    - destruct Hp as (Hd & Had). apply sim_body_after; auto.
    - subst e2. simpl. split; auto.
  Qed.

  Lemma body_after_opts : forall d, armed d -> b_opts (fst (body_after d)) = b_opts d.
  Proof.
    intros d Had. unfold C17_Model.body_after. destruct (o_optimize (b_opts d)); simpl; auto.
    destruct (fly_iteration_opts_armed d Had) as (Hx & Hax).
    destruct (fly_iteration d) as [x [[t r]|e0]]; simpl in Hx, Hax |- *; auto.
    destruct (o_iterate (b_opts x)); simpl; auto.
    pose proof (iterate_opts_ctx (Nat.pred (o_max_iters (b_opts x))) x t r Hax) as Hi.
    destruct (iterate _ x t r) as [z w]. simpl in Hi. destruct w; simpl; congruence.
  Qed.

  Lemma sim_del : forall b1 b2, sim b1 b2 -> sim (del_ctx b1) (del_ctx b2).
  Proof. intros b1 b2 (Ho & Hc & C1 & C2 & K). unfold sim, del_ctx, clean, ctx_ok in *; simpl; auto. Qed.

  Section WithGuard.
    Variable guarded : bool.
    Notation flyg := (fly guarded).
    Notation rung := (run guarded).

    (* a flight never leaves a context behind, whether it succeeded or failed, guarded or not *)
    Lemma fly_ctx_none : forall b m, b_ctx (fst (flyg b m)) = None.
    Proof.
      intros b m. unfold C17_Model.fly. destruct (ctor (b_opts b) (view b) m) as [c|r].
      - destruct (body _) as [b' out]. reflexivity.
      - destruct (b_ctx b) eqn:E; simpl; auto. destruct guarded; simpl; auto.
    Qed.

    Lemma sim_fly : forall b1 b2 m, sim b1 b2 -> b_ctx b1 = None ->
      sim (fst (flyg b1 m)) (fst (flyg b2 m)) /\ snd (flyg b1 m) = snd (flyg b2 m).
    Proof.
      intros b1 b2 m H Hn. pose proof H as (Ho & Hc & C1 & C2 & K).
      unfold C17_Model.fly. rewrite <- Ho, <- Hc, Hn.
      rewrite <- (ctor_reads (b_opts b1) (view b1) (view b2) m (sim_view _ _ H)).
      destruct (ctor (b_opts b1) (view b1) m) as [c|r].
      - set (c' := update "total_fuel_mass" None (update "starting_mass" (m_given_mass m) c)).
        set (e1 := mkb (b_opts b1) (b_own b1) (Some c')). set (e2 := mkb (b_opts b1) (b_own b2) (Some c')).
        assert (Hh : has "starting_mass" c' = true /\ has "total_fuel_mass" c' = true).
        { unfold c'. rewrite !has_update. simpl. split; auto. }
        assert (He : sim e1 e2) by (unfold sim, e1, e2, clean, ctx_ok in *; simpl; repeat split; auto; apply Hh).
        assert (Ha : armed e1) by (unfold armed, has_ctx_attr, e1; simpl; exact Hh).
        destruct (sim_body e1 e2 He Ha) as (B1 & B2).
        destruct (body e1) as [x1 y1]. destruct (body e2) as [x2 y2]. simpl in *. subst y2.
        split; auto. apply sim_del; auto.
      - destruct guarded; simpl; split; auto.
    Qed.

    Lemma fly_opts : forall b m, b_ctx b = None -> b_opts (fst (flyg b m)) = b_opts b.
    Proof.
      intros b m Hn. unfold C17_Model.fly. rewrite Hn. destruct (ctor (b_opts b) (view b) m) as [c|r].
      2:{ destruct guarded; reflexivity. }
      set (c' := update "total_fuel_mass" None (update "starting_mass" (m_given_mass m) c)).
      set (e := mkb (b_opts b) (b_own b) (Some c')).
      assert (Ha : armed e).
      { unfold armed, has_ctx_attr, e, c'; simpl. rewrite !has_update. simpl. split; auto. }
      assert (Hb : b_opts (fst (body e)) = b_opts b).
      { unfold C17_Model.body. destruct (prepare e) as [d|e0] eqn:Ep; [|reflexivity].
        destruct (prepare_opts_armed e d Ha Ep) as (Hd & Had). rewrite body_after_opts; auto. }
      destruct (body e) as [b' out]. simpl in *. exact Hb.
    Qed.

    (* the invariant of a builder between flights *)
    Definition idle (o : options) (b : builder) : Prop := b_opts b = o /\ b_ctx b = None /\ clean b.

    Lemma idle_fresh : forall o, idle o (fresh o).
    Proof. intros o. unfold idle, fresh, clean; simpl; auto. Qed.

    Lemma idle_sim : forall o b1 b2, idle o b1 -> idle o b2 -> sim b1 b2.
    Proof.
      intros o b1 b2 (O1 & N1 & C1) (O2 & N2 & C2). unfold sim, ctx_ok. rewrite N1, N2, O1, O2. auto.
    Qed.

    Lemma idle_fly : forall o b m, idle o b -> idle o (fst (flyg b m)).
    Proof.
      intros o b m H. pose proof H as (O & N & C). unfold idle. split; [|split].
      - rewrite fly_opts; auto.
      - apply fly_ctx_none.
      - destruct (sim_fly b b m (idle_sim o b b H H) N) as ((_ & _ & C1 & _) & _). exact C1.
    Qed.

    Lemma idle_run : forall o ms b, idle o b -> idle o (fst (rung b ms)).
    Proof.
      intros o. induction ms as [|m ms IH]; intros b H; simpl; auto.
      pose proof (idle_fly o b m H) as H1. destruct (flyg b m) as [b1 out]. simpl in H1.
      specialize (IH b1 H1). destruct (rung b1 ms) as [b2 outs]. simpl in *. exact IH.
    Qed.

    (* for ALL histories of successful and failing flights: the next flight behaves as on a fresh builder,
       and afterwards the builder is idle again (no context, same options, nothing readable left) *)
    Theorem fly_history_independent : forall o ms m,
      let b := fst (rung (fresh o) ms) in
      snd (flyg b m) = snd (flyg (fresh o) m) /\ idle o (fst (flyg b m)).
    Proof.
      intros o ms m b. pose proof (idle_run o ms (fresh o) (idle_fresh o)) as Hb. fold b in Hb.
      split.
      - destruct (sim_fly b (fresh o) m (idle_sim o _ _ Hb (idle_fresh o))) as (_ & H); auto.
        destruct Hb as (_ & N & _). exact N.
      - apply idle_fly; auto.
    Qed.

    (* whole histories: the outcomes of a history are the outcomes of its flights on fresh builders *)
    Theorem run_is_map_of_fresh_flights : forall o ms b, idle o b ->
      snd (rung b ms) = map (fun m => snd (flyg (fresh o) m)) ms.
    Proof.
      intros o. induction ms as [|m ms IH]; intros b H; simpl; auto.
      destruct (sim_fly b (fresh o) m (idle_sim o _ _ H (idle_fresh o))) as (_ & Hs); [destruct H as (_ & N & _); exact N|].
      pose proof (idle_fly o b m H) as H1. destruct (flyg b m) as [b1 out]. simpl in *.
      specialize (IH b1 H1). destruct (rung b1 ms) as [b2 outs]. simpl in *. rewrite Hs, IH. reflexivity.
    Qed.

    (* histories that also replace the builder's options between flights *)
    Notation runo := (run_ops ctor calc iter_once small adjust guarded gfix).

    Lemma idle_set_options : forall o o' b, idle o b -> idle o' (set_options b o').
    Proof. intros o o' b (O & N & C). unfold idle, set_options, clean in *; simpl; auto. Qed.

    Lemma idle_run_ops : forall ops o b, idle o b -> idle (b_opts (fst (runo b ops))) (fst (runo b ops)).
    Proof.
      induction ops as [|[m|o'] ops IH]; intros o b H; simpl.
      - destruct H as (O & N & C). unfold idle. auto.
      - pose proof (idle_fly o b m H) as H1. destruct (flyg b m) as [b1 out]. simpl in H1.
        specialize (IH o b1 H1). destruct (runo b1 ops) as [b2 outs]. simpl in *. exact IH.
      - apply (IH o'). eapply idle_set_options; eauto.
    Qed.

    Theorem ops_history_independent : forall o0 ops m,
      let b := fst (runo (fresh o0) ops) in
      snd (flyg b m) = snd (flyg (fresh (b_opts b)) m) /\ idle (b_opts b) (fst (flyg b m)).
    Proof.
      intros o0 ops m b. pose proof (idle_run_ops ops o0 (fresh o0) (idle_fresh o0)) as Hb. fold b in Hb.
      split.
      - destruct (sim_fly b (fresh (b_opts b)) m (idle_sim _ _ _ Hb (idle_fresh _))) as (_ & H); auto.
        destruct Hb as (_ & N & _). exact N.
      - apply idle_fly; auto.
    Qed.
  End WithGuard.

  (* ---- which error surfaces ---- *)
  Theorem original_error_surfaces_ctor : forall b m r,
    ctor (b_opts b) (view b) m = inr r -> snd (fly true b m) = Raised (Reason r).
  Proof. intros b m r H. unfold C17_Model.fly. rewrite H. destruct (b_ctx b); reflexivity. Qed.

  Theorem guarded_never_raises_internal_error : forall b m, snd (fly true b m) <> Raised AttrCtx.
  Proof.
    intros b m. unfold C17_Model.fly. destruct (ctor (b_opts b) (view b) m) as [c|r].
    - set (e := mkb _ _ _). unfold C17_Model.body. destruct (prepare e) as [d|e0]; [|simpl; discriminate].
      unfold C17_Model.body_after.
      destruct (o_optimize (b_opts d)); simpl; [discriminate|].
      destruct (fly_iteration d) as [x [[t r]|e1]]; simpl; [|discriminate].
      destruct (o_iterate (b_opts x)); simpl; [|discriminate].
      destruct (iterate _ x t r) as [z [t3|e2]]; simpl; discriminate.
    - destruct (b_ctx b); simpl; discriminate.
  Qed.

  (* as coded: a constructor failure on a builder without context is replaced by the AttributeError *)
  Theorem ctor_error_masked_as_coded : forall b m r,
    b_ctx b = None -> ctor (b_opts b) (view b) m = inr r -> snd (fly false b m) = Raised AttrCtx.
  Proof. intros b m r Hn H. unfold C17_Model.fly. rewrite H, Hn. reflexivity. Qed.

  (* ---- mass iteration: a trajectory is returned only with a residual inside the tolerance ---- *)
  Theorem iterate_returns_converged : forall k b t r b' t',
    iterate k b t r = (b', inl t') ->
    exists r', small (b_opts b') r' = true /\
      ((t', r') = (t, r) \/ exists b0, snd (fly_iteration b0) = inl (t', r')).
  Proof.
    induction k as [|k IH]; intros b t r b' t' H; [simpl in H; discriminate|].
    rewrite iterate_S in H. destruct (small (b_opts b) r) eqn:Es.
    - inversion H; subst. exists r. split; auto.
    - destruct (adjust (view b) r) as [sm tf].
      set (c := setattr (setattr b "starting_mass" (Some sm)) "total_fuel_mass" (Some tf)) in *.
      destruct (fly_iteration c) as [x [[t1 r1]|e]] eqn:Ef; [|discriminate].
      destruct (IH _ _ _ _ _ H) as (r' & Hs & [Heq|Hex]).
      + inversion Heq; subst. exists r1. split; auto. right. exists c. rewrite Ef. reflexivity.
      + exists r'. split; auto.
  Qed.

  Theorem iterate_error_is_nonconvergence_or_original : forall k b t r b' e,
    iterate k b t r = (b', inr e) ->
    e = NO_CONVERGENCE \/ exists b0, snd (fly_iteration b0) = inr e.
  Proof.
    induction k as [|k IH]; intros b t r b' e H; [simpl in H; inversion H; auto|].
    rewrite iterate_S in H. destruct (small (b_opts b) r); [discriminate|].
    destruct (adjust (view b) r) as [sm tf].
    set (c := setattr (setattr b "starting_mass" (Some sm)) "total_fuel_mass" (Some tf)) in *.
    destruct (fly_iteration c) as [x [[t1 r1]|e1]] eqn:Ef.
    - eapply IH; eauto.
    - inversion H; subst. right. exists c. rewrite Ef. reflexivity.
  Qed.

  (* ---- fly-level statements about refusals and about the iteration ---- *)
  Definition flight_ctx (c : dict) (m : mission) : dict :=
    update "total_fuel_mass" None (update "starting_mass" (m_given_mass m) c).

  Lemma snd_fly_ok : forall g b m c, ctor (b_opts b) (view b) m = inl c ->
    snd (fly g b m) = snd (body (mkb (b_opts b) (b_own b) (Some (flight_ctx c m)))).
  Proof. intros g b m c H. unfold C17_Model.fly. rewrite H. fold (flight_ctx c m). destruct (body _); reflexivity. Qed.

  (* a refusal by calc_starting_mass, or by a flight iteration, is the exception fly raises *)
  Theorem fly_calc_refusal_surfaces : forall g b m c e,
    ctor (b_opts b) (view b) m = inl c ->
    prepare (mkb (b_opts b) (b_own b) (Some (flight_ctx c m))) = inr e ->
    snd (fly g b m) = Raised (Reason e).
  Proof.
    intros g b m c e Hc Hp. etransitivity; [apply (snd_fly_ok g b m c Hc)|].
    unfold C17_Model.body. rewrite Hp. reflexivity.
  Qed.

  Theorem fly_first_iteration_refusal_surfaces : forall g b m c d e,
    ctor (b_opts b) (view b) m = inl c ->
    prepare (mkb (b_opts b) (b_own b) (Some (flight_ctx c m))) = inl d ->
    o_optimize (b_opts d) = false -> snd (fly_iteration d) = inr e ->
    snd (fly g b m) = Raised (Reason e).
  Proof.
    intros g b m c d e Hc Hp Ho Hi. etransitivity; [apply (snd_fly_ok g b m c Hc)|]. unfold C17_Model.body. rewrite Hp.
    unfold C17_Model.body_after. rewrite Ho. destruct (fly_iteration d) as [x y]. simpl in Hi. subst y. reflexivity.
  Qed.

  Theorem fly_later_iteration_refusal_surfaces : forall g b m e,
    snd (fly g b m) = Raised (Reason e) ->
    e = NOT_IMPLEMENTED \/ e = NO_CONVERGENCE \/ (exists v, ctor (b_opts b) v m = inr e) \/
    (exists o v, calc o v = inr e) \/ (exists b0, snd (fly_iteration b0) = inr e).
  Proof.
    intros g b m e H. unfold C17_Model.fly in H. destruct (ctor (b_opts b) (view b) m) as [c|r] eqn:Ec.
    - set (e0 := mkb _ _ _) in H. destruct (body e0) as [b' out] eqn:Eb. simpl in H. subst out.
      unfold C17_Model.body in Eb. destruct (prepare e0) as [d|e1] eqn:Ep.
      + unfold C17_Model.body_after in Eb. destruct (o_optimize (b_opts d)); [inversion Eb; auto|].
        destruct (fly_iteration d) as [x [[t r]|e2]] eqn:Ef.
        * destruct (o_iterate (b_opts x)); [|inversion Eb].
          destruct (iterate _ x t r) as [z [t3|e3]] eqn:Ei; inversion Eb; subst.
          destruct (iterate_error_is_nonconvergence_or_original _ _ _ _ _ _ Ei) as [->|Hx];
            [right; left; reflexivity|right; right; right; right; exact Hx].
        * inversion Eb; subst. right; right; right; right. exists d. rewrite Ef. reflexivity.
      + inversion Eb; subst. right; right; right; left.
        unfold C17_Model.prepare in Ep. destruct (getattr e0 "starting_mass") as [[v|]|]; try discriminate.
        * destruct gfix; [|discriminate]. destruct (calc (b_opts e0) (view e0)) as [[sm tf]|e2] eqn:Ecalc; inversion Ep; subst.
          eexists; eexists; eauto.
        * destruct (calc (b_opts e0) (view e0)) as [[sm tf]|e2] eqn:Ecalc; inversion Ep; subst. eexists; eexists; eauto.
    - right; right; left. destruct (b_ctx b); simpl in H.
      + inversion H; subst. eexists; eauto.
      + destruct g; simpl in H; inversion H; subst. eexists; eauto.
  Qed.

  (* with iteration enabled, what fly returns is the result of one of this flight's iterations whose residual passed
     the tolerance test *)
  Theorem fly_returns_converged : forall g b m t sm tf,
    b_ctx b = None -> snd (fly g b m) = Flown t sm tf ->
    exists d r, snd (fly_iteration d) = inl (t, r) /\ (o_iterate (b_opts b) = true -> small (b_opts b) r = true).
  Proof.
    intros g b m t sm tf Hn H. unfold C17_Model.fly in H. rewrite Hn in H.
    destruct (ctor (b_opts b) (view b) m) as [c|r0]; [|destruct g; simpl in H; discriminate].
    set (c' := update "total_fuel_mass" None (update "starting_mass" (m_given_mass m) c)) in H.
    set (e := mkb (b_opts b) (b_own b) (Some c')) in H.
    assert (Ha : armed e).
    { unfold armed, has_ctx_attr, e, c'; simpl. rewrite !has_update. simpl. split; auto. }
    destruct (body e) as [b' out] eqn:Eb. simpl in H. subst out.
    unfold C17_Model.body in Eb. destruct (prepare e) as [d|e1] eqn:Ep; [|inversion Eb].
    destruct (prepare_opts_armed e d Ha Ep) as (Hod & Had).
    unfold C17_Model.body_after in Eb. destruct (o_optimize (b_opts d)); [inversion Eb|].
    destruct (fly_iteration_opts_armed d Had) as (Hox & Hax).
    destruct (fly_iteration d) as [x [[t0 r0]|e2]] eqn:Ef; [|inversion Eb]. simpl in Hox, Hax.
    assert (Hxb : b_opts x = b_opts b) by (rewrite Hox, Hod; reflexivity).
    destruct (o_iterate (b_opts x)) eqn:Eit.
    - pose proof (iterate_opts_ctx (Nat.pred (o_max_iters (b_opts x))) x t0 r0 Hax) as Hz.
      destruct (iterate _ x t0 r0) as [z [t3|e3]] eqn:Ei; inversion Eb; subst. simpl in Hz.
      destruct (iterate_returns_converged _ _ _ _ _ _ Ei) as (r' & Hs & [Heq|(b0 & Hb0)]).
      + inversion Heq; subst. exists d, r0. split; [rewrite Ef; reflexivity|]. intros _. rewrite <- Hxb, <- Hz. exact Hs.
      + exists b0, r'. split; [exact Hb0|]. intros _. rewrite <- Hxb, <- Hz. exact Hs.
    - inversion Eb; subst. exists d, r0. split; [rewrite Ef; reflexivity|].
      intros Hit. rewrite <- Hxb in Hit. congruence.
  Qed.
End Proofs.

(* ---- the finding F15 as a concrete witness: the constructor refuses (reason 7), fly reports the
        AttributeError of `del self.ctx` instead ---- *)
Definition w_ctor (_ : options) (_ : string -> option value) (_ : mission) : dict + Z := inr 7%Z.
Definition w_calc (_ : options) (_ : string -> option value) : (Z * Z) + Z := inl (0, 0)%Z.
Definition w_iter (_ : options) (_ : string -> option value) : (Z * Z) + Z := inl (0, 0)%Z.
Definition w_small (_ : options) (_ : Z) : bool := true.
Definition w_adjust (_ : string -> option value) (_ : Z) : Z * Z := (0, 0)%Z.
Definition w_opts : options := mkopts false false 5 0.

Theorem context_ctor_error_masked_refuted :
  exists m, w_ctor w_opts (view (fresh w_opts)) m = inr 7%Z /\
    snd (fly w_ctor w_calc w_iter w_small w_adjust false true (fresh w_opts) m) <> Raised (Reason 7%Z) /\
    snd (fly w_ctor w_calc w_iter w_small w_adjust false true (fresh w_opts) m) = Raised AttrCtx /\
    snd (fly w_ctor w_calc w_iter w_small w_adjust true true (fresh w_opts) m) = Raised (Reason 7%Z).
Proof. exists (mkmission 0 None). repeat split; try reflexivity. discriminate. Qed.

(* non-vacuity of the history theorem: a history with a failing and a succeeding flight, replayed oracles *)
Example history_nonvacuous :
  let ss := [mkscript None None [inl (10%Z, true)]; mkscript (Some 3%Z) None []; mkscript None None [inl (11%Z, false); inr 5%Z]] in
  run_history true true (repeat (mkopts false true 5 0) 4) ss [0; 1; 2; 0]%Z [None; None; None; None]
  = ([SFlown 10 1; SReason 3; SReason 5; SFlown 10 1], true, ["current_mass"]) /\
  run_history false true (repeat (mkopts false true 5 0) 4) ss [0; 1; 2; 0]%Z [None; None; None; None]
  = ([SFlown 10 1; SAttrCtx; SReason 5; SFlown 10 1], true, ["current_mass"]).
Proof. split; vm_compute; reflexivity. Qed.

(* ---- bundled statements (used by props/C17_Props.v) ---- *)
Definition view_t := string -> option value.
(* the flight code sees the builder only through reads of the names in [reads]; "current_mass", the one name a
   flight leaves on the builder itself, is not among them; the two mass attributes are *)
Definition reads_only (ctor : options -> view_t -> mission -> dict + Z) (calc : options -> view_t -> (Z * Z) + Z) (iter_once : options -> view_t -> (Z * Z) + Z)
    (adjust : view_t -> Z -> Z * Z) (reads : list string) : Prop :=
  (forall o v1 v2 m, agree reads v1 v2 -> ctor o v1 m = ctor o v2 m) /\
  (forall o v1 v2, agree reads v1 v2 -> calc o v1 = calc o v2) /\
  (forall o v1 v2, agree reads v1 v2 -> iter_once o v1 = iter_once o v2) /\
  (forall v1 v2 r, agree reads v1 v2 -> adjust v1 r = adjust v2 r) /\
  ~ In "current_mass" reads /\ In "starting_mass" reads /\ In "total_fuel_mass" reads.

Theorem main_fly_history_independent : forall ctor calc iter_once small adjust reads,
  reads_only ctor calc iter_once adjust reads ->
  forall guarded gfix o ms m,
    let b := fst (run ctor calc iter_once small adjust guarded gfix (fresh o) ms) in
    snd (fly ctor calc iter_once small adjust guarded gfix b m) = snd (fly ctor calc iter_once small adjust guarded gfix (fresh o) m) /\
    idle reads o (fst (fly ctor calc iter_once small adjust guarded gfix b m)).
Proof.
  intros ctor calc iter_once small adjust reads (H0 & H1 & H2 & H3 & H4 & H5 & H6) guarded gfix o ms m.
  eapply fly_history_independent; eauto.
Qed.

Theorem main_history_is_fresh_flights : forall ctor calc iter_once small adjust reads,
  reads_only ctor calc iter_once adjust reads ->
  forall guarded gfix o ms,
    snd (run ctor calc iter_once small adjust guarded gfix (fresh o) ms) =
    map (fun m => snd (fly ctor calc iter_once small adjust guarded gfix (fresh o) m)) ms.
Proof.
  intros ctor calc iter_once small adjust reads (H0 & H1 & H2 & H3 & H4 & H5 & H6) guarded gfix o ms.
  eapply run_is_map_of_fresh_flights; eauto. apply idle_fresh.
Qed.

(* ... also when the caller replaces the options between flights *)
Theorem main_ops_history_independent : forall ctor calc iter_once small adjust reads,
  reads_only ctor calc iter_once adjust reads ->
  forall guarded gfix o0 ops m,
    let b := fst (run_ops ctor calc iter_once small adjust guarded gfix (fresh o0) ops) in
    snd (fly ctor calc iter_once small adjust guarded gfix b m)
      = snd (fly ctor calc iter_once small adjust guarded gfix (fresh (b_opts b)) m) /\
    idle reads (b_opts b) (fst (fly ctor calc iter_once small adjust guarded gfix b m)).
Proof.
  intros ctor calc iter_once small adjust reads (H0 & H1 & H2 & H3 & H4 & H5 & H6) guarded gfix o0 ops m.
  eapply ops_history_independent; eauto.
Qed.

(* a failed flight leaves the builder fully usable: whatever failed before, a flight gives what a fresh builder gives *)
Theorem main_failed_flight_leaves_builder_usable : forall ctor calc iter_once small adjust reads,
  reads_only ctor calc iter_once adjust reads ->
  forall guarded gfix o bad m,
    let b := fst (fly ctor calc iter_once small adjust guarded gfix (fresh o) bad) in
    b_ctx b = None /\ b_opts b = o /\
    snd (fly ctor calc iter_once small adjust guarded gfix b m) = snd (fly ctor calc iter_once small adjust guarded gfix (fresh o) m).
Proof.
  intros ctor calc iter_once small adjust reads H guarded gfix o bad m b.
  pose proof (main_fly_history_independent ctor calc iter_once small adjust reads H guarded gfix o [bad] m) as (A & _).
  pose proof (main_fly_history_independent ctor calc iter_once small adjust reads H guarded gfix o [] bad) as (_ & (B1 & B2 & _)).
  simpl in *. unfold b.
  destruct (fly ctor calc iter_once small adjust guarded gfix (fresh o) bad) as [b1 out] eqn:E. simpl in *.
  repeat split; auto.
Qed.

(* with iteration enabled, a returned trajectory comes from a flight iteration whose residual passed the test *)
Theorem main_mass_iteration_tolerance_or_error : forall iter_once small adjust k b t r,
  match iterate iter_once small adjust k b t r with
  | (b', inl t') => exists r', small (b_opts b') r' = true /\
                      ((t', r') = (t, r) \/ exists b0, snd (fly_iteration iter_once b0) = inl (t', r'))
  | (b', inr e) => e = NO_CONVERGENCE \/ exists b0, snd (fly_iteration iter_once b0) = inr e
  end.
Proof.
  intros. destruct (iterate iter_once small adjust k b t r) as [b' [t'|e]] eqn:E.
  - eapply iterate_returns_converged; eauto.
  - eapply iterate_error_is_nonconvergence_or_original; eauto.
Qed.

(* with no iteration left the loop reports non-convergence without looking at the residual *)
Theorem main_out_of_iterations_is_error : forall iter_once small adjust b t r,
  iterate iter_once small adjust 0 b t r = (b, inr NO_CONVERGENCE).
Proof. reflexivity. Qed.

(* ---- the finding FC17a: a starting mass handed in by the caller ---- *)
Definition ctx_of (c : dict) (given : value) : dict :=
  update "total_fuel_mass" None (update "starting_mass" given c).

Lemma ctx_of_sm : forall c given, lookup "starting_mass" (ctx_of c given) = Some given.
Proof.
  intros. unfold ctx_of. rewrite lookup_update_neq by discriminate. apply lookup_update_eq.
Qed.
Lemma ctx_of_tf : forall c given, lookup "total_fuel_mass" (ctx_of c given) = Some None.
Proof. intros. unfold ctx_of. apply lookup_update_eq. Qed.

(* as the code stood: calc_starting_mass is skipped, the fuel load is still None when the first iteration starts
   (its first statement, storing the fuel load in the first point, then fails with an internal TypeError) *)
Theorem given_mass_fuel_load_undefined_before_fix : forall calc o own c m,
  lookup "starting_mass" own = None -> lookup "total_fuel_mass" own = None ->
  let e := mkb o own (Some (ctx_of c (Some m))) in
  prepare calc false e = inl e /\ getattr e "total_fuel_mass" = Some None.
Proof.
  intros calc o own c m H1 H2 e. unfold prepare, getattr, e. simpl. rewrite H1, ctx_of_sm. simpl.
  rewrite H2, ctx_of_tf. auto.
Qed.

(* with the fuel load derived either way, it is defined before the first iteration, given mass or not *)
Theorem fuel_load_defined_before_first_iteration : forall calc o own c given sm tf,
  lookup "starting_mass" own = None -> lookup "total_fuel_mass" own = None ->
  let e := mkb o own (Some (ctx_of c given)) in
  calc o (view e) = inl (sm, tf) ->
  exists d, prepare calc true e = inl d /\
    getattr d "total_fuel_mass" = Some (Some tf) /\
    getattr d "starting_mass" = Some (Some (match given with Some m => m | None => sm end)).
Proof.
  intros calc o own c given sm tf H1 H2 e Ec.
  assert (Hsm0 : getattr e "starting_mass" = Some given).
  { unfold getattr, e; simpl. rewrite H1, ctx_of_sm. reflexivity. }
  unfold prepare. rewrite Hsm0.
  assert (Htf : has "total_fuel_mass" (ctx_of c given) = true) by (unfold has; rewrite ctx_of_tf; reflexivity).
  destruct given as [m|]; simpl; rewrite Ec.
  - eexists. split; [reflexivity|].
    unfold setattr, e; simpl. rewrite Htf. unfold getattr; simpl. rewrite H1, H2.
    rewrite lookup_update_eq. rewrite lookup_update_neq by discriminate. rewrite ctx_of_sm. auto.
  - eexists. split; [reflexivity|].
    unfold setattr, e; simpl. rewrite Htf. simpl.
    assert (Hsm : has "starting_mass" (update "total_fuel_mass" (Some tf) (ctx_of c None)) = true).
    { rewrite has_update. simpl. unfold has. rewrite ctx_of_sm. reflexivity. }
    rewrite Hsm. unfold getattr; simpl. rewrite H1, H2.
    rewrite lookup_update_eq. rewrite lookup_update_neq by discriminate. rewrite lookup_update_eq. auto.
Qed.

(* calc_starting_mass itself can refuse (cruise level outside the table): that reason is the one reported *)
Theorem calc_refusal_surfaces : forall calc iter_once small adjust gfix b e,
  prepare calc gfix b = inr e -> body calc iter_once small adjust gfix b = (b, Raised (Reason e)).
Proof. intros. unfold body. rewrite H. reflexivity. Qed.

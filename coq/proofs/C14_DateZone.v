(* C14 — the date window is made of UTC days, whatever the time zone of the machine.

   The model's date conditions are CStart (86400 * s) and CEnd (86400 * (e + 1)) on the departure second (s, e: day
   numbers since 1970-01-01).  This file shows (1) that this window is exactly "the UTC calendar day of the departure lies
   in [s, e]" (both ends inclusive, floor division, also before 1970), and (2) that bounds taken at LOCAL midnight of a
   zone off seconds east of UTC (local midnight of day d is the UTC second 86400 d - off) give a different answer for
   some departure, for EVERY non-zero offset — the formal content of seeded/C14-11. *)
From Coq Require Import ZArith Bool Lia List.
From AV Require Import model.C14_Model.
Local Open Scope Z_scope.
Ltac Zify.zify_post_hook ::= Z.to_euclidean_division_equations.

Definition in_window (s e dep : Z) : bool := (86400 * s <=? dep) && (dep <? 86400 * (e + 1)).
Definition in_window_zone (off s e dep : Z) : bool := (86400 * s - off <=? dep) && (dep <? 86400 * (e + 1) - off).

Lemma conds_are_window : forall coin db i j s e r,
  eval_cond coin db i (CStart (86400 * s)) r && eval_cond coin db j (CEnd (86400 * (e + 1))) r = in_window s e (r_dep r).
Proof. reflexivity. Qed.

Lemma window_is_utc_days : forall s e dep,
  in_window s e dep = (s <=? dep / 86400) && (dep / 86400 <=? e).
Proof.
  intros s e dep. unfold in_window. apply eq_true_iff_eq.
  rewrite !andb_true_iff, !Z.leb_le, !Z.ltb_lt. lia.
Qed.

Lemma zone_window_differs : forall off, off <> 0 -> -86400 < off < 86400 ->
  forall s e, s <= e -> exists dep, in_window s e dep <> in_window_zone off s e dep.
Proof.
  intros off Hnz Hr s e Hse. destruct (Z_lt_le_dec 0 off) as [Hpos|Hneg].
  - exists (86400 * s - 1). unfold in_window, in_window_zone.
    replace (86400 * s <=? 86400 * s - 1) with false by (symmetry; apply Z.leb_gt; lia).
    replace (86400 * s - off <=? 86400 * s - 1) with true by (symmetry; apply Z.leb_le; lia).
    replace (86400 * s - 1 <? 86400 * (e + 1) - off) with true by (symmetry; apply Z.ltb_lt; lia).
    cbn. discriminate.
  - exists (86400 * s). unfold in_window, in_window_zone.
    replace (86400 * s <=? 86400 * s) with true by (symmetry; apply Z.leb_le; lia).
    replace (86400 * s <? 86400 * (e + 1)) with true by (symmetry; apply Z.ltb_lt; lia).
    replace (86400 * s - off <=? 86400 * s) with false by (symmetry; apply Z.leb_gt; lia).
    cbn. discriminate.
Qed.

Lemma zone_zero_is_utc : forall s e dep, in_window_zone 0 s e dep = in_window s e dep.
Proof. intros. unfold in_window_zone, in_window. now rewrite !Z.sub_0_r. Qed.

(* the statement the Props file quotes *)
Lemma date_window_is_utc_days_only :
  (forall coin db i j s e r,
     eval_cond coin db i (CStart (86400 * s)) r && eval_cond coin db j (CEnd (86400 * (e + 1))) r =
     (s <=? r_dep r / 86400) && (r_dep r / 86400 <=? e)) /\
  (forall off, off <> 0 -> -86400 < off < 86400 -> forall s e, s <= e ->
     exists dep, in_window s e dep <> in_window_zone off s e dep) /\
  (forall s e dep, in_window_zone 0 s e dep = in_window s e dep).
Proof.
  split; [|split].
  - intros. rewrite conds_are_window. apply window_is_utc_days.
  - exact zone_window_differs.
  - exact zone_zero_is_utc.
Qed.

Example date_window_nonvacuous :
  in_window 19000 19000 (86400 * 19000) = true /\ in_window 19000 19000 (86400 * 19000 + 86399) = true /\
  in_window 19000 19000 (86400 * 19001) = false /\ in_window_zone 32400 19000 19000 (86400 * 19000 - 1) = true.
Proof. repeat split; vm_compute; reflexivity. Qed.

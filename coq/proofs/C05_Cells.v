(* C05 — searchsorted / cell index lemmas and the one-coordinate containment theorem. *)
From Coq Require Import ZArith List Bool Reals Lra Lia Permutation Sorted.
From AV Require Import lib.Num model.C04_Model proofs.C05_Sorting.
Import ListNotations.
Local Open Scope R_scope.

Definition gn (g : list R) (i : Z) : R := nth (Z.to_nat i) g 0.
Definition glen (g : list R) : Z := Z.of_nat (length g).
Definition incr (g : list R) : Prop := StronglySorted Rlt g.
Notation ss := (@ss_left RNum).

Lemma ss_cons (a : R) (r : list R) (x : R) :
  ss (a :: r) x = if Rltb a x then (1 + ss r x)%Z else 0%Z.
Proof. reflexivity. Qed.

Lemma glen_cons (a : R) r : glen (a :: r) = (1 + glen r)%Z.
Proof. unfold glen. simpl length. lia. Qed.

Lemma gn_cons (a : R) r i : (1 <= i)%Z -> gn (a :: r) i = gn r (i - 1).
Proof.
  intros H. unfold gn. replace (Z.to_nat i) with (S (Z.to_nat (i - 1))) by lia. reflexivity.
Qed.

Lemma gn_0 (a : R) r : gn (a :: r) 0 = a.
Proof. reflexivity. Qed.

Lemma ss_range g x : (0 <= ss g x <= glen g)%Z.
Proof.
  induction g as [|a r IH]; [unfold glen; simpl; lia|].
  rewrite ss_cons, glen_cons. destruct (Rltb a x); lia.
Qed.

Lemma ss_below g x i : (0 <= i < ss g x)%Z -> gn g i < x.
Proof.
  revert i. induction g as [|a r IH]; intros i Hi; [simpl in Hi; lia|].
  rewrite ss_cons in Hi. destruct (Rltb a x) eqn:E; [|lia].
  apply Rltb_true in E. destruct (Z.eq_dec i 0) as [->|Hn]; [rewrite gn_0; exact E|].
  rewrite gn_cons by lia. apply IH. lia.
Qed.

Lemma ss_at g x : (ss g x < glen g)%Z -> x <= gn g (ss g x).
Proof.
  induction g as [|a r IH]; [unfold glen; simpl; lia|].
  rewrite ss_cons, glen_cons. destruct (Rltb a x) eqn:E; intros H.
  - pose proof (ss_range r x). rewrite gn_cons by lia.
    replace (1 + ss r x - 1)%Z with (ss r x) by lia. apply IH. lia.
  - apply Rltb_false in E. rewrite gn_0. exact E.
Qed.

Lemma ss_mono g x x' : x <= x' -> (ss g x <= ss g x')%Z.
Proof.
  intros H. induction g as [|a r IH]; [simpl; lia|].
  rewrite !ss_cons. destruct (Rltb a x) eqn:E; destruct (Rltb a x') eqn:E'; try lia.
  - apply Rltb_true in E. apply Rltb_false in E'. lra.
  - pose proof (ss_range r x'). lia.
Qed.

Lemma incr_nth_le g i j : incr g -> (0 <= i <= j)%Z -> (j < glen g)%Z -> gn g i <= gn g j.
Proof.
  intros Hg. revert i j. induction Hg as [|a r Hs IH Hall]; intros i j Hij Hj; [unfold glen in Hj; simpl in Hj; lia|].
  rewrite glen_cons in Hj.
  destruct (Z.eq_dec i 0) as [->|Hi].
  - rewrite gn_0. destruct (Z.eq_dec j 0) as [->|Hj0]; [rewrite gn_0; lra|].
    rewrite gn_cons by lia. rewrite Forall_forall in Hall.
    assert (In (gn r (j - 1)) r). { unfold gn. apply nth_In. unfold glen in Hj. lia. }
    specialize (Hall _ H). lra.
  - rewrite !gn_cons by lia. apply IH; lia.
Qed.

Lemma ss_above g x i : incr g -> (ss g x <= i < glen g)%Z -> x <= gn g i.
Proof.
  intros Hg Hi. pose proof (ss_range g x).
  apply Rle_trans with (gn g (ss g x)); [apply ss_at; lia|apply incr_nth_le; [exact Hg|lia|lia]].
Qed.

(* the key: on an increasing grid, line i lies below x exactly when i < searchsorted(x) *)
Lemma ss_key g x i : incr g -> (0 <= i < glen g)%Z -> (gn g i < x <-> (i < ss g x)%Z).
Proof.
  intros Hg Hi. split; intros H.
  - destruct (Z_lt_ge_dec i (ss g x)) as [L|G]; [exact L|].
    assert (x <= gn g i) by (apply ss_above; [exact Hg|lia]). lra.
  - apply ss_below. lia.
Qed.

Lemma gn_in g i : (0 <= i < glen g)%Z -> In (gn g i) g.
Proof. intros H. unfold gn. apply nth_In. unfold glen in H. lia. Qed.

Lemma in_gn g y : In y g -> exists i, (0 <= i < glen g)%Z /\ gn g i = y.
Proof.
  intros H. destruct (In_nth g y 0 H) as [n [Hn E]]. exists (Z.of_nat n). split; [unfold glen; lia|].
  unfold gn. rewrite Nat2Z.id. exact E.
Qed.

Lemma py_nth_gn g i : (0 <= i < glen g)%Z -> @py_nth RNum g i = gn g i.
Proof.
  intros H. unfold py_nth, gn. destruct (i <? 0)%Z eqn:E; [apply Z.ltb_lt in E; lia|].
  rewrite E. reflexivity.
Qed.

(* a coordinate is "inside the grid" when above the lowest and not above the highest line *)
Definition inside (g : list R) (x : R) : Prop := gn g 0 < x <= gn g (glen g - 1).

Lemma inside_len g x : inside g x -> (2 <= glen g)%Z.
Proof.
  intros [H1 H2]. destruct g as [|a [|b r]]; unfold gn, glen in *; simpl in *; try lra.
  lia.
Qed.

Lemma cell_spec clamp g x :
  incr g -> inside g x ->
  let c := @cell_index RNum clamp g x in
  c = (ss g x - 1)%Z /\ (0 <= c)%Z /\ (c + 1 < glen g)%Z /\ gn g c < x <= gn g (c + 1).
Proof.
  intros Hg Hin c. pose proof (inside_len g x Hin) as Hl. destruct Hin as [H0 H1].
  pose proof (ss_range g x) as Hr.
  assert (A : (0 < ss g x)%Z) by (apply (ss_key g x 0 Hg); [lia|exact H0]).
  assert (B : (ss g x < glen g)%Z).
  { destruct (Z_lt_ge_dec (ss g x) (glen g)) as [L|G]; [exact L|].
    assert (gn g (glen g - 1) < x) by (apply ss_below; lia). lra. }
  assert (Ec : c = (ss g x - 1)%Z).
  { subst c. unfold cell_index. destruct clamp; lia. }
  rewrite Ec. repeat split; try lia.
  - apply ss_below. lia.
  - replace (ss g x - 1 + 1)%Z with (ss g x) by lia. apply ss_at. exact B.
Qed.

(* ---------- the grid lines met between two coordinates ---------- *)

Lemma in_crossed i s d :
  In i (crossed s d) <-> ((0 <= d /\ s + 1 <= i <= s + d) \/ (d < 0 /\ s + d + 1 <= i <= s))%Z.
Proof.
  unfold crossed. destruct (d <? 0)%Z eqn:E.
  - apply Z.ltb_lt in E. rewrite in_map_iff. split.
    + intros [j [<- Hj]]. apply in_seq in Hj. right. lia.
    + intros [[H _]|[_ H]]; [lia|]. exists (Z.to_nat (s - i)). split; [lia|apply in_seq; lia].
  - apply Z.ltb_ge in E. rewrite in_map_iff. split.
    + intros [j [<- Hj]]. apply in_seq in Hj. left. lia.
    + intros [[_ H]|[H _]]; [|lia]. exists (Z.to_nat (i - s - 1)). split; [lia|apply in_seq; lia].
Qed.

(* exactly the grid lines in [min, max) are met *)
Lemma lines_char clamp g x0 x1 y :
  incr g -> inside g x0 -> inside g x1 ->
  let s := @cell_index RNum clamp g x0 in
  let e := @cell_index RNum clamp g x1 in
  In y (map (@py_nth RNum g) (crossed s (e - s))) <-> (In y g /\ Rmin x0 x1 <= y < Rmax x0 x1).
Proof.
  intros Hg I0 I1 s e.
  destruct (cell_spec clamp g x0 Hg I0) as [Es [_ _]].
  destruct (cell_spec clamp g x1 Hg I1) as [Ee [_ _]].
  fold s in Es. fold e in Ee.
  pose proof (ss_range g x0) as R0. pose proof (ss_range g x1) as R1.
  split.
  - intros H. apply in_map_iff in H. destruct H as [i [<- Hi]]. apply in_crossed in Hi.
    assert (Hr : (0 <= i < glen g)%Z) by lia.
    rewrite py_nth_gn by exact Hr. split; [apply gn_in; exact Hr|].
    destruct Hi as [[Hd Hi]|[Hd Hi]].
    + assert (A : gn g i < x1) by (apply (ss_key g x1 i Hg Hr); lia).
      assert (B : x0 <= gn g i) by (apply ss_above; [exact Hg|lia]).
      rewrite Rmin_left, Rmax_right by lra. lra.
    + assert (A : gn g i < x0) by (apply (ss_key g x0 i Hg Hr); lia).
      assert (B : x1 <= gn g i) by (apply ss_above; [exact Hg|lia]).
      rewrite Rmin_right, Rmax_left by lra. lra.
  - intros [Hy [Hlo Hhi]]. destruct (in_gn g y Hy) as [i [Hr <-]].
    apply in_map_iff. exists i. split; [apply py_nth_gn; exact Hr|]. apply in_crossed.
    destruct (Rle_dec x0 x1) as [L|L].
    + rewrite Rmin_left in Hlo by exact L. rewrite Rmax_right in Hhi by exact L.
      assert (A : (i < ss g x1)%Z) by (apply (ss_key g x1 i Hg Hr); exact Hhi).
      assert (B : ~ (i < ss g x0)%Z) by (intros C; apply (ss_key g x0 i Hg Hr) in C; lra).
      left. lia.
    + rewrite Rmin_right in Hlo by lra. rewrite Rmax_left in Hhi by lra.
      assert (A : (i < ss g x0)%Z) by (apply (ss_key g x0 i Hg Hr); exact Hhi).
      assert (B : ~ (i < ss g x1)%Z) by (intros C; apply (ss_key g x1 i Hg Hr) in C; lra).
      right. lia.
Qed.

(* ---------- points of the CLOSED grid range (lowest line included) when the index is clamped ---------- *)

Definition inside_c (g : list R) (x : R) : Prop := (2 <= glen g)%Z /\ gn g 0 <= x <= gn g (glen g - 1).

(* admissible coordinate: strictly above the lowest line (any clamp), or anywhere in the closed range when the
   index is clamped at 0 (the repaired code; the antimeridian split inserts points exactly ON the lowest line) *)
Definition okx (clamp : bool) (g : list R) (x : R) : Prop := inside g x \/ (clamp = true /\ inside_c g x).

Lemma okx_closed clamp g x : okx clamp g x -> (2 <= glen g)%Z /\ gn g 0 <= x <= gn g (glen g - 1).
Proof.
  intros [H|[_ H]]; [|exact H]. split; [exact (inside_len g x H)|]. destruct H. lra.
Qed.

Lemma incr_nth_lt g i j : incr g -> (0 <= i < j)%Z -> (j < glen g)%Z -> gn g i < gn g j.
Proof.
  intros Hg. revert i j. induction Hg as [|a r Hs IH Hall]; intros i j Hij Hj; [unfold glen in Hj; simpl in Hj; lia|].
  rewrite glen_cons in Hj.
  destruct (Z.eq_dec i 0) as [->|Hi].
  - rewrite gn_0. rewrite gn_cons by lia. rewrite Forall_forall in Hall.
    apply Hall. unfold gn. apply nth_In. unfold glen in Hj. lia.
  - rewrite !gn_cons by lia. apply IH; lia.
Qed.

Lemma cell_spec_gen clamp g x :
  incr g -> okx clamp g x ->
  let c := @cell_index RNum clamp g x in
  (0 <= c)%Z /\ (c + 1 < glen g)%Z /\ gn g c <= x <= gn g (c + 1) /\
  (gn g c < x \/ (c = 0%Z /\ x = gn g 0)) /\ c = Z.max (ss g x - 1) 0.
Proof.
  intros Hg [Hin|[Hc [Hl [H0 H1]]]] c.
  - destruct (cell_spec clamp g x Hg Hin) as [Ec [c0 [c1 [cl cu]]]]. fold c in Ec, c0, c1, cl, cu.
    repeat split; try lia; try lra; try (left; exact cl).
  - subst clamp. destruct (Rle_lt_or_eq_dec _ _ H0) as [Hlt|Heq].
    + destruct (cell_spec true g x Hg (conj Hlt H1)) as [Ec [c0 [c1 [cl cu]]]]. fold c in Ec, c0, c1, cl, cu.
      repeat split; try lia; try lra; try (left; exact cl).
    + assert (E : ss g x = 0%Z).
      { pose proof (ss_range g x). destruct (Z.eq_dec (ss g x) 0) as [e|n]; [exact e|].
        assert (gn g 0 < x) by (apply ss_below; lia). lra. }
      assert (Ec : c = 0%Z) by (subst c; unfold cell_index; rewrite E; reflexivity).
      rewrite Ec. split; [lia|]. split; [lia|]. split; [split; [lra|]|split].
      * rewrite <- Heq. apply incr_nth_le; [exact Hg|lia|lia].
      * right. split; [reflexivity|symmetry; exact Heq].
      * rewrite E. reflexivity.
Qed.

Lemma crossed_clamped i a b :
  (0 <= a)%Z -> (0 <= b)%Z ->
  In i (crossed (Z.max (a - 1) 0) (Z.max (b - 1) 0 - Z.max (a - 1) 0))
  <-> ((1 <= i)%Z /\ ((a <= i < b)%Z \/ (b <= i < a)%Z)).
Proof. intros Ha Hb. rewrite in_crossed. lia. Qed.

(* exactly the grid lines in [min, max) above the lowest line are met *)
Lemma lines_char_gen clamp g x0 x1 y :
  incr g -> okx clamp g x0 -> okx clamp g x1 ->
  let s := @cell_index RNum clamp g x0 in
  let e := @cell_index RNum clamp g x1 in
  In y (map (@py_nth RNum g) (crossed s (e - s)))
  <-> (In y g /\ Rmin x0 x1 <= y < Rmax x0 x1 /\ gn g 0 < y).
Proof.
  intros Hg I0 I1 s e.
  destruct (cell_spec_gen clamp g x0 Hg I0) as [_ [_ [_ [_ Es]]]].
  destruct (cell_spec_gen clamp g x1 Hg I1) as [_ [_ [_ [_ Ee]]]].
  fold s in Es. fold e in Ee. rewrite Es, Ee.
  pose proof (ss_range g x0) as R0. pose proof (ss_range g x1) as R1.
  destruct (okx_closed _ _ _ I0) as [Hl _].
  split.
  - intros H. apply in_map_iff in H. destruct H as [i [<- Hi]].
    apply crossed_clamped in Hi; [|lia|lia]. destruct Hi as [Hi1 Hi].
    assert (Hr : (0 <= i < glen g)%Z) by lia.
    rewrite py_nth_gn by exact Hr. split; [apply gn_in; exact Hr|]. split.
    + destruct Hi as [Hi|Hi].
      * assert (A : gn g i < x1) by (apply (ss_key g x1 i Hg Hr); lia).
        assert (B : x0 <= gn g i) by (apply ss_above; [exact Hg|lia]).
        rewrite Rmin_left, Rmax_right by lra. lra.
      * assert (A : gn g i < x0) by (apply (ss_key g x0 i Hg Hr); lia).
        assert (B : x1 <= gn g i) by (apply ss_above; [exact Hg|lia]).
        rewrite Rmin_right, Rmax_left by lra. lra.
    + apply incr_nth_lt; [exact Hg|lia|lia].
  - intros [Hy [[Hlo Hhi] Hg0]]. destruct (in_gn g y Hy) as [i [Hr <-]].
    apply in_map_iff. exists i. split; [apply py_nth_gn; exact Hr|].
    apply crossed_clamped; [lia|lia|]. split.
    + destruct (Z.eq_dec i 0) as [->|n]; [lra|lia].
    + destruct (Rle_dec x0 x1) as [L|L].
      * rewrite Rmin_left in Hlo by exact L. rewrite Rmax_right in Hhi by exact L.
        assert (A : (i < ss g x1)%Z) by (apply (ss_key g x1 i Hg Hr); exact Hhi).
        assert (B : ~ (i < ss g x0)%Z) by (intros C; apply (ss_key g x0 i Hg Hr) in C; lra).
        left. lia.
      * rewrite Rmin_right in Hlo by lra. rewrite Rmax_left in Hhi by lra.
        assert (A : (i < ss g x0)%Z) by (apply (ss_key g x0 i Hg Hr); exact Hhi).
        assert (B : ~ (i < ss g x1)%Z) by (intros C; apply (ss_key g x1 i Hg Hr) in C; lra).
        right. lia.
Qed.

(* ---------- closed-cell containment ---------- *)

Definition in_cell (g : list R) (c : Z) (x : R) : Prop :=
  (0 <= c)%Z /\ (c + 1 < glen g)%Z /\ gn g c <= x <= gn g (c + 1).

(* core step: a pair (u, w) of neighbouring chain coordinates, a witness m between them whose cell is c *)
Lemma pair_in_cell g c u w m :
  incr g -> (0 <= c)%Z -> (c + 1 < glen g)%Z ->
  gn g c <= m <= gn g (c + 1) ->
  (gn g c < m \/ gn g c <= Rmin u w) ->
  Rmin u w <= m <= Rmax u w ->
  (forall y, In y g -> Rmin u w < y < Rmax u w -> False) ->
  (m = Rmin u w -> Rmin u w < Rmax u w -> gn g (c + 1) = Rmin u w -> False) ->
  in_cell g c u /\ in_cell g c w.
Proof.
  intros Hg Hc0 Hc1 [Hm0 Hm1] Hlow [Hlo Hhi] NG NB.
  assert (I0 : In (gn g c) g) by (apply gn_in; lia).
  assert (I1 : In (gn g (c + 1)) g) by (apply gn_in; lia).
  assert (A : gn g c <= Rmin u w).
  { destruct Hlow as [Hlt|Hle]; [|exact Hle].
    destruct (Rle_dec (gn g c) (Rmin u w)) as [L|L]; [exact L|]. exfalso. apply (NG _ I0). lra. }
  assert (B : Rmax u w <= gn g (c + 1)).
  { destruct (Rle_dec (Rmax u w) (gn g (c + 1))) as [L|L]; [exact L|]. exfalso.
    destruct (Rlt_dec (Rmin u w) (gn g (c + 1))) as [L2|L2]; [apply (NG _ I1); lra|].
    assert (E : m = Rmin u w) by lra.
    apply (NB E); lra. }
  pose proof (Rmin_l u w). pose proof (Rmin_r u w). pose proof (Rmax_l u w). pose proof (Rmax_r u w).
  unfold in_cell. repeat split; try lia; lra.
Qed.

(* the one-coordinate cell list of the model *)
Definition mid1 (p : R * R) : R := (fst p + snd p) / 2.
Definition cells1 clamp (g : list R) (x0 x1 : R) (I : list R) : list Z :=
  @cell_index RNum clamp g x0 :: map (fun p => @cell_index RNum clamp g (mid1 p)) (pairs I)
    ++ (if (length I =? 0)%nat then [] else [@cell_index RNum clamp g x1]).

Definition both_in (g : list R) (c : Z) (uw : R * R) : Prop := in_cell g c (fst uw) /\ in_cell g c (snd uw).

(* shape of the cell list against the pairs of the chain, for any predicate *)
Lemma cells_pairs_structure clamp (g : list R) (x0 x1 : R) (I : list R) (Pr : Z -> R * R -> Prop) :
  (forall w rest, I ++ [x1] = w :: rest -> Pr (@cell_index RNum clamp g x0) (x0, w)) ->
  (forall P u, x0 :: I = P ++ [u] -> Pr (@cell_index RNum clamp g x1) (u, x1)) ->
  (forall u w, In (u, w) (pairs I) -> Pr (@cell_index RNum clamp g (mid1 (u, w))) (u, w)) ->
  Forall2 Pr (cells1 clamp g x0 x1 I) (pairs (x0 :: I ++ [x1])).
Proof.
  intros HF HL HM. unfold cells1. destruct I as [|a I'] eqn:EI.
  - cbn [length Nat.eqb pairs map app]. constructor; [|constructor].
    apply (HF x1 []). reflexivity.
  - assert (Hne : a :: I' <> []) by discriminate.
    change (x0 :: (a :: I') ++ [x1]) with (x0 :: a :: (I' ++ [x1])).
    rewrite pairs_cons2'. change (a :: I' ++ [x1]) with ((a :: I') ++ [x1]).
    rewrite (pairs_app_single (a :: I') x1 0 Hne).
    cbn [length Nat.eqb]. constructor.
    + apply (HF a (I' ++ [x1])). reflexivity.
    + apply Forall2_app.
      * clear HF HL Hne. revert HM. generalize (pairs (a :: I')). intros l HM.
        induction l as [|[u w] l IHl]; [constructor|].
        cbn [map]. constructor; [apply HM; left; reflexivity|].
        apply IHl. intros u' w' Hp. apply HM. right. exact Hp.
      * constructor; [|constructor].
        destruct (@exists_last _ (x0 :: a :: I') ltac:(discriminate)) as [P [u E]].
        assert (Eu : u = last (a :: I') 0).
        { assert (H : last (x0 :: a :: I') 0 = last (a :: I') 0) by reflexivity.
          rewrite E in H. rewrite last_last in H. exact H. }
        rewrite <- Eu. apply (HL P u). exact E.
Qed.

Section OneD.
  Variables (clamp : bool) (g : list R) (x0 x1 : R) (I : list R).
  Hypothesis Hg : incr g.
  Hypothesis H0 : okx clamp g x0.
  Hypothesis H1 : okx clamp g x1.
  Hypothesis Hmono : mono (x0 :: I ++ [x1]).
  (* every grid line in [min, max), other than the lowest line, is one of the intersection coordinates *)
  Hypothesis Hcomplete : forall y, In y g -> Rmin x0 x1 <= y < Rmax x0 x1 -> gn g 0 < y -> In y I.

  Let C := x0 :: I ++ [x1].

  Lemma chain_closed z : In z C -> gn g 0 <= z <= gn g (glen g - 1).
  Proof.
    intros Hz. pose proof (mono_between I x0 x1 z Hmono Hz) as [A B].
    destruct (okx_closed _ _ _ H0) as [_ [a0 b0]]. destruct (okx_closed _ _ _ H1) as [_ [a1 b1]].
    destruct (Rle_dec x0 x1) as [L|L].
    - rewrite Rmin_left in A by exact L. rewrite Rmax_right in B by exact L. lra.
    - rewrite Rmin_right in A by lra. rewrite Rmax_left in B by lra. lra.
  Qed.

  (* a value between two chain points is admissible *)
  Lemma between_ok u w m : In u C -> In w C -> Rmin u w <= m <= Rmax u w -> okx clamp g m.
  Proof.
    intros Hu Hw [Hlo Hhi].
    pose proof (mono_between I x0 x1 u Hmono Hu) as [Au Bu].
    pose proof (mono_between I x0 x1 w Hmono Hw) as [Aw Bw].
    assert (Lo : Rmin x0 x1 <= m) by (apply Rle_trans with (Rmin u w); [apply Rmin_glb; assumption|exact Hlo]).
    assert (Hi : m <= Rmax x0 x1) by (apply Rle_trans with (Rmax u w); [exact Hhi|apply Rmax_lub; assumption]).
    destruct H0 as [[a0 b0]|[Ec0 [L0 [a0 b0]]]]; destruct H1 as [[a1 b1]|[Ec1 [L1 [a1 b1]]]].
    - left. unfold inside. destruct (Rle_dec x0 x1) as [L|L].
      + rewrite Rmin_left in Lo by exact L. rewrite Rmax_right in Hi by exact L. lra.
      + rewrite Rmin_right in Lo by lra. rewrite Rmax_left in Hi by lra. lra.
    - right. split; [exact Ec1|]. split; [exact L1|]. destruct (Rle_dec x0 x1) as [L|L].
      + rewrite Rmin_left in Lo by exact L. rewrite Rmax_right in Hi by exact L. lra.
      + rewrite Rmin_right in Lo by lra. rewrite Rmax_left in Hi by lra. lra.
    - right. split; [exact Ec0|]. split; [exact L0|]. destruct (Rle_dec x0 x1) as [L|L].
      + rewrite Rmin_left in Lo by exact L. rewrite Rmax_right in Hi by exact L. lra.
      + rewrite Rmin_right in Lo by lra. rewrite Rmax_left in Hi by lra. lra.
    - right. split; [exact Ec0|]. split; [exact L0|]. destruct (Rle_dec x0 x1) as [L|L].
      + rewrite Rmin_left in Lo by exact L. rewrite Rmax_right in Hi by exact L. lra.
      + rewrite Rmin_right in Lo by lra. rewrite Rmax_left in Hi by lra. lra.
  Qed.

  (* nothing of the grid strictly between two neighbours of the chain *)
  Lemma chain_gap_free P Q u w y :
    C = P ++ u :: w :: Q -> In y g -> Rmin u w < y < Rmax u w -> False.
  Proof.
    intros E Hy Hb.
    assert (Iu : In u C) by (rewrite E; apply in_or_app; right; left; reflexivity).
    assert (Iw : In w C) by (rewrite E; apply in_or_app; right; right; left; reflexivity).
    pose proof (mono_between I x0 x1 u Hmono Iu) as [Au Bu].
    pose proof (mono_between I x0 x1 w Hmono Iw) as [Aw Bw].
    assert (Rmin x0 x1 <= Rmin u w) by (apply Rmin_glb; assumption).
    assert (Rmax u w <= Rmax x0 x1) by (apply Rmax_lub; assumption).
    pose proof (chain_closed u Iu) as [cu _]. pose proof (chain_closed w Iw) as [cw _].
    assert (gn g 0 <= Rmin u w) by (apply Rmin_glb; assumption).
    assert (HI : In y I) by (apply Hcomplete; [exact Hy|lra|lra]).
    apply (mono_no_between C P Q u w y Hmono E); [|exact Hb].
    unfold C. right. apply in_or_app. left. exact HI.
  Qed.

  (* the admissible lower-edge alternative of pair_in_cell for a chain pair *)
  Lemma low_alt c m u w :
    In u C -> In w C -> (gn g c < m \/ (c = 0%Z /\ m = gn g 0)) -> (gn g c < m \/ gn g c <= Rmin u w).
  Proof.
    intros Hu Hw [L|[-> _]]; [left; exact L|right].
    pose proof (chain_closed u Hu) as [cu _]. pose proof (chain_closed w Hw) as [cw _].
    apply Rmin_glb; assumption.
  Qed.

  Lemma first_piece w rest :
    I ++ [x1] = w :: rest -> both_in g (@cell_index RNum clamp g x0) (x0, w).
  Proof.
    intros E. destruct (cell_spec_gen clamp g x0 Hg H0) as [c0 [c1 [cm [calt _]]]].
    assert (EC : C = [] ++ x0 :: w :: rest) by (unfold C; rewrite E; reflexivity).
    assert (I0 : In x0 C) by (left; reflexivity).
    assert (Iw : In w C) by (rewrite EC; right; left; reflexivity).
    apply (pair_in_cell g _ x0 w x0 Hg c0 c1 cm (low_alt _ _ _ _ I0 Iw calt)).
    - split; [apply Rmin_l|apply Rmax_l].
    - intros y Hy Hb. exact (chain_gap_free [] rest x0 w y EC Hy Hb).
    - intros Em Hlt Eg.
      (* x0 = min < w: the chain ascends; x0 = g[c+1] is a grid line above the lowest, in [x0, x1), hence in I,
         so w = head of I <= x0 *)
      assert (Hx : x0 < w).
      { destruct (Rle_dec x0 w) as [L|L]; [rewrite Rmin_left, Rmax_right in Hlt by exact L; exact Hlt|].
        rewrite Rmin_right in Em by lra. lra. }
      rewrite Rmin_left in Eg by lra.
      assert (Hin : In x0 g) by (rewrite <- Eg; apply gn_in; lia).
      assert (Hlow : gn g 0 < x0) by (rewrite <- Eg; apply incr_nth_lt; [exact Hg|lia|lia]).
      pose proof (mono_between I x0 x1 w Hmono Iw) as [Aw Bw].
      assert (L01 : x0 < x1).
      { destruct (Rle_dec x0 x1) as [L|L]; [rewrite Rmax_right in Bw by exact L; lra|].
        rewrite Rmax_left in Bw by lra. lra. }
      assert (HI : In x0 I).
      { apply Hcomplete; [exact Hin| |exact Hlow]. rewrite Rmin_left, Rmax_right by lra. lra. }
      clear I0 Iw.
      destruct I as [|a I'] eqn:EI; [destruct HI|].
      simpl in E. injection E as Ea _. subst a.
      destruct Hmono as [S|S]; unfold C in *.
      + inversion S as [|? ? S2 _]; subst. inversion S2 as [|? ? _ F]; subst.
        destruct HI as [HI|HI]; [lra|]. rewrite Forall_forall in F.
        assert (w <= x0) by (apply F, in_or_app; left; exact HI). lra.
      + inversion S as [|? ? _ F]; subst. inversion F; subst. lra.
  Qed.

  Lemma last_piece P u :
    x0 :: I = P ++ [u] -> both_in g (@cell_index RNum clamp g x1) (u, x1).
  Proof.
    intros E. destruct (cell_spec_gen clamp g x1 Hg H1) as [c0 [c1 [cm [calt _]]]].
    assert (EC : C = P ++ u :: x1 :: []).
    { unfold C. change (x0 :: I ++ [x1]) with ((x0 :: I) ++ [x1]). rewrite E, <- app_assoc. reflexivity. }
    assert (Iu : In u C) by (rewrite EC; apply in_or_app; right; left; reflexivity).
    assert (I1 : In x1 C) by (rewrite EC; apply in_or_app; right; right; left; reflexivity).
    apply (pair_in_cell g _ u x1 x1 Hg c0 c1 cm (low_alt _ _ _ _ Iu I1 calt)).
    - split; [apply Rmin_r|apply Rmax_r].
    - intros y Hy Hb. exact (chain_gap_free P [] u x1 y EC Hy Hb).
    - intros Em Hlt Eg.
      (* x1 = min < u: the chain descends; x1 = g[c+1] is a grid line above the lowest, in [x1, x0), hence in I,
         so u = last of I <= x1 *)
      assert (Hx : x1 < u).
      { destruct (Rle_dec u x1) as [L|L]; [rewrite Rmin_left in Em by exact L; rewrite Rmin_left, Rmax_right in Hlt by exact L; lra|lra]. }
      rewrite Rmin_right in Eg by lra.
      assert (Hin : In x1 g) by (rewrite <- Eg; apply gn_in; lia).
      assert (Hlow : gn g 0 < x1) by (rewrite <- Eg; apply incr_nth_lt; [exact Hg|lia|lia]).
      pose proof (mono_between I x0 x1 u Hmono Iu) as [Au Bu].
      assert (L01 : x1 < x0).
      { destruct (Rle_dec x0 x1) as [L|L]; [rewrite Rmax_right in Bu by exact L; lra|lra]. }
      assert (HI : In x1 I).
      { apply Hcomplete; [exact Hin| |exact Hlow]. rewrite Rmin_right, Rmax_left by lra. lra. }
      assert (HP : In x1 (P ++ [u])) by (rewrite <- E; right; exact HI).
      destruct Hmono as [S|S]; unfold C in *.
      + inversion S as [|? ? _ F]; subst. rewrite Forall_forall in F.
        assert (x0 <= x1) by (apply F, in_or_app; right; left; reflexivity). lra.
      + change (x0 :: I ++ [x1]) with ((x0 :: I) ++ [x1]) in S. rewrite E in S.
        rewrite <- app_assoc in S. destruct (SS_app_inv _ _ _ S) as [_ [S2 Cx]].
        apply in_app_or in HP. destruct HP as [HP|[HP|[]]]; [|lra].
        specialize (Cx x1 u HP (or_introl eq_refl)). lra.
  Qed.

  Lemma middle_piece u w :
    In (u, w) (pairs I) -> both_in g (@cell_index RNum clamp g (mid1 (u, w))) (u, w).
  Proof.
    intros Hp. destruct (in_pairs_split I u w Hp) as [P [Q E]].
    assert (EC : C = (x0 :: P) ++ u :: w :: (Q ++ [x1])).
    { unfold C. rewrite E. simpl. rewrite <- app_assoc. reflexivity. }
    assert (Iu : In u C) by (rewrite EC; apply in_or_app; right; left; reflexivity).
    assert (Iw : In w C) by (rewrite EC; apply in_or_app; right; right; left; reflexivity).
    assert (Hmid : Rmin u w <= mid1 (u, w) <= Rmax u w).
    { unfold mid1. cbn [fst snd]. pose proof (Rmin_l u w). pose proof (Rmin_r u w).
      pose proof (Rmax_l u w). pose proof (Rmax_r u w). lra. }
    pose proof (between_ok u w _ Iu Iw Hmid) as Hm.
    destruct (cell_spec_gen clamp g _ Hg Hm) as [c0 [c1 [cm [calt _]]]].
    apply (pair_in_cell g _ u w (mid1 (u, w)) Hg c0 c1 cm (low_alt _ _ _ _ Iu Iw calt) Hmid).
    - intros y Hy Hb. exact (chain_gap_free (x0 :: P) (Q ++ [x1]) u w y EC Hy Hb).
    - intros Em Hlt _. unfold mid1 in Em. cbn [fst snd] in Em.
      destruct (Rle_dec u w) as [L|L].
      + rewrite Rmin_left in Em, Hlt by exact L. rewrite Rmax_right in Hlt by exact L. lra.
      + rewrite Rmin_right in Em, Hlt by lra. rewrite Rmax_left in Hlt by lra. lra.
  Qed.

  (* every piece of the chain lies in the closed cell it is attributed to *)
  Theorem one_coordinate_containment :
    Forall2 (both_in g) (cells1 clamp g x0 x1 I) (pairs C).
  Proof.
    apply cells_pairs_structure.
    - exact first_piece.
    - exact last_piece.
    - exact middle_piece.
  Qed.
End OneD.

(* C12_ISA — the two-layer standard atmosphere: pressure and altitude conversions are mutually inverse,
   the layers join continuously at the tropopause.  Proved for arbitrary constants satisfying the sign
   conditions (so the same lemmas serve the hand model and the constants regenerated from /repo). *)
From Coq Require Import ZArith Reals Lra Lia Bool.
From AV Require Import lib.Num lib.FloatMath model.C12_Base model.C12_Model.
Local Open Scope R_scope.

Lemma q_R n d : @q RNum n d = IZR n / IZR d.
Proof. reflexivity. Qed.

Lemma Rpower_inv_exponent x a b : 0 < x -> a * b = 1 -> Rpower (Rpower x a) b = x.
Proof. intros Hx Hab. rewrite Rpower_mult, Hab, Rpower_1; auto. Qed.

Lemma Rpower_le_mono x y a : 0 < a -> 0 < x -> x <= y -> Rpower x a <= Rpower y a.
Proof. intros Ha Hx Hxy. apply Rle_Rpower_l; lra. Qed.

Section Gen.
  Variables (T0 p0 g0 Rg beta htrop : R).
  Hypothesis HT0 : 0 < T0.
  Hypothesis Hp0 : 0 < p0.
  Hypothesis Hg0 : 0 < g0.
  Hypothesis HR : 0 < Rg.
  Hypothesis Hbeta : beta < 0.
  Hypothesis HTtrop : 0 < T0 + beta * htrop.

  Let e := (- g0) / (beta * Rg).
  Let a := (- beta) * Rg / g0.
  Let Ttrop := T0 + beta * htrop.
  Let ptrop := p0 * Rpower (Ttrop / T0) e.

  Definition Tg : R -> R := @isa_temperature_g RNum T0 beta htrop.
  Definition Pg : R -> R := @isa_pressure_g RNum T0 p0 g0 Rg beta htrop.
  Definition Hg : R -> R := @isa_altitude_g RNum T0 p0 g0 Rg beta htrop.

  Lemma e_pos : 0 < e.
  Proof. unfold e. replace (- g0 / (beta * Rg)) with (g0 / ((- beta) * Rg)) by (field; lra).
    apply Rdiv_lt_0_compat; [lra | apply Rmult_lt_0_compat; lra]. Qed.
  Lemma a_pos : 0 < a.
  Proof. unfold a. apply Rdiv_lt_0_compat; [apply Rmult_lt_0_compat; lra | lra]. Qed.
  Lemma ea : e * a = 1.
  Proof. unfold e, a. field. lra. Qed.
  Lemma ae : a * e = 1.
  Proof. rewrite Rmult_comm; apply ea. Qed.
  Lemma ptrop_pos : 0 < ptrop.
  Proof. unfold ptrop. apply Rmult_lt_0_compat; auto. apply exp_pos. Qed.

  Lemma Tg_eq (h : R) : Tg h = if Rle_dec h htrop then T0 + beta * h else Ttrop.
  Proof. unfold Tg, isa_temperature_g. rnum. unfold Rleb. destruct (Rle_dec h htrop); reflexivity. Qed.

  Lemma Pg_eq (h : R) : Pg h = if Rle_dec h htrop then p0 * Rpower ((T0 + beta * h) / T0) e
                        else ptrop * exp ((- g0) / (Rg * Ttrop) * (h - htrop)).
  Proof. unfold Pg, isa_pressure_g, isa_ptrop_g, isa_temperature_g. rnum. unfold Rleb.
    destruct (Rle_dec h htrop); reflexivity. Qed.

  Lemma Hg_eq (p : R) : Hg p = if Rle_dec ptrop p then T0 / beta * (Rpower (p / p0) a - 1)
                        else htrop - Rg * Ttrop / g0 * ln (p / ptrop).
  Proof. unfold Hg, isa_altitude_g, isa_ptrop_g, q. rnum. unfold Rleb.
    destruct (Rle_dec _ p); [ | reflexivity].
    unfold Rpower, a. replace (1 / 1) with 1 by lra. reflexivity. Qed.

  (* temperature stays positive up to (and above) the tropopause *)
  Lemma T_pos (h : R) : h <= htrop -> 0 < T0 + beta * h.
  Proof. intros. assert (beta * htrop <= beta * h) by (apply Rmult_le_compat_neg_l; lra). unfold Ttrop in *. lra. Qed.

  Theorem altitude_of_pressure_of_altitude (h : R) : Hg (Pg h) = h.
  Proof.
    rewrite Pg_eq. destruct (Rle_dec h htrop) as [Hh | Hh].
    - (* troposphere *)
      pose proof (T_pos h Hh) as HT.
      assert (Hx : 0 < (T0 + beta * h) / T0) by (apply Rdiv_lt_0_compat; lra).
      rewrite Hg_eq. destruct (Rle_dec ptrop _) as [Hp | Hp].
      + replace (p0 * Rpower ((T0 + beta * h) / T0) e / p0) with (Rpower ((T0 + beta * h) / T0) e) by (field; lra).
        rewrite Rpower_inv_exponent; [ field; lra | exact Hx | exact ea ].
      + exfalso. apply Hp. unfold ptrop. apply Rmult_le_compat_l; [lra|].
        apply Rpower_le_mono; [apply e_pos | unfold Ttrop; apply Rdiv_lt_0_compat; lra | ].
        unfold Ttrop. apply Rmult_le_compat_r; [left; apply Rinv_0_lt_compat; lra|].
        assert (beta * htrop <= beta * h) by (apply Rmult_le_compat_neg_l; lra). lra.
    - (* isothermal layer *)
      apply Rnot_le_lt in Hh.
      set (x := - g0 / (Rg * Ttrop) * (h - htrop)).
      assert (Hx : x < 0).
      { unfold x. replace (- g0 / (Rg * Ttrop) * (h - htrop)) with (- ((g0 / (Rg * Ttrop)) * (h - htrop))) by (field; unfold Ttrop; lra).
        assert (0 < g0 / (Rg * Ttrop) * (h - htrop)); [ | lra].
        apply Rmult_lt_0_compat; [ apply Rdiv_lt_0_compat; [lra | apply Rmult_lt_0_compat; unfold Ttrop; lra] | lra]. }
      assert (Hlt : ptrop * exp x < ptrop).
      { pose proof ptrop_pos. assert (exp x < 1) by (rewrite <- exp_0; apply exp_increasing; exact Hx).
        replace ptrop with (ptrop * 1) at 2 by ring. apply Rmult_lt_compat_l; lra. }
      rewrite Hg_eq. destruct (Rle_dec ptrop _) as [Hp | Hp]; [lra | ].
      replace (ptrop * exp x / ptrop) with (exp x) by (field; pose proof ptrop_pos; lra).
      rewrite ln_exp. unfold x. field. unfold Ttrop. lra.
  Qed.

  Theorem pressure_of_altitude_of_pressure (p : R) : 0 < p -> Pg (Hg p) = p.
  Proof.
    intros Hp. rewrite Hg_eq. destruct (Rle_dec ptrop p) as [Hge | Hlt].
    - (* p at or above the tropopause pressure: the altitude lies in the troposphere *)
      assert (Hq : 0 < p / p0) by (apply Rdiv_lt_0_compat; lra).
      set (y := Rpower (p / p0) a).
      assert (Hy : Ttrop / T0 <= y).
      { unfold y. replace (Ttrop / T0) with (Rpower (ptrop / p0) a).
        - apply Rpower_le_mono; [apply a_pos | apply Rdiv_lt_0_compat; [apply ptrop_pos | lra] | ].
          apply Rmult_le_compat_r; [left; apply Rinv_0_lt_compat; lra | exact Hge].
        - unfold ptrop. replace (p0 * Rpower (Ttrop / T0) e / p0) with (Rpower (Ttrop / T0) e) by (field; lra).
          apply Rpower_inv_exponent; [ unfold Ttrop; apply Rdiv_lt_0_compat; lra | exact ea ]. }
      assert (Hh : T0 / beta * (y - 1) <= htrop).
      { assert (Hy' : y * T0 >= Ttrop).
        { apply Rle_ge. apply (Rmult_le_compat_r T0) in Hy; [ | lra].
          replace (Ttrop / T0 * T0) with Ttrop in Hy by (field; lra). exact Hy. }
        assert (Hk : beta * (T0 / beta * (y - 1)) >= beta * htrop).
        { replace (beta * (T0 / beta * (y - 1))) with (y * T0 - T0) by (field; lra). unfold Ttrop in Hy'. lra. }
        apply Rge_le in Hk. apply Rnot_lt_le. intro Hc.
        assert (beta * (T0 / beta * (y - 1)) < beta * htrop) by (apply Rmult_lt_gt_compat_neg_l; lra). lra. }
      rewrite Pg_eq. destruct (Rle_dec _ htrop) as [_ | Hc]; [ | contradiction].
      replace ((T0 + beta * (T0 / beta * (y - 1))) / T0) with y by (field; lra).
      unfold y. rewrite Rpower_inv_exponent; [ field; lra | exact Hq | exact ae ].
    - (* p below the tropopause pressure: the altitude lies in the isothermal layer *)
      apply Rnot_le_lt in Hlt. pose proof ptrop_pos as Hpt.
      assert (Hq : 0 < p / ptrop) by (apply Rdiv_lt_0_compat; lra).
      assert (Hl : ln (p / ptrop) < 0).
      { rewrite <- ln_1. apply ln_increasing; [exact Hq | ].
        apply (Rmult_lt_reg_r ptrop); [lra | ]. replace (p / ptrop * ptrop) with p by (field; lra). lra. }
      assert (Hh : htrop < htrop - Rg * Ttrop / g0 * ln (p / ptrop)).
      { assert (0 < Rg * Ttrop / g0) by (apply Rdiv_lt_0_compat; [apply Rmult_lt_0_compat; unfold Ttrop; lra | lra]).
        assert (Rg * Ttrop / g0 * ln (p / ptrop) < 0); [ | lra].
        replace 0 with (Rg * Ttrop / g0 * 0) by ring. apply Rmult_lt_compat_l; lra. }
      rewrite Pg_eq. destruct (Rle_dec _ htrop) as [Hc | _]; [lra | ].
      replace (- g0 / (Rg * Ttrop) * (htrop - Rg * Ttrop / g0 * ln (p / ptrop) - htrop)) with (ln (p / ptrop))
        by (field; unfold Ttrop; lra).
      rewrite exp_ln; [ field; lra | exact Hq ].
  Qed.

  (* the two layer formulas agree at the tropopause *)
  Theorem layers_agree_at_tropopause :
    T0 + beta * htrop = Ttrop /\
    p0 * Rpower ((T0 + beta * htrop) / T0) e = ptrop * exp ((- g0) / (Rg * Ttrop) * (htrop - htrop)).
  Proof. split; [reflexivity | ]. unfold ptrop, Ttrop. replace (htrop - htrop) with 0 by ring.
    rewrite Rmult_0_r, exp_0. ring. Qed.

  (* pressure decreases with altitude in each layer, hence everywhere: used for the branch choice *)
  Lemma Pg_tropopause : Pg htrop = ptrop.
  Proof. rewrite Pg_eq. destruct (Rle_dec htrop htrop); [reflexivity | lra]. Qed.

  (* epsilon-delta continuity of temperature and pressure at the tropopause *)
  Lemma glue_continuity (f g1 g2 : R -> R) (c : R) :
    (forall x, x <= c -> f x = g1 x) -> (forall x, c < x -> f x = g2 x) -> g1 c = g2 c ->
    continuity_pt g1 c -> continuity_pt g2 c -> continuity_pt f c.
  Proof.
    intros H1 H2 Hc C1 C2 eps Heps.
    destruct (C1 eps Heps) as [d1 [Hd1 K1]]. destruct (C2 eps Heps) as [d2 [Hd2 K2]].
    exists (Rmin d1 d2). split; [apply Rmin_pos; assumption | ].
    intros x [[_ Hne] Hd]. simpl in *. unfold R_dist in *.
    rewrite (H1 c (Rle_refl c)).
    destruct (Rle_dec x c) as [Hx | Hx].
    - rewrite (H1 x Hx). apply K1. split; [split; [exact I | exact Hne] | ].
      eapply Rlt_le_trans; [exact Hd | apply Rmin_l].
    - apply Rnot_le_lt in Hx. rewrite (H2 x Hx), Hc. apply K2. split; [split; [exact I | exact Hne] | ].
      eapply Rlt_le_trans; [exact Hd | apply Rmin_r].
  Qed.

  Theorem temperature_continuous_at_tropopause : continuity_pt Tg htrop.
  Proof.
    apply (glue_continuity Tg (fun h => T0 + beta * h) (fun _ => Ttrop) htrop).
    - intros x Hx. rewrite Tg_eq. destruct (Rle_dec x htrop); [reflexivity | lra].
    - intros x Hx. rewrite Tg_eq. destruct (Rle_dec x htrop); [lra | reflexivity].
    - reflexivity.
    - reg.
    - reg.
  Qed.

  Theorem pressure_continuous_at_tropopause : continuity_pt Pg htrop.
  Proof.
    apply (glue_continuity Pg (fun h => p0 * Rpower ((T0 + beta * h) / T0) e)
                              (fun h => ptrop * exp ((- g0) / (Rg * Ttrop) * (h - htrop))) htrop).
    - intros x Hx. rewrite Pg_eq. destruct (Rle_dec x htrop); [reflexivity | lra].
    - intros x Hx. rewrite Pg_eq. destruct (Rle_dec x htrop); [lra | reflexivity].
    - apply layers_agree_at_tropopause.
    - (* p0 * exp (e * ln ((T0 + beta h)/T0)) *)
      apply derivable_continuous_pt.
      apply derivable_pt_mult; [apply derivable_pt_const | ].
      unfold Rpower.
      apply (derivable_pt_comp (fun h => e * ln ((T0 + beta * h) / T0)) exp); [ | apply derivable_pt_exp].
      apply derivable_pt_mult; [apply derivable_pt_const | ].
      apply (derivable_pt_comp (fun h => (T0 + beta * h) / T0) ln).
      + reg.
      + eexists. apply derivable_pt_lim_ln. apply Rdiv_lt_0_compat; lra.
    - reg.
  Qed.
  (* above the tropopause: constant temperature, exponentially decaying pressure, strictly below the
     tropopause pressure and strictly decreasing *)
  Theorem stratosphere (h : R) : htrop < h ->
    Tg h = Ttrop /\ Pg h = ptrop * exp ((- g0) / (Rg * Ttrop) * (h - htrop)) /\ Pg h < ptrop.
  Proof. intros Hh. rewrite Tg_eq, Pg_eq. destruct (Rle_dec h htrop) as [Hc | _]; [lra | ].
    split; [reflexivity | split; [reflexivity | ]].
    set (x := - g0 / (Rg * Ttrop) * (h - htrop)).
    assert (Hx : x < 0).
    { unfold x. replace (- g0 / (Rg * Ttrop) * (h - htrop)) with (- ((g0 / (Rg * Ttrop)) * (h - htrop))) by (field; unfold Ttrop; lra).
      assert (0 < g0 / (Rg * Ttrop) * (h - htrop)); [ | lra].
      apply Rmult_lt_0_compat; [ apply Rdiv_lt_0_compat; [lra | apply Rmult_lt_0_compat; unfold Ttrop; lra] | lra]. }
    pose proof ptrop_pos. assert (exp x < 1) by (rewrite <- exp_0; apply exp_increasing; exact Hx).
    replace ptrop with (ptrop * 1) at 2 by ring. apply Rmult_lt_compat_l; lra. Qed.

  Theorem stratosphere_decreasing (h1 h2 : R) : htrop < h1 -> h1 < h2 -> Pg h2 < Pg h1.
  Proof. intros H1 H12.
    destruct (stratosphere h1 H1) as (_ & E1 & _). destruct (stratosphere h2 ltac:(lra)) as (_ & E2 & _).
    rewrite E1, E2. apply Rmult_lt_compat_l; [apply ptrop_pos | ]. apply exp_increasing.
    assert (Hk : 0 < g0 / (Rg * Ttrop)) by (apply Rdiv_lt_0_compat; [lra | apply Rmult_lt_0_compat; unfold Ttrop; lra]).
    replace (- g0 / (Rg * Ttrop) * (h2 - htrop)) with (- (g0 / (Rg * Ttrop)) * (h2 - htrop)) by (field; unfold Ttrop; lra).
    replace (- g0 / (Rg * Ttrop) * (h1 - htrop)) with (- (g0 / (Rg * Ttrop)) * (h1 - htrop)) by (field; unfold Ttrop; lra).
    assert (g0 / (Rg * Ttrop) * (h1 - htrop) < g0 / (Rg * Ttrop) * (h2 - htrop)) by (apply Rmult_lt_compat_l; lra).
    lra. Qed.
End Gen.

(* ---- the hand model's constants ------------------------------------------------------------------ *)
Lemma c_T0_pos : 0 < @c_T0 RNum. Proof. unfold c_T0; rewrite q_R; lra. Qed.
Lemma c_p0_pos : 0 < @c_p0 RNum. Proof. unfold c_p0; rewrite q_R; lra. Qed.
Lemma c_g0_pos : 0 < @c_g0 RNum. Proof. unfold c_g0; rewrite q_R; lra. Qed.
Lemma c_R_pos : 0 < @c_R RNum. Proof. unfold c_R; rewrite q_R; lra. Qed.
Lemma c_beta_neg : @c_beta RNum < 0. Proof. unfold c_beta. rnum. rewrite q_R. lra. Qed.
Lemma c_Ttrop_pos : 0 < @c_T0 RNum + @c_beta RNum * @c_htrop RNum.
Proof. unfold c_T0, c_beta, c_htrop. rnum. rewrite !q_R. lra. Qed.

Lemma isa_altitude_of_pressure (h : R) : @isa_altitude RNum (@isa_pressure RNum h) = h.
Proof. apply altitude_of_pressure_of_altitude;
  auto using c_T0_pos, c_p0_pos, c_g0_pos, c_R_pos, c_beta_neg, c_Ttrop_pos. Qed.

Lemma isa_pressure_of_altitude (p : R) : 0 < p -> @isa_pressure RNum (@isa_altitude RNum p) = p.
Proof. apply pressure_of_altitude_of_pressure;
  auto using c_T0_pos, c_p0_pos, c_g0_pos, c_R_pos, c_beta_neg, c_Ttrop_pos. Qed.

Lemma isa_temperature_continuous : continuity_pt (@isa_temperature RNum) (@c_htrop RNum).
Proof. apply temperature_continuous_at_tropopause. Qed.

Lemma isa_pressure_continuous : continuity_pt (@isa_pressure RNum) (@c_htrop RNum).
Proof. apply pressure_continuous_at_tropopause;
  auto using c_T0_pos, c_p0_pos, c_g0_pos, c_R_pos, c_beta_neg, c_Ttrop_pos. Qed.

(* the tropopause values of the model: 216.65 K exactly *)
Lemma isa_temperature_at_tropopause : @isa_temperature RNum (@c_htrop RNum) = 21665 / 100.
Proof. unfold isa_temperature, isa_temperature_g, c_htrop, c_T0, c_beta. rnum. rewrite !q_R.
  unfold Rleb. destruct (Rle_dec _ _); lra. Qed.

(* pressure is positive at every altitude (so the round trip h -> p -> h -> p is always defined) *)
Lemma isa_pressure_pos (h : R) : 0 < @isa_pressure RNum h.
Proof.
  unfold isa_pressure. change (0 < Pg (@c_T0 RNum) (@c_p0 RNum) (@c_g0 RNum) (@c_R RNum) (@c_beta RNum) (@c_htrop RNum) h).
  rewrite Pg_eq. pose proof c_p0_pos.
  destruct (Rle_dec _ _); apply Rmult_lt_0_compat; try apply exp_pos; auto.
  apply Rmult_lt_0_compat; auto; apply exp_pos.
Qed.

(* above 11 km the model's pressure keeps falling (it does not freeze at the tropopause value) *)
Lemma isa_stratosphere (h : R) : @c_htrop RNum < h ->
  @isa_temperature RNum h = @c_T0 RNum + @c_beta RNum * @c_htrop RNum /\ @isa_pressure RNum h < @isa_ptrop RNum.
Proof. intros Hh.
  destruct (stratosphere (@c_T0 RNum) (@c_p0 RNum) (@c_g0 RNum) (@c_R RNum) (@c_beta RNum) (@c_htrop RNum)
              c_p0_pos c_g0_pos c_R_pos c_Ttrop_pos h Hh) as (A & _ & C).
  split; [exact A | exact C]. Qed.

Lemma isa_stratosphere_decreasing (h1 h2 : R) : @c_htrop RNum < h1 -> h1 < h2 ->
  @isa_pressure RNum h2 < @isa_pressure RNum h1.
Proof. apply stratosphere_decreasing; auto using c_T0_pos, c_p0_pos, c_g0_pos, c_R_pos, c_beta_neg, c_Ttrop_pos. Qed.

(* C03 — proofs, part 5: the domain of the round-trip theorems made equal to the domain of values the store
   can hold (dtype conformance), the normal form shown to be the value itself, and the store theorem
   restated literally: what is read back IS what was written. *)
From Coq Require Import ZArith List String Bool Arith Lia.
From AV Require Import model.C03_Model proofs.C03_Proofs proofs.C03_Store proofs.C03_Files.
Import ListNotations.
Local Open Scope list_scope.

(* a scalar that a variable of type d can hold: an integer in the range of the type, the bit pattern of a
   binary32 / binary64 number, a string *)
Definition scalar_ok (d : dtype) (s : scalar) : Prop :=
  match d, s with
  | I8, VInt z => (-128 <= z <= 127)%Z
  | I16, VInt z => (-32768 <= z <= 32767)%Z
  | I32, VInt z => (-2147483648 <= z <= 2147483647)%Z
  | I64, VInt z => (-9223372036854775808 <= z <= 9223372036854775807)%Z
  | U8, VInt z => (0 <= z <= 255)%Z
  | U16, VInt z => (0 <= z <= 65535)%Z
  | U32, VInt z => (0 <= z <= 4294967295)%Z
  | U64, VInt z => (0 <= z <= 18446744073709551615)%Z
  | F32, VFlt b => (0 <= b < 4294967296)%Z
  | F64, VFlt b => (0 <= b < 18446744073709551616)%Z
  | Str, VStr _ => True
  | _, _ => False
  end.

Definition well_typed (m : fmeta) (v : fval) : Prop :=
  let d := fm_dtype m in
  match v with
  | FNone | FArr _ | FSpArr _ => True               (* arrays are opaque tokens: their elements are the harness's business *)
  | FScal s => scalar_ok d s
  | FSp mp => Forall (fun p => scalar_ok d (snd p)) mp
  | FTm l => Forall (scalar_ok d) l
  | FSpTm mp => Forall (fun p => Forall (scalar_ok d) (snd p)) mp
  end.

(* the values the theorems speak about = the values the generators produce: of the field's shape AND type,
   not the fill sentinel, species within the file's dimension, arrays of the trajectory's length *)
Definition fits_typed (n : Z) (L : list nat) (m : fmeta) (v : fval) : Prop := fits n L m v /\ well_typed m v.

Definition set_fits_typed (n : Z) (sc : schema) (sp : list (nat * list nat)) (t : traj) (fs : nat) : Prop :=
  exists L, lookup fs sp = Some L /\ NoDup L /\ Forall2 (fits_typed n L) (nth fs sc []) (nth fs t []).

Lemma set_fits_typed_fits : forall n sc sp t fs, set_fits_typed n sc sp t fs -> set_fits n sc sp t fs.
Proof.
  intros n sc sp t fs (L & HL & Hnd & HF). exists L. repeat split; auto.
  clear - HF. induction HF; constructor; auto. now destruct H.
Qed.

(* the domain is not empty for any dtype, and excludes what real NetCDF would not store faithfully *)
Example typed_domain_examples :
  scalar_ok I8 (VInt 127) /\ ~ scalar_ok I8 (VInt 1000) /\ ~ scalar_ok F64 (VStr "x") /\ scalar_ok U64 (VInt 18446744073709551615).
Proof. simpl. repeat split; try lia; auto. Qed.

Theorem roundtrip_field_typed : forall n L m v, NoDup L -> fits_typed n L m v ->
  exists ps, field_patches true L m v = inl ps /\
             forall g, reads_patches m ps g -> read_field true L m g = canon L m v.
Proof. intros n L m v HL [Hf _]. now apply (roundtrip_field n). Qed.

(* ---- the normal form is the value itself ----------------------------------------------------------- *)
Definition species_shaped (v : fval) : bool :=
  match v with FSp _ | FSpArr _ | FSpTm _ => true | _ => false end.

Theorem canon_identity : forall n L m v,
  fits n L m v -> ascending L -> keys_ascending v ->
  (species_shaped v = false \/ keys_of v <> [] \/ fm_req m = true) ->
  canon L m v = v.
Proof.
  intros n L m v Hfit HL Hk Hne. unfold keys_ascending in Hk.
  destruct v as [| s | a | mp | mp | l | mp]; simpl in *; auto.
  - destruct Hfit as (_ & Hin & _). rewrite restrict_sorted; auto; [| intros; eapply keys_in_spec; eauto].
    unfold opt_none. destruct Hne as [H | [H | H]]; [discriminate | | rewrite H; now rewrite andb_false_r].
    destruct mp; [now elim H | reflexivity].
  - destruct Hfit as (_ & Hin & _). rewrite restrict_sorted; auto; [| intros; eapply keys_in_spec; eauto].
    unfold opt_none. destruct Hne as [H | [H | H]]; [discriminate | | rewrite H; now rewrite andb_false_r].
    destruct mp; [now elim H | reflexivity].
  - destruct Hfit as (_ & Hin & _). rewrite restrict_sorted; auto; [| intros; eapply keys_in_spec; eauto].
    unfold opt_none. destruct Hne as [H | [H | H]]; [discriminate | | rewrite H; now rewrite andb_false_r].
    destruct mp; [now elim H | reflexivity].
Qed.

(* the corollary in the form asked for: species-indexed or not, with some species or required *)
Corollary canon_identity_nonempty : forall n L m v,
  fits n L m v -> ascending L -> keys_ascending v -> (keys_of v <> [] \/ fm_req m = true) -> canon L m v = v.
Proof. intros. eapply canon_identity; eauto. Qed.

(* a trajectory all of whose values are in normal form already: no optional species-indexed field holds an
   EMPTY mapping (unset is None), and species keys are ascending *)
Definition traj_normal (sc : schema) (order : list nat) (t : traj) : Prop :=
  forall fs j m v, In fs order -> nth_error (nth fs sc []) j = Some m -> nth_error (nth fs t []) j = Some v ->
    keys_ascending v /\ (species_shaped v = false \/ keys_of v <> [] \/ fm_req m = true).

Definition written_values (order : list nat) (t : traj) : list fval := flat_map (fun fs => nth fs t []) order.

Lemma expect_set_literal : forall n L ms vs, Forall2 (fits n L) ms vs -> ascending L ->
  (forall j m v, nth_error ms j = Some m -> nth_error vs j = Some v ->
     keys_ascending v /\ (species_shaped v = false \/ keys_of v <> [] \/ fm_req m = true)) ->
  map snd (expect_set L ms vs) = vs.
Proof.
  intros n L ms vs HF HL. unfold expect_set. induction HF as [| m v ms vs Hf HF IH]; intro H; simpl; auto.
  destruct (H 0 m v eq_refl eq_refl) as [Hk Hne]. rewrite (canon_identity n L m v Hf HL Hk Hne). f_equal.
  apply IH. intros j m' v' Hm Hv. exact (H (S j) m' v' Hm Hv).
Qed.

Lemma expect_literal : forall n sc sp t order,
  (forall fs, In fs order -> set_fits n sc sp t fs) -> species_ascending sp -> traj_normal sc order t ->
  map snd (expect sc sp order t) = written_values order t.
Proof.
  intros n sc sp t. induction order as [| fs r IH]; intros Hfit Hasc Hn; simpl; auto.
  destruct (Hfit fs (or_introl eq_refl)) as (L & HL & _ & HF). rewrite HL, map_app. unfold written_values. simpl. f_equal.
  - apply (expect_set_literal n); auto; [exact (Hasc fs L HL) |].
    intros j m v Hm Hv. exact (Hn fs j m v (or_introl eq_refl) Hm Hv).
  - apply IH; auto; [intros; apply Hfit; now right |].
    intros fs' j m v Hin. apply Hn. now right.
Qed.

(* ---- the store theorem, literally ---------------------------------------------------------------------- *)
(* Any schema without species-indexed string fields among those read, any trajectories of typed values in
   normal form, any write order and read order: every add succeeds, and every trajectory reads back as
   EXACTLY the list of values that was added. *)
Theorem store_roundtrip_literal : forall sc order rorder ts st0,
  NoDup order -> incl rorder order -> s_cells st0 = [] -> species_ascending (s_species st0) ->
  no_string_species_fields sc rorder ->
  (forall t, In t ts -> traj_normal sc rorder t /\
                        exists n, forall fs, In fs order -> set_fits_typed n sc (s_species st0) t fs) ->
  exists st, add_all true sc order 0 ts st0 = (st, None) /\
    forall i t, nth_error ts i = Some t -> has_array sc rorder t ->
      load_traj true sc rorder i st = inl (written_values rorder t).
Proof.
  intros sc order rorder ts st0 Hnd Hincl Hempty Hasc Hnostr Hfit.
  destruct (store_roundtrip sc order rorder ts st0 Hnd Hincl Hempty) as (st & Ha & Hsp & Hload).
  { intros t Hin. destruct (Hfit t Hin) as [_ (n & Hn)]. exists n. intros fs Hfs. apply set_fits_typed_fits. now apply Hn. }
  exists st. split; auto. intros i t Hi Harr.
  destruct (Hfit t (nth_error_In _ _ Hi)) as [Hnorm (n & Hn)].
  rewrite (Hload i t Hi Harr) by (intros; eapply no_string_no_holes; eauto).
  f_equal. apply (expect_literal n); auto.
  intros fs Hfs. apply set_fits_typed_fits. apply Hn. now apply Hincl.
Qed.

(* the same store theorem as C03_Store.store_roundtrip with the no_holes hypothesis discharged *)
Theorem store_roundtrip_no_string_species : forall sc order rorder ts st0,
  NoDup order -> incl rorder order -> s_cells st0 = [] ->
  no_string_species_fields sc rorder ->
  (forall t, In t ts -> exists n, forall fs, In fs order -> set_fits n sc (s_species st0) t fs) ->
  exists st, add_all true sc order 0 ts st0 = (st, None) /\ s_species st = s_species st0 /\
    forall i t, nth_error ts i = Some t -> has_array sc rorder t ->
      load_traj true sc rorder i st = inl (map snd (expect sc (s_species st0) rorder t)).
Proof.
  intros sc order rorder ts st0 Hnd Hincl Hempty Hnostr Hfit.
  destruct (store_roundtrip sc order rorder ts st0 Hnd Hincl Hempty Hfit) as (st & Ha & Hsp & Hload).
  exists st. repeat split; auto. intros i t Hi Harr. apply Hload; auto.
  intros; eapply no_string_no_holes; eauto.
Qed.

(* C02 — the property clauses, stated on what Builder.fly returns, for every oracle pair that behaves like a
   valid performance table and any geodesic. *)
From Coq Require Import ZArith List Bool Lia Reals Lra PrimFloat.
From AV Require Import lib.Num lib.FloatMath model.C02_Model proofs.C02_Container proofs.C02_Interp proofs.C02_Builder.
Import ListNotations.
Local Open Scope R_scope.

Definition oracle := nat -> rule -> R -> R -> option (R * R * R).
Definition geodesic := nat -> R -> R * R * R.
Definition envelope := rule -> R -> R -> bool.
Definition wind := nat -> R -> option R.
(* whatever ground speed the weather module answers is positive *)
Definition valid_wind (gsp : wind) : Prop := forall k t g, gsp k t = Some g -> 0 < g.

(* What a valid legacy performance table gives (PerformanceTable.__post_init__ splits the rows by the sign of
   ROCD; TAS is positive; fuel flow is non-negative), and that it answers only inside its envelope. *)
Definition valid_oracle (perf : oracle) (inside : envelope) : Prop :=
  (forall k r a m v, perf k r a m = Some v -> inside r a m = true) /\
  (forall k a m t r f, perf k Climb a m = Some (t, r, f) -> 0 < r /\ 0 < t) /\
  (forall k a m t r f, perf k Descend a m = Some (t, r, f) -> r < 0 /\ 0 < t) /\
  (forall k a m t r f, perf k Cruise a m = Some (t, r, f) -> 0 < t /\ 0 <= f) /\
  (* the code takes sqrt(tas^2 - rocd^2) and divides by the fuel load: a table with |rocd| >= tas or zero cruise fuel
     flow would give nan / inf in numpy where Coq's total functions give numbers; such tables are excluded *)
  (forall k rl a m t r f, perf k rl a m = Some (t, r, f) -> Rabs r < t) /\
  (forall k a m t r f, perf k Cruise a m = Some (t, r, f) -> 0 < f).

Notation flight := (@C02_Model.flight RNum).
Notation result := (@C02_Model.result RNum).

(* one call of fly: weather on/off, a starting mass handed in or not, iteration on/off with its limits *)
Record call := mkcall {
  c_wx : bool; c_gfix : bool; c_given : option R; c_it : bool; c_mi : nat; c_tol : R }.

(* [res] is what fly returned for flight [f] (at least two points per phase; hand-over = last point) *)
Definition returned (perf : oracle) (geo : geodesic) (gsp : wind) (f : flight) (c : call) (res : result) : Prop :=
  (2 <= f_n_clm f)%nat /\ (2 <= f_n_crz f)%nat /\ (2 <= f_n_des f)%nat /\
  @fly RNum perf geo true gsp (c_wx c) (c_gfix c) f (c_given c) (c_it c) (c_mi c) (c_tol c) = Ok res.

Definition origin_of (f : flight) : R * R * R := (f_o_lon f, f_o_lat f, f_az0 f).

Section Main.
  Variables (perf : oracle) (geo : geodesic) (inside : envelope) (gsp : wind).
  Hypothesis valid : valid_oracle perf inside.
  Hypothesis wvalid : valid_wind gsp.
  Variables (f : flight) (c : call) (res : result).
  Hypothesis ret : returned perf geo gsp f c res.
  Let it := c_it c.
  Let tol := c_tol c.

  Let facts_ex :
    exists s, @schedule RNum (f_o_alt f) (f_d_alt f) (f_max_alt f) = Ok s /\ sched_ok s /\
      flight_facts geo inside (origin_of f) f s (r_start_mass res) (r_total_fuel res) (r_traj res) /\
      r_residual res = (r_total_fuel res - (r_start_mass res - p_mass (last (points (r_traj res)) pt0))) / r_total_fuel res /\
      (it = true -> Rabs (r_residual res) < tol) /\
      (forall m, c_given c = Some m -> it = false -> r_start_mass res = m).
  Proof.
    destruct valid as (V1 & V2 & V3 & V4 & _ & _). destruct ret as (N1 & N2 & N3 & Hf).
    eapply fly_facts; eauto.
  Qed.

  Theorem main_mass_minus_fuel_constant : forall q, In q (points (r_traj res)) ->
    p_mass q - p_fuel q = r_start_mass res - r_total_fuel res.
  Proof. destruct facts_ex as (s & _ & _ & F & _). intros. eapply mass_minus_fuel_is_constant; eauto. Qed.

  Theorem main_fuel_and_mass_nonincreasing : forall i j, (i <= j)%nat -> (j < length (points (r_traj res)))%nat ->
    p_fuel (nth j (points (r_traj res)) pt0) <= p_fuel (nth i (points (r_traj res)) pt0) /\
    p_mass (nth j (points (r_traj res)) pt0) <= p_mass (nth i (points (r_traj res)) pt0).
  Proof.
    destruct facts_ex as (s & _ & _ & F & _). intros i j Hij Hj.
    destruct (bookkeeping_monotone _ _ _ _ _ _ _ _ F i j Hij Hj) as (A & B & _). split; auto.
  Qed.

  Theorem main_time_and_distance_nondecreasing : forall i j, (i <= j)%nat -> (j < length (points (r_traj res)))%nat ->
    p_time (nth i (points (r_traj res)) pt0) <= p_time (nth j (points (r_traj res)) pt0) /\
    p_dist (nth i (points (r_traj res)) pt0) <= p_dist (nth j (points (r_traj res)) pt0).
  Proof.
    destruct facts_ex as (s & _ & _ & F & _). intros i j Hij Hj.
    destruct (bookkeeping_monotone _ _ _ _ _ _ _ _ F i j Hij Hj) as (_ & _ & A & B). split; auto.
  Qed.

  Theorem main_first_point_carries_start :
    let q := nth 0 (points (r_traj res)) pt0 in
    p_mass q = r_start_mass res /\ p_fuel q = r_total_fuel res /\ p_time q = 0 /\ p_dist q = 0.
  Proof.
    destruct facts_ex as (s & _ & _ & F & _). destruct ret as (N1 & N2 & N3 & _).
    pose proof (first_point_is_the_start _ _ _ _ _ _ _ _ F N1 N3) as H. cbv zeta in H |- *.
    destruct H as (A & B & C & D & _). repeat split; auto.
  Qed.

  (* every stored position is the geodesic evaluated at the stored ground distance (or the origin at 0) *)
  Theorem main_position_is_track_at_recorded_distance :
    Forall (pos_ok geo (origin_of f)) (points (r_traj res)).
  Proof. destruct facts_ex as (s & _ & _ & F & _). eapply positions_on_track; eauto. Qed.

  Theorem main_altitude_schedule :
    exists s, @schedule RNum (f_o_alt f) (f_d_alt f) (f_max_alt f) = Ok s /\
      (* start: 3000 ft above the origin, or the origin's own elevation if that level reaches the ceiling *)
      ((s_clm s = f_o_alt f + ft3000 /\ f_o_alt f + ft3000 < f_max_alt f) \/
       (s_clm s = f_o_alt f /\ f_max_alt f <= f_o_alt f + ft3000)) /\
      (* descent target: 3000 ft above the destination (the ceiling if that level reaches it) *)
      ((s_des_end s = f_d_alt f + ft3000 /\ f_d_alt f + ft3000 < f_max_alt f) \/
       (s_des_end s = f_max_alt f /\ f_max_alt f <= f_d_alt f + ft3000)) /\
      s_crz s <= f_max_alt f /\
      (* climb: from the start level, never decreasing, up to the cruise level *)
      (forall i j, (i <= j)%nat -> (j < f_n_clm f)%nat ->
         let a k := p_alt (nth k (t_climb (r_traj res)) pt0) in
         a i <= a j /\ s_clm s <= a i /\ a j <= s_crz s /\ a 0%nat = s_clm s /\ a (Nat.pred (f_n_clm f)) = s_crz s) /\
      (* cruise: constant *)
      (forall q, In q (t_cruise (r_traj res)) -> p_alt q = s_crz s) /\
      (* descent: from the cruise level, never increasing, down to the target *)
      (forall i j, (i <= j)%nat -> (j < f_n_des f)%nat ->
         let a k := p_alt (nth k (t_descent (r_traj res)) pt0) in
         a j <= a i /\ a i <= s_crz s /\ s_des_end s <= a j /\ a 0%nat = s_crz s /\ a (Nat.pred (f_n_des f)) = s_des_end s).
  Proof.
    destruct facts_ex as (s & Hs & Hok & F & _). destruct ret as (N1 & N2 & N3 & _).
    exists s. split; auto. destruct (schedule_ok _ _ _ _ Hs) as (A1 & A2 & A3 & A4 & A5 & A6 & A7).
    split; auto. split; auto. split; auto. split; [|split].
    - intros i j Hij Hj. eapply climb_altitudes; eauto.
    - intros q Hq. eapply cruise_altitude; eauto.
    - intros i j Hij Hj. eapply descent_altitudes; eauto.
  Qed.

  (* every returned point was accepted by the performance model of its phase; the cruise leg is not negative *)
  Theorem main_returned_points_inside_envelope :
    Forall (fun q : pt => inside Climb (p_alt q) (p_mass q) = true) (t_climb (r_traj res)) /\
    Forall (fun q : pt => inside Cruise (p_alt q) (p_mass q) = true) (t_cruise (r_traj res)) /\
    Forall (fun q : pt => inside Descend (p_alt q) (p_mass q) = true) (t_descent (r_traj res)).
  Proof. destruct facts_ex as (s & _ & _ & F & _). eapply points_inside_envelope; eauto. Qed.

  Theorem main_route_long_enough :
    exists s, @schedule RNum (f_o_alt f) (f_d_alt f) (f_max_alt f) = Ok s /\
      p_dist (last (t_climb (r_traj res)) pt0) <= f_total f - s_ddist s.
  Proof. destruct facts_ex as (s & Hs & _ & F & _). exists s. split; auto. apply (ff_long_enough _ _ _ _ _ _ _ _ F). Qed.

  (* a starting mass handed in by the caller is the mass of the first point when the mass is not iterated *)
  Theorem main_given_starting_mass_is_flown : forall m, c_given c = Some m -> c_it c = false ->
    r_start_mass res = m /\ p_mass (nth 0 (points (r_traj res)) pt0) = m.
  Proof.
    intros m Hg Hi. destruct facts_ex as (s & _ & _ & F & _ & _ & Hm). destruct ret as (N1 & N2 & N3 & _).
    pose proof (first_point_is_the_start _ _ _ _ _ _ _ _ F N1 N3) as H. cbv zeta in H. destruct H as (A & _).
    specialize (Hm m Hg Hi). split; auto. rewrite A. exact Hm.
  Qed.

  (* ---- resampling a RETURNED trajectory (its hand-over points are stored twice: the time axis is only weakly
     increasing) ---- *)
  Let pts := points (r_traj res).
  Let times := map (@p_time RNum) pts.

  Theorem main_times_weakly_increasing : weakly_increasing times.
  Proof.
    unfold times. apply (weakly_increasing_map pt (@p_time RNum) pt0). intros i Hi.
    destruct (main_time_and_distance_nondecreasing i (S i) ltac:(lia) Hi) as (A & _). exact A.
  Qed.

  Lemma nth_map_lt : forall (g : pt -> R) i, (i < length pts)%nat -> nth i (map g pts) 0 = g (nth i pts pt0).
  Proof.
    intros g i Hi. rewrite (nth_indep (map g pts) 0 (g pt0)) by (rewrite map_length; auto). apply map_nth.
  Qed.

  (* at a stored time interpolate_time gives, for every field g, the value of the last point carrying that time
     (the point itself unless it is the first copy of a hand-over point) *)
  Theorem main_resample_at_stored_time : forall (nan : R) (g : pt -> R) i, (i < length pts)%nat ->
    exists j, (i <= j)%nat /\ (j < length pts)%nat /\ p_time (nth j pts pt0) = p_time (nth i pts pt0) /\
      (S j = length pts \/ p_time (nth i pts pt0) < p_time (nth (S j) pts pt0)) /\
      @interp RNum nan times (map g pts) (p_time (nth i pts pt0)) = g (nth j pts pt0).
  Proof.
    intros nan g i Hi.
    assert (Hl : length times = length (map g pts)) by (unfold times; rewrite !map_length; auto).
    assert (Hi' : (i < length times)%nat) by (unfold times; rewrite map_length; auto).
    destruct (resample_at_stored_time_weak nan times (map g pts) i Hl main_times_weakly_increasing Hi')
      as (j & A & B & C & D & E).
    assert (Hj : (j < length pts)%nat) by (unfold times in B; rewrite map_length in B; auto).
    exists j. split; auto. split; auto.
    assert (Tj : nth j (map (@p_time RNum) pts) 0 = p_time (nth j pts pt0)) by (apply nth_map_lt; auto).
    assert (Ti : nth i (map (@p_time RNum) pts) 0 = p_time (nth i pts pt0)) by (apply nth_map_lt; auto).
    assert (Gj : nth j (map g pts) 0 = g (nth j pts pt0)) by (apply nth_map_lt; auto).
    split; [rewrite <- Tj, <- Ti; exact C|]. split.
    - destruct D as [D|D]; [left; unfold times in D; rewrite map_length in D; auto|].
      destruct (le_lt_dec (length pts) (S j)) as [Hn|Hn]; [left; lia|right].
      assert (Ts : nth (S j) (map (@p_time RNum) pts) 0 = p_time (nth (S j) pts pt0)) by (apply nth_map_lt; auto).
      rewrite <- Ts, <- Ti. exact D.
    - rewrite <- Gj, <- Ti. exact E.
  Qed.

  (* strictly between two neighbouring stored times: the linear interpolation of the neighbouring values *)
  Theorem main_resample_between : forall (nan : R) (g : pt -> R) i x, (S i < length pts)%nat ->
    p_time (nth i pts pt0) < x < p_time (nth (S i) pts pt0) ->
    @interp RNum nan times (map g pts) x =
      (g (nth (S i) pts pt0) - g (nth i pts pt0)) / (p_time (nth (S i) pts pt0) - p_time (nth i pts pt0))
      * (x - p_time (nth i pts pt0)) + g (nth i pts pt0).
  Proof.
    intros nan g i x Hi Hx.
    assert (Hl : length times = length (map g pts)) by (unfold times; rewrite !map_length; auto).
    assert (Hi' : (S i < length times)%nat) by (unfold times; rewrite map_length; auto).
    pose proof (resample_between_weak nan times (map g pts) i x Hl main_times_weakly_increasing Hi') as H.
    assert (Hi0 : (i < length pts)%nat) by lia.
    assert (Ti : nth i (map (@p_time RNum) pts) 0 = p_time (nth i pts pt0)) by (apply nth_map_lt; auto).
    assert (Ts : nth (S i) (map (@p_time RNum) pts) 0 = p_time (nth (S i) pts pt0)) by (apply nth_map_lt; auto).
    assert (Gi : nth i (map g pts) 0 = g (nth i pts pt0)) by (apply nth_map_lt; auto).
    assert (Gs : nth (S i) (map g pts) 0 = g (nth (S i) pts pt0)) by (apply nth_map_lt; auto).
    assert (Hx' : nth i (map (@p_time RNum) pts) 0 < x < nth (S i) (map (@p_time RNum) pts) 0)
      by (rewrite Ti, Ts; exact Hx).
    rewrite <- Ti, <- Ts, <- Gi, <- Gs. apply H. exact Hx'.
  Qed.

  (* with mass iteration the leftover trip fuel, relative to the fuel load, is within the tolerance *)
  Theorem main_mass_iteration_tolerance : it = true ->
    Rabs (p_fuel (last (points (r_traj res)) pt0) / r_total_fuel res) < tol.
  Proof.
    destruct facts_ex as (s & _ & _ & F & Hr & Ht & _). destruct ret as (N1 & _). intros Hit.
    rewrite <- (residual_is_leftover_fuel _ _ _ _ _ _ _ _ F) by lia. rewrite <- Hr. auto.
  Qed.
End Main.

(* ---- refusals ---- *)
Theorem main_airport_above_ceiling_refused : forall (perf : oracle) (geo : geodesic) fixed gsp wx gfix (f : flight) given it mi tol,
  f_max_alt f < f_o_alt f -> @fly RNum perf geo fixed gsp wx gfix f given it mi tol = Err ESchedule.
Proof. intros. unfold fly. rewrite origin_above_ceiling_refused; auto. Qed.

Theorem main_destination_above_cruise_refused : forall (perf : oracle) (geo : geodesic) fixed gsp wx gfix (f : flight) given it mi tol,
  f_o_alt f + ft3000 <= f_max_alt f - ft7000 -> f_max_alt f - ft7000 < f_d_alt f + ft3000 ->
  @fly RNum perf geo fixed gsp wx gfix f given it mi tol = Err ESchedule.
Proof. intros. unfold fly. rewrite destination_above_cruise_refused; auto. Qed.

Theorem main_negative_cruise_leg_is_refused : forall (perf : oracle) (geo : geodesic) (gsp : wind) wx (step total : R) m (p : pt) kp kg,
  step < 0 -> exists e, @crz_loop RNum perf geo gsp wx step total (S m) p kp kg = Err e.
Proof. intros. apply too_short_refused; auto. Qed.

Theorem main_refused_state_ends_level_change : forall (perf : oracle) (geo : geodesic) (gsp : wind) wx rl (lhv start delta total : R) m (idx : R) (p : pt) kp kg,
  perf kp rl (start + idx * delta) (p_mass p) = None ->
  @lc_loop RNum perf geo gsp wx rl lhv start delta total m idx p kp kg = Err EPerf.
Proof. intros. apply outside_envelope_refused_lc; auto. Qed.

Theorem main_mass_iteration_tolerance_or_error : forall (perf : oracle) (geo : geodesic) (gsp : wind) wx (f : flight) s (tol : R) k t r sm tf kp kg,
  match @iterate RNum perf geo true gsp wx f s tol k t r sm tf kp kg with
  | Ok (t', r', sm', tf', _, _) => Rabs r' < tol
  | Err _ => True
  end.
Proof. intros. apply iterate_tolerance_or_error. Qed.

Theorem main_no_iterations_left_is_an_error : forall (perf : oracle) (geo : geodesic) fixed (gsp : wind) wx (f : flight) s (tol : R) t r sm tf kp kg,
  @iterate RNum perf geo fixed gsp wx f s tol 0 t r sm tf kp kg = Err ENoConv.
Proof. reflexivity. Qed.

(* the finding FC17a as the code stood: a starting mass handed in never produces a trajectory *)
Theorem main_given_mass_never_flies_before_fix : forall (perf : oracle) (geo : geodesic) (gsp : wind) wx (f : flight) (m : R) it mi tol,
  exists e, @fly RNum perf geo true gsp wx false f (Some m) it mi tol = Err e.
Proof. intros. apply given_mass_never_flies_before_fix. Qed.

(* ---- the code as it stands (hand-over index relative to the capacity), at binary64:
   80 points per phase; the cruise starts from the stale copy of point 50, flight time runs backwards ---- *)
Definition w_perf (_ : nat) (r : rule) (_ _ : float) : option (float * float * float) :=
  match r with
  | Climb => Some (200, 10, 1)
  | Cruise => Some (230, 0, 0.9)
  | Descend => Some (200, -8, 0.3)
  end%float.
Definition w_geo (_ : nat) (s : float) : float * float * float := ((s / 111000)%float, 0%float, 90%float).
Definition w_flight : @C02_Model.flight FNum :=
  @mkflight FNum 0%float 0%float 12496.8%float 0%float 0%float 90%float 4000000%float 1%float 22422%float 42861%float
            81371%float 43.8e6%float 80 80 81.

Fixpoint sorted_f (l : list float) : bool :=
  match l with
  | a :: ((b :: _) as r) => PrimFloat.leb a b && sorted_f r
  | _ => true
  end.

Definition w_times (fixed : bool) : option (list float) :=
  match @fly FNum w_perf w_geo fixed (fun _ _ => None) false true w_flight None false 5 0.01%float with
  | Ok r => Some (map (@p_time FNum) (points (r_traj r)))
  | Err _ => None
  end.

Theorem time_order_as_coded_refuted :
  exists ts, w_times false = Some ts /\ sorted_f ts = false.
Proof. eexists. split; [vm_compute; reflexivity|vm_compute; reflexivity]. Qed.

Example time_order_with_last_point_handover :
  exists ts, w_times true = Some ts /\ sorted_f ts = true /\ length ts = 241%nat.
Proof. eexists. split; [vm_compute; reflexivity|split; vm_compute; reflexivity]. Qed.

(* ---- non-vacuity of [returned] with mass iteration and with a starting mass handed in (binary64; the per-loop
        examples over R are in proofs/C02_Nonvacuous.v; a whole flight over R is not exhibited) ---- *)
Definition w_outcome (given : option float) (it : bool) (tol : float) : option (nat * float * float) :=
  match @fly FNum w_perf w_geo true (fun _ _ => None) false true w_flight given it 8 tol with
  | Ok r => Some (length (points (r_traj r)), r_start_mass r, r_residual r)
  | Err _ => None
  end.

Example returned_with_mass_iteration :
  exists n sm r, w_outcome None true 0.01%float = Some (n, sm, r) /\ n = 241%nat /\
    PrimFloat.ltb (PrimFloat.abs r) 0.01%float = true.
Proof. do 3 eexists. split; [vm_compute; reflexivity|]. split; vm_compute; reflexivity. Qed.

Example returned_with_given_starting_mass :
  exists n r, w_outcome (Some 70000%float) false 0.01%float = Some (n, 70000%float, r) /\ n = 241%nat.
Proof. do 2 eexists. split; vm_compute; reflexivity. Qed.

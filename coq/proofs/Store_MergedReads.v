(* Store_MergedReads — a merged store opened for reading behaves as the concatenation of its parts,
   for indices, length, iteration and flight-identifier lookup, under every eviction choice. *)
From Coq Require Import ZArith List Bool Arith Lia ZifyBool Permutation.
From AV Require Import model.Store_Model proofs.Store_Proofs proofs.Store_Refine proofs.Store_MergeProofs.
Import ListNotations.

(* ------------------------------------------------------------------------------------------- *)
(* the merged index is the index of the concatenation                                          *)
(* ------------------------------------------------------------------------------------------- *)
Lemma id_pairs_from_app a : forall b k,
  id_pairs_from k (a ++ b) = id_pairs_from k a ++ id_pairs_from (k + length a) b.
Proof.
  induction a as [|x a IH]; intros b k; cbn.
  - now rewrite Nat.add_0_r.
  - destruct (fid x); cbn [app length]; rewrite IH;
      replace (S k + length a) with (k + S (length a)) by lia; reflexivity.
Qed.

Lemma id_pairs_from_shift l : forall k off,
  map (fun e => (fst e, snd e + off)) (id_pairs_from k l) = id_pairs_from (k + off) l.
Proof.
  induction l as [|x l IH]; intros k off; cbn; auto.
  destruct (fid x); cbn; now rewrite IH.
Qed.

Definition part_fresh (f : ncfile) : Prop := f_table f = mk_table (f_items f).

Lemma merged_pairs_perm parts : Forall part_fresh parts -> forall off,
  Permutation (merged_pairs off parts) (id_pairs_from off (concat (map f_items parts))).
Proof.
  induction 1 as [|f r Hf _ IH]; intros off; cbn; auto.
  rewrite id_pairs_from_app. apply Permutation_app.
  - rewrite Hf. unfold mk_table.
    change off with (0 + off) at 2. rewrite <- (id_pairs_from_shift (f_items f) 0 off).
    apply Permutation_map. apply isort_perm.
  - apply IH.
Qed.

Lemma merged_table_lookup parts x idx :
  Forall part_fresh parts -> NoDup (ids_of (concat (map f_items parts))) ->
  (table_lookup x (isort (merged_pairs 0 parts)) = Some idx <->
   exists it, nth_error (concat (map f_items parts)) idx = Some it /\ fid it = Some x).
Proof.
  intros Hf N.
  rewrite <- (table_lookup_perm x (id_pairs_from 0 (concat (map f_items parts)))).
  - rewrite id_pairs_from_spec. rewrite Nat.sub_0_r. split.
    + intros (it & _ & H); eauto.
    + intros (it & H); exists it; split; [lia|auto].
  - etransitivity; [apply isort_perm|]. now apply merged_pairs_perm.
  - apply isort_sorted.
  - now rewrite id_pairs_keys.
Qed.

Lemma merged_table_lookup_none parts x :
  Forall part_fresh parts -> NoDup (ids_of (concat (map f_items parts))) ->
  (table_lookup x (isort (merged_pairs 0 parts)) = None <-> ~ In x (ids_of (concat (map f_items parts)))).
Proof.
  intros Hf N.
  rewrite (table_lookup_none x (id_pairs_from 0 (concat (map f_items parts)))).
  - rewrite <- (id_pairs_keys (concat (map f_items parts)) 0). split.
    + intros H Hin. apply in_map_iff in Hin as ([x' idx] & E & Hin). cbn in E; subst. now apply H in Hin.
    + intros H idx Hin. apply H. change x with (fst (x, idx)). now apply in_map.
  - etransitivity; [apply isort_perm|]. now apply merged_pairs_perm.
  - apply isort_sorted.
  - now rewrite id_pairs_keys.
Qed.

(* ------------------------------------------------------------------------------------------- *)
(* a handle on a merged directory                                                              *)
(* ------------------------------------------------------------------------------------------- *)
Lemma sum_len_concat_gen l : sum_len l = length (concat (map f_items l)).
Proof.
  unfold sum_len. induction l as [|f r IH]; cbn; auto. rewrite app_length. now rewrite IH.
Qed.

Section Merged.
  Variables (fs : fsys) (outp : path) (d : mdir) (parts : list ncfile).
  Hypothesis Ld : flookup outp fs = Some (NDir d).
  Hypothesis Hparts : merged_parts fs outp = Some parts.
  Hypothesis Hwhole : Forall file_ok parts.

  Let items := concat (map f_items parts).

  Definition minv (h : handle) : Prop :=
    h_src h = SrcMerged outp /\
    h_snap h = Some (cum (map (fun f => length (f_items f)) parts)) /\
    cache_all_ok (h_cache h) items /\
    h_mode h = MRead /\ h_stale h = false /\ h_mem h = [] /\ h_pending h = false.

  Lemma items_whole i x : nth_error items i = Some x -> whole x = true.
  Proof.
    intros H. apply nth_error_In in H. unfold items in H. apply in_concat in H as (l & Hl & Hx).
    apply in_map_iff in Hl as (f & <- & Hf). rewrite Forall_forall in Hwhole.
    specialize (Hwhole f Hf). unfold file_ok in Hwhole. rewrite forallb_forall in Hwhole.
    specialize (Hwhole x Hx). unfold item_ok in Hwhole. now apply andb_true_iff in Hwhole as [? _].
  Qed.

  Lemma sum_len_concat : sum_len parts = length items.
  Proof. apply sum_len_concat_gen. Qed.

  Lemma minv_set_cache h c : minv h -> cache_all_ok c items -> minv (set_cache h c).
  Proof. intros (A & B & C & D & E & F & G) H. repeat split; auto. Qed.

  Lemma mget h i : minv h ->
    exists c, fst (get_item fixed_cfg fs h i) = set_cache h c /\ minv (set_cache h c) /\
              snd (get_item fixed_cfg fs h i) = match nth_error items i with
                                      | Some x => inl (tag x) | None => inr EIndex end.
  Proof.
    intros M. pose proof M as (A & B & C & D & E & F & G). unfold get_item. rewrite A.
    destruct (cache_get (h_cache h) i) as [x|] eqn:Gc.
    - exists (h_cache h). rewrite set_cache_id. cbn. rewrite (cache_all_ok_get _ _ _ _ C Gc). auto.
    - rewrite Hparts, B.
      replace (map (fun f => length (f_items f)) parts) with (map (@length item) (map f_items parts))
        by (now rewrite map_map).
      rewrite locate_concat. fold items.
      destruct (nth_error items i) as [x|] eqn:N.
      + unfold loaded. rewrite (items_whole i x N). cbn [fix_C07a fixed_cfg].
        destruct (fits h (isize x)).
        * cbn. exists ((i, x) :: h_cache h). repeat split; auto. now apply cache_all_ok_cons.
        * exists (h_cache h). rewrite set_cache_id. cbn. auto.
      + exists (h_cache h). rewrite set_cache_id. cbn. auto.
  Qed.

  Lemma minv_do_evict keep h : minv h -> exists c, do_evict keep h = set_cache h c /\ minv (set_cache h c).
  Proof.
    intros M. pose proof M as (A & B & C & _). unfold do_evict. rewrite A.
    eexists. split; [reflexivity|]. apply minv_set_cache; auto. now apply cache_all_ok_evict.
  Qed.

  Lemma miter : forall m a h keeps acc, minv h -> a + m = length items ->
    exists c, fst (iter_go fixed_cfg fs h (seq a m) keeps acc) = set_cache h c /\ minv (set_cache h c) /\
              snd (iter_go fixed_cfg fs h (seq a m) keeps acc) = OItems (rev acc ++ map tag (skipn a items)) None.
  Proof.
    induction m as [|m IH]; intros a h keeps acc M Hl; cbn [seq iter_go].
    - exists (h_cache h). rewrite set_cache_id. split; [reflexivity|split; [exact M|]]. cbn [snd].
      rewrite skipn_all2 by lia. cbn [map]. now rewrite app_nil_r.
    - destruct (mget h a M) as (c & E1 & M1 & E2).
      destruct (get_item fixed_cfg fs h a) as [h1 r] eqn:G. cbn in E1, E2. subst h1.
      destruct (nth_error items a) as [x|] eqn:N.
      2:{ apply nth_error_None in N. lia. }
      subst r.
      set (h2 := match keeps with k :: _ => do_evict k (set_cache h c) | [] => set_cache h c end).
      assert (Hh2 : exists c2, h2 = set_cache h c2 /\ minv h2).
      { unfold h2. destruct keeps as [|k ks]; [eauto|].
        destruct (minv_do_evict k (set_cache h c) M1) as (c2 & Ec & M2). exists c2.
        rewrite Ec. split; auto. }
      destruct Hh2 as (c2 & Eh2 & Mh2).
      destruct (IH (S a) h2 (tl keeps) (tag x :: acc) Mh2) as (c3 & F1 & F2 & F3); [lia|].
      exists c3. rewrite F1, F3, Eh2. split; [reflexivity|split].
      + now rewrite Eh2 in F2.
      + cbn [rev]. rewrite <- app_assoc. cbn. do 2 f_equal.
        clear - N. revert a N. induction items as [|y l IHl]; intros [|a] N; cbn in *; try discriminate.
        * now inversion N.
        * now apply IHl.
  Qed.

  (* the specification state: ONE store at that path whose list is the concatenation *)
  Variables (sg : Z) (cp : option nat) (its : list (nat * nat)).
  Definition ident : bool := match d_index d with IxFull _ => true | _ => false end.
  Definition concat_world : sworld :=
    mkSW [(outp, mkS (map strip items) sg ident)] (Some (mkSH (SLFile outp) MRead cp its)).

  Definition read_op (o : op) : Prop :=
    match o with Add _ | Get _ | Len | Iter _ | Sync | GetFlight _ | Evict _ => True | _ => False end.

  Hypothesis Hindex : match d_index d with
                      | IxFull t => t = isort (merged_pairs 0 parts) /\ Forall part_fresh parts
                      | IxAbsent => True
                      | IxEmpty => False
                      end.

  Definition mh_ok (h : handle) : Prop :=
    minv h /\ h_indexable h = (if ident then Some true else None).

  Lemma slookup_concat : slookup outp (s_fs concat_world) = Some (mkS (map strip items) sg ident).
  Proof. cbn. now rewrite path_eqb_refl. Qed.

  Lemma mstep_refines h o w' r : mh_ok h -> read_op o ->
    (match o with GetFlight _ => NoDup (ids_of items) | _ => True end) ->
    step fixed_cfg (mkW fs (Some h)) o = (w', r) ->
    (exists h', w' = mkW fs (Some h') /\ mh_ok h') /\ spec_step concat_world o = (concat_world, coarse r).
  Proof.
    intros (M & Hix) Ro Nd E. pose proof M as (A & B & C & D & Em & F & G).
    assert (Hitems : s_items concat_world (mkSH (SLFile outp) MRead cp its) = map strip items).
    { unfold s_items. cbn [sh_loc]. now rewrite slookup_concat. }
    assert (Hdef : s_def concat_world (mkSH (SLFile outp) MRead cp its) = Some (sg, ident)).
    { unfold s_def. cbn [sh_loc]. now rewrite slookup_concat. }
    destruct o; try contradiction Ro; cbn [step w_h w_fs] in E.
    - (* Add *) unfold add in E. rewrite D in E. injection E as <- <-. split; [exists h; split; auto; split; auto|].
      reflexivity.
    - (* Get *)
      destruct (mget h i M) as (c & G1 & G2 & G3).
      destruct (get_item fixed_cfg fs h i) as [h1 rr]. cbn in G1, G2, G3. subst h1 rr. injection E as <- <-.
      split; [eexists; split; [reflexivity|split; auto]|].
      unfold spec_step. cbn [concat_world s_h]. fold concat_world. rewrite Hitems, nth_error_strip.
      destruct (nth_error items i); reflexivity.
    - (* Len *)
      injection E as <- <-. split; [exists h; split; auto; split; auto|].
      unfold spec_step. cbn [concat_world s_h]. fold concat_world. rewrite Hitems, map_length.
      unfold store_len. rewrite A, Hparts. now rewrite sum_len_concat.
    - (* Iter *)
      unfold store_len in E. rewrite A, Hparts, sum_len_concat in E. unfold seqn in E.
      destruct (miter (length items) 0 h keeps [] M eq_refl) as (c & G1 & G2 & G3).
      destruct (iter_go fixed_cfg fs h (seq 0 (length items)) keeps []) as [h1 rr]. cbn in G1, G2, G3. subst h1 rr.
      injection E as <- <-. split; [eexists; split; [reflexivity|split; auto]|].
      unfold spec_step. cbn [concat_world s_h]. fold concat_world. rewrite Hitems, map_fst_strip. reflexivity.
    - (* Sync *) rewrite D in E. injection E as <- <-. split; [exists h; split; auto; split; auto|]. reflexivity.
    - (* GetFlight *)
      unfold spec_step. cbn [concat_world s_h]. fold concat_world. rewrite Hdef, Hitems.
      unfold get_flight in E.
      assert (Keep : forall c, cache_all_ok c items -> mh_ok (set_cache h c)).
      { intros c Hc. split; [now apply minv_set_cache|exact Hix]. }
      assert (Mh : mh_ok h) by (split; auto).
      unfold ident in Hix, Hdef |- *.
      destruct (d_index d) as [| |t] eqn:Ei; try contradiction; rewrite Hix in E.
      + injection E as <- <-. split; [exists h; split; auto|]. reflexivity.
      + destruct Hindex as (-> & Hfresh).
        unfold reindex in E. rewrite Hix, Em in E. rewrite A, Ld, Ei in E.
        destruct (table_lookup id (isort (merged_pairs 0 parts))) as [idx|] eqn:T.
        * apply merged_table_lookup in T as (it & Hn & Hf); auto.
          destruct (mget h idx M) as (c & G1 & (G2a & G2b & G2c & G2) & G3).
          destruct (get_item fixed_cfg fs h idx) as [h1 rr]. cbn in G1, G3. subst h1 rr.
          fold items in Hn. rewrite Hn in E. injection E as <- <-.
          split; [eexists; split; [reflexivity|apply Keep; exact G2c]|].
          now rewrite (sfind_unique id items Nd idx it Hn Hf).
        * apply merged_table_lookup_none in T; auto. injection E as <- <-.
          split; [exists h; split; auto|]. fold items in T. now rewrite sfind_none.
    - (* Evict *)
      injection E as <- <-. destruct (minv_do_evict keep h M) as (c & Ec & Mc). rewrite Ec.
      split; [eexists; split; [reflexivity|split; auto]|]. reflexivity.
  Qed.

  (* __getitem__ on a merged store opened together with associated merged stores: the base payload is the
     i-th of the base concatenation; the associated records are whatever [col_values] finds (each through its
     own store's table: col_values_concat below) *)
  Theorem geta_merged h i ps : mh_ok h -> exists c,
    step fixed_cfg (mkW fs (Some h)) (GetA i ps) =
    (mkW fs (Some (set_cache h c)),
     match nth_error items i with
     | Some x => match col_values fs ps i with Some vs => OItemA (tag x) vs | None => OErr EIndex end
     | None => OErr EIndex
     end) /\ mh_ok (set_cache h c).
  Proof.
    intros (M & Hix). destruct (mget h i M) as (c & G1 & G2 & G3).
    exists c. cbn [step w_h w_fs]. destruct (get_item fixed_cfg fs h i) as [h1 rr]. cbn in G1, G3. subst h1 rr.
    split; [|split; auto]. destruct (nth_error items i); reflexivity.
  Qed.

  Fixpoint reads_ok (ops : list op) : Prop :=
    match ops with
    | [] => True
    | o :: r => read_op o /\ (match o with GetFlight _ => NoDup (ids_of items) | _ => True end) /\ reads_ok r
    end.

  Theorem merged_reads_refine ops : forall h, mh_ok h -> reads_ok ops ->
    map coarse (snd (run fixed_cfg (mkW fs (Some h)) ops)) = snd (spec_run concat_world ops).
  Proof.
    induction ops as [|o r IH]; intros h Mh Hr; cbn [run spec_run]; auto.
    destruct Hr as (Ro & Nd & Hr).
    destruct (step fixed_cfg (mkW fs (Some h)) o) as [w1 x] eqn:Es.
    destruct (mstep_refines h o w1 x Mh Ro Nd Es) as ((h' & -> & Mh') & Sp). rewrite Sp.
    specialize (IH h' Mh' Hr).
    destruct (run fixed_cfg (mkW fs (Some h')) r) as [w2 xs]. destruct (spec_run concat_world r) as [s2 ys].
    cbn [fst snd map] in *. now f_equal.
  Qed.
End Merged.

(* ------------------------------------------------------------------------------------------- *)
(* associated merged stores: for EVERY split of every store, the record found for index i is the  *)
(* i-th record of that store's own concatenation                                               *)
(* ------------------------------------------------------------------------------------------- *)
Lemma col_value_concat fs p l i : merged_parts fs p = Some l ->
  col_value fs p i = option_map tag (nth_error (concat (map f_items l)) i).
Proof.
  intros H. unfold col_value. rewrite H.
  replace (map (fun f => length (f_items f)) l) with (map (@length item) (map f_items l)) by (now rewrite map_map).
  now rewrite locate_concat.
Qed.

Fixpoint sequence {A} (l : list (option A)) : option (list A) :=
  match l with
  | [] => Some []
  | x :: r => match x, sequence r with Some v, Some vs => Some (v :: vs) | _, _ => None end
  end.

Theorem col_values_concat fs ps ls i : Forall2 (fun p l => merged_parts fs p = Some l) ps ls ->
  col_values fs ps i = sequence (map (fun l => option_map tag (nth_error (concat (map f_items l)) i)) ls).
Proof.
  induction 1 as [|p l ps ls H _ IH]; cbn; auto.
  now rewrite (col_value_concat fs p l i H), IH.
Qed.

(* ------------------------------------------------------------------------------------------- *)
(* C09: merge, then open: the concatenation of the inputs in the order given                    *)
(* ------------------------------------------------------------------------------------------- *)
(* the inputs are closed, well-formed stores (what [Inv] guarantees of every file of a world) *)
Definition inputs_wf (fs0 : fsys) (ins : list path) : Prop :=
  forall p f, In p ins -> flookup p fs0 = Some (NFile f) ->
              file_ok f /\ (f_hasidx f = true -> part_fresh f).

Theorem merged_is_concat fs0 outp ins fs' cp :
  inputs_wf fs0 ins ->
  merge_run fixed_cfg fs0 outp ins None = (fs', OUnit) ->
  let parts := map (input_file fs0) ins in
  exists h d,
    step fixed_cfg (mkW fs' None) (OpenR outp cp) = (mkW fs' (Some h), OUnit) /\
    flookup outp fs' = Some (NDir d) /\
    ident d = all_indexed fs0 ins /\
    merged_parts fs' outp = Some parts /\ Forall file_ok parts /\ mh_ok outp d parts h /\
    forall sg ops, reads_ok parts ops ->
      map coarse (snd (run fixed_cfg (mkW fs' (Some h)) ops))
      = snd (spec_run (concat_world outp d parts sg cp []) ops).
Proof.
  intros Wf E parts. apply merge_success in E as (P & (M & I & T)).
  destruct P as [Px Pf Pnc Pfiles Pb Psig Pidx].
  pose proof (Moved_lookup _ _ _ _ _ M) as Ld. set (d := dir_of outp fs') in *.
  assert (Hne : ins <> []).
  { intros ->. cbn in Pidx. discriminate. }
  assert (Hlisted : listed_members d (map (fun p => (pbase p, length (f_items (input_file fs0 p)))) ins)
                    = Some parts) by (now apply listed_all).
  assert (Hparts : merged_parts fs' outp = Some parts).
  { unfold merged_parts. rewrite Ld, T. unfold final_meta. exact Hlisted. }
  assert (Hwhole : Forall file_ok parts).
  { apply Forall_forall. intros f Hf. apply in_map_iff in Hf as (p & <- & Hp).
    destruct (Pfiles p Hp) as (f & L). destruct (Wf p f Hp L) as (Ok & _).
    unfold input_file, in_file. now rewrite L. }
  assert (Hident : ident d = all_indexed fs0 ins).
  { unfold ident. rewrite I. unfold final_ix. now destruct (all_indexed fs0 ins). }
  assert (Hindex : match d_index d with
                   | IxFull t => t = isort (merged_pairs 0 parts) /\ Forall part_fresh parts
                   | IxAbsent => True | IxEmpty => False end).
  { rewrite I. unfold final_ix. destruct (all_indexed fs0 ins) eqn:Hall; auto. split; auto.
    apply Forall_forall. intros f Hf. apply in_map_iff in Hf as (p & <- & Hp).
    destruct (Pfiles p Hp) as (f & L). destruct (Wf p f Hp L) as (_ & Fr).
    unfold input_file, in_file. rewrite L. apply Fr.
    unfold all_indexed in Hall. rewrite forallb_forall in Hall. specialize (Hall p Hp).
    unfold in_file in Hall. now rewrite L in Hall. }
  assert (Hopen : exists h, open_merged fs' outp d cp = inl h /\ mh_ok outp d parts h).
  { unfold open_merged. rewrite Px, T. unfold final_meta.
    destruct ins as [|p0 r]; [contradiction|]. cbn [map]. cbn [map] in Hlisted. rewrite Hlisted.
    rewrite I. unfold final_ix. unfold mh_ok, minv, ident. rewrite I. unfold final_ix.
    destruct (all_indexed fs0 (p0 :: r)); eexists; (split; [reflexivity|]); cbn; repeat split; auto;
      intros i x []. }
  destruct Hopen as (h & Eo & Mh).
  exists h, d. split; [|split; [exact Ld|split; [exact Hident|split; [exact Hparts|split; [exact Hwhole|split; [exact Mh|]]]]]].
  - cbn [step w_h w_fs]. now rewrite Ld, Eo.
  - intros sg ops Hr. eapply merged_reads_refine; eauto.
Qed.

(* ------------------------------------------------------------------------------------------- *)
(* end to end: a base family and an associated family merged separately, opened together         *)
(* ------------------------------------------------------------------------------------------- *)
Lemma merged_parts_local fs fs' p : flookup p fs' = flookup p fs -> merged_parts fs' p = merged_parts fs p.
Proof. intros E. unfold merged_parts. now rewrite E. Qed.

Lemma merge_result_parts fs0 outp ins fs' :
  merge_run fixed_cfg fs0 outp ins None = (fs', OUnit) -> merged_parts fs' outp = Some (map (input_file fs0) ins).
Proof.
  intros E. apply merge_success in E as (_ & (M & _ & T)).
  unfold merged_parts. rewrite (Moved_lookup _ _ _ _ _ M), T. unfold final_meta. now apply listed_all.
Qed.

Theorem merged_families_aligned fs0 outb inb fs1 outa ina fs2 cp :
  inputs_wf fs0 inb ->
  merge_run fixed_cfg fs0 outb inb None = (fs1, OUnit) ->
  merge_run fixed_cfg fs1 outa ina None = (fs2, OUnit) ->
  outb <> outa -> ~ In outb ina ->
  let pb := map (input_file fs0) inb in
  let pa := map (input_file fs1) ina in
  exists h d,
    step fixed_cfg (mkW fs2 None) (OpenR outb cp) = (mkW fs2 (Some h), OUnit) /\ mh_ok outb d pb h /\
    forall h', mh_ok outb d pb h' -> forall i, exists c,
      step fixed_cfg (mkW fs2 (Some h')) (GetA i [outa]) =
      (mkW fs2 (Some (set_cache h' c)),
       match nth_error (concat (map f_items pb)) i, nth_error (concat (map f_items pa)) i with
       | Some x, Some y => OItemA (tag x) [tag y]       (* the i-th associated record goes with the i-th trajectory *)
       | _, _ => OErr EIndex
       end) /\ mh_ok outb d pb (set_cache h' c).
Proof.
  intros Wf E1 E2 Nab Nin pb pa.
  destruct (merged_is_concat fs0 outb inb fs1 cp Wf E1) as (h & d & Eo & Ld & _ & Hpb & Hwb & Mh & _).
  pose proof (merge_result_parts _ _ _ _ E2) as Hpa. fold pa in Hpa.
  apply merge_success in E2 as (_ & (M2 & _ & _)).
  pose proof M2 as (_ & Hother & _).
  assert (Lb : flookup outb fs2 = flookup outb fs1) by (apply Hother; auto).
  assert (Hpb2 : merged_parts fs2 outb = Some pb) by (rewrite (merged_parts_local fs1 fs2 outb Lb); exact Hpb).
  exists h, d. split; [|split; [exact Mh|]].
  - cbn [step w_h w_fs]. rewrite Lb, Ld. cbn [step w_h w_fs] in Eo. rewrite Ld in Eo.
    change (open_merged fs2 outb d cp) with (open_merged fs1 outb d cp).
    destruct (open_merged fs1 outb d cp) as [h0|e]; [|discriminate]. injection Eo as ->. reflexivity.
  - intros h' Mh' i.
    destruct (geta_merged fs2 outb d pb Hpb2 Hwb h' i [outa] Mh') as (c & Es & Mc).
    exists c. split; [|exact Mc]. rewrite Es. f_equal.
    rewrite (col_values_concat fs2 [outa] [pa] i) by (constructor; [exact Hpa|constructor]).
    cbn [map sequence]. destruct (nth_error (concat (map f_items pb)) i); auto.
    destruct (nth_error (concat (map f_items pa)) i); reflexivity.
Qed.

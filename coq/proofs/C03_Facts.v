(* C03 — proofs, part 4: the model's writer and reader ARE the interpretation of the dispatch tables and
   flags in [code_facts] (the record regenerated from store.py on every run, link/C03_Link.v). *)
From Coq Require Import ZArith List String Bool Arith.
From AV Require Import model.C03_Model proofs.C03_Proofs.
Import ListNotations.
Local Open Scope list_scope.

(* _write_to_nc_var, read off the tables *)
Definition patches_by_case (cf : code_facts) (fsp : list nat) (m : fmeta) (v : fval) : res (list patch) :=
  let sh := fm_shape m in
  let refuse {A} (mp : list (nat * A)) := cf_write_refuses_unknown_species cf && unknown_species fsp mp in
  match v with
  | FNone => if fm_req m then (if fst (cf_write_none cf) then inr EValue else inr EOther)
             else (if snd (cf_write_none cf) then inl [] else inr EOther)
  | _ =>
    match wcase_of cf sh with
    | None => inr EOther
    | Some WPlain =>
        match v with
        | FScal s => if has_point sh then inr EOther else inl [(0, 0, CScal s)]
        | FArr a => if has_point sh then match fm_dtype m with Str => inr EAttr | _ => inl [(0, 0, CArr a)] end
                    else inr EOther
        | _ => inr EOther
        end
    | Some (WModes ms) =>
        match v, ms with
        | FTm l, OverThrustModes => inl (mode_patches 0 l)
        | _, _ => inr EOther
        end
    | Some (WSpecies src) =>
        match v with
        | FSp mp => if has_point sh then inr EOther
                    else if refuse mp then inr EValue
                    else sp_patches (fun slot s => [(slot, 0, CScal s)]) (List.length fsp) (slots_of src fsp) mp
        | FSpArr mp => if has_point sh
                       then if refuse mp then inr EValue
                            else sp_patches (fun slot a => [(slot, 0, CArr a)]) (List.length fsp) (slots_of src fsp) mp
                       else inr EOther
        | _ => inr EOther
        end
    | Some (WSpeciesModes src ms) =>
        match v, ms with
        | FSpTm mp, OverThrustModes =>
            if refuse mp then inr EValue
            else sp_patches mode_patches (List.length fsp) (slots_of src fsp) mp
        | _, _ => inr EOther
        end
    end
  end.

Theorem field_patches_by_case : forall fixed fsp m v,
  field_patches fixed fsp m v = patches_by_case (facts_of fixed) fsp m v.
Proof.
  intros fixed fsp m v. unfold field_patches, patches_by_case.
  destruct fixed, v, (fm_shape m) eqn:Es, (fm_dtype m) eqn:Ed; try reflexivity;
    simpl; destruct (fm_req m); reflexivity.
Qed.

(* _read_from_nc_var, read off the tables *)
Definition read_by_case (cf : code_facts) (fsp : list nat) (m : fmeta) (g : nat -> nat -> cell) : fval :=
  let d := fm_dtype m in
  let sh := fm_shape m in
  let finish (is_empty : bool) (v : fval) :=
      if cf_read_empty_optional_is_none cf then opt_none m is_empty v else v in
  match rcase_of cf sh with
  | None => FNone
  | Some RScalarFillNone => let s := cell_scalar (g 0 0) in if scalar_missing d s then FNone else FScal s
  | Some RArrayEmptyNone => let a := cell_arr (g 0 0) in if Z.eqb (alen a) 0 then FNone else FArr a
  | Some (RSpecies src skip) =>
      let all := slots_of src fsp in
      if has_point sh then
        if skip then
          let l := flat_map (fun p => let c := g (fst p) 0 in if written d c then [(snd p, cell_arr c)] else []) all in
          finish (is_nil l) (FSpArr l)
        else FSpArr (map (fun p => (snd p, cell_arr (g (fst p) 0))) all)
      else
        if skip then
          let l := flat_map (fun p => let c := g (fst p) 0 in if written d c then [(snd p, cell_scalar c)] else []) all in
          finish (is_nil l) (FSp l)
        else FSp (map (fun p => (snd p, cell_scalar (g (fst p) 0))) all)
  | Some (RModes ms skip) =>
      match ms with
      | OverThrustModes =>
          if skip then finish (negb (any_written d (g 0))) (FTm (read_modes true d (g 0)))
          else FTm (read_modes false d (g 0))
      | _ => FNone
      end
  | Some (RSpeciesModes src ms skip) =>
      match ms with
      | OverThrustModes =>
          let all := slots_of src fsp in
          if skip then
            let l := flat_map (fun p => if any_written d (g (fst p))
                                        then [(snd p, read_modes true d (g (fst p)))] else []) all in
            finish (is_nil l) (FSpTm l)
          else FSpTm (map (fun p => (snd p, read_modes false d (g (fst p)))) all)
      | _ => FNone
      end
  end.

Theorem read_field_by_case : forall fixed fsp m g,
  read_field fixed fsp m g = read_by_case (facts_of fixed) fsp m g.
Proof.
  intros fixed fsp m g. unfold read_field, read_by_case.
  destruct fixed, (fm_shape m) eqn:Es; reflexivity.
Qed.

(* the other flags and the model function each governs *)
Theorem npoints_follows_facts : forall fixed m v,
  npoints_of fixed m v =
  if has_point (fm_shape m) then
    match v with
    | FArr a => Some (inl (alen a))
    | FSpArr ((_, a) :: _) => Some (inl (alen a))
    | FSpArr [] => if cf_npoints_skips_unset (facts_of fixed) then None else Some (inr EStopIter)
    | FNone => if cf_npoints_skips_unset (facts_of fixed) then None else Some (inr EType)
    | _ => Some (inr EOther)
    end
  else None.
Proof. intros [] m v; reflexivity. Qed.

(* every file is written and decoded with ITS OWN species dimension (cf_*_gets_species_of_its_file),
   which is the `species` argument given to _create_dimensions (cf_species_dim_from_argument) *)
Theorem files_use_their_own_species : forall fixed sc fs rest i t cst k,
  file_index fs cst = Some k ->
  write_traj_c fixed sc (fs :: rest) i t cst =
    match write_fields fixed (f_species (nth k cst no_file)) fs i 0 (nth fs sc []) (nth fs t [])
                       (f_cells (nth k cst no_file)) with
    | inr e => inr e
    | inl c' => write_traj_c fixed sc rest i t (update_nth k (wrote (nth k cst no_file) c' i) cst)
    end
  /\ read_raw_c fixed sc (fs :: rest) i cst =
    match read_raw_c fixed sc rest i cst with
    | inr e => inr e
    | inl l => inl (read_fields fixed (f_species (nth k cst no_file)) (f_cells (nth k cst no_file)) fs i 0
                                (nth fs sc []) ++ l)
    end.
Proof. intros. simpl. rewrite H. split; reflexivity. Qed.

(* the species dimensions the files get (cf_create_species_of_first_trajectory,
   cf_mapped_species_of_first_result) *)
Theorem created_files_species : forall sc a t0,
  map f_species (create_files sc Single t0) = [species_union (all_sets sc) t0] /\
  map f_species (create_files sc (Assoc a) t0) = [species_union (all_sets sc) t0; species_union (all_sets sc) t0] /\
  map f_species (create_files sc (Mapped a) t0) = [species_union (minus (all_sets sc) a) t0] /\
  forall st, map f_species (add_mapped_file_c a t0 st) = map f_species st ++ [species_union a t0].
Proof. intros. repeat split; try reflexivity. intro st. unfold add_mapped_file_c. now rewrite map_app. Qed.

(* ---- none lost on every write path ------------------------------------------------------------------ *)
(* The repaired writer accepts a species-indexed value only if every species of it has a place in the
   species dimension of the file; otherwise it refuses (ValueError).  With [species_exact] (what was
   accepted reads back with exactly its species) nothing can be dropped silently. *)
Theorem accepted_species_are_in_dimension : forall L m v ps,
  field_patches true L m v = inl ps ->
  match v with
  | FSp mp => unknown_species L mp = false
  | FSpArr mp => unknown_species L mp = false
  | FSpTm mp => unknown_species L mp = false
  | _ => True
  end.
Proof.
  intros L m v ps H. unfold field_patches in H.
  destruct v as [| s | a | mp | mp | l | mp]; auto; destruct (fm_shape m); try discriminate;
    simpl in H; destruct (unknown_species L mp); auto; discriminate.
Qed.

Theorem species_outside_dimension_refused : forall L m v,
  match v with
  | FSp mp => fm_shape m = ShTS /\ unknown_species L mp = true
  | FSpArr mp => fm_shape m = ShTSP /\ unknown_species L mp = true
  | FSpTm mp => fm_shape m = ShTSM /\ unknown_species L mp = true
  | _ => False
  end -> field_patches true L m v = inr EValue.
Proof.
  intros L m v H. unfold field_patches.
  destruct v as [| s | a | mp | mp | l | mp]; try contradiction; destruct H as [Hs Hu]; rewrite Hs; simpl; now rewrite Hu.
Qed.

(* add(), save() and create_associated() all write through the same guarded writer: in the model the three
   paths are [write_traj_c] -> [write_fields] -> [write_field] -> [field_patches] *)
Theorem every_write_path_is_the_guarded_writer : forall fixed sc order r1 i t ts st,
  add_all_c fixed sc order i (t :: ts) st =
    match write_traj_c fixed sc order i t st with
    | inr e => (st, Some (i, e))
    | inl st' => add_all_c fixed sc order (S i) ts st'
    end
  /\ map_all_c fixed sc r1 order i (t :: ts) st =
    match load_traj_c fixed sc r1 i st with
    | inr e => (st, Some (i, e))
    | inl _ => match write_traj_c fixed sc order i t st with
               | inr e => (st, Some (i, e))
               | inl st' => map_all_c fixed sc r1 order (S i) ts st'
               end
    end
  /\ forall fsp p m v c, write_field fixed fsp p m v c =
       match field_patches fixed fsp m v with inl ps => inl (apply_patches p ps c) | inr e => inr e end.
Proof. intros. repeat split; reflexivity. Qed.

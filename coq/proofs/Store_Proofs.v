(* Store_Proofs — the repaired store machine refines the append-only-list / identifier-map specification.
   Shared by C07 C08 C10 (merges: Store_MergeProofs.v). *)
From Coq Require Import ZArith List Bool Arith Lia ZifyBool Permutation Sorted.
From AV Require Import model.Store_Model.
Import ListNotations.

(* ------------------------------------------------------------------------------------------- *)
(* association lists                                                                           *)
(* ------------------------------------------------------------------------------------------- *)
Lemma ext_eqb_eq a b : ext_eqb a b = true <-> a = b.
Proof. destruct a, b; cbn; split; congruence. Qed.

Lemma path_eqb_eq a b : path_eqb a b = true <-> a = b.
Proof.
  destruct a as [d1 b1 e1], b as [d2 b2 e2]; unfold path_eqb; cbn.
  rewrite !andb_true_iff, !Nat.eqb_eq, ext_eqb_eq. split.
  - intros [[-> ->] ->]; reflexivity.
  - intros E; inversion E; auto.
Qed.

Lemma path_eqb_refl a : path_eqb a a = true.
Proof. apply path_eqb_eq; reflexivity. Qed.

Lemma path_eqb_neq a b : a <> b -> path_eqb a b = false.
Proof. intros H. destruct (path_eqb a b) eqn:E; auto. apply path_eqb_eq in E. contradiction. Qed.

Lemma path_eq_dec (a b : path) : {a = b} + {a <> b}.
Proof.
  destruct (path_eqb a b) eqn:E; [left; now apply path_eqb_eq | right].
  intros ->. rewrite path_eqb_refl in E. discriminate.
Qed.

Section AssocLemmas.
  Context {K V : Type}.
  Variable keq : K -> K -> bool.
  Hypothesis keq_eq : forall a b, keq a b = true <-> a = b.

  Lemma keq_refl a : keq a a = true.
  Proof. now apply keq_eq. Qed.

  Lemma keq_neq a b : a <> b -> keq a b = false.
  Proof. intros H. destruct (keq a b) eqn:E; auto. apply keq_eq in E. contradiction. Qed.

  Lemma alookup_aupd_eq p (v : V) l : alookup keq p (aupd keq p v l) = Some v.
  Proof.
    induction l as [|[q x] r IH]; cbn.
    - now rewrite keq_refl.
    - destruct (keq p q) eqn:E; cbn; [now rewrite keq_refl | now rewrite E].
  Qed.

  Lemma alookup_aupd_neq p q (v : V) l : p <> q -> alookup keq q (aupd keq p v l) = alookup keq q l.
  Proof.
    intros N. induction l as [|[k x] r IH]; cbn.
    - rewrite keq_neq; auto.
    - destruct (keq p k) eqn:E; cbn.
      + apply keq_eq in E; subst k. rewrite !keq_neq; auto.
      + destruct (keq q k); auto.
  Qed.

  Lemma alookup_aremove_eq p (l : list (K * V)) : alookup keq p (aremove keq p l) = None.
  Proof.
    induction l as [|[k x] r IH]; cbn; auto.
    destruct (keq p k) eqn:E; cbn; auto. now rewrite E.
  Qed.

  Lemma alookup_aremove_neq p q (l : list (K * V)) : p <> q -> alookup keq q (aremove keq p l) = alookup keq q l.
  Proof.
    intros N. induction l as [|[k x] r IH]; cbn; auto.
    destruct (keq p k) eqn:E; cbn.
    - apply keq_eq in E; subst k. rewrite keq_neq; auto.
    - destruct (keq q k); auto.
  Qed.

  Lemma alookup_map {W} (g : V -> W) p l :
    alookup keq p (map (fun e => (fst e, g (snd e))) l) = option_map g (alookup keq p l).
  Proof.
    induction l as [|[k x] r IH]; cbn; auto. destruct (keq p k); auto.
  Qed.

  Lemma aupd_map {W} (g : V -> W) p v l :
    map (fun e => (fst e, g (snd e))) (aupd keq p v l) = aupd keq p (g v) (map (fun e => (fst e, g (snd e))) l).
  Proof.
    induction l as [|[k x] r IH]; cbn; auto. destruct (keq p k); cbn; auto. now rewrite IH.
  Qed.
End AssocLemmas.

Lemma nat_eqb_eq a b : Nat.eqb a b = true <-> a = b.
Proof. apply Nat.eqb_eq. Qed.

Lemma flookup_fupd_eq p n fs : flookup p (fupd p n fs) = Some n.
Proof. apply alookup_aupd_eq, path_eqb_eq. Qed.
Lemma flookup_fupd_neq p q n fs : p <> q -> flookup q (fupd p n fs) = flookup q fs.
Proof. apply alookup_aupd_neq, path_eqb_eq. Qed.
Lemma flookup_fremove_eq p fs : flookup p (fremove p fs) = None.
Proof. apply alookup_aremove_eq. Qed.
Lemma flookup_fremove_neq p q fs : p <> q -> flookup q (fremove p fs) = flookup q fs.
Proof. apply alookup_aremove_neq, path_eqb_eq. Qed.
Lemma mlookup_mupd_eq k f l : mlookup k (mupd k f l) = Some f.
Proof. apply alookup_aupd_eq, nat_eqb_eq. Qed.
Lemma mlookup_mupd_neq k q f l : k <> q -> mlookup q (mupd k f l) = mlookup q l.
Proof. apply alookup_aupd_neq, nat_eqb_eq. Qed.

(* ------------------------------------------------------------------------------------------- *)
(* reading a netCDF variable                                                                   *)
(* ------------------------------------------------------------------------------------------- *)
Lemma nc_read_nonneg items i : nc_read items (Z.of_nat i) = nth_error items i.
Proof.
  unfold nc_read. destruct (Z.of_nat i <? 0)%Z eqn:E; [lia|].
  rewrite E. now rewrite Nat2Z.id.
Qed.

Lemma nc_load_single items i : nc_load [items] None i = nth_error items i.
Proof. unfold nc_load; cbn. apply nc_read_nonneg. Qed.

(* reading from the end: index i of a part whose cumulative end is c and whose length is L *)
Lemma nc_read_from_end items (i c : nat) :
  c - length items <= i -> i < c -> length items <= c ->
  nc_read items (Z.of_nat i - Z.of_nat c) = nth_error items (i - (c - length items)).
Proof.
  intros H1 H2 H3. unfold nc_read.
  destruct (Z.of_nat i - Z.of_nat c <? 0)%Z eqn:E; [|lia].
  destruct (Z.of_nat (length items) + (Z.of_nat i - Z.of_nat c) <? 0)%Z eqn:E2; [lia|].
  f_equal. lia.
Qed.

(* ------------------------------------------------------------------------------------------- *)
(* locating an index in a list of parts = indexing their concatenation                          *)
(* ------------------------------------------------------------------------------------------- *)
Lemma locate_from (parts : list (list item)) : forall acc i, acc <= i ->
  match nth_error (cum_from acc (map (@length item) parts)) (bisect_left (cum_from acc (map (@length item) parts)) (S i)),
        nth_error parts (bisect_left (cum_from acc (map (@length item) parts)) (S i)) with
  | Some c, Some part => nc_read part (Z.of_nat i - Z.of_nat c)
  | _, _ => None
  end = nth_error (concat parts) (i - acc).
Proof.
  induction parts as [|p r IH]; intros acc i Hacc; cbn [map cum_from bisect_left concat length].
  - cbn. now destruct (i - acc).
  - destruct (i <? acc + length p) eqn:E.
    + apply Nat.ltb_lt in E.
      assert (Hle : (S i <=? acc + length p) = true) by (apply Nat.leb_le; lia).
      rewrite Hle. cbn [nth_error].
      rewrite nc_read_from_end by lia.
      replace (i - (acc + length p - length p)) with (i - acc) by lia.
      rewrite nth_error_app1 by lia. reflexivity.
    + apply Nat.ltb_ge in E.
      assert (Hle : (S i <=? acc + length p) = false) by (apply Nat.leb_gt; lia).
      rewrite Hle. cbn [nth_error].
      rewrite IH by lia.
      rewrite nth_error_app2 by lia. f_equal. lia.
Qed.

Theorem locate_concat (parts : list (list item)) (i : nat) :
  nc_load parts (Some (cum (map (@length item) parts))) i = nth_error (concat parts) i.
Proof.
  unfold nc_load, cum. rewrite (locate_from parts 0 i) by lia. f_equal. lia.
Qed.

(* ------------------------------------------------------------------------------------------- *)
(* the flight-id table                                                                         *)
(* ------------------------------------------------------------------------------------------- *)
Definition key_sorted (l : list (Z * nat)) : Prop := StronglySorted (fun a b => (fst a <= fst b)%Z) l.

Lemma tinsert_perm x l : Permutation (tinsert x l) (x :: l).
Proof.
  induction l as [|y r IH]; cbn; auto.
  destruct (fst x <=? fst y)%Z; auto.
  rewrite IH. apply perm_swap.
Qed.

Lemma isort_perm l : Permutation (isort l) l.
Proof.
  induction l as [|x r IH]; cbn; auto.
  rewrite tinsert_perm. now constructor.
Qed.

Lemma tinsert_sorted x l : key_sorted l -> key_sorted (tinsert x l).
Proof.
  unfold key_sorted. induction l as [|y r IH]; intros S; cbn.
  - constructor; auto.
  - destruct (fst x <=? fst y)%Z eqn:E.
    + apply Z.leb_le in E. constructor; auto.
      inversion S as [|? ? S' F]; subst. constructor; auto.
      eapply Forall_impl; [|exact F]. cbn; intros; lia.
    + apply Z.leb_gt in E. inversion S as [|? ? S' F]; subst.
      constructor; auto.
      rewrite Forall_forall in *. intros z Hz.
      apply (Permutation_in _ (tinsert_perm x r)) in Hz. destruct Hz as [->|Hz]; [lia|auto].
Qed.

Lemma isort_sorted l : key_sorted (isort l).
Proof.
  induction l as [|x r IH]; cbn; [constructor|]. now apply tinsert_sorted.
Qed.

(* lookup in a sorted table with distinct keys = membership *)
Lemma first_ge_sorted x l : key_sorted l -> NoDup (map fst l) ->
  forall idx, In (x, idx) l <-> table_lookup x l = Some idx.
Proof.
  unfold table_lookup, key_sorted.
  induction l as [|[k v] r IH]; intros S N idx; cbn.
  - split; [tauto|discriminate].
  - inversion S as [|? ? S' F]; subst. inversion N as [|? ? Nk N']; subst. cbn in *.
    destruct (x <=? k)%Z eqn:E.
    + apply Z.leb_le in E. destruct (k =? x)%Z eqn:E2.
      * apply Z.eqb_eq in E2; subst k. split.
        -- intros [H|H]; [now inversion H|].
           exfalso. apply Nk. change x with (fst (x, idx)). now apply in_map.
        -- intros H; inversion H; auto.
      * apply Z.eqb_neq in E2. split; [|discriminate].
        intros [H|H]; [inversion H; congruence|].
        rewrite Forall_forall in F. specialize (F _ H). cbn in F. lia.
    + apply Z.leb_gt in E. rewrite <- IH by auto. split; [|tauto].
      intros [H|H]; [inversion H; lia|auto].
Qed.

Lemma table_lookup_perm x pairs T idx :
  Permutation T pairs -> key_sorted T -> NoDup (map fst pairs) ->
  (In (x, idx) pairs <-> table_lookup x T = Some idx).
Proof.
  intros P S N. rewrite <- first_ge_sorted; auto.
  - split; intros H; [eapply Permutation_in; [symmetry|]; eauto | eapply Permutation_in; eauto].
  - eapply Permutation_NoDup; [|exact N]. apply Permutation_map. now symmetry.
Qed.

Lemma table_lookup_none x pairs T :
  Permutation T pairs -> key_sorted T -> NoDup (map fst pairs) ->
  (table_lookup x T = None <-> forall idx, ~ In (x, idx) pairs).
Proof.
  intros P S N. split.
  - intros H idx Hin. apply (table_lookup_perm x pairs T idx P S N) in Hin. congruence.
  - intros H. destruct (table_lookup x T) as [idx|] eqn:E; auto.
    apply (table_lookup_perm x pairs T idx P S N) in E. now apply H in E.
Qed.

(* the (id, index) pairs of a list of items *)
Lemma id_pairs_from_spec l : forall k x idx,
  In (x, idx) (id_pairs_from k l) <-> exists it, k <= idx /\ nth_error l (idx - k) = Some it /\ fid it = Some x.
Proof.
  induction l as [|it r IH]; intros k x idx; cbn.
  - split; [tauto|]. intros (it & _ & H & _). now destruct (idx - k).
  - destruct (fid it) as [i|] eqn:Ei; cbn; rewrite IH.
    + split.
      * intros [H|(it' & Hk & Hn & Hf)].
        -- inversion H; subst. exists it. rewrite Nat.sub_diag. auto.
        -- exists it'. split; [lia|]. split; auto.
           replace (idx - k) with (S (idx - S k)) by lia. exact Hn.
      * intros (it' & Hk & Hn & Hf).
        destruct (Nat.eq_dec idx k) as [->|Hne].
        -- rewrite Nat.sub_diag in Hn. cbn in Hn. inversion Hn; subst. left. congruence.
        -- right. exists it'. split; [lia|]. split; auto.
           replace (idx - k) with (S (idx - S k)) in Hn by lia. exact Hn.
    + split.
      * intros (it' & Hk & Hn & Hf). exists it'. split; [lia|]. split; auto.
        replace (idx - k) with (S (idx - S k)) by lia. exact Hn.
      * intros (it' & Hk & Hn & Hf).
        destruct (Nat.eq_dec idx k) as [->|Hne].
        -- rewrite Nat.sub_diag in Hn. cbn in Hn. inversion Hn; subst. congruence.
        -- exists it'. split; [lia|]. split; auto.
           replace (idx - k) with (S (idx - S k)) in Hn by lia. exact Hn.
Qed.

Fixpoint ids_of (l : list item) : list Z :=
  match l with [] => [] | it :: r => match fid it with Some i => i :: ids_of r | None => ids_of r end end.

Lemma id_pairs_keys l : forall k, map fst (id_pairs_from k l) = ids_of l.
Proof.
  induction l as [|it r IH]; intros k; cbn; auto.
  destruct (fid it); cbn; now rewrite IH.
Qed.

Lemma mk_table_lookup l x idx : NoDup (ids_of l) ->
  (table_lookup x (mk_table l) = Some idx <-> exists it, nth_error l idx = Some it /\ fid it = Some x).
Proof.
  intros N. unfold mk_table.
  rewrite <- (table_lookup_perm x (id_pairs_from 0 l)); auto using isort_perm, isort_sorted.
  - rewrite id_pairs_from_spec. rewrite Nat.sub_0_r. split.
    + intros (it & _ & H); eauto.
    + intros (it & H); exists it; split; [lia|auto].
  - now rewrite id_pairs_keys.
Qed.

Lemma mk_table_lookup_none l x : NoDup (ids_of l) ->
  (table_lookup x (mk_table l) = None <-> ~ In x (ids_of l)).
Proof.
  intros N. unfold mk_table.
  rewrite (table_lookup_none x (id_pairs_from 0 l)); auto using isort_perm, isort_sorted.
  - rewrite <- (id_pairs_keys l 0). split.
    + intros H Hin. apply in_map_iff in Hin as ([x' idx] & E & Hin). cbn in E; subst. now apply H in Hin.
    + intros H idx Hin. apply H. change x with (fst (x, idx)). now apply in_map.
  - now rewrite id_pairs_keys.
Qed.

(* ------------------------------------------------------------------------------------------- *)
(* abstraction to the specification state                                                      *)
(* ------------------------------------------------------------------------------------------- *)
Definition strip (x : item) : sitem := (tag x, fid x).
Arguments strip : simpl never.
Definition abs_file (f : ncfile) : sstore := mkS (map strip (f_items f)) (f_sig f) (f_hasidx f).
Definition abs_node (n : node) : sstore := match n with NFile f => abs_file f | NDir _ => mkS [] 0 false end.
Definition abs_fs (fs : fsys) : list (path * sstore) := map (fun e => (fst e, abs_node (snd e))) fs.
Definition abs_h (h : handle) : shandle :=
  mkSH (match h_src h with
        | SrcMem cap => SLMem (map strip (h_mem h)) cap
                              (match h_msig h, h_indexable h with Some s, Some b => Some (s, b) | _, _ => None end)
                              (h_used h)
        | SrcFile p => SLFile p
        | SrcMerged p => SLFile p
        end) (h_mode h) (h_cap h) (h_iters h).
Definition abs (w : world) : sworld := mkSW (abs_fs (w_fs w)) (option_map abs_h (w_h w)).

Lemma slookup_abs p fs : slookup p (abs_fs fs) = option_map abs_node (flookup p fs).
Proof. apply alookup_map. Qed.

Lemma abs_fs_fupd p n fs : abs_fs (fupd p n fs) = supd p (abs_node n) (abs_fs fs).
Proof. apply (aupd_map path_eqb abs_node). Qed.

(* ------------------------------------------------------------------------------------------- *)
(* the invariant                                                                               *)
(* ------------------------------------------------------------------------------------------- *)
Definition is_some {A} (o : option A) : bool := match o with Some _ => true | None => false end.
Definition item_ok (b : bool) (x : item) : bool := whole x && Bool.eqb (is_some (fid x)) b.
Arguments item_ok : simpl never.
Definition file_ok (f : ncfile) : Prop := forallb (item_ok (f_hasidx f)) (f_items f) = true.

(* every binding of the cache (not only the first one for a key: evicting may expose an older one)
   agrees with the file *)
Definition cache_all_ok (c : list (nat * item)) (items : list item) : Prop :=
  forall i x, In (i, x) c -> nth_error items i = Some x.

Definition hinv (fs : fsys) (h : handle) : Prop :=
  match h_src h with
  | SrcMem cap =>
      h_mode h = MCreate /\ h_next h = length (h_mem h) /\
      ((h_mem h = [] /\ h_indexable h = None /\ h_msig h = None) \/
       (exists b s, h_indexable h = Some b /\ h_msig h = Some s /\ forallb (item_ok b) (h_mem h) = true
                    /\ h_mem h <> []))
  | SrcFile p =>
      if h_pending h
      then h_mode h = MCreate /\ flookup p fs = None /\ h_cache h = [] /\ h_indexable h = None
           /\ h_stale h = false /\ h_snap h = None /\ h_next h = 0
      else exists f, flookup p fs = Some (NFile f) /\ h_snap h = None /\ cache_all_ok (h_cache h) (f_items f)
                     /\ (h_mode h <> MRead -> h_next h = length (f_items f))
                     /\ h_indexable h = Some (f_hasidx f)
                     /\ (h_mode h = MRead -> h_stale h = false)
                     /\ (h_stale h = true -> h_indexable h = Some true)
  | SrcMerged _ => False
  end.

Definition fresh (oh : option handle) (p : path) (f : ncfile) : Prop :=
  f_hasidx f = true ->
  f_table f = mk_table (f_items f) \/ (exists h, oh = Some h /\ h_src h = SrcFile p /\ h_stale h = true).

Record Inv (w : world) : Prop := mkInv {
  inv_files : forall p n, flookup p (w_fs w) = Some n -> exists f, n = NFile f /\ file_ok f /\ fresh (w_h w) p f;
  inv_handle : forall h, w_h w = Some h -> hinv (w_fs w) h
}.

Lemma Inv_empty : Inv empty_world.
Proof. split; cbn; intros; discriminate. Qed.

(* the items the live handle sees *)
Definition cur_items (fs : fsys) (h : handle) : list item :=
  match h_src h with
  | SrcMem _ => h_mem h
  | SrcFile p => if h_pending h then []
                 else match flookup p fs with Some (NFile f) => f_items f | _ => [] end
  | SrcMerged _ => []
  end.

Lemma s_items_abs w h : w_h w = Some h -> hinv (w_fs w) h ->
  s_items (abs w) (abs_h h) = map strip (cur_items (w_fs w) h).
Proof.
  intros _ H. unfold s_items, cur_items, abs_h, hinv in *. cbn.
  destruct (h_src h) as [cap|p|p]; cbn; auto; [|tauto].
  rewrite slookup_abs. destruct (h_pending h).
  - destruct H as (_ & -> & _). reflexivity.
  - destruct H as (f & -> & _). reflexivity.
Qed.

Lemma store_len_cur fs h : hinv fs h -> store_len fs h = length (cur_items fs h).
Proof.
  unfold hinv, store_len, cur_items. destruct (h_src h) as [cap|p|p]; auto; [|tauto].
  destruct (h_pending h).
  - intros (_ & _ & -> & _). reflexivity.
  - intros (f & -> & _). reflexivity.
Qed.

(* ------------------------------------------------------------------------------------------- *)
(* cache lemmas                                                                                *)
(* ------------------------------------------------------------------------------------------- *)
Lemma cache_all_ok_get c items i x : cache_all_ok c items -> cache_get c i = Some x -> nth_error items i = Some x.
Proof.
  unfold cache_all_ok, cache_get. intros H.
  induction c as [|[k v] r IH]; cbn; [discriminate|].
  destruct (Nat.eqb i k) eqn:E.
  - apply Nat.eqb_eq in E; subst. intros Hx; inversion Hx; subst. apply H. now left.
  - apply IH. intros j y Hj. apply H. now right.
Qed.

Lemma cache_all_ok_evict keep c items : cache_all_ok c items -> cache_all_ok (evict keep c) items.
Proof.
  unfold cache_all_ok, evict. intros H i x Hin. apply filter_In in Hin as [Hin _]. auto.
Qed.

Lemma cache_all_ok_cons c items i x : cache_all_ok c items -> nth_error items i = Some x ->
  cache_all_ok ((i, x) :: c) items.
Proof.
  unfold cache_all_ok. intros H Hx j y [E|Hin]; [inversion E; subst; auto|auto].
Qed.

Lemma cache_all_ok_app c items extra : cache_all_ok c items -> cache_all_ok c (items ++ extra).
Proof.
  unfold cache_all_ok. intros H i x Hin. specialize (H _ _ Hin).
  rewrite nth_error_app1; auto. apply nth_error_Some. congruence.
Qed.

(* Store — width of the flight identifiers.

   The model carries identifiers as unbounded [Z]; the code stores them in signed 64-bit netCDF variables and,
   while building an index (a store's own or a merged one), in numpy buffers.  A buffer of width [w] holds the
   two's-complement residue [wrapw w x] of what is assigned to it.  This file shows that the unbounded model is
   faithful on the whole int64 range when the buffers are 64 bits wide (every table, every lookup and every merged
   table is unchanged), and that it is NOT with 32-bit buffers (identifiers at or beyond 2^31 — date-prefixed mission
   keys — are lost or collide).  The second half is the formal content of seeded/C09-11. *)
From Coq Require Import ZArith List Bool Lia.
From AV Require Import model.Store_Model proofs.Store_Proofs.
Import ListNotations.
Local Open Scope Z_scope.

Definition wrapw (w x : Z) : Z := (x + 2 ^ (w - 1)) mod 2 ^ w - 2 ^ (w - 1).
Definition in_int64 (x : Z) : Prop := - 9223372036854775808 <= x < 9223372036854775808.

Definition narrow_item (w : Z) (it : item) : item :=
  mkItem (tag it) (option_map (wrapw w) (fid it)) (whole it) (isize it).
Definition narrow_pairs (w : Z) (t : list (Z * nat)) : list (Z * nat) := map (fun e => (wrapw w (fst e), snd e)) t.

Definition ids_in_int64 (l : list item) : Prop := forall it x, In it l -> fid it = Some x -> in_int64 x.
Definition keys_in_int64 (t : list (Z * nat)) : Prop := forall e, In e t -> in_int64 (fst e).

Lemma wrap64_id x : in_int64 x -> wrapw 64 x = x.
Proof.
  unfold in_int64, wrapw. intros [Hlo Hhi].
  replace (2 ^ (64 - 1)) with 9223372036854775808 by reflexivity.
  replace (2 ^ 64) with 18446744073709551616 by reflexivity.
  rewrite Z.mod_small; lia.
Qed.

Lemma wrapw_range w x : 0 < w -> - 2 ^ (w - 1) <= wrapw w x < 2 ^ (w - 1).
Proof.
  intros Hw. unfold wrapw.
  assert (Hp : 2 ^ w = 2 * 2 ^ (w - 1)).
  { replace w with (1 + (w - 1)) at 1 by lia. rewrite Z.pow_add_r by lia. reflexivity. }
  assert (Hpos : 0 < 2 ^ (w - 1)) by (apply Z.pow_pos_nonneg; lia).
  pose proof (Z.mod_pos_bound (x + 2 ^ (w - 1)) (2 ^ w) ltac:(lia)) as Hb. lia.
Qed.

Lemma narrow64_item it : (forall x, fid it = Some x -> in_int64 x) -> narrow_item 64 it = it.
Proof.
  destruct it as [tg f wh sz]; unfold narrow_item; cbn [tag fid whole isize]. intros H.
  destruct f as [x|]; cbn [option_map]; [rewrite wrap64_id by (apply H; reflexivity)|]; reflexivity.
Qed.

Lemma narrow64_items l : ids_in_int64 l -> map (narrow_item 64) l = l.
Proof.
  induction l as [|it r IH]; intros H; cbn [map]; [reflexivity|].
  rewrite narrow64_item, IH; [reflexivity| |].
  - intros it' x Hin. apply H. now right.
  - intros x. apply H. now left.
Qed.

Lemma narrow64_pairs t : keys_in_int64 t -> narrow_pairs 64 t = t.
Proof.
  unfold narrow_pairs. induction t as [|[k i] r IH]; intros H; cbn [map]; [reflexivity|].
  cbn [fst snd]. rewrite wrap64_id by (apply (H (k, i)); now left). f_equal. apply IH.
  intros e He. apply H. now right.
Qed.

(* a store's own index, built through 64-bit buffers, is the model's table; so is every lookup *)
Lemma table_through_64bit l : ids_in_int64 l -> mk_table (map (narrow_item 64) l) = mk_table l.
Proof. intros H. now rewrite narrow64_items. Qed.

Lemma lookup_through_64bit l x idx : ids_in_int64 l -> NoDup (ids_of l) ->
  (table_lookup x (mk_table (map (narrow_item 64) l)) = Some idx <->
   exists it, nth_error l idx = Some it /\ fid it = Some x).
Proof. intros H N. rewrite table_through_64bit by exact H. now apply mk_table_lookup. Qed.

Lemma lookup_none_through_64bit l x : ids_in_int64 l -> NoDup (ids_of l) ->
  (table_lookup x (mk_table (map (narrow_item 64) l)) = None <-> ~ In x (ids_of l)).
Proof. intros H N. rewrite table_through_64bit by exact H. now apply mk_table_lookup_none. Qed.

(* the merged index: the inputs' tables shifted and concatenated, through 64-bit buffers *)
Lemma merged_pairs_keys off parts :
  (forall f, In f parts -> keys_in_int64 (f_table f)) -> keys_in_int64 (merged_pairs off parts).
Proof.
  revert off. induction parts as [|f r IH]; intros off H e He; cbn [merged_pairs] in He; [contradiction|].
  apply in_app_or in He. destruct He as [He|He].
  - apply in_map_iff in He. destruct He as [e0 [<- Hin]]. cbn [fst]. apply (H f); [now left|exact Hin].
  - apply (IH (off + length (f_items f))%nat); [|exact He]. intros f' Hf'. apply H. now right.
Qed.

Lemma merged_through_64bit off parts :
  (forall f, In f parts -> keys_in_int64 (f_table f)) ->
  narrow_pairs 64 (merged_pairs off parts) = merged_pairs off parts.
Proof. intros H. apply narrow64_pairs, merged_pairs_keys, H. Qed.

(* ---- 32-bit buffers: the unbounded model would be wrong (seeded/C09-11) ---- *)
Definition it_of (t : Z) (i : Z) : item := mkItem t (Some i) true 1%nat.
Definition big_items : list item := [it_of 0 20260930000123; it_of 1 7; it_of 2 4294967303].

Lemma big_items_ok : ids_in_int64 big_items /\ NoDup (ids_of big_items).
Proof.
  split.
  - intros it x Hin Hf. unfold big_items, it_of in Hin. cbn [In] in Hin.
    destruct Hin as [<-|[<-|[<-|[]]]]; cbn [fid] in Hf; injection Hf as Hx; subst x; unfold in_int64; split; try (now vm_compute); vm_compute; reflexivity.
  - cbn. repeat constructor; cbn; intuition lia.
Qed.

Lemma narrow32_loses_identifiers :
  table_lookup 20260930000123 (mk_table big_items) = Some 0%nat /\
  table_lookup 20260930000123 (mk_table (map (narrow_item 32) big_items)) = None /\
  table_lookup 4294967303 (mk_table big_items) = Some 2%nat /\
  table_lookup 4294967303 (mk_table (map (narrow_item 32) big_items)) = None /\
  ~ NoDup (ids_of (map (narrow_item 32) big_items)).
Proof.
  repeat split; try (vm_compute; reflexivity).
  intros N. vm_compute in N. inversion N as [|a l _ N2]; subst. inversion N2 as [|b l2 Hnin _]; subst. apply Hnin. now left.
Qed.

Lemma narrow32_breaks_merged :
  exists (t1 t2 : list (Z * nat)), keys_in_int64 (t1 ++ t2) /\
    table_lookup 2147483655 (isort (t1 ++ t2)) = Some 3%nat /\
    table_lookup 2147483655 (isort (narrow_pairs 32 (t1 ++ t2))) = None.
Proof.
  exists [(5, 0%nat); (9, 1%nat)], [(3, 2%nat); (2147483655, 3%nat)]. split.
  - intros e He. cbn [app In] in He. destruct He as [<-|[<-|[<-|[<-|[]]]]]; unfold in_int64; cbn [fst]; lia.
  - split; vm_compute; reflexivity.
Qed.

(* the statements as the Props files quote them *)
Lemma lookup_exact_on_int64 : forall l x idx, ids_in_int64 l -> NoDup (ids_of l) ->
  mk_table (map (narrow_item 64) l) = mk_table l /\
  (table_lookup x (mk_table (map (narrow_item 64) l)) = Some idx <->
   exists it, nth_error l idx = Some it /\ fid it = Some x) /\
  (table_lookup x (mk_table (map (narrow_item 64) l)) = None <-> ~ In x (ids_of l)).
Proof.
  intros l x idx H N. split; [now apply table_through_64bit|].
  split; [now apply lookup_through_64bit | now apply lookup_none_through_64bit].
Qed.

Lemma merged_index_exact_on_int64 : forall off parts,
  (forall f, In f parts -> keys_in_int64 (f_table f)) ->
  narrow_pairs 64 (merged_pairs off parts) = merged_pairs off parts /\
  (forall x, table_lookup x (isort (narrow_pairs 64 (merged_pairs off parts))) =
             table_lookup x (isort (merged_pairs off parts))).
Proof. intros off parts H. split; [now apply merged_through_64bit|]. intros x. now rewrite merged_through_64bit. Qed.

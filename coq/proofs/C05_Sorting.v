(* C05 — list / sorting / searchsorted lemmas over the real-number instance of C04_Model. *)
From Coq Require Import ZArith List Bool Reals Lra Lia Permutation Sorted.
From AV Require Import lib.Num model.C04_Model.
Import ListNotations.
Local Open Scope R_scope.

(* ---------- insertion sort ---------- *)

Lemma insR_cons (x y : R) (r : list R) :
  @insert RNum x (y :: r) = if Rleb x y then x :: y :: r else y :: @insert RNum x r.
Proof. reflexivity. Qed.

Lemma insert_perm (x : R) (l : list R) : Permutation (@insert RNum x l) (x :: l).
Proof.
  induction l as [|y r IH]; [reflexivity|].
  rewrite insR_cons. destruct (Rleb x y); [reflexivity|].
  rewrite IH. apply perm_swap.
Qed.

Lemma sort_perm (l : list R) : Permutation (@sort RNum l) l.
Proof.
  induction l as [|x l IH]; [reflexivity|].
  change (@sort RNum (x :: l)) with (@insert RNum x (@sort RNum l)).
  rewrite insert_perm. constructor. exact IH.
Qed.

Lemma insert_sorted (x : R) (l : list R) :
  StronglySorted Rle l -> StronglySorted Rle (@insert RNum x l).
Proof.
  induction 1 as [|y r Hs IH Hall]; [repeat constructor|].
  rewrite insR_cons. destruct (Rleb x y) eqn:E.
  - apply Rleb_true in E. constructor; [constructor; assumption|].
    constructor; [exact E|]. eapply Forall_impl; [|exact Hall]. intros; cbv beta in *; lra.
  - apply Rleb_false in E. constructor; [exact IH|].
    eapply Permutation_Forall; [symmetry; apply insert_perm|].
    constructor; [lra|exact Hall].
Qed.

Lemma sort_sorted (l : list R) : StronglySorted Rle (@sort RNum l).
Proof.
  induction l as [|x l IH]; [constructor|].
  change (@sort RNum (x :: l)) with (@insert RNum x (@sort RNum l)). apply insert_sorted, IH.
Qed.

Lemma map_opp_opp (l : list R) : map Ropp (map Ropp l) = l.
Proof. induction l as [|a l IH]; [reflexivity|]. simpl. rewrite Ropp_involutive, IH. reflexivity. Qed.

Lemma sort_dir_perm sg (l : list R) : Permutation (@sort_dir RNum sg l) l.
Proof.
  unfold sort_dir. destruct (sg =? -1)%Z; [|apply sort_perm].
  cbn [opp RNum]. rewrite <- (map_opp_opp l) at 2. apply Permutation_map, sort_perm.
Qed.

Lemma sorted_opp (l : list R) : StronglySorted Rle l -> StronglySorted Rge (map Ropp l).
Proof.
  induction 1 as [|a l Hs IH Hall]; [constructor|]. simpl. constructor; [exact IH|].
  apply Forall_forall. intros y Hy. apply in_map_iff in Hy. destruct Hy as [z [<- Hz]].
  rewrite Forall_forall in Hall. specialize (Hall z Hz). lra.
Qed.

Lemma sort_dir_sorted_up sg (l : list R) : sg <> (-1)%Z -> StronglySorted Rle (@sort_dir RNum sg l).
Proof.
  intros H. unfold sort_dir. destruct (sg =? -1)%Z eqn:E; [apply Z.eqb_eq in E; contradiction|].
  apply sort_sorted.
Qed.

Lemma sort_dir_sorted_down (l : list R) : StronglySorted Rge (@sort_dir RNum (-1) l).
Proof. unfold sort_dir. cbn [Z.eqb Pos.eqb opp RNum]. apply sorted_opp, sort_sorted. Qed.

(* lengths (any number domain) *)
Section Lengths.
  Context {N : Num}.
  Lemma insert_length (x : T N) l : length (insert x l) = S (length l).
  Proof. induction l as [|y r IH]; [reflexivity|]. simpl. destruct (leb x y); simpl; auto. Qed.
  Lemma sort_length (l : list (T N)) : length (sort l) = length l.
  Proof. induction l as [|x l IH]; [reflexivity|]. simpl. rewrite insert_length, IH. reflexivity. Qed.
  Lemma sort_dir_length sg (l : list (T N)) : length (sort_dir sg l) = length l.
  Proof. unfold sort_dir. destruct (sg =? -1)%Z; rewrite ?map_length, sort_length, ?map_length; reflexivity. Qed.
  Lemma crossed_length s d : length (crossed s d) = Z.to_nat (Z.abs d).
  Proof.
    unfold crossed. destruct (d <? 0)%Z eqn:E; rewrite map_length, seq_length.
    - apply Z.ltb_lt in E. f_equal. lia.
    - apply Z.ltb_ge in E. f_equal. lia.
  Qed.
  Lemma pairs_length {A} (l : list A) : length (pairs l) = pred (length l).
  Proof.
    induction l as [|a l IH]; [reflexivity|]. destruct l as [|b l]; [reflexivity|].
    change (pairs (a :: b :: l)) with ((a, b) :: pairs (b :: l)). simpl length in *. rewrite IH. reflexivity.
  Qed.
End Lengths.

(* ---------- pairs ---------- *)

Lemma pairs_cons2' {A} (a b : A) l : pairs (a :: b :: l) = (a, b) :: pairs (b :: l).
Proof. reflexivity. Qed.

Lemma pairs_app_single {A} (l : list A) (x d : A) :
  l <> [] -> pairs (l ++ [x]) = pairs l ++ [(last l d, x)].
Proof.
  induction l as [|a l IH]; [contradiction|]. intros _.
  destruct l as [|b l]; [reflexivity|].
  change ((a :: b :: l) ++ [x]) with (a :: b :: (l ++ [x])).
  rewrite !pairs_cons2'. change (b :: l ++ [x]) with ((b :: l) ++ [x]).
  rewrite IH by discriminate. reflexivity.
Qed.

Lemma in_pairs_split {A} (l : list A) u w :
  In (u, w) (pairs l) -> exists P Q, l = P ++ u :: w :: Q.
Proof.
  induction l as [|a l IH]; [intros []|]. destruct l as [|b l]; [intros []|].
  rewrite pairs_cons2'. intros [E|H].
  - injection E as <- <-. exists [], l. reflexivity.
  - destruct (IH H) as [P [Q E]]. exists (a :: P), Q. rewrite E. reflexivity.
Qed.

(* ---------- monotone chains ---------- *)

Definition mono (l : list R) : Prop := StronglySorted Rle l \/ StronglySorted Rge l.

Lemma SS_app_inv {A} (R0 : A -> A -> Prop) l1 l2 :
  StronglySorted R0 (l1 ++ l2) ->
  StronglySorted R0 l1 /\ StronglySorted R0 l2 /\ (forall a b, In a l1 -> In b l2 -> R0 a b).
Proof.
  induction l1 as [|x l1 IH]; intros H.
  - repeat split; [constructor|exact H|intros a b []].
  - simpl in H. inversion H as [|? ? Hs Hall]; subst. destruct (IH Hs) as [S1 [S2 C]].
    rewrite Forall_app in Hall. destruct Hall as [F1 F2]. repeat split.
    + constructor; assumption.
    + exact S2.
    + intros a b [<-|Ha] Hb; [rewrite Forall_forall in F2; auto|auto].
Qed.

(* in a monotone list nothing lies strictly between two neighbours *)
Lemma mono_no_between (l P Q : list R) u w y :
  mono l -> l = P ++ u :: w :: Q -> In y l -> Rmin u w < y < Rmax u w -> False.
Proof.
  intros [H|H] -> Hy [Hlo Hhi].
  - destruct (SS_app_inv _ _ _ H) as [_ [S2 C]].
    inversion S2 as [|? ? S3 F]; subst. inversion S3 as [|? ? _ F']; subst.
    inversion F as [|? ? Huw _]; subst.
    rewrite Rmin_left in Hlo by exact Huw. rewrite Rmax_right in Hhi by exact Huw.
    apply in_app_or in Hy. destruct Hy as [Hy|[<-|[<-|Hy]]]; try lra.
    + specialize (C y u Hy (or_introl eq_refl)). lra.
    + rewrite Forall_forall in F'. specialize (F' y Hy). lra.
  - destruct (SS_app_inv _ _ _ H) as [_ [S2 C]].
    inversion S2 as [|? ? S3 F]; subst. inversion S3 as [|? ? _ F']; subst.
    inversion F as [|? ? Huw _]; subst.
    rewrite Rmin_right in Hlo by lra. rewrite Rmax_left in Hhi by lra.
    apply in_app_or in Hy. destruct Hy as [Hy|[<-|[<-|Hy]]]; try lra.
    + specialize (C y u Hy (or_introl eq_refl)). lra.
    + rewrite Forall_forall in F'. specialize (F' y Hy). lra.
Qed.

(* every element of a monotone list x0 :: I ++ [x1] lies between its ends *)
Lemma mono_between (I : list R) x0 x1 z :
  mono (x0 :: I ++ [x1]) -> In z (x0 :: I ++ [x1]) -> Rmin x0 x1 <= z <= Rmax x0 x1.
Proof.
  intros [H|H] Hz.
  - inversion H as [|? ? S F]; subst.
    assert (x0 <= x1) by (rewrite Forall_forall in F; apply F, in_or_app; right; left; reflexivity).
    rewrite Rmin_left, Rmax_right by assumption.
    destruct Hz as [<-|Hz]; [lra|]. split; [rewrite Forall_forall in F; auto|].
    destruct (SS_app_inv _ _ _ S) as [_ [_ C]]. apply in_app_or in Hz.
    destruct Hz as [Hz|[<-|[]]]; [apply C; [exact Hz|left; reflexivity]|lra].
  - inversion H as [|? ? S F]; subst.
    assert (x0 >= x1) by (rewrite Forall_forall in F; apply F, in_or_app; right; left; reflexivity).
    rewrite Rmin_right, Rmax_left by lra.
    destruct Hz as [<-|Hz]; [lra|]. split; [|rewrite Forall_forall in F; specialize (F z Hz); lra].
    destruct (SS_app_inv _ _ _ S) as [_ [_ C]]. apply in_app_or in Hz.
    destruct Hz as [Hz|[<-|[]]]; [specialize (C z x1 Hz (or_introl eq_refl)); lra|lra].
Qed.

(* building the monotone chain from a sorted middle *)
Lemma mono_chain_up (I : list R) x0 x1 :
  StronglySorted Rle I -> Forall (fun z => x0 <= z <= x1) I -> x0 <= x1 -> mono (x0 :: I ++ [x1]).
Proof.
  intros S F H. left. constructor.
  - induction S as [|a l Sl IH Fa]; [repeat constructor|].
    inversion F; subst. simpl. constructor; [apply IH; assumption|].
    rewrite Forall_app. split; [exact Fa|]. constructor; [lra|constructor].
  - rewrite Forall_app. split; [eapply Forall_impl; [|exact F]; intros; cbv beta in *; lra|constructor; [lra|constructor]].
Qed.

Lemma mono_chain_down (I : list R) x0 x1 :
  StronglySorted Rge I -> Forall (fun z => x1 <= z <= x0) I -> x1 <= x0 -> mono (x0 :: I ++ [x1]).
Proof.
  intros S F H. right. constructor.
  - induction S as [|a l Sl IH Fa]; [repeat constructor|].
    inversion F; subst. simpl. constructor; [apply IH; assumption|].
    rewrite Forall_app. split; [exact Fa|]. constructor; [lra|constructor].
  - rewrite Forall_app. split; [eapply Forall_impl; [|exact F]; intros; cbv beta in *; lra|constructor; [lra|constructor]].
Qed.

(* the pieces of a chain are consecutive: piece i runs from point i to point i+1 *)
Lemma pairs_nth {A} (l : list A) (d : A) i :
  (S i < length l)%nat -> nth i (pairs l) (d, d) = (nth i l d, nth (S i) l d).
Proof.
  revert i. induction l as [|a l IH]; intros i H; [simpl in H; lia|].
  destruct l as [|b l]; [simpl in H; lia|]. rewrite pairs_cons2'.
  destruct i as [|i]; [reflexivity|].
  change (nth (S i) ((a, b) :: pairs (b :: l)) (d, d)) with (nth i (pairs (b :: l)) (d, d)).
  rewrite IH by (simpl in *; lia). reflexivity.
Qed.

(* ---------- sorting is determined by the multiset, and commutes with monotone maps ---------- *)

Lemma sorted_perm_eq (l1 l2 : list R) :
  StronglySorted Rle l1 -> StronglySorted Rle l2 -> Permutation l1 l2 -> l1 = l2.
Proof.
  revert l2. induction l1 as [|a l1 IH]; intros l2 S1 S2 P.
  - apply Permutation_nil in P. subst. reflexivity.
  - destruct l2 as [|b l2]; [apply Permutation_sym, Permutation_nil in P; discriminate|].
    inversion S1 as [|? ? S1' F1]; subst. inversion S2 as [|? ? S2' F2]; subst.
    assert (E : a = b).
    { assert (Ia : In a (b :: l2)) by (eapply Permutation_in; [exact P|left; reflexivity]).
      assert (Ib : In b (a :: l1)) by (eapply Permutation_in; [symmetry; exact P|left; reflexivity]).
      rewrite Forall_forall in F1, F2.
      destruct Ia as [->|Ia]; [reflexivity|]. destruct Ib as [->|Ib]; [reflexivity|].
      specialize (F1 b Ib). specialize (F2 a Ia). lra. }
    subst b. f_equal. apply IH; [assumption|assumption|]. eapply Permutation_cons_inv. exact P.
Qed.

Lemma sort_perm_eq (l1 l2 : list R) : Permutation l1 l2 -> @sort RNum l1 = @sort RNum l2.
Proof.
  intros P. apply sorted_perm_eq; [apply sort_sorted|apply sort_sorted|].
  rewrite sort_perm, P. symmetry. apply sort_perm.
Qed.

Lemma sort_dir_perm_eq sg (l1 l2 : list R) :
  Permutation l1 l2 -> @sort_dir RNum sg l1 = @sort_dir RNum sg l2.
Proof.
  intros P. unfold sort_dir. destruct (sg =? -1)%Z.
  - f_equal. apply sort_perm_eq. apply Permutation_map. exact P.
  - apply sort_perm_eq. exact P.
Qed.

Lemma insert_map_incr (f : R -> R) (x : R) (l : list R) :
  (forall u v, f u <= f v <-> u <= v) ->
  @insert RNum (f x) (map f l) = map f (@insert RNum x l).
Proof.
  intros Hf. induction l as [|y r IH]; [reflexivity|].
  cbn [map]. rewrite !insR_cons.
  assert (E : Rleb (f x) (f y) = Rleb x y).
  { destruct (Rleb x y) eqn:E1.
    - apply Rleb_true in E1. apply Rleb_true. apply Hf. exact E1.
    - apply Rleb_false in E1. apply Rleb_false.
      destruct (Rlt_dec (f y) (f x)) as [L|L]; [exact L|]. exfalso.
      apply Rnot_lt_le in L. apply (proj1 (Hf _ _)) in L. lra. }
  rewrite E. destruct (Rleb x y); [reflexivity|]. cbn [map]. rewrite IH. reflexivity.
Qed.

Lemma sort_map_incr (f : R -> R) (l : list R) :
  (forall u v, f u <= f v <-> u <= v) -> @sort RNum (map f l) = map f (@sort RNum l).
Proof.
  intros Hf. induction l as [|x l IH]; [reflexivity|].
  cbn [map]. change (@sort RNum (f x :: map f l)) with (@insert RNum (f x) (@sort RNum (map f l))).
  change (@sort RNum (x :: l)) with (@insert RNum x (@sort RNum l)).
  rewrite IH. apply insert_map_incr. exact Hf.
Qed.

(* sort_dir of either direction, as one function of a boolean: down = true means descending *)
Definition sortd (down : bool) (l : list R) : list R :=
  if down then map Ropp (@sort RNum (map Ropp l)) else @sort RNum l.

Lemma sort_dir_sortd sg (l : list R) : @sort_dir RNum sg l = sortd (sg =? -1)%Z l.
Proof. reflexivity. Qed.

(* an increasing map keeps the direction, a decreasing map flips it *)
Lemma sortd_map_incr (f : R -> R) down (l : list R) :
  (forall u v, f u <= f v <-> u <= v) -> sortd down (map f l) = map f (sortd down l).
Proof.
  intros Hf. destruct down; cbn [sortd]; [|apply sort_map_incr; exact Hf].
  rewrite map_map.
  rewrite (map_ext (fun x => - f x) (fun x => (fun z => - f (- z)) (- x)))
    by (intros; cbv beta; rewrite Ropp_involutive; reflexivity).
  rewrite <- (map_map Ropp (fun z => - f (- z))).
  rewrite (sort_map_incr (fun z => - f (- z))).
  - rewrite !map_map. apply map_ext. intros z. cbv beta. rewrite Ropp_involutive. reflexivity.
  - intros u v. cbv beta. split; intros H.
    + assert (H0 : f (- v) <= f (- u)) by lra. apply (proj1 (Hf _ _)) in H0. lra.
    + assert (H0 : f (- v) <= f (- u)) by (apply (proj2 (Hf _ _)); lra). lra.
Qed.

Lemma sortd_map_decr (f : R -> R) down (l : list R) :
  (forall u v, f u <= f v <-> v <= u) -> sortd (negb down) (map f l) = map f (sortd down l).
Proof.
  intros Hf. destruct down; cbn [sortd negb].
  - (* ascending sort of f-values = f of descending sort *)
    rewrite (map_ext f (fun x => (fun z => f (- z)) (- x))) at 1
      by (intros; cbv beta; rewrite Ropp_involutive; reflexivity).
    rewrite <- (map_map Ropp (fun z => f (- z))).
    rewrite (sort_map_incr (fun z => f (- z))).
    + rewrite map_map. reflexivity.
    + intros u v. cbv beta. split; intros H.
      * apply (proj1 (Hf _ _)) in H. lra.
      * apply (proj2 (Hf _ _)). lra.
  - (* descending sort of f-values = f of ascending sort *)
    rewrite map_map. rewrite (sort_map_incr (fun x => - f x)).
    + rewrite map_map. apply map_ext. intros z. cbv beta. rewrite Ropp_involutive. reflexivity.
    + intros u v. cbv beta. split; intros H.
      * assert (H0 : f v <= f u) by lra. apply (proj1 (Hf _ _)) in H0. exact H0.
      * assert (H0 : f v <= f u) by (apply (proj2 (Hf _ _)); exact H). lra.
Qed.

Lemma sortd_perm_eq down (l1 l2 : list R) : Permutation l1 l2 -> sortd down l1 = sortd down l2.
Proof.
  intros P. destruct down; cbn [sortd].
  - f_equal. apply sort_perm_eq. apply Permutation_map. exact P.
  - apply sort_perm_eq. exact P.
Qed.

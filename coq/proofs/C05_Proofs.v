(* C05 — gridded pieces land in the cells the path crosses: the two-coordinate theorem and the
   structural facts (path order, matching lengths, altitude / time / state of the start point). *)
From Coq Require Import ZArith List Bool Reals Lra Lia Permutation Sorted.
From AV Require Import lib.Num model.C04_Model proofs.C04_Proofs proofs.C05_Sorting proofs.C05_Cells.
Import ListNotations.
Local Open Scope R_scope.

(* ---------- small list facts ---------- *)

Lemma map_fst_combine {A B} (l1 : list A) (l2 : list B) :
  length l1 = length l2 -> map fst (combine l1 l2) = l1.
Proof.
  revert l2. induction l1 as [|a l1 IH]; intros [|b l2] H; try discriminate; [reflexivity|].
  simpl. f_equal. apply IH. simpl in H. lia.
Qed.

Lemma map_snd_combine {A B} (l1 : list A) (l2 : list B) :
  length l1 = length l2 -> map snd (combine l1 l2) = l2.
Proof.
  revert l2. induction l1 as [|a l1 IH]; intros [|b l2] H; try discriminate; [reflexivity|].
  simpl. f_equal. apply IH. simpl in H. lia.
Qed.

Lemma pairs_map {A B} (f : A -> B) (l : list A) :
  pairs (map f l) = map (fun ab => (f (fst ab), f (snd ab))) (pairs l).
Proof.
  induction l as [|a l IH]; [reflexivity|]. destruct l as [|b l]; [reflexivity|].
  change (map f (a :: b :: l)) with (f a :: f b :: map f l).
  rewrite !pairs_cons2'. cbn [map fst snd]. f_equal. exact IH.
Qed.

Lemma Forall2_map {A B A' B'} (P : A' -> B' -> Prop) (f : A -> A') (h : B -> B') l1 l2 :
  Forall2 P (map f l1) (map h l2) -> Forall2 (fun a b => P (f a) (h b)) l1 l2.
Proof.
  revert l2. induction l1 as [|a l1 IH]; intros [|b l2] H; inversion H; subst; constructor; auto.
Qed.

Lemma Forall2_and {A B} (P Q : A -> B -> Prop) l1 l2 :
  Forall2 P l1 l2 -> Forall2 Q l1 l2 -> Forall2 (fun a b => P a b /\ Q a b) l1 l2.
Proof.
  intros H. induction H; intros HQ; inversion HQ; subst; constructor; auto.
Qed.

Lemma Forall2_weaken {A B} (P Q : A -> B -> Prop) l1 l2 :
  (forall a b, P a b -> Q a b) -> Forall2 P l1 l2 -> Forall2 Q l1 l2.
Proof. intros HI H. induction H; constructor; auto. Qed.

Lemma Forall2_in_l {A B} (P : A -> B -> Prop) l1 l2 a :
  Forall2 P l1 l2 -> In a l1 -> exists b, In b l2 /\ P a b.
Proof.
  intros H. induction H as [|x y l1 l2 Hxy _ IH]; intros Hin; [destruct Hin|].
  destruct Hin as [<-|Hin]; [exists y; split; [left; reflexivity|exact Hxy]|].
  destruct (IH Hin) as [b [Hb Pb]]. exists b. split; [right; exact Hb|exact Pb].
Qed.


Lemma Forall2_map_r_ex {A B C} (P : A -> B -> Prop) (f : B -> C) l1 l2 (L : list B) :
  Forall2 P l1 l2 -> (forall b, In b l2 -> In b L) ->
  Forall2 (fun a c => exists b, In b L /\ P a b /\ c = f b) l1 (map f l2).
Proof.
  intros H. induction H as [|a b l1 l2 Hab _ IH]; intros Hsub; [constructor|].
  cbn [map]. constructor.
  - exists b. split; [apply Hsub; left; reflexivity|]. split; [exact Hab|reflexivity].
  - apply IH. intros x Hx. apply Hsub. right. exact Hx.
Qed.

(* ---------- real arithmetic of the intersection coordinates ---------- *)

Lemma ratio_unit x a b : Rmin a b <= x <= Rmax a b -> a <> b -> 0 <= (x - a) / (b - a) <= 1.
Proof.
  intros [Hlo Hhi] Hne. destruct (Rle_dec a b) as [L|L].
  - rewrite Rmin_left in Hlo by exact L. rewrite Rmax_right in Hhi by exact L.
    assert (0 < b - a) by lra. split.
    + unfold Rdiv. apply Rmult_le_pos; [lra|left; apply Rinv_0_lt_compat; lra].
    + apply (Rmult_le_reg_r (b - a)); [lra|]. unfold Rdiv. rewrite Rmult_assoc, Rinv_l by lra. lra.
  - rewrite Rmin_right in Hlo by lra. rewrite Rmax_left in Hhi by lra.
    assert (0 < a - b) by lra.
    replace ((x - a) / (b - a)) with ((a - x) / (a - b)) by (field; lra). split.
    + unfold Rdiv. apply Rmult_le_pos; [lra|left; apply Rinv_0_lt_compat; lra].
    + apply (Rmult_le_reg_r (a - b)); [lra|]. unfold Rdiv. rewrite Rmult_assoc, Rinv_l by lra. lra.
Qed.

Lemma affine_between a b t : 0 <= t <= 1 -> Rmin a b <= a + t * (b - a) <= Rmax a b.
Proof.
  intros [H0 H1]. destruct (Rle_dec a b) as [L|L].
  - rewrite Rmin_left, Rmax_right by exact L. split; nra.
  - rewrite Rmin_right, Rmax_left by lra. split; nra.
Qed.

(* ---------- one segment, named parts ---------- *)
Section Seg.
  Variables (clamp : bool) (glat glon : list R) (lat0 lon0 lat1 lon1 : R).
  Hypothesis Hglat : incr glat.
  Hypothesis Hglon : incr glon.
  Hypothesis Hlat0 : okx clamp glat lat0.
  Hypothesis Hlat1 : okx clamp glat lat1.
  Hypothesis Hlon0 : okx clamp glon lon0.
  Hypothesis Hlon1 : okx clamp glon lon1.

  Definition dlat := lat1 - lat0.
  Definition dlon := lon1 - lon0.
  Definition slope := dlon / dlat.
  Definition icpt := lon0 - slope * lat0.
  Definition a0 := @cell_index RNum clamp glat lat0.
  Definition a1 := @cell_index RNum clamp glat lat1.
  Definition b0 := @cell_index RNum clamp glon lon0.
  Definition b1 := @cell_index RNum clamp glon lon1.
  Definition latlines : list R := map (@py_nth RNum glat) (crossed a0 (a1 - a0)).
  Definition lonlines : list R := map (@py_nth RNum glon) (crossed b0 (b1 - b0)).
  Definition lons_for_lat : list R := map (fun y => slope * y + icpt) latlines.
  Definition lats_for_lon : list R := map (fun x => if Reqb dlat 0 then lat0 else (x - icpt) / slope) lonlines.
  Definition ilats : list R := @sort_dir RNum (@nsign RNum dlat) (latlines ++ lats_for_lon).
  Definition ilons : list R := @sort_dir RNum (@nsign RNum dlon) (lonlines ++ lons_for_lat).
  Definition ipts : list (R * R) := combine ilats ilons.
  Definition kk := (Z.abs (a1 - a0) + Z.abs (b1 - b0))%Z.
  Definition midcells : list (Z * Z) :=
    map (fun m : R * R => (@cell_index RNum clamp glat (fst m), @cell_index RNum clamp glon (snd m)))
        (map (@midpoint RNum) (pairs ipts)).
  Definition cells : list (Z * Z) := (a0, b0) :: midcells ++ (if (kk =? 0)%Z then [] else [(a1, b1)]).
  Definition chain : list (R * R) := (lat0, lon0) :: ipts ++ [(lat1, lon1)].

  Lemma seg_geometry_unfold :
    @seg_geometry RNum clamp glat glon (lat0, lon0) (lat1, lon1) = (cells, chain).
  Proof. reflexivity. Qed.

  Lemma ilats_length : length ilats = (Z.to_nat (Z.abs (a1 - a0)) + Z.to_nat (Z.abs (b1 - b0)))%nat.
  Proof.
    unfold ilats. change (@length R) with (@length (T RNum)). rewrite sort_dir_length, app_length. unfold latlines, lats_for_lon, lonlines.
    rewrite !map_length, !crossed_length. reflexivity.
  Qed.

  Lemma ilons_length : length ilons = (Z.to_nat (Z.abs (b1 - b0)) + Z.to_nat (Z.abs (a1 - a0)))%nat.
  Proof.
    unfold ilons. change (@length R) with (@length (T RNum)). rewrite sort_dir_length, app_length. unfold lonlines, lons_for_lat, latlines.
    rewrite !map_length, !crossed_length. reflexivity.
  Qed.

  Lemma ilats_ilons_length : length ilats = length ilons.
  Proof. rewrite ilats_length, ilons_length. lia. Qed.

  (* chain well-formedness: first = start, last = end, one more point than cells *)
  Lemma chain_first_last :
    hd (0, 0) chain = (lat0, lon0) /\ last chain (0, 0) = (lat1, lon1) /\
    length chain = S (length cells).
  Proof.
    split; [reflexivity|]. split.
    - unfold chain. change ((lat0, lon0) :: ipts ++ [(lat1, lon1)]) with (((lat0, lon0) :: ipts) ++ [(lat1, lon1)]).
      apply last_last.
    - assert (Hip : length ipts = length ilats).
      { unfold ipts. rewrite combine_length, <- ilats_ilons_length, Nat.min_id. reflexivity. }
      unfold chain, cells, midcells. cbn [length]. rewrite !app_length, !map_length, pairs_length.
      pose proof ilats_length as HL.
      unfold point in *. change (T RNum) with R in *. rewrite !Hip, HL. unfold kk.
      destruct (Z.abs (a1 - a0) + Z.abs (b1 - b0) =? 0)%Z eqn:E.
      + apply Z.eqb_eq in E. cbn [length]. lia.
      + apply Z.eqb_neq in E. cbn [length]. lia.
  Qed.

  (* lines met are between the segment's end coordinates *)
  Lemma latlines_between y : In y latlines -> Rmin lat0 lat1 <= y < Rmax lat0 lat1.
  Proof. intros H. apply (lines_char_gen clamp glat lat0 lat1 y Hglat Hlat0 Hlat1) in H. tauto. Qed.

  Lemma lonlines_between x : In x lonlines -> Rmin lon0 lon1 <= x < Rmax lon0 lon1.
  Proof. intros H. apply (lines_char_gen clamp glon lon0 lon1 x Hglon Hlon0 Hlon1) in H. tauto. Qed.

  Lemma lats_for_lon_between y : In y lats_for_lon -> Rmin lat0 lat1 <= y <= Rmax lat0 lat1.
  Proof.
    intros H. unfold lats_for_lon in H. apply in_map_iff in H. destruct H as [x [<- Hx]].
    apply lonlines_between in Hx.
    destruct (Reqb dlat 0) eqn:E.
    - split; [apply Rmin_l|apply Rmax_l].
    - apply Reqb_false in E. unfold dlat in E.
      assert (Hne : lon0 <> lon1).
      { intros ->. rewrite Rmin_left, Rmax_right in Hx by lra. lra. }
      assert (Ht : 0 <= (x - lon0) / (lon1 - lon0) <= 1) by (apply ratio_unit; [lra|exact Hne]).
      replace ((x - icpt) / slope) with (lat0 + (x - lon0) / (lon1 - lon0) * (lat1 - lat0)).
      + apply affine_between. exact Ht.
      + unfold icpt, slope, dlon, dlat. field. split; lra.
  Qed.

  Lemma lons_for_lat_between x : In x lons_for_lat -> Rmin lon0 lon1 <= x <= Rmax lon0 lon1.
  Proof.
    intros H. unfold lons_for_lat in H. apply in_map_iff in H. destruct H as [y [<- Hy]].
    apply latlines_between in Hy.
    assert (Hne : lat0 <> lat1).
    { intros ->. rewrite Rmin_left, Rmax_right in Hy by lra. lra. }
    assert (Ht : 0 <= (y - lat0) / (lat1 - lat0) <= 1) by (apply ratio_unit; [lra|exact Hne]).
    replace (slope * y + icpt) with (lon0 + (y - lat0) / (lat1 - lat0) * (lon1 - lon0)).
    - apply affine_between. exact Ht.
    - unfold icpt, slope, dlon, dlat. field. lra.
  Qed.

  Lemma nsign_down (d : R) : @nsign RNum d = (-1)%Z <-> d < 0.
  Proof.
    unfold nsign. cbn [ltb RNum zero]. destruct (Rltb d 0) eqn:E.
    - apply Rltb_true in E. tauto.
    - apply Rltb_false in E. destruct (Rltb 0 d); split; intros; try discriminate; lra.
  Qed.

  (* generic: a direction-sorted permutation of values between x0 and x1 gives a monotone chain *)
  Lemma sorted_chain_mono (x0 x1 : R) (l : list R) :
    Forall (fun z => Rmin x0 x1 <= z <= Rmax x0 x1) l ->
    mono (x0 :: @sort_dir RNum (@nsign RNum (x1 - x0)) l ++ [x1]).
  Proof.
    intros F.
    assert (F' : Forall (fun z => Rmin x0 x1 <= z <= Rmax x0 x1) (@sort_dir RNum (@nsign RNum (x1 - x0)) l)).
    { eapply Permutation_Forall; [symmetry; apply sort_dir_perm|exact F]. }
    destruct (Rlt_dec (x1 - x0) 0) as [L|L].
    - assert (E : @nsign RNum (x1 - x0) = (-1)%Z) by (apply nsign_down; exact L).
      rewrite E in *. apply mono_chain_down; [apply sort_dir_sorted_down| |lra].
      rewrite Rmin_right, Rmax_left in F' by lra. exact F'.
    - assert (E : @nsign RNum (x1 - x0) <> (-1)%Z) by (intros C; apply nsign_down in C; lra).
      apply mono_chain_up; [apply sort_dir_sorted_up; exact E| |lra].
      rewrite Rmin_left, Rmax_right in F' by lra. exact F'.
  Qed.

  Lemma lat_chain_mono : mono (lat0 :: ilats ++ [lat1]).
  Proof.
    apply sorted_chain_mono. apply Forall_forall. intros z Hz. apply in_app_or in Hz.
    destruct Hz as [Hz|Hz]; [apply latlines_between in Hz; lra|apply lats_for_lon_between; exact Hz].
  Qed.

  Lemma lon_chain_mono : mono (lon0 :: ilons ++ [lon1]).
  Proof.
    apply sorted_chain_mono. apply Forall_forall. intros z Hz. apply in_app_or in Hz.
    destruct Hz as [Hz|Hz]; [apply lonlines_between in Hz; lra|apply lons_for_lat_between; exact Hz].
  Qed.

  Lemma lat_complete y : In y glat -> Rmin lat0 lat1 <= y < Rmax lat0 lat1 -> gn glat 0 < y -> In y ilats.
  Proof.
    intros Hy Hb Hl. unfold ilats. eapply Permutation_in; [symmetry; apply sort_dir_perm|].
    apply in_or_app. left. apply (lines_char_gen clamp glat lat0 lat1 y Hglat Hlat0 Hlat1). tauto.
  Qed.

  Lemma lon_complete x : In x glon -> Rmin lon0 lon1 <= x < Rmax lon0 lon1 -> gn glon 0 < x -> In x ilons.
  Proof.
    intros Hx Hb Hl. unfold ilons. eapply Permutation_in; [symmetry; apply sort_dir_perm|].
    apply in_or_app. left. apply (lines_char_gen clamp glon lon0 lon1 x Hglon Hlon0 Hlon1). tauto.
  Qed.

  (* the two one-coordinate results *)
  Lemma lat_containment :
    Forall2 (both_in glat) (cells1 clamp glat lat0 lat1 ilats) (pairs (lat0 :: ilats ++ [lat1])).
  Proof.
    apply one_coordinate_containment; auto using lat_chain_mono. exact lat_complete.
  Qed.

  Lemma lon_containment :
    Forall2 (both_in glon) (cells1 clamp glon lon0 lon1 ilons) (pairs (lon0 :: ilons ++ [lon1])).
  Proof.
    apply one_coordinate_containment; auto using lon_chain_mono. exact lon_complete.
  Qed.

  (* projections of the model's cells / chain onto the two coordinates *)
  Lemma chain_lat : map fst chain = lat0 :: ilats ++ [lat1].
  Proof.
    unfold chain, ipts. cbn [map fst]. rewrite map_app. cbn [map fst].
    rewrite map_fst_combine by exact ilats_ilons_length. reflexivity.
  Qed.

  Lemma chain_lon : map snd chain = lon0 :: ilons ++ [lon1].
  Proof.
    unfold chain, ipts. cbn [map snd]. rewrite map_app. cbn [map snd].
    rewrite map_snd_combine by exact ilats_ilons_length. reflexivity.
  Qed.

  Lemma kk_zero : (kk =? 0)%Z = (length ilats =? 0)%nat.
  Proof.
    rewrite ilats_length. unfold kk.
    destruct (Z.abs (a1 - a0) + Z.abs (b1 - b0) =? 0)%Z eqn:E; symmetry.
    - apply Z.eqb_eq in E. apply Nat.eqb_eq. lia.
    - apply Z.eqb_neq in E. apply Nat.eqb_neq. lia.
  Qed.

  Lemma midcells_lat :
    map fst midcells = map (fun p => @cell_index RNum clamp glat (mid1 p)) (pairs ilats).
  Proof.
    unfold midcells. rewrite !map_map.
    assert (E : pairs ilats = map (fun ab : (R * R) * (R * R) => (fst (fst ab), fst (snd ab))) (pairs ipts)).
    { rewrite <- (pairs_map fst). unfold ipts. rewrite map_fst_combine by exact ilats_ilons_length. reflexivity. }
    rewrite E, map_map. apply map_ext. intros [[la lo] [lb lob]]. cbn [fst snd midpoint].
    unfold mid1. cbn [fst snd add div RNum two one]. f_equal; try lra.
  Qed.

  Lemma midcells_lon :
    map snd midcells = map (fun p => @cell_index RNum clamp glon (mid1 p)) (pairs ilons).
  Proof.
    unfold midcells. rewrite !map_map.
    assert (E : pairs ilons = map (fun ab : (R * R) * (R * R) => (snd (fst ab), snd (snd ab))) (pairs ipts)).
    { rewrite <- (pairs_map snd). unfold ipts. rewrite map_snd_combine by exact ilats_ilons_length. reflexivity. }
    rewrite E, map_map. apply map_ext. intros [[la lo] [lb lob]]. cbn [fst snd midpoint].
    unfold mid1. cbn [fst snd add div RNum two one]. f_equal; try lra.
  Qed.

  Lemma cells_lat : map fst cells = cells1 clamp glat lat0 lat1 ilats.
  Proof.
    unfold cells, cells1. cbn [map fst]. rewrite map_app, midcells_lat, <- kk_zero. fold a0.
    destruct (kk =? 0)%Z; reflexivity.
  Qed.

  Lemma cells_lon : map snd cells = cells1 clamp glon lon0 lon1 ilons.
  Proof.
    unfold cells, cells1. cbn [map snd]. rewrite map_app, midcells_lon, <- ilats_ilons_length, <- kk_zero. fold b0.
    destruct (kk =? 0)%Z; reflexivity.
  Qed.

  (* a piece (end points a, b) lies in the closed cell c = (lat index, lon index) *)
  Definition piece_in_cell (c : Z * Z) (ab : (R * R) * (R * R)) : Prop :=
    in_cell glat (fst c) (fst (fst ab)) /\ in_cell glat (fst c) (fst (snd ab)) /\
    in_cell glon (snd c) (snd (fst ab)) /\ in_cell glon (snd c) (snd (snd ab)).

  Theorem pieces_in_cells : Forall2 piece_in_cell cells (pairs chain).
  Proof.
    pose proof lat_containment as HA. pose proof lon_containment as HB.
    rewrite <- cells_lat, <- chain_lat, pairs_map in HA.
    rewrite <- cells_lon, <- chain_lon, pairs_map in HB.
    apply Forall2_map in HA. apply Forall2_map in HB.
    pose proof (Forall2_and _ _ _ _ HA HB) as H.
    eapply Forall2_weaken; [|exact H]. intros c ab [[A1 A2] [B1 B2]]. unfold piece_in_cell. cbn [fst snd] in *. tauto.
  Qed.

  (* path order: along the chain both coordinates are monotone (never go back) *)
  Theorem chain_monotone : mono (map fst chain) /\ mono (map snd chain).
  Proof. rewrite chain_lat, chain_lon. split; [apply lat_chain_mono|apply lon_chain_mono]. Qed.
  (* ---------- the chain points are points of the segment's straight map line ---------- *)
  Definition on_line (p : R * R) : Prop := (snd p - lon0) * dlat = (fst p - lat0) * dlon.

  Lemma nsign_eqb_down (d : R) : (@nsign RNum d =? -1)%Z = Rltb d 0.
  Proof.
    unfold nsign. cbn [ltb RNum zero]. destruct (Rltb d 0); [reflexivity|].
    destruct (Rltb 0 d); reflexivity.
  Qed.

  Lemma ilats_sortd : ilats = sortd (Rltb dlat 0) (latlines ++ lats_for_lon).
  Proof. unfold ilats. rewrite sort_dir_sortd, nsign_eqb_down. reflexivity. Qed.

  Lemma ilons_sortd : ilons = sortd (Rltb dlon 0) (lonlines ++ lons_for_lat).
  Proof. unfold ilons. rewrite sort_dir_sortd, nsign_eqb_down. reflexivity. Qed.

  Lemma latlines_nil_if_flat : dlat = 0 -> latlines = [].
  Proof.
    intros E. destruct latlines as [|y r] eqn:El; [reflexivity|]. exfalso.
    assert (H : In y latlines) by (rewrite El; left; reflexivity).
    apply latlines_between in H. unfold dlat in E.
    rewrite Rmin_left, Rmax_right in H by lra. lra.
  Qed.

  Lemma lonlines_nil_if_flat : dlon = 0 -> lonlines = [].
  Proof.
    intros E. destruct lonlines as [|y r] eqn:El; [reflexivity|]. exfalso.
    assert (H : In y lonlines) by (rewrite El; left; reflexivity).
    apply lonlines_between in H. unfold dlon in E.
    rewrite Rmin_left, Rmax_right in H by lra. lra.
  Qed.

  Lemma ilats_flat la : dlat = 0 -> In la ilats -> la = lat0.
  Proof.
    intros E H. unfold ilats in H. eapply Permutation_in in H; [|apply sort_dir_perm].
    rewrite (latlines_nil_if_flat E) in H. cbn [app] in H. unfold lats_for_lon in H.
    apply in_map_iff in H. destruct H as [x [<- _]].
    rewrite (proj2 (Reqb_true dlat 0) E). reflexivity.
  Qed.

  Lemma ilons_flat lo : dlon = 0 -> In lo ilons -> lo = lon0.
  Proof.
    intros E H. unfold ilons in H. eapply Permutation_in in H; [|apply sort_dir_perm].
    rewrite (lonlines_nil_if_flat E) in H. cbn [app] in H. unfold lons_for_lat in H.
    apply in_map_iff in H. destruct H as [y [<- _]].
    unfold icpt, slope. rewrite E. unfold Rdiv. rewrite !Rmult_0_l. lra.
  Qed.

  Lemma slope_sign :
    dlat <> 0 -> dlon <> 0 ->
    (0 < slope /\ Rltb dlon 0 = Rltb dlat 0) \/ (slope < 0 /\ Rltb dlon 0 = negb (Rltb dlat 0)).
  Proof.
    intros Ha Ho. unfold slope.
    destruct (Rlt_dec dlat 0) as [La|La]; destruct (Rlt_dec dlon 0) as [Lo|Lo].
    - left. split.
      + replace (dlon / dlat) with ((- dlon) / (- dlat)) by (field; lra). apply Rdiv_lt_0_compat; lra.
      + rewrite (proj2 (Rltb_true dlon 0) Lo), (proj2 (Rltb_true dlat 0) La). reflexivity.
    - right. split.
      + replace (dlon / dlat) with (- (dlon / (- dlat))) by (field; lra).
        assert (0 < dlon / (- dlat)) by (apply Rdiv_lt_0_compat; lra). lra.
      + rewrite (proj2 (Rltb_true dlat 0) La). rewrite (proj2 (Rltb_false dlon 0)) by lra. reflexivity.
    - right. split.
      + replace (dlon / dlat) with (- ((- dlon) / dlat)) by (field; lra).
        assert (0 < (- dlon) / dlat) by (apply Rdiv_lt_0_compat; lra). lra.
      + rewrite (proj2 (Rltb_true dlon 0) Lo). rewrite (proj2 (Rltb_false dlat 0)) by lra. reflexivity.
    - left. split.
      + apply Rdiv_lt_0_compat; lra.
      + rewrite (proj2 (Rltb_false dlon 0)) by lra. rewrite (proj2 (Rltb_false dlat 0)) by lra. reflexivity.
  Qed.

  (* general position: the sorted longitudes are the line's image of the sorted latitudes *)
  Lemma ilons_image :
    dlat <> 0 -> dlon <> 0 -> ilons = map (fun y => slope * y + icpt) ilats.
  Proof.
    intros Ha Ho. set (f := fun y => slope * y + icpt).
    destruct (slope_sign Ha Ho) as [[Hs Hd]|[Hs Hd]].
    - assert (Hn : slope <> 0) by lra.
      assert (Em : Permutation (lonlines ++ lons_for_lat) (map f (latlines ++ lats_for_lon))).
      { rewrite map_app. rewrite Permutation_app_comm. apply Permutation_app; [reflexivity|].
        unfold lats_for_lon. rewrite map_map.
        rewrite (map_ext _ (fun x => x)); [rewrite map_id; reflexivity|].
        intros x. rewrite (proj2 (Reqb_false dlat 0) Ha). unfold f. field. exact Hn. }
      rewrite ilons_sortd, ilats_sortd, Hd.
      rewrite (sortd_perm_eq _ _ _ Em). apply sortd_map_incr.
      intros u v. unfold f. split; intros H; nra.
    - assert (Hn : slope <> 0) by lra.
      assert (Em : Permutation (lonlines ++ lons_for_lat) (map f (latlines ++ lats_for_lon))).
      { rewrite map_app. rewrite Permutation_app_comm. apply Permutation_app; [reflexivity|].
        unfold lats_for_lon. rewrite map_map.
        rewrite (map_ext _ (fun x => x)); [rewrite map_id; reflexivity|].
        intros x. rewrite (proj2 (Reqb_false dlat 0) Ha). unfold f. field. exact Hn. }
      rewrite ilons_sortd, ilats_sortd, Hd.
      rewrite (sortd_perm_eq _ _ _ Em). apply sortd_map_decr.
      intros u v. unfold f. split; intros H; nra.
  Qed.

  Lemma in_combine_map (f : R -> R) (l : list R) a b : In (a, b) (combine l (map f l)) -> b = f a.
  Proof.
    induction l as [|x l IH]; [intros []|]. cbn [map combine]. intros [E|H]; [injection E as <- <-; reflexivity|auto].
  Qed.

  Theorem chain_points_on_line : Forall on_line chain.
  Proof.
    unfold chain. constructor; [unfold on_line; cbn [fst snd]; lra|].
    rewrite Forall_app. split; [|constructor; [unfold on_line, dlat, dlon; cbn [fst snd]; lra|constructor]].
    apply Forall_forall. intros [la lo] Hp. unfold on_line. cbn [fst snd].
    destruct (Req_dec dlat 0) as [Ea|Ea].
    - assert (la = lat0) by (apply (ilats_flat la Ea); eapply in_combine_l; exact Hp). subst la. rewrite Ea. lra.
    - destruct (Req_dec dlon 0) as [Eo|Eo].
      + assert (lo = lon0) by (apply (ilons_flat lo Eo); eapply in_combine_r; exact Hp). subst lo. rewrite Eo. lra.
      + unfold ipts in Hp. rewrite (ilons_image Ea Eo) in Hp. apply in_combine_map in Hp. subst lo.
        unfold icpt, slope. field. exact Ea.
  Qed.
  Lemma in_pairs_members {A} (l : list A) (ab : A * A) : In ab (pairs l) -> In (fst ab) l /\ In (snd ab) l.
  Proof.
    destruct ab as [u w]. intros H. destruct (in_pairs_split l u w H) as [P [Q ->]]. cbn [fst snd]. split.
    - apply in_or_app. right. left. reflexivity.
    - apply in_or_app. right. right. left. reflexivity.
  Qed.

  (* every reported cell contains (in its closed rectangle) a point of the segment itself: a point of the
     straight map line lying between the segment's end points *)
  Theorem reported_cell_touches_segment c :
    In c cells ->
    exists p, on_line p /\
              Rmin lat0 lat1 <= fst p <= Rmax lat0 lat1 /\ Rmin lon0 lon1 <= snd p <= Rmax lon0 lon1 /\
              in_cell glat (fst c) (fst p) /\ in_cell glon (snd c) (snd p).
  Proof.
    intros Hc. destruct (Forall2_in_l _ _ _ _ pieces_in_cells Hc) as [ab [Hab [A1 [_ [B1 _]]]]].
    destruct (in_pairs_members chain ab Hab) as [Hp _]. exists (fst ab).
    pose proof chain_points_on_line as HL. rewrite Forall_forall in HL.
    split; [apply HL; exact Hp|]. split; [|split; [|split; assumption]].
    - apply (mono_between ilats lat0 lat1 (fst (fst ab)) lat_chain_mono). rewrite <- chain_lat.
      apply in_map. exact Hp.
    - apply (mono_between ilons lon0 lon1 (snd (fst ab)) lon_chain_mono). rewrite <- chain_lon.
      apply in_map. exact Hp.
  Qed.
  (* share = length share, tied to the cell: every value of a segment is v * (length of a piece) / (segment
     length) for a piece lying in the closed cell the value is attributed to *)
  Theorem values_in_cells (dist : R * R -> R * R -> R) fix3 (v : R) :
    dist (lat0, lon0) (lat1, lon1) <> 0 ->
    Forall2 (fun c val => exists ab, In ab (pairs chain) /\ piece_in_cell c ab /\
                                     val = v * dist (fst ab) (snd ab) / dist (lat0, lon0) (lat1, lon1))
            cells
            (@seg_values RNum fix3 v (dist (lat0, lon0) (lat1, lon1))
                         (map (fun ab => dist (fst ab) (snd ab)) (pairs chain))).
  Proof.
    intros HD. unfold seg_values. rewrite map_map.
    eapply Forall2_weaken; [|apply (Forall2_map_r_ex _ _ _ _ (pairs chain) pieces_in_cells); auto].
    intros c val [ab [Hin [Hc ->]]]. exists ab. split; [exact Hin|]. split; [exact Hc|].
    unfold piece_value. rewrite C04_Proofs.frac_nonzero by exact HD. cbn [mul RNum]. field. exact HD.
  Qed.
End Seg.

(* ---------- structural facts of a trajectory part ---------- *)

Lemma seg_lengths clamp glat glon (p0 p1 : R * R) :
  length (snd (@seg_geometry RNum clamp glat glon p0 p1))
  = S (length (fst (@seg_geometry RNum clamp glat glon p0 p1))).
Proof.
  destruct p0 as [la lo], p1 as [lb lob]. rewrite seg_geometry_unfold. cbn [fst snd].
  apply chain_first_last.
Qed.

Lemma concat_length {A} (l : list (list A)) : length (concat l) = list_sum (map (@length A) l).
Proof. induction l as [|a l IH]; [reflexivity|]. simpl. rewrite app_length, IH. reflexivity. Qed.

Lemma repeat_by_length {A} (xs : list A) (cs : list nat) :
  length xs = length cs -> length (repeat_by xs cs) = list_sum cs.
Proof.
  revert cs. induction xs as [|x xs IH]; intros [|c cs] H; try discriminate; [reflexivity|].
  simpl. rewrite app_length, repeat_length, IH; [reflexivity|simpl in H; lia].
Qed.

Lemma repeat_by_blocks {A} (xs : list A) (cs : list nat) :
  repeat_by xs cs = concat (map2 (fun x c => repeat x c) xs cs).
Proof.
  revert cs. induction xs as [|x xs IH]; intros [|c cs]; try reflexivity.
  simpl. rewrite IH. reflexivity.
Qed.

Lemma removelast_map {A B} (f : A -> B) (l : list A) : removelast (map f l) = map f (removelast l).
Proof.
  induction l as [|a l IH]; [reflexivity|]. destruct l as [|b l]; [reflexivity|].
  change (map f (a :: b :: l)) with (f a :: map f (b :: l)).
  change (removelast (f a :: map f (b :: l))) with (f a :: removelast (map f (b :: l))).
  rewrite IH. reflexivity.
Qed.

Lemma map2_map_l {A A' B C} (f : A' -> B -> C) (h : A -> A') xs ys :
  map2 f (map h xs) ys = map2 (fun x y => f (h x) y) xs ys.
Proof. revert ys. induction xs as [|x xs IH]; intros [|y ys]; try reflexivity. simpl. rewrite IH. reflexivity. Qed.

Lemma removelast_length {A} (l : list A) : length (removelast l) = pred (length l).
Proof.
  induction l as [|a l IH]; [reflexivity|]. destruct l as [|b l]; [reflexivity|].
  change (removelast (a :: b :: l)) with (a :: removelast (b :: l)). simpl length in *. rewrite IH. reflexivity.
Qed.

Lemma values_length_segs (dist : R * R -> R * R -> R) fix3 clamp (glat glon : list R)
      (segs : list ((R * R) * (R * R))) (var : list R) :
  length var = length segs ->
  length (@part_values RNum fix3 var
            (@attach_dists RNum dist (map (fun s => @seg_geometry RNum clamp glat glon (fst s) (snd s)) segs)))
  = list_sum (map (fun g : list (Z * Z) * list (R * R) => length (fst g))
                  (map (fun s => @seg_geometry RNum clamp glat glon (fst s) (snd s)) segs)).
Proof.
  revert var. induction segs as [|s segs IH]; intros [|v var] Hl; try discriminate; [reflexivity|].
  cbn [map]. unfold attach_dists. cbn [map]. fold (@attach_dists RNum dist).
  unfold part_values. cbn [map2 concat fst snd]. rewrite app_length.
  unfold seg_values at 1. rewrite !map_length, pairs_length, seg_lengths. cbn [pred list_sum fold_right].
  f_equal. assert (Hl' : length var = length segs) by (simpl in Hl; lia). exact (IH var Hl').
Qed.

Section Part.
  Variables (clamp : bool) (glat glon : list R) (pts : list (R * R)).
  Let geom := @part_geometry RNum clamp glat glon pts.
  Let cs := counts geom.

  Lemma counts_length : length cs = pred (length pts).
  Proof. unfold cs, counts, geom, part_geometry. rewrite !map_length. apply pairs_length. Qed.

  Lemma cells_total : length (all_cells geom) = list_sum cs.
  Proof. unfold all_cells, cs, counts. rewrite concat_length, map_map. reflexivity. Qed.

  (* altitude / time index: one block per segment, every piece carries the index of the START point *)
  Lemma axis_from_start (g vals : list R) :
    @axis_indices RNum clamp g vals cs
    = concat (map2 (fun v c => repeat (@cell_index RNum clamp g v) c) (removelast vals) cs).
  Proof. unfold axis_indices. rewrite removelast_map, repeat_by_blocks, map2_map_l. reflexivity. Qed.

  Lemma state_from_start (var : list R) :
    @state_values RNum var cs = concat (map2 (fun v c => repeat v c) (removelast var) cs).
  Proof. unfold state_values. apply repeat_by_blocks. Qed.

  Lemma axis_length (g vals : list R) :
    length vals = length pts -> length (@axis_indices RNum clamp g vals cs) = list_sum cs.
  Proof.
    intros H. unfold axis_indices. apply repeat_by_length.
    rewrite removelast_length, map_length, counts_length. f_equal. exact H.
  Qed.

  Lemma state_length (var : list R) :
    length var = length pts -> length (@state_values RNum var cs) = list_sum cs.
  Proof.
    intros H. unfold state_values. apply repeat_by_length.
    rewrite removelast_length, counts_length. f_equal. exact H.
  Qed.

  (* integrated values: as many as cells, whatever the lengths are measured with *)
  Lemma values_length (dist : R * R -> R * R -> R) fix3 (var : list R) :
    length var = pred (length pts) ->
    length (@part_values RNum fix3 var (@attach_dists RNum dist geom)) = list_sum cs.
  Proof.
    intros H. unfold cs, counts, geom, part_geometry. apply values_length_segs.
    rewrite pairs_length. exact H.
  Qed.

  (* all arrays of a part are equally long *)
  Theorem part_lengths_match (galt gtime alts times : list R) (states : list (list R)) :
    length alts = length pts -> length times = length pts ->
    Forall (fun v => length v = length pts) states ->
    let '(la, lo, al, ti, st, _) :=
      @part_run RNum clamp glat glon galt gtime pts (Some alts) (Some times) states in
    length lo = length la /\
    (forall a, al = Some a -> length a = length la) /\
    (forall t, ti = Some t -> length t = length la) /\
    Forall (fun s => length s = length la) st.
  Proof.
    intros Ha Ht Hs. unfold part_run. fold geom. fold cs. cbn [option_map].
    rewrite !map_length. repeat split.
    - intros a E. injection E as <-. rewrite cells_total. apply axis_length. exact Ha.
    - intros t E. injection E as <-. rewrite cells_total. apply axis_length. exact Ht.
    - apply Forall_forall. intros s Hin. apply in_map_iff in Hin. destruct Hin as [v [<- Hv]].
      rewrite Forall_forall in Hs. rewrite cells_total. apply state_length. apply Hs. exact Hv.
  Qed.
End Part.

(* every reported cell holds a piece of the chain (so a cell the path does not touch is never listed) *)
Theorem reported_cell_holds_a_piece clamp glat glon lat0 lon0 lat1 lon1 c :
  incr glat -> incr glon -> okx clamp glat lat0 -> okx clamp glat lat1 -> okx clamp glon lon0 -> okx clamp glon lon1 ->
  In c (cells clamp glat glon lat0 lon0 lat1 lon1) ->
  exists ab, In ab (pairs (chain clamp glat glon lat0 lon0 lat1 lon1)) /\ piece_in_cell glat glon c ab.
Proof.
  intros. eapply Forall2_in_l; [apply pieces_in_cells; assumption|assumption].
Qed.

(* ---------- F20: a point exactly on the lowest grid line ---------- *)

Ltac rdec :=
  repeat match goal with
  | |- context [Rltb ?a ?b] =>
      first [ rewrite (proj2 (Rltb_true a b)) by lra | rewrite (proj2 (Rltb_false a b)) by lra ]
  end.

Lemma lowest_line_index_as_coded : @cell_index RNum false [0; 1; 2] 0 = (-1)%Z.
Proof. unfold cell_index, ss_left. cbn [ltb RNum]. rdec. reflexivity. Qed.

Lemma lowest_line_wraps_as_coded : @py_nth RNum [0; 1; 2] (@cell_index RNum false [0; 1; 2] 0) = 2.
Proof. rewrite lowest_line_index_as_coded. reflexivity. Qed.

Lemma lowest_line_index_fixed : @cell_index RNum true [0; 1; 2] 0 = 0%Z.
Proof. unfold cell_index, ss_left. cbn [ltb RNum]. rdec. reflexivity. Qed.

(* as coded, a start altitude (or latitude, longitude, time) equal to the lowest grid line is reported in the
   cell starting at the LAST grid line, which does not contain it *)
Lemma lowest_line_refuted :
  exists (g : list R) (x : R),
    incr g /\ gn g 0 <= x <= gn g (glen g - 1) /\
    ~ (exists c, (0 <= c)%Z /\ (c + 1 < glen g)%Z /\
                 @py_nth RNum g (@cell_index RNum false g x) = gn g c /\ gn g c <= x <= gn g (c + 1)).
Proof.
  exists [0; 1; 2], 0. split; [|split].
  - repeat constructor; lra.
  - unfold gn, glen. simpl. lra.
  - rewrite lowest_line_wraps_as_coded. intros [c [H0 [H1 [E _]]]].
    unfold glen in H1. simpl in H1.
    assert (Hc : c = 0%Z \/ c = 1%Z) by lia. destruct Hc as [-> | ->]; unfold gn in E; simpl in E; lra.
Qed.

(* repaired (index clamped at 0): the point on the lowest line is reported in the first cell *)
Lemma lowest_line_fixed :
  @py_nth RNum [0; 1; 2] (@cell_index RNum true [0; 1; 2] 0) = 0.
Proof. rewrite lowest_line_index_fixed. reflexivity. Qed.

(* with the clamp, the cell index of any point of the closed grid range is a valid cell containing it *)
Lemma clamped_cell_spec g x :
  incr g -> (2 <= glen g)%Z -> gn g 0 <= x <= gn g (glen g - 1) ->
  in_cell g (@cell_index RNum true g x) x.
Proof.
  intros Hg Hl [H0 H1]. destruct (Rle_lt_or_eq_dec _ _ H0) as [Hlt|Heq].
  - destruct (cell_spec true g x Hg (conj Hlt H1)) as [_ [c0 [c1 cm]]]. unfold in_cell. repeat split; try lia; lra.
  - (* on the lowest line *)
    assert (E : ss g x = 0%Z).
    { pose proof (ss_range g x). destruct (Z.eq_dec (ss g x) 0) as [e|n]; [exact e|].
      assert (gn g 0 < x) by (apply ss_below; lia). lra. }
    unfold cell_index. rewrite E. cbn [Z.sub Z.max Z.opp Z.add Z.pos_sub Z.compare]. unfold in_cell.
    repeat split; try lia; [lra|].
    rewrite <- Heq. apply incr_nth_le; [exact Hg|lia|lia].
Qed.

(* ---------- FC05a: where the split segment meets the antimeridian ---------- *)

(* repaired: the inserted point is on the straight map line from p0 to the unwrapped p1 *)
Lemma crossing_lat_on_line sg (lat0 lon0 lat1 lon1 : R) :
  let lon_cross := if (sg =? -1)%Z then @pi RNum else - @pi RNum in
  let lon_end := if (sg =? -1)%Z then lon1 + 2 * @pi RNum else lon1 - 2 * @pi RNum in
  lon_end <> lon0 ->
  (@crossing_lat RNum true false sg (lat0, lon0) (lat1, lon1) - lat0) * (lon_end - lon0)
  = (lon_cross - lon0) * (lat1 - lat0).
Proof.
  intros lon_cross lon_end Hne. unfold crossing_lat. subst lon_cross lon_end.
  cbn [add sub mul div opp eqb RNum two one].
  destruct (sg =? -1)%Z; replace (1 + 1) with 2 in * by lra.
  - rewrite (proj2 (Reqb_false _ _) Hne). field. lra.
  - rewrite (proj2 (Reqb_false _ _) Hne). field. lra.
Qed.

(* as coded: the start latitude is used, which is off the line whenever the latitude changes *)
Lemma crossing_lat_as_coded_refuted :
  exists sg lat0 lon0 lat1 lon1,
    let lon_cross := if (sg =? -1)%Z then @pi RNum else - @pi RNum in
    let lon_end := if (sg =? -1)%Z then lon1 + 2 * @pi RNum else lon1 - 2 * @pi RNum in
    lon_end <> lon0 /\
    (@crossing_lat RNum false false sg (lat0, lon0) (lat1, lon1) - lat0) * (lon_end - lon0)
    <> (lon_cross - lon0) * (lat1 - lat0).
Proof.
  exists (-1)%Z, 0, 3, 1, (-3). cbn [Z.eqb Pos.eqb crossing_lat]. unfold pi. cbn [lit RNum]. split; lra.
Qed.

(* ====================================================================================================
   Lifting to trajectory parts and to the one-crossing case of [geometry]
   ==================================================================================================== *)

Definition pt_ok (clamp : bool) (glat glon : list R) (p : R * R) : Prop :=
  okx clamp glat (fst p) /\ okx clamp glon (snd p).

(* what is proved about the geometry of one segment *)
Definition geom_ok (glat glon : list R) (g : list (Z * Z) * list (R * R)) : Prop :=
  Forall2 (piece_in_cell glat glon) (fst g) (pairs (snd g)) /\
  mono (map fst (snd g)) /\ mono (map snd (snd g)) /\
  length (snd g) = S (length (fst g)).

Lemma seg_geom_ok clamp glat glon (p0 p1 : R * R) :
  incr glat -> incr glon -> pt_ok clamp glat glon p0 -> pt_ok clamp glat glon p1 ->
  geom_ok glat glon (@seg_geometry RNum clamp glat glon p0 p1).
Proof.
  intros Hg1 Hg2 [A0 B0] [A1 B1]. destruct p0 as [la lo], p1 as [lb lob]. cbn [fst snd] in *.
  rewrite seg_geometry_unfold. unfold geom_ok. cbn [fst snd].
  split; [apply pieces_in_cells; assumption|].
  destruct (chain_monotone clamp glat glon la lo lb lob Hg1 Hg2 A0 A1 B0 B1) as [M1 M2].
  split; [exact M1|]. split; [exact M2|]. apply chain_first_last.
Qed.

Lemma in_pairs_both {A} (l : list A) (ab : A * A) : In ab (pairs l) -> In (fst ab) l /\ In (snd ab) l.
Proof.
  destruct ab as [u w]. intros H. destruct (in_pairs_split l u w H) as [P [Q ->]]. cbn [fst snd]. split.
  - apply in_or_app. right. left. reflexivity.
  - apply in_or_app. right. right. left. reflexivity.
Qed.

(* every segment of a part whose points are admissible: containment, path order, chain shape *)
Theorem part_contained clamp glat glon (pts : list (R * R)) :
  incr glat -> incr glon -> Forall (pt_ok clamp glat glon) pts ->
  Forall (geom_ok glat glon) (@part_geometry RNum clamp glat glon pts).
Proof.
  intros Hg1 Hg2 Hp. unfold part_geometry. apply Forall_forall. intros g Hin.
  apply in_map_iff in Hin. destruct Hin as [s [<- Hs]].
  destruct (in_pairs_both pts s Hs) as [I0 I1]. rewrite Forall_forall in Hp.
  apply seg_geom_ok; auto.
Qed.

Lemma Forall_firstn {A} (P : A -> Prop) n (l : list A) : Forall P l -> Forall P (firstn n l).
Proof. revert n. induction l as [|a l IH]; intros [|n] H; try constructor; inversion H; subst; auto. Qed.

Lemma Forall_skipn {A} (P : A -> Prop) n (l : list A) : Forall P l -> Forall P (skipn n l).
Proof. revert n. induction l as [|a l IH]; intros [|n] H; auto; inversion H; subst; cbn [skipn]; auto. Qed.

(* the two parts of a trajectory that crosses the antimeridian once *)
Theorem crossing_parts clamp fixdl fixe glat glon galt gtime (pts : list (R * R)) alts times states :
  count_nonzero (@crossings RNum (map snd pts)) = 1%nat ->
  let cr := @crossings RNum (map snd pts) in
  let i := first_nonzero cr O in
  let sg := nth i cr 0%Z in
  let latx := @crossing_lat RNum fixdl fixe sg (nth i pts (0, 0)) (nth (S i) pts (0, 0)) in
  @geometry RNum clamp fixdl fixe glat glon galt gtime pts alts times states
  = (1%Z, i,
     [ @part_run RNum clamp glat glon galt gtime (first_part pts i (latx, @exit_lon RNum sg))
         (option_map (fun a => first_part a i (nth i a 0)) alts)
         (option_map (fun t => first_part t i (nth i t 0)) times)
         (map (fun v => first_part v i (nth i v 0)) states);
       @part_run RNum clamp glat glon galt gtime (second_part pts i (latx, @entry_lon RNum sg))
         (option_map (fun a => second_part a i (nth i a 0)) alts)
         (option_map (fun t => second_part t i (nth i t 0)) times)
         (map (fun v => second_part v i (nth i v 0)) states) ]).
Proof.
  intros H. unfold geometry.
  match goal with |- context [count_nonzero ?t] => replace (count_nonzero t) with 1%nat by (symmetry; exact H) end.
  reflexivity.
Qed.

Lemma part_run_geom clamp glat glon galt gtime pts alts times states :
  snd (@part_run RNum clamp glat glon galt gtime pts alts times states) = @part_geometry RNum clamp glat glon pts.
Proof. reflexivity. Qed.

(* containment, path order and chain shape for BOTH parts of the one-crossing case: the inserted points
   (crossing latitude, +-pi) only have to be admissible — with the clamp, -pi may be the lowest longitude line *)
Theorem crossing_contained clamp fixdl fixe glat glon galt gtime (pts : list (R * R)) alts times states :
  incr glat -> incr glon ->
  count_nonzero (@crossings RNum (map snd pts)) = 1%nat ->
  let cr := @crossings RNum (map snd pts) in
  let i := first_nonzero cr O in
  let sg := nth i cr 0%Z in
  let latx := @crossing_lat RNum fixdl fixe sg (nth i pts (0, 0)) (nth (S i) pts (0, 0)) in
  Forall (pt_ok clamp glat glon) pts ->
  okx clamp glat latx -> okx clamp glon (@exit_lon RNum sg) -> okx clamp glon (@entry_lon RNum sg) ->
  exists r1 r2,
    @geometry RNum clamp fixdl fixe glat glon galt gtime pts alts times states = (1%Z, i, [r1; r2]) /\
    Forall (geom_ok glat glon) (snd r1) /\ Forall (geom_ok glat glon) (snd r2).
Proof.
  intros Hg1 Hg2 H cr i sg latx Hp Hx He Hn.
  eexists. eexists. split; [apply crossing_parts; exact H|].
  rewrite !part_run_geom. split; apply part_contained; try assumption.
  - unfold first_part. rewrite Forall_app. split; [apply Forall_firstn; exact Hp|].
    constructor; [split; assumption|constructor].
  - unfold second_part. constructor; [split; assumption|apply Forall_skipn; exact Hp].
Qed.

(* the repaired crossing latitude lies between the latitudes of the crossing segment, so it is admissible
   whenever both end points are *)
Lemma crossing_lat_between sg (lat0 lon0 lat1 lon1 : R) :
  - @pi RNum <= lon0 <= @pi RNum -> - @pi RNum <= lon1 <= @pi RNum ->
  (sg = (-1)%Z -> lon1 - lon0 < - @pi RNum) -> (sg <> (-1)%Z -> @pi RNum < lon1 - lon0) ->
  Rmin lat0 lat1 <= @crossing_lat RNum true false sg (lat0, lon0) (lat1, lon1) <= Rmax lat0 lat1.
Proof.
  intros H0 H1 Hd Hu. unfold crossing_lat. cbn [add sub mul div opp eqb RNum two one].
  assert (Pp : 0 < @pi RNum) by (unfold pi; cbn [lit RNum]; lra).
  destruct (sg =? -1)%Z eqn:E.
  - apply Z.eqb_eq in E. specialize (Hd E).
    destruct (Reqb (lon1 + (1 + 1) * @pi RNum) lon0) eqn:Q; [split; [apply Rmin_l|apply Rmax_l]|].
    apply Reqb_false in Q. apply affine_between.
    assert (0 < lon1 + (1 + 1) * @pi RNum - lon0) by lra. split.
    + unfold Rdiv. apply Rmult_le_pos; [lra|left; apply Rinv_0_lt_compat; lra].
    + apply (Rmult_le_reg_r (lon1 + (1 + 1) * @pi RNum - lon0)); [lra|].
      unfold Rdiv. rewrite Rmult_assoc, Rinv_l by lra. lra.
  - apply Z.eqb_neq in E. specialize (Hu E).
    destruct (Reqb (lon1 - (1 + 1) * @pi RNum) lon0) eqn:Q; [split; [apply Rmin_l|apply Rmax_l]|].
    apply Reqb_false in Q. apply affine_between.
    assert (0 < lon0 - (lon1 - (1 + 1) * @pi RNum)) by lra.
    replace ((- @pi RNum - lon0) / (lon1 - (1 + 1) * @pi RNum - lon0))
      with ((lon0 + @pi RNum) / (lon0 - (lon1 - (1 + 1) * @pi RNum))) by (field; lra). split.
    + unfold Rdiv. apply Rmult_le_pos; [lra|left; apply Rinv_0_lt_compat; lra].
    + apply (Rmult_le_reg_r (lon0 - (lon1 - (1 + 1) * @pi RNum))); [lra|].
      unfold Rdiv. rewrite Rmult_assoc, Rinv_l by lra. lra.
Qed.

(* matching lengths in the crossing case: each part is gridded from equally long point / altitude / time /
   state lists, so part_lengths_match applies to both *)
Lemma first_part_length {A B} (l1 : list A) (l2 : list B) i x y :
  length l1 = length l2 -> length (first_part l1 i x) = length (first_part l2 i y).
Proof. intros H. unfold first_part. rewrite !app_length, !firstn_length, H. reflexivity. Qed.

Lemma second_part_length {A B} (l1 : list A) (l2 : list B) i x y :
  length l1 = length l2 -> length (second_part l1 i x) = length (second_part l2 i y).
Proof. intros H. unfold second_part. cbn [length]. rewrite !skipn_length, H. reflexivity. Qed.

Definition lengths_ok (r : @part_result RNum) : Prop :=
  let '(la, lo, al, ti, st, _) := r in
  length lo = length la /\
  (forall a, al = Some a -> length a = length la) /\
  (forall t, ti = Some t -> length t = length la) /\
  Forall (fun s => length s = length la) st.

Theorem crossing_lengths_match clamp fixdl fixe glat glon galt gtime (pts : list (R * R)) (alts times : list R)
        (states : list (list R)) :
  count_nonzero (@crossings RNum (map snd pts)) = 1%nat ->
  length alts = length pts -> length times = length pts ->
  Forall (fun v => length v = length pts) states ->
  exists i r1 r2,
    @geometry RNum clamp fixdl fixe glat glon galt gtime pts (Some alts) (Some times) states = (1%Z, i, [r1; r2]) /\
    lengths_ok r1 /\ lengths_ok r2.
Proof.
  intros H Ha Ht Hs. eexists. eexists. eexists. split; [apply crossing_parts; exact H|].
  cbn [option_map]. split.
  - apply (part_lengths_match clamp glat glon _ galt gtime).
    + apply first_part_length. exact Ha.
    + apply first_part_length. exact Ht.
    + apply Forall_forall. intros v Hv. apply in_map_iff in Hv. destruct Hv as [w [<- Hw]].
      rewrite Forall_forall in Hs. apply first_part_length. apply Hs. exact Hw.
  - apply (part_lengths_match clamp glat glon _ galt gtime).
    + apply second_part_length. exact Ha.
    + apply second_part_length. exact Ht.
    + apply Forall_forall. intros v Hv. apply in_map_iff in Hv. destruct Hv as [w [<- Hw]].
      rewrite Forall_forall in Hs. apply second_part_length. apply Hs. exact Hw.
Qed.

(* ---------- indexed form of the start-point attribution ---------- *)

(* position [list_sum (firstn j cs) + r] (r < count j) of np.repeat(xs, cs) carries xs[j] *)
Lemma nth_repeat_by {A} (xs : list A) (cs : list nat) (d : A) j r :
  (j < length xs)%nat -> (j < length cs)%nat -> (r < nth j cs 0)%nat ->
  nth (list_sum (firstn j cs) + r) (repeat_by xs cs) d = nth j xs d.
Proof.
  revert cs j. induction xs as [|x xs IH]; intros [|c cs] j Hx Hc Hr; try (simpl in *; lia).
  destruct j as [|j].
  - cbn [firstn list_sum fold_right Nat.add nth] in *. cbn [repeat_by].
    rewrite app_nth1 by (rewrite repeat_length; exact Hr).
    rewrite (nth_indep _ d x) by (rewrite repeat_length; exact Hr). apply nth_repeat.
  - cbn [firstn nth] in *. cbn [repeat_by].
    replace (list_sum (c :: firstn j cs) + r)%nat with (c + (list_sum (firstn j cs) + r))%nat by (simpl; lia).
    rewrite app_nth2 by (rewrite repeat_length; lia). rewrite repeat_length.
    replace (c + (list_sum (firstn j cs) + r) - c)%nat with (list_sum (firstn j cs) + r)%nat by lia.
    apply IH; simpl in *; lia.
Qed.

Lemma nth_removelast {A} (l : list A) (d : A) j : (S j < length l)%nat -> nth j (removelast l) d = nth j l d.
Proof.
  revert j. induction l as [|a l IH]; intros j H; [simpl in H; lia|].
  destruct l as [|b l]; [simpl in H; lia|].
  change (removelast (a :: b :: l)) with (a :: removelast (b :: l)).
  destruct j; [reflexivity|]. cbn [nth]. apply IH. simpl in *. lia.
Qed.

(* output position k = (pieces of segments 0..j-1) + r, r < pieces of segment j, carries the cell index of the
   altitude / time of point j — the START point of segment j — and that cell contains it *)
Theorem axis_index_at clamp (glat glon : list R) (pts : list (R * R)) (g vals : list R) j r :
  let cs := counts (@part_geometry RNum clamp glat glon pts) in
  length vals = length pts -> (j < length cs)%nat -> (r < nth j cs 0)%nat ->
  nth (list_sum (firstn j cs) + r) (@axis_indices RNum clamp g vals cs) 0%Z
  = @cell_index RNum clamp g (nth j vals 0).
Proof.
  intros cs Hl Hj Hr. unfold axis_indices.
  assert (Hc : length cs = pred (length pts)) by apply counts_length.
  assert (Hj' : (S j < length vals)%nat) by (rewrite Hl; lia).
  rewrite nth_repeat_by; [|rewrite removelast_length, map_length; exact (proj1 (Nat.lt_succ_lt_pred _ _) Hj')|exact Hj|exact Hr].
  rewrite nth_removelast by (rewrite map_length; exact Hj').
  rewrite (nth_indep _ _ (@cell_index RNum clamp g 0)) by (rewrite map_length; apply Nat.lt_succ_l; exact Hj').
  apply map_nth.
Qed.

Theorem state_value_at clamp (glat glon : list R) (pts : list (R * R)) (var : list R) j r :
  let cs := counts (@part_geometry RNum clamp glat glon pts) in
  length var = length pts -> (j < length cs)%nat -> (r < nth j cs 0)%nat ->
  nth (list_sum (firstn j cs) + r) (@state_values RNum var cs) 0 = nth j var 0.
Proof.
  intros cs Hl Hj Hr. unfold state_values.
  assert (Hc : length cs = pred (length pts)) by apply counts_length.
  assert (Hj' : (S j < length var)%nat) by (rewrite Hl; lia).
  rewrite nth_repeat_by; [|rewrite removelast_length; exact (proj1 (Nat.lt_succ_lt_pred _ _) Hj')|exact Hj|exact Hr].
  apply nth_removelast. exact Hj'.
Qed.

(* ---------- FC04e: the clamped crossing latitude ---------- *)

Lemma nmin_R (a b : R) : @nmin RNum a b = Rmin a b.
Proof.
  unfold nmin. cbn [ltb RNum]. unfold Rmin. destruct (Rltb b a) eqn:E; [apply Rltb_true in E|apply Rltb_false in E];
    destruct (Rle_dec a b); lra.
Qed.

Lemma nmax_R (a b : R) : @nmax RNum a b = Rmax a b.
Proof.
  unfold nmax. cbn [ltb RNum]. unfold Rmax. destruct (Rltb a b) eqn:E; [apply Rltb_true in E|apply Rltb_false in E];
    destruct (Rle_dec a b); lra.
Qed.

Lemma clamp_between_R (lo hi v : R) : @clamp_between RNum lo hi v = Rmin (Rmax v (Rmin lo hi)) (Rmax lo hi).
Proof. unfold clamp_between. rewrite !nmin_R, !nmax_R. reflexivity. Qed.

Lemma clamp_between_spec (lo hi v : R) : Rmin lo hi <= @clamp_between RNum lo hi v <= Rmax lo hi.
Proof.
  rewrite clamp_between_R. unfold Rmin, Rmax. repeat destruct (Rle_dec _ _); lra.
Qed.

Lemma clamp_between_id (lo hi v : R) : Rmin lo hi <= v <= Rmax lo hi -> @clamp_between RNum lo hi v = v.
Proof.
  rewrite clamp_between_R. unfold Rmin, Rmax. repeat destruct (Rle_dec _ _); lra.
Qed.

(* repaired: between the two end latitudes BY CONSTRUCTION, for any input whatsoever *)
Lemma crossing_lat_clamped_between fixdl sg (lat0 lon0 lat1 lon1 : R) :
  Rmin lat0 lat1 <= @crossing_lat RNum fixdl true sg (lat0, lon0) (lat1, lon1) <= Rmax lat0 lat1.
Proof.
  unfold crossing_lat. destruct fixdl; [|split; [apply Rmin_l|apply Rmax_l]].
  match goal with |- context [@eqb RNum ?a ?b] => destruct (@eqb RNum a b) end;
    [split; [apply Rmin_l|apply Rmax_l]|apply clamp_between_spec].
Qed.

(* for a real crossing the clamp changes nothing over the reals: the point stays on the segment's line *)
Lemma crossing_lat_clamp_id sg (lat0 lon0 lat1 lon1 : R) :
  - @pi RNum <= lon0 <= @pi RNum -> - @pi RNum <= lon1 <= @pi RNum ->
  (sg = (-1)%Z -> lon1 - lon0 < - @pi RNum) -> (sg <> (-1)%Z -> @pi RNum < lon1 - lon0) ->
  @crossing_lat RNum true true sg (lat0, lon0) (lat1, lon1) = @crossing_lat RNum true false sg (lat0, lon0) (lat1, lon1).
Proof.
  intros H0 H1 Hd Hu. pose proof (crossing_lat_between sg lat0 lon0 lat1 lon1 H0 H1 Hd Hu) as B.
  unfold crossing_lat in *.
  match goal with |- context [@eqb RNum ?a ?b] => destruct (@eqb RNum a b) end; [reflexivity|].
  apply clamp_between_id. exact B.
Qed.

(* without the clamp betweenness is NOT a property of the formula itself (it rests on the crossing hypotheses and on
   exact arithmetic; in binary64 it fails by one ulp at a pole: proofs/C05_Witness64.v) *)
Lemma crossing_lat_before_fix_refuted :
  exists sg lat0 lon0 lat1 lon1,
    ~ (Rmin lat0 lat1 <= @crossing_lat RNum true false sg (lat0, lon0) (lat1, lon1) <= Rmax lat0 lat1).
Proof.
  exists (-1)%Z, 0, 0, 1, (-5). unfold crossing_lat. cbn [Z.eqb Pos.eqb add sub mul div opp eqb RNum two one].
  assert (P : @pi RNum = 3141592653589793 / 1000000000000000) by (unfold pi; reflexivity).
  destruct (Reqb (-5 + (1 + 1) * @pi RNum) 0) eqn:E.
  - apply Reqb_true in E. rewrite P in E. lra.
  - rewrite Rmin_left, Rmax_right by lra. rewrite P. intros [_ B].
    assert (Hq : 1 < (3141592653589793 / 1000000000000000 - 0) /
                     (-5 + (1 + 1) * (3141592653589793 / 1000000000000000) - 0)).
    { apply (Rmult_lt_reg_r (-5 + (1 + 1) * (3141592653589793 / 1000000000000000) - 0)); [lra|].
      unfold Rdiv at 2. rewrite Rmult_assoc, Rinv_l by lra. lra. }
    nra.
Qed.

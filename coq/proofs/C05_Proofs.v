(* C05 — gridded pieces land in the cells the path crosses: the two-coordinate theorem and the
   structural facts (path order, matching lengths, altitude / time / state of the start point). *)
From Coq Require Import ZArith List Bool Reals Lra Lia Permutation Sorted.
From AV Require Import lib.Num model.C04_Model proofs.C05_Sorting proofs.C05_Cells.
Import ListNotations.
Local Open Scope R_scope.

(* ---------- small list facts ---------- *)

Lemma map_fst_combine {A B} (l1 : list A) (l2 : list B) :
  length l1 = length l2 -> map fst (combine l1 l2) = l1.
Proof.
  revert l2. induction l1 as [|a l1 IH]; intros [|b l2] H; try discriminate; [reflexivity|].
  simpl. f_equal. apply IH. simpl in H. lia.
Qed.

Lemma map_snd_combine {A B} (l1 : list A) (l2 : list B) :
  length l1 = length l2 -> map snd (combine l1 l2) = l2.
Proof.
  revert l2. induction l1 as [|a l1 IH]; intros [|b l2] H; try discriminate; [reflexivity|].
  simpl. f_equal. apply IH. simpl in H. lia.
Qed.

Lemma pairs_map {A B} (f : A -> B) (l : list A) :
  pairs (map f l) = map (fun ab => (f (fst ab), f (snd ab))) (pairs l).
Proof.
  induction l as [|a l IH]; [reflexivity|]. destruct l as [|b l]; [reflexivity|].
  change (map f (a :: b :: l)) with (f a :: f b :: map f l).
  rewrite !pairs_cons2'. cbn [map fst snd]. f_equal. exact IH.
Qed.

Lemma Forall2_map {A B A' B'} (P : A' -> B' -> Prop) (f : A -> A') (h : B -> B') l1 l2 :
  Forall2 P (map f l1) (map h l2) -> Forall2 (fun a b => P (f a) (h b)) l1 l2.
Proof.
  revert l2. induction l1 as [|a l1 IH]; intros [|b l2] H; inversion H; subst; constructor; auto.
Qed.

Lemma Forall2_and {A B} (P Q : A -> B -> Prop) l1 l2 :
  Forall2 P l1 l2 -> Forall2 Q l1 l2 -> Forall2 (fun a b => P a b /\ Q a b) l1 l2.
Proof.
  intros H. induction H; intros HQ; inversion HQ; subst; constructor; auto.
Qed.

Lemma Forall2_weaken {A B} (P Q : A -> B -> Prop) l1 l2 :
  (forall a b, P a b -> Q a b) -> Forall2 P l1 l2 -> Forall2 Q l1 l2.
Proof. intros HI H. induction H; constructor; auto. Qed.

(* ---------- real arithmetic of the intersection coordinates ---------- *)

Lemma ratio_unit x a b : Rmin a b <= x <= Rmax a b -> a <> b -> 0 <= (x - a) / (b - a) <= 1.
Proof.
  intros [Hlo Hhi] Hne. destruct (Rle_dec a b) as [L|L].
  - rewrite Rmin_left in Hlo by exact L. rewrite Rmax_right in Hhi by exact L.
    assert (0 < b - a) by lra. split.
    + unfold Rdiv. apply Rmult_le_pos; [lra|left; apply Rinv_0_lt_compat; lra].
    + apply (Rmult_le_reg_r (b - a)); [lra|]. unfold Rdiv. rewrite Rmult_assoc, Rinv_l by lra. lra.
  - rewrite Rmin_right in Hlo by lra. rewrite Rmax_left in Hhi by lra.
    assert (0 < a - b) by lra.
    replace ((x - a) / (b - a)) with ((a - x) / (a - b)) by (field; lra). split.
    + unfold Rdiv. apply Rmult_le_pos; [lra|left; apply Rinv_0_lt_compat; lra].
    + apply (Rmult_le_reg_r (a - b)); [lra|]. unfold Rdiv. rewrite Rmult_assoc, Rinv_l by lra. lra.
Qed.

Lemma affine_between a b t : 0 <= t <= 1 -> Rmin a b <= a + t * (b - a) <= Rmax a b.
Proof.
  intros [H0 H1]. destruct (Rle_dec a b) as [L|L].
  - rewrite Rmin_left, Rmax_right by exact L. split; nra.
  - rewrite Rmin_right, Rmax_left by lra. split; nra.
Qed.

(* ---------- one segment, named parts ---------- *)
Section Seg.
  Variables (clamp : bool) (glat glon : list R) (lat0 lon0 lat1 lon1 : R).
  Hypothesis Hglat : incr glat.
  Hypothesis Hglon : incr glon.
  Hypothesis Hlat0 : inside glat lat0.
  Hypothesis Hlat1 : inside glat lat1.
  Hypothesis Hlon0 : inside glon lon0.
  Hypothesis Hlon1 : inside glon lon1.

  Definition dlat := lat1 - lat0.
  Definition dlon := lon1 - lon0.
  Definition slope := dlon / dlat.
  Definition icpt := lon0 - slope * lat0.
  Definition a0 := @cell_index RNum clamp glat lat0.
  Definition a1 := @cell_index RNum clamp glat lat1.
  Definition b0 := @cell_index RNum clamp glon lon0.
  Definition b1 := @cell_index RNum clamp glon lon1.
  Definition latlines : list R := map (@py_nth RNum glat) (crossed a0 (a1 - a0)).
  Definition lonlines : list R := map (@py_nth RNum glon) (crossed b0 (b1 - b0)).
  Definition lons_for_lat : list R := map (fun y => slope * y + icpt) latlines.
  Definition lats_for_lon : list R := map (fun x => if Reqb dlat 0 then lat0 else (x - icpt) / slope) lonlines.
  Definition ilats : list R := @sort_dir RNum (@nsign RNum dlat) (latlines ++ lats_for_lon).
  Definition ilons : list R := @sort_dir RNum (@nsign RNum dlon) (lonlines ++ lons_for_lat).
  Definition ipts : list (R * R) := combine ilats ilons.
  Definition kk := (Z.abs (a1 - a0) + Z.abs (b1 - b0))%Z.
  Definition midcells : list (Z * Z) :=
    map (fun m : R * R => (@cell_index RNum clamp glat (fst m), @cell_index RNum clamp glon (snd m)))
        (map (@midpoint RNum) (pairs ipts)).
  Definition cells : list (Z * Z) := (a0, b0) :: midcells ++ (if (kk =? 0)%Z then [] else [(a1, b1)]).
  Definition chain : list (R * R) := (lat0, lon0) :: ipts ++ [(lat1, lon1)].

  Lemma seg_geometry_unfold :
    @seg_geometry RNum clamp glat glon (lat0, lon0) (lat1, lon1) = (cells, chain).
  Proof. reflexivity. Qed.

  Lemma ilats_length : length ilats = (Z.to_nat (Z.abs (a1 - a0)) + Z.to_nat (Z.abs (b1 - b0)))%nat.
  Proof.
    unfold ilats. change (@length R) with (@length (T RNum)). rewrite sort_dir_length, app_length. unfold latlines, lats_for_lon, lonlines.
    rewrite !map_length, !crossed_length. reflexivity.
  Qed.

  Lemma ilons_length : length ilons = (Z.to_nat (Z.abs (b1 - b0)) + Z.to_nat (Z.abs (a1 - a0)))%nat.
  Proof.
    unfold ilons. change (@length R) with (@length (T RNum)). rewrite sort_dir_length, app_length. unfold lonlines, lons_for_lat, latlines.
    rewrite !map_length, !crossed_length. reflexivity.
  Qed.

  Lemma ilats_ilons_length : length ilats = length ilons.
  Proof. rewrite ilats_length, ilons_length. lia. Qed.

  (* chain well-formedness: first = start, last = end, one more point than cells *)
  Lemma chain_first_last :
    hd (0, 0) chain = (lat0, lon0) /\ last chain (0, 0) = (lat1, lon1) /\
    length chain = S (length cells).
  Proof.
    split; [reflexivity|]. split.
    - unfold chain. change ((lat0, lon0) :: ipts ++ [(lat1, lon1)]) with (((lat0, lon0) :: ipts) ++ [(lat1, lon1)]).
      apply last_last.
    - assert (Hip : length ipts = length ilats).
      { unfold ipts. rewrite combine_length, <- ilats_ilons_length, Nat.min_id. reflexivity. }
      unfold chain, cells, midcells. cbn [length]. rewrite !app_length, !map_length, pairs_length.
      pose proof ilats_length as HL.
      unfold point in *. change (T RNum) with R in *. rewrite !Hip, HL. unfold kk.
      destruct (Z.abs (a1 - a0) + Z.abs (b1 - b0) =? 0)%Z eqn:E.
      + apply Z.eqb_eq in E. cbn [length]. lia.
      + apply Z.eqb_neq in E. cbn [length]. lia.
  Qed.

  (* lines met are between the segment's end coordinates *)
  Lemma latlines_between y : In y latlines -> Rmin lat0 lat1 <= y < Rmax lat0 lat1.
  Proof. intros H. apply (lines_char clamp glat lat0 lat1 y Hglat Hlat0 Hlat1) in H. tauto. Qed.

  Lemma lonlines_between x : In x lonlines -> Rmin lon0 lon1 <= x < Rmax lon0 lon1.
  Proof. intros H. apply (lines_char clamp glon lon0 lon1 x Hglon Hlon0 Hlon1) in H. tauto. Qed.

  Lemma lats_for_lon_between y : In y lats_for_lon -> Rmin lat0 lat1 <= y <= Rmax lat0 lat1.
  Proof.
    intros H. unfold lats_for_lon in H. apply in_map_iff in H. destruct H as [x [<- Hx]].
    apply lonlines_between in Hx.
    destruct (Reqb dlat 0) eqn:E.
    - split; [apply Rmin_l|apply Rmax_l].
    - apply Reqb_false in E. unfold dlat in E.
      assert (Hne : lon0 <> lon1).
      { intros ->. rewrite Rmin_left, Rmax_right in Hx by lra. lra. }
      assert (Ht : 0 <= (x - lon0) / (lon1 - lon0) <= 1) by (apply ratio_unit; [lra|exact Hne]).
      replace ((x - icpt) / slope) with (lat0 + (x - lon0) / (lon1 - lon0) * (lat1 - lat0)).
      + apply affine_between. exact Ht.
      + unfold icpt, slope, dlon, dlat. field. split; lra.
  Qed.

  Lemma lons_for_lat_between x : In x lons_for_lat -> Rmin lon0 lon1 <= x <= Rmax lon0 lon1.
  Proof.
    intros H. unfold lons_for_lat in H. apply in_map_iff in H. destruct H as [y [<- Hy]].
    apply latlines_between in Hy.
    assert (Hne : lat0 <> lat1).
    { intros ->. rewrite Rmin_left, Rmax_right in Hy by lra. lra. }
    assert (Ht : 0 <= (y - lat0) / (lat1 - lat0) <= 1) by (apply ratio_unit; [lra|exact Hne]).
    replace (slope * y + icpt) with (lon0 + (y - lat0) / (lat1 - lat0) * (lon1 - lon0)).
    - apply affine_between. exact Ht.
    - unfold icpt, slope, dlon, dlat. field. lra.
  Qed.

  Lemma nsign_down (d : R) : @nsign RNum d = (-1)%Z <-> d < 0.
  Proof.
    unfold nsign. cbn [ltb RNum zero]. destruct (Rltb d 0) eqn:E.
    - apply Rltb_true in E. tauto.
    - apply Rltb_false in E. destruct (Rltb 0 d); split; intros; try discriminate; lra.
  Qed.

  (* generic: a direction-sorted permutation of values between x0 and x1 gives a monotone chain *)
  Lemma sorted_chain_mono (x0 x1 : R) (l : list R) :
    Forall (fun z => Rmin x0 x1 <= z <= Rmax x0 x1) l ->
    mono (x0 :: @sort_dir RNum (@nsign RNum (x1 - x0)) l ++ [x1]).
  Proof.
    intros F.
    assert (F' : Forall (fun z => Rmin x0 x1 <= z <= Rmax x0 x1) (@sort_dir RNum (@nsign RNum (x1 - x0)) l)).
    { eapply Permutation_Forall; [symmetry; apply sort_dir_perm|exact F]. }
    destruct (Rlt_dec (x1 - x0) 0) as [L|L].
    - assert (E : @nsign RNum (x1 - x0) = (-1)%Z) by (apply nsign_down; exact L).
      rewrite E in *. apply mono_chain_down; [apply sort_dir_sorted_down| |lra].
      rewrite Rmin_right, Rmax_left in F' by lra. exact F'.
    - assert (E : @nsign RNum (x1 - x0) <> (-1)%Z) by (intros C; apply nsign_down in C; lra).
      apply mono_chain_up; [apply sort_dir_sorted_up; exact E| |lra].
      rewrite Rmin_left, Rmax_right in F' by lra. exact F'.
  Qed.

  Lemma lat_chain_mono : mono (lat0 :: ilats ++ [lat1]).
  Proof.
    apply sorted_chain_mono. apply Forall_forall. intros z Hz. apply in_app_or in Hz.
    destruct Hz as [Hz|Hz]; [apply latlines_between in Hz; lra|apply lats_for_lon_between; exact Hz].
  Qed.

  Lemma lon_chain_mono : mono (lon0 :: ilons ++ [lon1]).
  Proof.
    apply sorted_chain_mono. apply Forall_forall. intros z Hz. apply in_app_or in Hz.
    destruct Hz as [Hz|Hz]; [apply lonlines_between in Hz; lra|apply lons_for_lat_between; exact Hz].
  Qed.

  Lemma lat_complete y : In y glat -> Rmin lat0 lat1 <= y < Rmax lat0 lat1 -> In y ilats.
  Proof.
    intros Hy Hb. unfold ilats. eapply Permutation_in; [symmetry; apply sort_dir_perm|].
    apply in_or_app. left. apply (lines_char clamp glat lat0 lat1 y Hglat Hlat0 Hlat1). tauto.
  Qed.

  Lemma lon_complete x : In x glon -> Rmin lon0 lon1 <= x < Rmax lon0 lon1 -> In x ilons.
  Proof.
    intros Hx Hb. unfold ilons. eapply Permutation_in; [symmetry; apply sort_dir_perm|].
    apply in_or_app. left. apply (lines_char clamp glon lon0 lon1 x Hglon Hlon0 Hlon1). tauto.
  Qed.

  (* the two one-coordinate results *)
  Lemma lat_containment :
    Forall2 (both_in glat) (cells1 clamp glat lat0 lat1 ilats) (pairs (lat0 :: ilats ++ [lat1])).
  Proof.
    apply one_coordinate_containment; auto using lat_chain_mono. exact lat_complete.
  Qed.

  Lemma lon_containment :
    Forall2 (both_in glon) (cells1 clamp glon lon0 lon1 ilons) (pairs (lon0 :: ilons ++ [lon1])).
  Proof.
    apply one_coordinate_containment; auto using lon_chain_mono. exact lon_complete.
  Qed.

  (* projections of the model's cells / chain onto the two coordinates *)
  Lemma chain_lat : map fst chain = lat0 :: ilats ++ [lat1].
  Proof.
    unfold chain, ipts. cbn [map fst]. rewrite map_app. cbn [map fst].
    rewrite map_fst_combine by exact ilats_ilons_length. reflexivity.
  Qed.

  Lemma chain_lon : map snd chain = lon0 :: ilons ++ [lon1].
  Proof.
    unfold chain, ipts. cbn [map snd]. rewrite map_app. cbn [map snd].
    rewrite map_snd_combine by exact ilats_ilons_length. reflexivity.
  Qed.

  Lemma kk_zero : (kk =? 0)%Z = (length ilats =? 0)%nat.
  Proof.
    rewrite ilats_length. unfold kk.
    destruct (Z.abs (a1 - a0) + Z.abs (b1 - b0) =? 0)%Z eqn:E; symmetry.
    - apply Z.eqb_eq in E. apply Nat.eqb_eq. lia.
    - apply Z.eqb_neq in E. apply Nat.eqb_neq. lia.
  Qed.

  Lemma midcells_lat :
    map fst midcells = map (fun p => @cell_index RNum clamp glat (mid1 p)) (pairs ilats).
  Proof.
    unfold midcells. rewrite !map_map.
    assert (E : pairs ilats = map (fun ab : (R * R) * (R * R) => (fst (fst ab), fst (snd ab))) (pairs ipts)).
    { rewrite <- (pairs_map fst). unfold ipts. rewrite map_fst_combine by exact ilats_ilons_length. reflexivity. }
    rewrite E, map_map. apply map_ext. intros [[la lo] [lb lob]]. cbn [fst snd midpoint].
    unfold mid1. cbn [fst snd add div RNum two one]. f_equal; try lra.
  Qed.

  Lemma midcells_lon :
    map snd midcells = map (fun p => @cell_index RNum clamp glon (mid1 p)) (pairs ilons).
  Proof.
    unfold midcells. rewrite !map_map.
    assert (E : pairs ilons = map (fun ab : (R * R) * (R * R) => (snd (fst ab), snd (snd ab))) (pairs ipts)).
    { rewrite <- (pairs_map snd). unfold ipts. rewrite map_snd_combine by exact ilats_ilons_length. reflexivity. }
    rewrite E, map_map. apply map_ext. intros [[la lo] [lb lob]]. cbn [fst snd midpoint].
    unfold mid1. cbn [fst snd add div RNum two one]. f_equal; try lra.
  Qed.

  Lemma cells_lat : map fst cells = cells1 clamp glat lat0 lat1 ilats.
  Proof.
    unfold cells, cells1. cbn [map fst]. rewrite map_app, midcells_lat, <- kk_zero. fold a0.
    destruct (kk =? 0)%Z; reflexivity.
  Qed.

  Lemma cells_lon : map snd cells = cells1 clamp glon lon0 lon1 ilons.
  Proof.
    unfold cells, cells1. cbn [map snd]. rewrite map_app, midcells_lon, <- ilats_ilons_length, <- kk_zero. fold b0.
    destruct (kk =? 0)%Z; reflexivity.
  Qed.

  (* a piece (end points a, b) lies in the closed cell c = (lat index, lon index) *)
  Definition piece_in_cell (c : Z * Z) (ab : (R * R) * (R * R)) : Prop :=
    in_cell glat (fst c) (fst (fst ab)) /\ in_cell glat (fst c) (fst (snd ab)) /\
    in_cell glon (snd c) (snd (fst ab)) /\ in_cell glon (snd c) (snd (snd ab)).

  Theorem pieces_in_cells : Forall2 piece_in_cell cells (pairs chain).
  Proof.
    pose proof lat_containment as HA. pose proof lon_containment as HB.
    rewrite <- cells_lat, <- chain_lat, pairs_map in HA.
    rewrite <- cells_lon, <- chain_lon, pairs_map in HB.
    apply Forall2_map in HA. apply Forall2_map in HB.
    pose proof (Forall2_and _ _ _ _ HA HB) as H.
    eapply Forall2_weaken; [|exact H]. intros c ab [[A1 A2] [B1 B2]]. unfold piece_in_cell. cbn [fst snd] in *. tauto.
  Qed.

  (* path order: along the chain both coordinates are monotone (never go back) *)
  Theorem chain_monotone : mono (map fst chain) /\ mono (map snd chain).
  Proof. rewrite chain_lat, chain_lon. split; [apply lat_chain_mono|apply lon_chain_mono]. Qed.
End Seg.

(* C04 — gridding conserves every integrated quantity: lemmas over the real-number instance of
   coq/model/C04_Model.v.  Geodesic length is a Section variable [dist] with the hypotheses of a
   pseudo-metric (non-negative, zero on equal points, triangle inequality). *)
From Coq Require Import ZArith List Bool Reals Lra Lia.
From AV Require Import lib.Num model.C04_Model.
Import ListNotations.
Local Open Scope R_scope.

Notation Rpoint := (R * R)%type.

Fixpoint Rsum (l : list R) : R := match l with [] => 0 | x :: r => x + Rsum r end.

Lemma pairs_cons2 {A} (a b : A) l : pairs (a :: b :: l) = (a, b) :: pairs (b :: l).
Proof. reflexivity. Qed.

Lemma Rsum_app l1 l2 : Rsum (l1 ++ l2) = Rsum l1 + Rsum l2.
Proof. induction l1; simpl; lra. Qed.

Lemma Rsum_scale c l : Rsum (map (fun d => c * d) l) = c * Rsum l.
Proof. induction l; simpl; lra. Qed.

Lemma Rsum_const c (l : list R) : Rsum (map (fun _ => c) l) = INR (length l) * c.
Proof.
  induction l as [|a l IH]; [simpl; lra|].
  change (Rsum (map (fun _ => c) (a :: l))) with (c + Rsum (map (fun _ => c) l)).
  rewrite IH. change (length (a :: l)) with (S (length l)). rewrite S_INR. lra.
Qed.

Lemma Rsum_nonneg l : Forall (fun x => 0 <= x) l -> 0 <= Rsum l.
Proof. induction 1; simpl; lra. Qed.

(* ---------- real-number reading of the model's arithmetic ---------- *)

Lemma frac_nonzero fix3 cnt (D d : R) : D <> 0 -> @frac RNum fix3 cnt D d = d / D.
Proof.
  intros HD. unfold frac. cbn [eqb RNum zero].
  destruct (Reqb D 0) eqn:E; [apply Reqb_true in E; contradiction|reflexivity].
Qed.

Lemma frac_zero_coded cnt (d : R) : @frac RNum false cnt 0 d = 0.
Proof.
  unfold frac. cbn [eqb RNum zero].
  destruct (Reqb 0 0) eqn:E; [reflexivity|apply Reqb_false in E; contradiction].
Qed.

Lemma frac_zero_fixed cnt (d : R) : @frac RNum true cnt 0 d = 1 / IZR (Z.of_nat cnt).
Proof.
  unfold frac. cbn [eqb RNum zero one div of_Z].
  destruct (Reqb 0 0) eqn:E; [reflexivity|apply Reqb_false in E; contradiction].
Qed.

(* pieces of one segment: sum = v * (sum of piece lengths) / D *)
Lemma seg_values_sum fix3 (v D : R) (ds : list R) :
  D <> 0 -> Rsum (@seg_values RNum fix3 v D ds) = v * Rsum ds / D.
Proof.
  intros HD. unfold seg_values.
  rewrite (map_ext _ (fun d => (v / D) * d)).
  - rewrite Rsum_scale. field. exact HD.
  - intros d. unfold piece_value. rewrite frac_nonzero by exact HD. cbn [mul RNum]. field. exact HD.
Qed.

Lemma seg_values_exact fix3 (v D : R) (ds : list R) :
  D <> 0 -> Rsum ds = D -> Rsum (@seg_values RNum fix3 v D ds) = v.
Proof. intros HD HS. rewrite seg_values_sum by exact HD. rewrite HS. field. exact HD. Qed.

Lemma seg_values_ge fix3 (v D : R) (ds : list R) :
  0 <= v -> 0 < D -> D <= Rsum ds -> v <= Rsum (@seg_values RNum fix3 v D ds).
Proof.
  intros Hv HD HS. rewrite seg_values_sum by lra.
  unfold Rdiv. rewrite Rmult_assoc.
  rewrite <- (Rmult_1_r v) at 1. apply Rmult_le_compat_l; [exact Hv|].
  apply (Rmult_le_reg_r D); [exact HD|]. rewrite Rmult_assoc, Rinv_l by lra. lra.
Qed.

(* the excess is exactly v * (sum ds / D - 1) *)
Lemma seg_values_excess fix3 (v D : R) (ds : list R) :
  D <> 0 -> Rsum (@seg_values RNum fix3 v D ds) - v = v * (Rsum ds / D - 1).
Proof. intros HD. rewrite seg_values_sum by exact HD. field. exact HD. Qed.

(* zero-length segment, as coded: everything is lost *)
Lemma seg_values_zero_coded (v : R) (ds : list R) : Rsum (@seg_values RNum false v 0 ds) = 0.
Proof.
  unfold seg_values. rewrite (map_ext _ (fun _ => 0)).
  - rewrite Rsum_const. lra.
  - intros d. unfold piece_value. rewrite frac_zero_coded. cbn [mul RNum]. lra.
Qed.

(* zero-length segment, repaired: the value is kept (shared equally among the pieces) *)
Lemma seg_values_zero_fixed (v : R) (ds : list R) : ds <> [] -> Rsum (@seg_values RNum true v 0 ds) = v.
Proof.
  intros Hne. unfold seg_values.
  rewrite (map_ext _ (fun _ => v * (1 / IZR (Z.of_nat (length ds))))).
  - rewrite Rsum_const. rewrite <- INR_IZR_INZ.
    assert (INR (length ds) <> 0).
    { apply not_0_INR. destruct ds; [contradiction|discriminate]. }
    field. assumption.
  - intros d. unfold piece_value. rewrite frac_zero_fixed. reflexivity.
Qed.

(* ---------- a trajectory part ---------- *)

Lemma part_values_nil_l fix3 (dd : list (R * list R)) : @part_values RNum fix3 [] dd = [].
Proof. reflexivity. Qed.

Lemma part_values_cons fix3 (v : R) (var : list R) (x : R * list R) (dd : list (R * list R)) :
  @part_values RNum fix3 (v :: var) (x :: dd)
  = @seg_values RNum fix3 v (fst x) (snd x) ++ @part_values RNum fix3 var dd.
Proof. reflexivity. Qed.

(* a segment is "good" for conservation if it has positive length not exceeding the sum of its pieces,
   or has zero length and either carries nothing or the repaired fraction rule is in force *)
Definition good (fix3 : bool) (v : R) (x : R * list R) : Prop :=
  0 <= v /\ ((0 < fst x /\ fst x <= Rsum (snd x)) \/
             (fst x = 0 /\ (v = 0 \/ (fix3 = true /\ snd x <> [])))).

Lemma seg_good_ge fix3 (v : R) (x : R * list R) : good fix3 v x -> v <= Rsum (@seg_values RNum fix3 v (fst x) (snd x)).
Proof.
  intros [Hv [[HD HS]|[HD [Hz|[Hf Hne]]]]].
  - apply seg_values_ge; assumption.
  - rewrite HD, Hz. destruct fix3.
    + destruct (snd x) eqn:E; [simpl; lra|]. rewrite seg_values_zero_fixed by discriminate. lra.
    + rewrite seg_values_zero_coded. lra.
  - rewrite HD. subst fix3. rewrite seg_values_zero_fixed by exact Hne. lra.
Qed.

Lemma part_values_ge fix3 (var : list R) (dd : list (R * list R)) :
  Forall2 (good fix3) var dd -> Rsum var <= Rsum (@part_values RNum fix3 var dd).
Proof.
  induction 1 as [|v x var dd Hg _ IH]; [simpl; lra|].
  rewrite part_values_cons, Rsum_app. pose proof (seg_good_ge _ _ _ Hg). simpl. lra.
Qed.

(* exact accounting of a part: total = sum over segments of v_j * (sum of piece lengths)_j / D_j *)
Lemma part_values_total fix3 (var : list R) (dd : list (R * list R)) :
  length var = length dd -> Forall (fun x => fst x <> 0) dd ->
  Rsum (@part_values RNum fix3 var dd)
  = Rsum (map2 (fun v x => v * Rsum (snd x) / fst x) var dd).
Proof.
  revert dd. induction var as [|v var IH]; intros [|x dd] Hlen HF; try discriminate; [reflexivity|].
  inversion HF; subst. rewrite part_values_cons, Rsum_app. simpl map2. simpl Rsum.
  rewrite seg_values_sum by assumption. rewrite IH; auto.
Qed.

(* ---------- lengths supplied by a pseudo-metric ---------- *)
Section Metric.
  Variable dist : Rpoint -> Rpoint -> R.
  Hypothesis dist_nonneg : forall p q, 0 <= dist p q.
  Hypothesis dist_refl : forall p, dist p p = 0.
  Hypothesis dist_tri : forall p q r, dist p r <= dist p q + dist q r.

  Definition chain_dists (ch : list Rpoint) : list R :=
    map (fun ab => dist (fst ab) (snd ab)) (pairs ch).

  (* the polygon inequality: the straight distance never exceeds the length of a chain *)
  Lemma polygon mid p q : dist p q <= Rsum (chain_dists (p :: mid ++ [q])).
  Proof.
    revert p. induction mid as [|m mid IH]; intros p; unfold chain_dists in *.
    - cbn [app]. rewrite pairs_cons2. cbn [pairs map Rsum fst snd]. lra.
    - change (p :: (m :: mid) ++ [q]) with (p :: m :: (mid ++ [q])).
      rewrite pairs_cons2. cbn [map Rsum fst snd].
      specialize (IH m). pose proof (dist_tri p m q). lra.
  Qed.

  Lemma chain_dists_nonneg ch : Forall (fun x => 0 <= x) (chain_dists ch).
  Proof. unfold chain_dists. apply Forall_forall. intros x Hx. apply in_map_iff in Hx.
         destruct Hx as [ab [<- _]]. apply dist_nonneg. Qed.

  (* what attach_dists yields for one segment's geometry *)
  Lemma attach_dists_cons g geom :
    @attach_dists RNum dist (g :: geom)
    = (dist (hd (0, 0) (snd g)) (last (snd g) (0, 0)), chain_dists (snd g)) :: @attach_dists RNum dist geom.
  Proof. reflexivity. Qed.

  Lemma seg_geometry_chain clamp glat glon p0 p1 :
    exists mid, snd (@seg_geometry RNum clamp glat glon p0 p1) = p0 :: mid ++ [p1].
  Proof. destruct p0 as [a b], p1 as [c d]. unfold seg_geometry. eexists. reflexivity. Qed.

  Lemma last_app_single {A} (l : list A) (x d : A) : last (l ++ [x]) d = x.
  Proof. induction l as [|a l IH]; [reflexivity|]. simpl. destruct (l ++ [x]) eqn:E; [destruct l; discriminate|exact IH]. Qed.

  (* every segment of a part: D = dist of its end points, D <= sum of its piece lengths, at least one piece *)
  Lemma attach_segment clamp glat glon p0 p1 :
    let g := @seg_geometry RNum clamp glat glon p0 p1 in
    let x := (dist (hd (0, 0) (snd g)) (last (snd g) (0, 0)), chain_dists (snd g)) in
    fst x = dist p0 p1 /\ fst x <= Rsum (snd x) /\ snd x <> [].
  Proof.
    intros g x. destruct (seg_geometry_chain clamp glat glon p0 p1) as [mid E].
    subst x g. rewrite E. cbn [fst snd hd].
    assert (L : last (p0 :: mid ++ [p1]) (0, 0) = p1).
    { change (p0 :: mid ++ [p1]) with ((p0 :: mid) ++ [p1]). apply last_app_single. }
    rewrite L. split; [reflexivity|]. split.
    - apply polygon.
    - unfold chain_dists. destruct mid; simpl; discriminate.
  Qed.

  (* conservation for a part without antimeridian crossing *)
  Lemma segs_good clamp fix3 glat glon (segs : list (Rpoint * Rpoint)) (var : list R) :
    length var = length segs ->
    Forall (fun v => 0 <= v) var ->
    (fix3 = true \/ Forall (fun s => dist (fst s) (snd s) <> 0) segs) ->
    Forall2 (good fix3) var
      (@attach_dists RNum dist
         (map (fun s => @seg_geometry RNum clamp glat glon (fst s) (snd s)) segs)).
  Proof.
    revert var. induction segs as [|s segs IH]; intros [|v var] Hlen Hv Hz; try discriminate.
    - constructor.
    - cbn [map]. rewrite attach_dists_cons. inversion Hv; subst. constructor.
      + destruct (attach_segment clamp glat glon (fst s) (snd s)) as [HD [HS Hne]].
        split; [assumption|]. cbn [fst snd] in *.
        pose proof (dist_nonneg (fst s) (snd s)) as Hnn.
        destruct (Req_dec (dist (fst s) (snd s)) 0) as [Z|NZ].
        * right. split; [exact (eq_trans HD Z)|].
          destruct Hz as [Hf|Hall]; [right; split; [exact Hf|exact Hne]|].
          inversion Hall; subst. contradiction.
        * left. split.
          -- apply (Rlt_le_trans 0 (dist (fst s) (snd s))); [lra|right; symmetry; exact HD].
          -- exact HS.
      + apply IH; [simpl in Hlen; lia|assumption|].
        destruct Hz as [Hf|Hall]; [left; exact Hf|right; inversion Hall; assumption].
  Qed.

  Lemma part_conservation clamp fix3 glat glon (pts : list Rpoint) (var : list R) :
    length var = length (pairs pts) ->
    Forall (fun v => 0 <= v) var ->
    (fix3 = true \/ Forall (fun s => dist (fst s) (snd s) <> 0) (pairs pts)) ->
    Rsum var <= Rsum (@part_values RNum fix3 var
                        (@attach_dists RNum dist (@part_geometry RNum clamp glat glon pts))).
  Proof.
    intros Hlen Hv Hz. apply part_values_ge. unfold part_geometry.
    apply segs_good; assumption.
  Qed.
End Metric.

(* ---------- the antimeridian split ---------- *)

Lemma dateline_split_sums (v len1 len2 : R) :
  len1 + len2 <> 0 -> v * len1 / (len1 + len2) + v * len2 / (len1 + len2) = v.
Proof. intros H. field. exact H. Qed.

Lemma Rsum_firstn_skipn (l : list R) i :
  (i < length l)%nat -> Rsum l = Rsum (firstn i l) + nth i l 0 + Rsum (skipn (S i) l).
Proof.
  revert i. induction l as [|a l IH]; intros i Hi; [simpl in Hi; lia|].
  destruct i; simpl.
  - lra.
  - simpl in Hi. rewrite (IH i) by lia. simpl. lra.
Qed.

Lemma split_val_nonzero fixz first (v len total : R) :
  total <> 0 -> @split_val RNum fixz first v len total = v * len / total.
Proof.
  intros H. unfold split_val. cbn [eqb RNum zero].
  rewrite (proj2 (Reqb_false total 0) H). rewrite andb_false_r. reflexivity.
Qed.

Lemma split_val_zero_fixed first (v len : R) :
  @split_val RNum true first v len 0 = if first then v else 0.
Proof.
  unfold split_val. cbn [eqb RNum zero andb]. rewrite (proj2 (Reqb_true 0 0) eq_refl). reflexivity.
Qed.

(* the two parts together carry exactly the trajectory's values *)
Lemma split_vals_sum fixz (var : list R) i (len1 len2 : R) :
  (i < length var)%nat -> len1 + len2 <> 0 ->
  Rsum (@first_vals RNum fixz var i len1 (len1 + len2)) + Rsum (@second_vals RNum fixz var i len2 (len1 + len2))
  = Rsum var.
Proof.
  intros Hi Ht. unfold first_vals, second_vals. rewrite Rsum_app.
  rewrite !split_val_nonzero by exact Ht. cbn [Rsum zero RNum mul div].
  change (T RNum) with R in *.
  rewrite (Rsum_firstn_skipn var i Hi).
  pose proof (dateline_split_sums (nth i var 0) len1 len2 Ht). lra.
Qed.

(* repaired (FC04a): also a crossing segment of total length 0 keeps its value *)
Lemma split_vals_sum_zero_fixed (var : list R) i (len1 len2 : R) :
  (i < length var)%nat -> len1 + len2 = 0 ->
  Rsum (@first_vals RNum true var i len1 (len1 + len2)) + Rsum (@second_vals RNum true var i len2 (len1 + len2))
  = Rsum var.
Proof.
  intros Hi Ht. unfold first_vals, second_vals. rewrite Rsum_app. rewrite Ht.
  rewrite !split_val_zero_fixed. cbn [Rsum zero RNum].
  change (T RNum) with R in *.
  rewrite (Rsum_firstn_skipn var i Hi). lra.
Qed.

(* conservation through the split: if every segment of both parts is good, nothing is lost *)
Lemma values_dateline_ge fix3 fixz i (var : list R) (dd1 dd2 : list (R * list R)) :
  let len1 := fst (last dd1 (0, [])) in
  let len2 := fst (hd (0, []) dd2) in
  (i < length var)%nat -> (len1 + len2 <> 0 \/ fixz = true) ->
  Forall2 (good fix3) (@first_vals RNum fixz var i len1 (len1 + len2)) dd1 ->
  Forall2 (good fix3) (@second_vals RNum fixz var i len2 (len1 + len2)) dd2 ->
  forall out, @values RNum fix3 fixz 1%Z i [var] [dd1; dd2] = [out] -> Rsum var <= Rsum out.
Proof.
  intros len1 len2 Hi Ht G1 G2 out E.
  unfold values in E. cbn [map] in E. injection E as <-.
  rewrite Rsum_app. fold len1 len2.
  pose proof (part_values_ge _ _ _ G1). pose proof (part_values_ge _ _ _ G2).
  assert (S : Rsum (@first_vals RNum fixz var i len1 (len1 + len2))
              + Rsum (@second_vals RNum fixz var i len2 (len1 + len2)) = Rsum var).
  { destruct (Req_dec (len1 + len2) 0) as [Z|NZ].
    - destruct Ht as [Ht|Ht]; [contradiction|]. subst fixz. apply split_vals_sum_zero_fixed; assumption.
    - apply split_vals_sum; assumption. }
  cbn [zero RNum add] in *. lra.
Qed.

(* ---------- whole call, no antimeridian crossing ---------- *)

Lemma geometry_no_crossing clamp fixdl fixe glat glon galt gtime pts alts times states :
  count_nonzero (@crossings RNum (map snd pts)) = O ->
  @geometry RNum clamp fixdl fixe glat glon galt gtime pts alts times states
  = (0%Z, O, [@part_run RNum clamp glat glon galt gtime pts alts times states]).
Proof. intros H. unfold geometry. rewrite H. reflexivity. Qed.

Section MetricWhole.
  Variable dist : Rpoint -> Rpoint -> R.
  Hypothesis dist_nonneg : forall p q, 0 <= dist p q.
  Hypothesis dist_refl : forall p, dist p p = 0.
  Hypothesis dist_tri : forall p q r, dist p r <= dist p q + dist q r.

  Lemma grid_integrated_no_crossing clamp fix3 fixdl fixe fixz glat glon pts vars :
    count_nonzero (@crossings RNum (map snd pts)) = O ->
    @grid_integrated RNum dist clamp fix3 fixdl fixe fixz glat glon pts vars
    = map (fun var => @part_values RNum fix3 var
                        (@attach_dists RNum dist (@part_geometry RNum clamp glat glon pts))) vars.
  Proof.
    intros H. unfold grid_integrated. rewrite geometry_no_crossing by exact H.
    unfold part_run. cbn [map snd values]. reflexivity.
  Qed.

  (* gridded total >= trajectory total, for every integrated variable *)
  Lemma grid_total_ge clamp fix3 fixdl fixe fixz glat glon pts vars :
    count_nonzero (@crossings RNum (map snd pts)) = O ->
    Forall (fun var => length var = length (pairs pts) /\ Forall (fun v => 0 <= v) var) vars ->
    (fix3 = true \/ Forall (fun s => dist (fst s) (snd s) <> 0) (pairs pts)) ->
    Forall2 (fun var out => Rsum var <= Rsum out) vars
            (@grid_integrated RNum dist clamp fix3 fixdl fixe fixz glat glon pts vars).
  Proof.
    intros H Hv Hz. rewrite grid_integrated_no_crossing by exact H.
    induction vars as [|var vars IH]; [constructor|].
    inversion Hv as [|? ? [Hl Hp] Hr]; subst. cbn [map]. constructor.
    - apply part_conservation; assumption.
    - apply IH. exact Hr.
  Qed.

  (* and it is exact when lengths are additive along every chain *)
  Lemma grid_total_exact clamp fix3 fixdl fixe fixz glat glon pts var :
    count_nonzero (@crossings RNum (map snd pts)) = O ->
    length var = length (pairs pts) ->
    Forall (fun x => fst x <> 0 /\ Rsum (snd x) = fst x)
           (@attach_dists RNum dist (@part_geometry RNum clamp glat glon pts)) ->
    forall out, @grid_integrated RNum dist clamp fix3 fixdl fixe fixz glat glon pts [var] = [out] -> Rsum out = Rsum var.
  Proof.
    intros H Hl Hadd out E. rewrite grid_integrated_no_crossing in E by exact H.
    cbn [map] in E. injection E as <-.
    assert (Hlen : length var = length (@attach_dists RNum dist (@part_geometry RNum clamp glat glon pts))).
    { unfold attach_dists, part_geometry. rewrite !map_length. exact Hl. }
    revert Hlen Hadd. generalize (@attach_dists RNum dist (@part_geometry RNum clamp glat glon pts)).
    clear Hl. induction var as [|v var IH]; intros [|x dd] Hlen Hadd; try discriminate; [reflexivity|].
    inversion Hadd as [|? ? [Hnz Hs] Hr]; subst.
    rewrite part_values_cons, Rsum_app. rewrite seg_values_exact by assumption.
    simpl Rsum. rewrite IH; auto.
  Qed.
End MetricWhole.

(* ---------- F3: the as-coded fraction rule loses the value of a repeated point ---------- *)

(* one segment from a point to itself, carrying 5: everything is lost as coded, kept when repaired *)
Definition f3_dist (p q : Rpoint) : R := Rabs (fst p - fst q) + Rabs (snd p - snd q).

Lemma f3_witness_geometry clamp :
  @part_geometry RNum clamp [0; 1] [0; 1] [(/2, /2); (/2, /2)]
  = [([(@cell_index RNum clamp [0; 1] (/2), @cell_index RNum clamp [0; 1] (/2))], [(/2, /2); (/2, /2)])].
Proof.
  unfold part_geometry. cbn [pairs map fst snd]. unfold seg_geometry.
  cbn [sub RNum].
  replace (/ 2 - / 2) with 0 by lra.
  assert (Z0 : forall z : Z, (z - z = 0)%Z) by (intros; lia).
  rewrite Z0. cbn [crossed Z.ltb Z.compare Z.to_nat seq map app Z.abs Z.add Z.eqb].
  unfold nsign. cbn [ltb RNum zero].
  assert (L : Rltb 0 0 = false) by (apply Rltb_false; lra). rewrite L.
  cbn [sort_dir Z.eqb sort fold_right combine pairs map app]. reflexivity.
Qed.

Lemma f3_no_crossing : count_nonzero (@crossings RNum (map snd [(/2, /2); (/2, /2)])) = O.
Proof.
  cbn [map snd crossings pairs fst]. unfold crossing. cbn [sub RNum nabs ltb].
  replace (/2 - /2) with 0 by lra. rewrite Rabs_R0.
  assert (L : Rltb (@pi RNum) 0 = false).
  { apply Rltb_false. unfold pi. cbn [lit RNum]. lra. }
  rewrite L. reflexivity.
Qed.

Lemma f3_witness_dists clamp :
  @attach_dists RNum f3_dist (@part_geometry RNum clamp [0; 1] [0; 1] [(/2, /2); (/2, /2)]) = [(0, [0])].
Proof.
  rewrite f3_witness_geometry. unfold attach_dists. cbn [map snd fst hd last pairs]. unfold f3_dist. cbn [fst snd].
  replace (/2 - /2) with 0 by lra. rewrite Rabs_R0. replace (0 + 0) with 0 by lra. reflexivity.
Qed.

Lemma zero_length_dropped_as_coded clamp fixdl fixe fixz :
  @grid_integrated RNum f3_dist clamp false fixdl fixe fixz [0; 1] [0; 1] [(/2, /2); (/2, /2)] [[5]] = [[0]].
Proof.
  rewrite grid_integrated_no_crossing by exact f3_no_crossing. cbn [map]. rewrite f3_witness_dists.
  unfold part_values. cbn [map2 fst snd concat app]. unfold seg_values, piece_value. cbn [map length].
  rewrite frac_zero_coded. cbn [mul RNum]. replace (5 * 0) with 0 by lra. reflexivity.
Qed.

Lemma zero_length_kept_when_fixed clamp fixdl fixe fixz :
  @grid_integrated RNum f3_dist clamp true fixdl fixe fixz [0; 1] [0; 1] [(/2, /2); (/2, /2)] [[5]] = [[5]].
Proof.
  rewrite grid_integrated_no_crossing by exact f3_no_crossing. cbn [map]. rewrite f3_witness_dists.
  unfold part_values. cbn [map2 fst snd concat app]. unfold seg_values, piece_value. cbn [map length].
  rewrite frac_zero_fixed. cbn [mul RNum Z.of_nat Pos.of_succ_nat].
  replace (5 * (1 / 1)) with 5 by field. reflexivity.
Qed.

(* f3_dist is a pseudo-metric, so the witness is inside the hypotheses of the conservation theorem *)
Lemma f3_dist_metric :
  (forall p q, 0 <= f3_dist p q) /\ (forall p, f3_dist p p = 0) /\
  (forall p q r, f3_dist p r <= f3_dist p q + f3_dist q r).
Proof.
  unfold f3_dist. repeat split; intros.
  - pose proof (Rabs_pos (fst p - fst q)). pose proof (Rabs_pos (snd p - snd q)). lra.
  - rewrite !Rminus_diag_eq by reflexivity. rewrite Rabs_R0. lra.
  - pose proof (Rabs_triang (fst p - fst q) (fst q - fst r)).
    pose proof (Rabs_triang (snd p - snd q) (snd q - snd r)).
    replace (fst p - fst q + (fst q - fst r)) with (fst p - fst r) in * by lra.
    replace (snd p - snd q + (snd q - snd r)) with (snd p - snd r) in * by lra. lra.
Qed.

(* Store_Refine — for every history of store operations and every eviction choice, the repaired
   machine produces exactly the outputs of the append-only list / identifier map.  *)
From Coq Require Import ZArith List Bool Arith Lia ZifyBool Permutation.
From AV Require Import model.Store_Model proofs.Store_Proofs.
Import ListNotations.

(* ------------------------------------------------------------------------------------------- *)
(* small facts                                                                                 *)
(* ------------------------------------------------------------------------------------------- *)
Lemma set_cache_id h : set_cache h (h_cache h) = h.
Proof. now destruct h. Qed.

Lemma aupd_same {K V} (keq : K -> K -> bool) (keq_eq : forall a b, keq a b = true <-> a = b)
      (p : K) (v : V) l : alookup keq p l = Some v -> aupd keq p v l = l.
Proof.
  induction l as [|[q x] r IH]; cbn; [discriminate|].
  destruct (keq p q) eqn:E.
  - apply keq_eq in E; subst. intros H; inversion H; reflexivity.
  - intros H. now rewrite IH.
Qed.

Lemma supd_same p v l : slookup p l = Some v -> supd p v l = l.
Proof. apply aupd_same, path_eqb_eq. Qed.

Lemma fresh_none p f : fresh None p f -> f_hasidx f = true -> f_table f = mk_table (f_items f).
Proof. intros H E. destruct (H E) as [|(h & D & _)]; [auto|discriminate]. Qed.

Lemma fresh_left oh p f : (f_hasidx f = true -> f_table f = mk_table (f_items f)) -> fresh oh p f.
Proof. intros H E. left; auto. Qed.

Lemma fresh_other h p q f : h_src h = SrcFile p -> p <> q -> fresh (Some h) q f ->
  f_hasidx f = true -> f_table f = mk_table (f_items f).
Proof.
  intros Hs N H E. destruct (H E) as [|(h' & D & S & _)]; auto.
  inversion D; subst h'. rewrite Hs in S. inversion S. contradiction.
Qed.

Lemma fresh_mem h cap q f : h_src h = SrcMem cap -> fresh (Some h) q f ->
  f_hasidx f = true -> f_table f = mk_table (f_items f).
Proof.
  intros Hs H E. destruct (H E) as [|(h' & D & S & _)]; auto.
  inversion D; subst h'. rewrite Hs in S. discriminate.
Qed.

Lemma fresh_notstale h q f : h_stale h = false -> fresh (Some h) q f ->
  f_hasidx f = true -> f_table f = mk_table (f_items f).
Proof.
  intros Hs H E. destruct (H E) as [|(h' & D & _ & S)]; auto.
  inversion D; subst h'. congruence.
Qed.

Lemma strip_item_of t : strip (item_of t true) = (t_tag t, t_fid t).
Proof. reflexivity. Qed.

Lemma item_ok_new t : item_ok (has_id t) (mkItem (t_tag t) (t_fid t) true (t_size t)) = true.
Proof. unfold item_ok, has_id; cbn. now destruct (t_fid t). Qed.

Lemma forallb_app_one {A} (f : A -> bool) l x : forallb f (l ++ [x]) = forallb f l && f x.
Proof. rewrite forallb_app; cbn. now rewrite andb_true_r. Qed.

Fixpoint sids (l : list sitem) : list Z :=
  match l with [] => [] | (_, Some i) :: r => i :: sids r | (_, None) :: r => sids r end.

Lemma sids_strip l : sids (map strip l) = ids_of l.
Proof. induction l as [|x r IH]; cbn; auto. unfold strip at 1. destruct (fid x); cbn; now rewrite IH. Qed.

Lemma mem_find_sfind id l : mem_find id l = sfind id (map strip l).
Proof.
  induction l as [|x r IH]; cbn; auto. unfold strip at 1.
  destruct (fid x) as [i|]; [destruct (i =? id)%Z|]; auto.
Qed.

Lemma sfind_none id l : ~ In id (ids_of l) -> sfind id (map strip l) = None.
Proof.
  induction l as [|x r IH]; cbn; auto. unfold strip at 1. destruct (fid x) as [i|] eqn:E; cbn.
  - intros H. destruct (i =? id)%Z eqn:E2; [apply Z.eqb_eq in E2; subst; tauto|]. apply IH. tauto.
  - auto.
Qed.

Lemma in_ids_of l : forall idx it id, nth_error l idx = Some it -> fid it = Some id -> In id (ids_of l).
Proof.
  induction l as [|x r IH]; intros [|idx] it id H F; cbn in *; try discriminate.
  - inversion H; subst. rewrite F. now left.
  - destruct (fid x); [right|]; eauto.
Qed.

Lemma sfind_unique id l : NoDup (ids_of l) -> forall idx it,
  nth_error l idx = Some it -> fid it = Some id -> sfind id (map strip l) = Some (tag it).
Proof.
  induction l as [|x r IH]; intros N [|idx] it H F; cbn in *; try discriminate.
  - inversion H; subst. unfold strip. rewrite F. now rewrite Z.eqb_refl.
  - unfold strip at 1. destruct (fid x) as [i|] eqn:E.
    + inversion N as [|? ? Ni N']; subst.
      destruct (i =? id)%Z eqn:E2.
      * apply Z.eqb_eq in E2; subst. exfalso. apply Ni. eapply in_ids_of; eauto.
      * eapply IH; eauto.
    + eapply IH; eauto.
Qed.

(* ------------------------------------------------------------------------------------------- *)
(* __getitem__                                                                                 *)
(* ------------------------------------------------------------------------------------------- *)
Definition files_ok (fs : fsys) : Prop := forall p f, flookup p fs = Some (NFile f) -> file_ok f.

Lemma Inv_files_ok w : Inv w -> files_ok (w_fs w).
Proof. intros I p f H. destruct (inv_files _ I _ _ H) as (f' & E & Ok & _). now inversion E; subst. Qed.

Lemma file_ok_whole f i x : file_ok f -> nth_error (f_items f) i = Some x -> whole x = true.
Proof.
  unfold file_ok. intros H Hn. rewrite forallb_forall in H.
  apply nth_error_In in Hn. apply H in Hn. unfold item_ok in Hn. now apply andb_true_iff in Hn as [? _].
Qed.

Lemma hinv_set_cache fs h c :
  hinv fs h ->
  (forall p f, h_src h = SrcFile p -> h_pending h = false -> flookup p fs = Some (NFile f) ->
               cache_all_ok c (f_items f)) ->
  (h_pending h = true -> c = []) ->
  hinv fs (set_cache h c).
Proof.
  unfold hinv; cbn. destruct (h_src h) as [cap|p|p]; auto.
  destruct (h_pending h) eqn:P.
  - intros (M & L & _ & R) _ Hc. rewrite Hc by auto. auto.
  - intros (f & L & S & C & R) Hc _. exists f. repeat split; try tauto. eapply Hc; eauto.
Qed.

Lemma cur_items_set_cache fs h c : cur_items fs (set_cache h c) = cur_items fs h.
Proof. reflexivity. Qed.

Lemma get_item_spec fs h i : hinv fs h -> files_ok fs ->
  exists c, fst (get_item fixed_cfg fs h i) = set_cache h c /\ hinv fs (set_cache h c) /\
            snd (get_item fixed_cfg fs h i) = match nth_error (cur_items fs h) i with
                                    | Some x => inl (tag x) | None => inr EIndex end.
Proof.
  intros H Fok. unfold get_item, cur_items. pose proof H as H0. unfold hinv in H.
  destruct (h_src h) as [cap|p|p] eqn:Es; [| |tauto].
  - exists (h_cache h). rewrite set_cache_id. destruct (nth_error (h_mem h) i); cbn; auto.
  - destruct (h_pending h) eqn:P.
    + destruct H as (_ & _ & Hc & _). rewrite Hc. cbn. exists []. rewrite <- Hc, set_cache_id.
      destruct i; auto.
    + destruct H as (f & L & S & C & R). rewrite L, S.
      destruct (cache_get (h_cache h) i) as [x|] eqn:G.
      * exists (h_cache h). rewrite set_cache_id. cbn.
        rewrite (cache_all_ok_get _ _ _ _ C G). auto.
      * rewrite nc_load_single. destruct (nth_error (f_items f) i) as [x|] eqn:N.
        -- unfold loaded. rewrite (file_ok_whole f i x (Fok _ _ L) N). cbn [fix_C07a fixed_cfg].
           destruct (fits h (isize x)).
           ++ cbn. exists ((i, x) :: h_cache h).
              repeat split; auto. apply hinv_set_cache; auto.
              ** intros p' f' E _ L'. rewrite Es in E. inversion E; subst p'. rewrite L in L'. inversion L'; subst f'.
                 now apply cache_all_ok_cons.
              ** congruence.
           ++ (* larger than the whole cache: handed back uncached *)
              exists (h_cache h). rewrite set_cache_id. cbn. auto.
        -- exists (h_cache h). rewrite set_cache_id. cbn. auto.
Qed.

(* ------------------------------------------------------------------------------------------- *)
(* iteration                                                                                   *)
(* ------------------------------------------------------------------------------------------- *)
Lemma hinv_do_evict fs h keep : hinv fs h -> hinv fs (do_evict keep h).
Proof.
  intros H. unfold do_evict. destruct (h_src h) as [cap|p|p] eqn:Es; auto.
  - apply hinv_set_cache; auto.
    + intros p' f E P L. unfold hinv in H. rewrite Es, P in H. destruct H as (f' & L' & _ & C & _).
      rewrite Es in E. inversion E; subst p'. rewrite L in L'. inversion L'; subst. now apply cache_all_ok_evict.
    + intros P. unfold hinv in H. rewrite Es, P in H. destruct H as (_ & _ & -> & _). reflexivity.
  - unfold hinv in H. rewrite Es in H. tauto.
Qed.

Lemma do_evict_shape keep h : exists c, do_evict keep h = set_cache h c.
Proof.
  unfold do_evict. destruct (h_src h); eauto. exists (h_cache h). now rewrite set_cache_id.
Qed.

Lemma set_cache_twice h c c' : set_cache (set_cache h c) c' = set_cache h c'.
Proof. reflexivity. Qed.

Lemma iter_go_spec fs : files_ok fs -> forall m a h keeps acc,
  hinv fs h -> a + m = length (cur_items fs h) ->
  exists c, fst (iter_go fixed_cfg fs h (seq a m) keeps acc) = set_cache h c /\ hinv fs (set_cache h c) /\
            snd (iter_go fixed_cfg fs h (seq a m) keeps acc)
            = OItems (rev acc ++ map tag (skipn a (cur_items fs h))) None.
Proof.
  intros Fok. induction m as [|m IH]; intros a h keeps acc H Hl; cbn [seq iter_go].
  - exists (h_cache h). rewrite set_cache_id. repeat split; auto. cbn.
    rewrite skipn_all2 by lia. cbn. now rewrite app_nil_r.
  - destruct (get_item_spec fs h a H Fok) as (c & E1 & H1 & E2).
    destruct (get_item fixed_cfg fs h a) as [h1 r] eqn:G. cbn in E1, E2. subst h1.
    destruct (nth_error (cur_items fs h) a) as [x|] eqn:N.
    2:{ apply nth_error_None in N. lia. }
    subst r.
    set (h2 := match keeps with k :: _ => do_evict k (set_cache h c) | [] => set_cache h c end).
    assert (Hh2 : exists c2, h2 = set_cache h c2 /\ hinv fs h2).
    { unfold h2. destruct keeps as [|k ks].
      - eauto.
      - destruct (do_evict_shape k (set_cache h c)) as (c2 & Ec). exists c2.
        split; [now rewrite Ec, set_cache_twice|]. now apply hinv_do_evict. }
    destruct Hh2 as (c2 & Eh2 & Hh2).
    destruct (IH (S a) h2 (tl keeps) (tag x :: acc) Hh2) as (c3 & F1 & F2 & F3).
    { rewrite Eh2, cur_items_set_cache. lia. }
    exists c3. rewrite F1, F3, Eh2, set_cache_twice, cur_items_set_cache. repeat split.
    + now rewrite Eh2, set_cache_twice in F2.
    + cbn [rev]. rewrite <- app_assoc. cbn. do 2 f_equal.
      clear - N. revert a N. induction (cur_items fs h) as [|y l IHl]; intros [|a] N; cbn in *; try discriminate.
      * now inversion N.
      * now apply IHl.
Qed.

(* ------------------------------------------------------------------------------------------- *)
(* _reindex                                                                                    *)
(* ------------------------------------------------------------------------------------------- *)
Definition all_fresh (fs : fsys) : Prop :=
  forall q f, flookup q fs = Some (NFile f) -> f_hasidx f = true -> f_table f = mk_table (f_items f).

Lemma stale_false_or_mem fs h : hinv fs h -> h_indexable h <> Some true ->
  h_stale h = false \/ exists cap, h_src h = SrcMem cap.
Proof.
  unfold hinv. destruct (h_src h) as [cap|p|p]; [eauto| |tauto].
  destruct (h_pending h).
  - intros (_&_&_&_&S&_) _. now left.
  - intros (f & _ & _ & _ & _ & _ & _ & S) N. left. destruct (h_stale h); auto. now specialize (S eq_refl).
Qed.

Lemma all_fresh_of_inv fs h : Inv (mkW fs (Some h)) ->
  (h_stale h = false \/ exists cap, h_src h = SrcMem cap) -> all_fresh fs.
Proof.
  intros I Hs q f L E. destruct (inv_files _ I _ _ L) as (f' & E' & _ & Fr). inversion E'; subst f'. cbn in Fr.
  destruct Hs as [Hs|(cap & Hs)]; [eapply fresh_notstale | eapply fresh_mem]; eauto.
Qed.

Lemma reindex_ok fs h : Inv (mkW fs (Some h)) ->
  exists fs' h', reindex fixed_cfg fs h = inl (fs', h') /\
     Inv (mkW fs' (Some h')) /\ abs_fs fs' = abs_fs fs /\ abs_h h' = abs_h h /\
     h_src h' = h_src h /\ h_mode h' = h_mode h /\ h_indexable h' = h_indexable h /\
     h_mem h' = h_mem h /\ cur_items fs' h' = cur_items fs h /\ all_fresh fs'.
Proof.
  intros I. pose proof (inv_handle _ I _ eq_refl) as Hi. cbn in Hi.
  pose proof (all_fresh_of_inv fs h I) as U.
  assert (Same : (h_stale h = false \/ exists cap, h_src h = SrcMem cap) ->
     exists fs' h', @inl (fsys * handle) err (fs, h) = inl (fs', h') /\
     Inv (mkW fs' (Some h')) /\ abs_fs fs' = abs_fs fs /\ abs_h h' = abs_h h /\
     h_src h' = h_src h /\ h_mode h' = h_mode h /\ h_indexable h' = h_indexable h /\
     h_mem h' = h_mem h /\ cur_items fs' h' = cur_items fs h /\ all_fresh fs').
  { intros Hs. exists fs, h. repeat (split; [solve [auto]|]). auto. }
  unfold reindex.
  destruct (h_indexable h) as [[|]|] eqn:Ix.
  2,3: apply Same; eapply stale_false_or_mem; eauto; congruence.
  destruct (h_stale h) eqn:St; [|apply Same; now left].
  destruct (h_src h) as [cap|p|p] eqn:Es.
  - cbn. apply Same. right; eauto.
  - unfold hinv in Hi. rewrite Es in Hi. destruct (h_pending h) eqn:P.
    + destruct Hi as (_&_&_&Hx&_). congruence.
    + destruct Hi as (f & L & Sn & C & Nx & Hx & Rd & Stl). rewrite L.
      assert (Hidx : f_hasidx f = true) by congruence. rewrite Hidx.
      set (f' := mkNc (f_items f) (f_sig f) true (mk_table (f_items f))).
      exists (fupd p (NFile f') fs), (set_stale h false).
      assert (Hother : forall q g, q <> p -> flookup q fs = Some (NFile g) -> f_hasidx g = true ->
                                   f_table g = mk_table (f_items g)).
      { intros q g N Lq Eg. destruct (inv_files _ I _ _ Lq) as (g' & E' & _ & Fr). inversion E'; subst g'.
        cbn in Fr. eapply fresh_other; eauto. }
      split; [reflexivity|]. split; [|split; [|repeat split; auto]].
      * split; cbn.
        -- intros q n Lq. destruct (path_eq_dec p q) as [<-|N].
           ++ rewrite flookup_fupd_eq in Lq. inversion Lq; subst n. exists f'. split; auto. split.
              ** destruct (inv_files _ I _ _ L) as (g & E' & Ok & _). inversion E'; subst g.
                 unfold file_ok in *; cbn. now rewrite Hidx in Ok.
              ** apply fresh_left. reflexivity.
           ++ rewrite flookup_fupd_neq in Lq by auto.
              destruct (inv_files _ I _ _ Lq) as (g & E' & Ok & Fr). subst n. exists g. repeat split; auto.
              apply fresh_left. intros Eg. eapply Hother; eauto.
        -- intros h0 E0. inversion E0; subst h0. unfold hinv; cbn. rewrite Es, P.
           exists f'. rewrite flookup_fupd_eq. repeat split; auto; try congruence; try discriminate.
      * rewrite abs_fs_fupd. apply supd_same. rewrite slookup_abs, L. cbn. unfold abs_file; cbn. now rewrite Hidx.
      * unfold cur_items; cbn. rewrite Es, P, L. now rewrite flookup_fupd_eq.
      * intros q g Lq Eg. destruct (path_eq_dec p q) as [<-|N].
        -- rewrite flookup_fupd_eq in Lq. inversion Lq; subst g. reflexivity.
        -- rewrite flookup_fupd_neq in Lq by auto. eapply Hother; eauto.
  - unfold hinv in Hi. rewrite Es in Hi. tauto.
Qed.

(* ------------------------------------------------------------------------------------------- *)
(* add                                                                                         *)
(* ------------------------------------------------------------------------------------------- *)
Definition model_def (fs : fsys) (h : handle) : option (Z * bool) :=
  match store_sig fs h, h_indexable h with Some s, Some b => Some (s, b) | _, _ => None end.

Lemma s_def_abs fs h : hinv fs h -> s_def (abs (mkW fs (Some h))) (abs_h h) = model_def fs h.
Proof.
  unfold s_def, model_def, store_sig, abs_h, hinv; cbn.
  destruct (h_src h) as [cap|p|p]; cbn; [reflexivity| |tauto].
  rewrite slookup_abs. destruct (h_pending h).
  - intros (_ & -> & _). reflexivity.
  - intros (f & -> & _ & _ & _ & -> & _). reflexivity.
Qed.

Lemma def_cases fs h : hinv fs h ->
  (store_sig fs h = None /\ h_indexable h = None) \/
  (exists s b, store_sig fs h = Some s /\ h_indexable h = Some b).
Proof.
  unfold store_sig, hinv. destruct (h_src h) as [cap|p|p]; [| |tauto].
  - intros (_ & _ & [(_ & A & B)|(b & s & A & B & _)]); [left|right]; eauto.
  - destruct (h_pending h).
    + intros (_ & _ & _ & A & _). left; auto.
    + intros (f & -> & _ & _ & _ & A & _). right; eauto.
Qed.

Lemma has_id_is_some t : has_id t = is_some (t_fid t).
Proof. reflexivity. Qed.

Definition is_full (h : handle) (t : traj) : bool :=
  match h_src h with SrcMem cap => cap <? h_used h + t_size t | _ => false end.
Definition too_large (h : handle) (t : traj) : bool :=
  match h_src h with SrcMem cap => cap <? t_size t | _ => false end.

Lemma add_eq fs h t : hinv fs h -> h_mode h <> MRead ->
  (acceptable (model_def fs h) t = false /\
   exists e, add fixed_cfg fs h t = (fs, h, OErr e) /\ coarse (OErr e) = OErr EReject) \/
  (acceptable (model_def fs h) t = true /\
   add fixed_cfg fs h t = if too_large h t then (fs, h, OErr ETooLarge)
                          else if is_full h t then (fs, h, OErr EFull)
                          else (fst (insert fs h t true), snd (insert fs h t true), OIdx (h_next h))).
Proof.
  intros Hi Md. unfold add, is_full, too_large. cbn [fix_C10a fix_F6 fix_C07b fixed_cfg].
  destruct (h_mode h) eqn:Em; [congruence| |].
  all: unfold model_def, acceptable.
  all: destruct (def_cases fs h Hi) as [(Es & Ei)|(s & b & Es & Ei)]; rewrite Es, Ei; cbn [andb negb].
  all: try (destruct (Z.eqb s (t_sig t)) eqn:Esig; cbn [andb negb];
            [destruct (Bool.eqb b (has_id t)) eqn:Eid; cbn [andb negb]|]).
  all: destruct (t_kind t) eqn:Ek.
  all: try (left; split; [reflexivity|eexists; split; [reflexivity|reflexivity]]).
  all: right; split; [reflexivity|].
  all: destruct (insert fs h t true) as [fs1 h1]; cbn [fst snd];
       destruct (match h_src h with SrcMem cap => cap <? t_size t | _ => false end);
       destruct (match h_src h with SrcMem cap => cap <? h_used h + t_size t | _ => false end); reflexivity.
Qed.

Lemma insert_mem fs h t cap : h_src h = SrcMem cap ->
  insert fs h t true =
  (fs, mkH (SrcMem cap) (h_mode h) (S (h_next h)) (h_cache h) (h_mem h ++ [mkItem (t_tag t) (t_fid t) true (t_size t)])
           (h_snap h) (Some (match h_indexable h with Some b => b | None => has_id t end))
           (if match h_indexable h with Some b => b | None => has_id t end then true else h_stale h)
           (h_pending h) (match h_msig h with Some s => Some s | None => Some (t_sig t) end)
           (h_cap h) (h_used h + t_size t) (h_iters h)).
Proof. intros E. unfold insert. rewrite E. reflexivity. Qed.

Lemma insert_pending fs h t p : h_src h = SrcFile p -> h_pending h = true -> h_indexable h = None ->
  insert fs h t true =
  (fupd p (NFile (mkNc [item_of t true] (t_sig t) (has_id t) [])) fs,
   mkH (SrcFile p) (h_mode h) (S (h_next h))
       (if fits h (t_size t) then (h_next h, mkItem (t_tag t) (t_fid t) true (t_size t)) :: h_cache h else h_cache h) (h_mem h)
       (h_snap h) (Some (has_id t)) (if has_id t then true else h_stale h) false (h_msig h) (h_cap h) (h_used h) (h_iters h)).
Proof. intros E P Ix. unfold insert. rewrite E, P, Ix. reflexivity. Qed.

Lemma insert_open fs h t p f b : h_src h = SrcFile p -> h_pending h = false ->
  flookup p fs = Some (NFile f) -> h_indexable h = Some b ->
  insert fs h t true =
  (fupd p (NFile (mkNc (f_items f ++ [item_of t true]) (f_sig f) (f_hasidx f) (f_table f))) fs,
   mkH (SrcFile p) (h_mode h) (S (h_next h))
       (if fits h (t_size t) then (h_next h, mkItem (t_tag t) (t_fid t) true (t_size t)) :: h_cache h else h_cache h) (h_mem h)
       (h_snap h) (Some b) (if b then true else h_stale h) false (h_msig h) (h_cap h) (h_used h) (h_iters h)).
Proof. intros E P L Ix. unfold insert. rewrite E, P, L, Ix. reflexivity. Qed.

Lemma spec_add_reject s h t : s_h s = Some h -> sh_mode h <> MRead -> acceptable (s_def s h) t = false ->
  spec_step s (Add t) = (s, OErr EReject).
Proof.
  intros E M A. unfold spec_step. rewrite E. destruct (sh_mode h); [congruence| |]; now rewrite A.
Qed.

Lemma spec_add_accept s h t : s_h s = Some h -> sh_mode h <> MRead -> acceptable (s_def s h) t = true ->
  spec_step s (Add t) =
  match sh_loc h with
  | SLMem items cap def used =>
      if cap <? t_size t then (s, OErr ETooLarge)
      else if cap <? used + t_size t then (s, OErr EFull)
      else (mkSW (s_fs s)
                 (Some (mkSH (SLMem (items ++ [(t_tag t, t_fid t)]) cap
                                    (match def with Some d => Some d | None => Some (t_sig t, has_id t) end)
                                    (used + t_size t))
                             (sh_mode h) (sh_cap h) (sh_iters h))),
            OIdx (length items))
  | SLFile p =>
      let st := match slookup p (s_fs s) with Some st => st | None => mkS [] (t_sig t) (has_id t) end in
      (mkSW (supd p (mkS (ss_items st ++ [(t_tag t, t_fid t)]) (ss_sig st) (ss_ident st)) (s_fs s)) (Some h),
       OIdx (length (ss_items st)))
  end.
Proof.
  intros E M A. unfold spec_step. rewrite E. destruct (sh_mode h) eqn:Em; [congruence| |]; now rewrite A.
Qed.

Lemma Inv_files_mem fs h h1 cap : Inv (mkW fs (Some h)) -> h_src h = SrcMem cap ->
  forall p n, flookup p fs = Some n -> exists f, n = NFile f /\ file_ok f /\ fresh (Some h1) p f.
Proof.
  intros I Es p n L. destruct (inv_files _ I _ _ L) as (f & E & Ok & Fr). exists f. repeat split; auto.
  apply fresh_left. intros Ei. eapply fresh_mem; eauto.
Qed.

Lemma acceptable_inv d t : acceptable d t = true ->
  t_kind t = TOk /\ (forall s b, d = Some (s, b) -> s = t_sig t /\ b = has_id t).
Proof.
  unfold acceptable. destruct (t_kind t); [|discriminate]. intros H. split; auto.
  intros s b ->. apply andb_true_iff in H as [H1 H2]. apply Z.eqb_eq in H1. apply eqb_prop in H2. auto.
Qed.

Lemma accept_mem fs h t cap : Inv (mkW fs (Some h)) -> h_src h = SrcMem cap ->
  acceptable (model_def fs h) t = true ->
  fst (insert fs h t true) = fs /\ Inv (mkW fs (Some (snd (insert fs h t true)))) /\
  abs_h (snd (insert fs h t true))
  = mkSH (SLMem (map strip (h_mem h) ++ [(t_tag t, t_fid t)]) cap
                (match (match h_msig h, h_indexable h with Some s, Some b => Some (s, b) | _, _ => None end) with
                 | Some d => Some d | None => Some (t_sig t, has_id t) end) (h_used h + t_size t)) (h_mode h) (h_cap h) (h_iters h) /\
  h_next h = length (map strip (h_mem h)).
Proof.
  intros I Es A. pose proof (inv_handle _ I _ eq_refl) as Hi; cbn in Hi.
  rewrite (insert_mem fs h t cap Es). cbn [fst snd]. split; [reflexivity|].
  unfold hinv in Hi. rewrite Es in Hi. destruct Hi as (Md & Nx & D).
  apply acceptable_inv in A as (_ & A). unfold model_def, store_sig in A. rewrite Es in A.
  split; [|split].
  - split; cbn.
    + eapply Inv_files_mem; eauto.
    + intros h0 E0. injection E0 as <-. unfold hinv; cbn. split; auto. split; [rewrite app_length; cbn; lia|].
      right. destruct D as [(Em & Ei & Es')|(b & s & Ei & Es' & Ok & Ne)].
      * rewrite Em, Ei, Es'. exists (has_id t), (t_sig t).
        split; [reflexivity|split; [reflexivity|split; [|discriminate]]].
        cbn [app forallb]. now rewrite item_ok_new.
      * rewrite Ei, Es'. exists b, s. repeat split; auto.
        -- rewrite forallb_app_one, Ok. cbn. rewrite Ei, Es' in A. destruct (A s b eq_refl) as (_ & ->). apply item_ok_new.
        -- intros Hn. apply app_eq_nil in Hn as [_ Hn]. discriminate.
  - unfold abs_h; cbn. rewrite map_app. cbn. f_equal. f_equal.
    destruct D as [(Em & Ei & Es')|(b & s & Ei & Es' & Ok & Ne)]; rewrite Ei, Es'; reflexivity.
  - now rewrite map_length.
Qed.

Lemma accept_file fs h t p : Inv (mkW fs (Some h)) -> h_src h = SrcFile p -> h_mode h <> MRead ->
  acceptable (model_def fs h) t = true ->
  let st := match slookup p (abs_fs fs) with Some st => st | None => mkS [] (t_sig t) (has_id t) end in
  Inv (mkW (fst (insert fs h t true)) (Some (snd (insert fs h t true)))) /\
  abs_fs (fst (insert fs h t true))
  = supd p (mkS (ss_items st ++ [(t_tag t, t_fid t)]) (ss_sig st) (ss_ident st)) (abs_fs fs) /\
  abs_h (snd (insert fs h t true)) = abs_h h /\
  h_next h = length (ss_items st).
Proof.
  intros I Es Mr A st. pose proof (inv_handle _ I _ eq_refl) as Hi; cbn in Hi.
  apply acceptable_inv in A as (_ & A). unfold model_def, store_sig in A. rewrite Es in A.
  assert (Hother : forall q g, q <> p -> flookup q fs = Some (NFile g) -> f_hasidx g = true ->
                               f_table g = mk_table (f_items g)).
  { intros q g N Lq Eg. destruct (inv_files _ I _ _ Lq) as (g' & E' & _ & Fr). inversion E'; subst g'.
    cbn in Fr. eapply fresh_other; eauto. }
  unfold hinv in Hi. rewrite Es in Hi. destruct (h_pending h) eqn:P.
  - destruct Hi as (Md & L & Hc & Ix & St & Sn & Nx).
    rewrite (insert_pending fs h t p Es P Ix). cbn [fst snd].
    subst st. rewrite slookup_abs, L. cbn [option_map ss_items ss_sig ss_ident app].
    split; [|split; [|split]].
    + split; cbn.
      * intros q n Lq. destruct (path_eq_dec p q) as [<-|N].
        -- rewrite flookup_fupd_eq in Lq. injection Lq as <-. eexists. split; [reflexivity|]. split.
           ++ unfold file_ok; cbn. unfold item_of. cbn. now rewrite item_ok_new.
           ++ intros Ei. cbn in Ei. right. eexists. split; [reflexivity|]. cbn. rewrite Ei. auto.
        -- rewrite flookup_fupd_neq in Lq by auto.
           destruct (inv_files _ I _ _ Lq) as (g & E' & Ok & Fr). subst n. exists g. repeat split; auto.
           apply fresh_left. intros Eg. eapply Hother; eauto.
      * intros h0 E0. injection E0 as <-. unfold hinv; cbn.
        eexists. rewrite flookup_fupd_eq. split; [reflexivity|]. cbn. rewrite Nx, Hc.
        repeat split; auto.
        -- destruct (fits h (t_size t)); [|intros i x []]. intros i x [E|[]]. now injection E as <- <-.
        -- intros Em. congruence.
        -- destruct (has_id t); auto. congruence.
    + rewrite abs_fs_fupd. reflexivity.
    + unfold abs_h; cbn. now rewrite Es.
    + now rewrite Nx.
  - destruct Hi as (f & L & Sn & C & Nx & Ix & Rd & Stl).
    rewrite (insert_open fs h t p f (f_hasidx f) Es P L Ix). cbn [fst snd].
    subst st. rewrite slookup_abs, L. cbn [option_map abs_node abs_file ss_items ss_sig ss_ident].
    rewrite L, Ix in A. destruct (A _ _ eq_refl) as (Hs & Hb).
    destruct (inv_files _ I _ _ L) as (f0 & E0 & Ok & _). injection E0 as <-.
    split; [|split; [|split]].
    + split; cbn.
      * intros q n Lq. destruct (path_eq_dec p q) as [<-|N].
        -- rewrite flookup_fupd_eq in Lq. injection Lq as <-. eexists. split; [reflexivity|]. split.
           ++ unfold file_ok in *; cbn. rewrite forallb_app_one, Ok. cbn. unfold item_of. rewrite Hb. apply item_ok_new.
           ++ intros Ei. cbn in Ei. right. eexists. split; [reflexivity|]. cbn. rewrite Ei. auto.
        -- rewrite flookup_fupd_neq in Lq by auto.
           destruct (inv_files _ I _ _ Lq) as (g & E' & Ok' & Fr). subst n. exists g. repeat split; auto.
           apply fresh_left. intros Eg. eapply Hother; eauto.
      * intros h0 E0. injection E0 as <-. unfold hinv; cbn.
        eexists. rewrite flookup_fupd_eq. split; [reflexivity|]. cbn.
        repeat split; auto.
        -- destruct (fits h (t_size t)); [|now apply cache_all_ok_app].
           apply cache_all_ok_cons; [now apply cache_all_ok_app|].
           rewrite (Nx Mr), nth_error_app2 by lia. now rewrite Nat.sub_diag.
        -- intros _. rewrite app_length; cbn. rewrite (Nx Mr). lia.
        -- intros Em. contradiction.
        -- destruct (f_hasidx f); auto. intros Hst. specialize (Stl Hst). congruence.
    + rewrite abs_fs_fupd. cbn. unfold abs_file; cbn. now rewrite map_app.
    + unfold abs_h; cbn. now rewrite Es.
    + rewrite (Nx Mr). now rewrite map_length.
Qed.

Lemma add_refines fs h t fs1 h1 r : Inv (mkW fs (Some h)) -> add fixed_cfg fs h t = (fs1, h1, r) ->
  Inv (mkW fs1 (Some h1)) /\
  spec_step (abs (mkW fs (Some h))) (Add t) = (abs (mkW fs1 (Some h1)), coarse r).
Proof.
  intros I E. pose proof (inv_handle _ I _ eq_refl) as Hi; cbn in Hi.
  pose proof (s_def_abs fs h Hi) as Hdef.
  destruct (h_mode h) eqn:Md.
  { unfold add in E. rewrite Md in E. injection E as <- <- <-. split; auto.
    unfold spec_step; cbn. now rewrite Md. }
  all: assert (Mr : h_mode h <> MRead) by congruence.
  all: assert (Mr' : sh_mode (abs_h h) <> MRead) by (cbn; congruence).
  all: destruct (add_eq fs h t Hi Mr) as [(A & e & Ea & Ec)|(A & Ea)]; rewrite Ea in E.
  1,3: injection E as <- <- <-; split; auto; rewrite Ec;
       apply spec_add_reject with (h := abs_h h); auto; now rewrite Hdef.
  all: rewrite (spec_add_accept (abs (mkW fs (Some h))) (abs_h h) t eq_refl Mr') by (now rewrite Hdef).
  all: unfold is_full, too_large, cache_cap in E; destruct (h_src h) as [cap|p|p] eqn:Es.
  all: try (unfold hinv in Hi; rewrite Es in Hi; tauto).
  all: cbn [abs_h sh_loc sh_cap]; rewrite ?Es; cbn [sh_loc sh_cap].
  1,3: destruct (cap <? t_size t);
       [injection E as <- <- <-; split; auto
       | destruct (cap <? h_used h + t_size t);
         [injection E as <- <- <-; split; auto
         | destruct (accept_mem fs h t cap I Es A) as (F1 & F2 & F3 & F4);
           injection E as <- <- <-; rewrite F1; split; auto;
           unfold abs; cbn [w_fs w_h option_map s_fs]; rewrite F3, F4, map_length; reflexivity]].
  all: destruct (accept_file fs h t p I Es Mr A) as (F1 & F2 & F3 & F4);
       injection E as <- <- <-; split; auto;
       unfold abs; cbn [w_fs w_h option_map s_fs]; rewrite F2, F3, F4; reflexivity.
Qed.

(* ------------------------------------------------------------------------------------------- *)
(* cache-only changes keep the invariant and the abstraction                                    *)
(* ------------------------------------------------------------------------------------------- *)
Lemma Inv_set_cache fs h c : Inv (mkW fs (Some h)) -> hinv fs (set_cache h c) ->
  Inv (mkW fs (Some (set_cache h c))).
Proof.
  intros I H. split; cbn.
  - intros p n L. destruct (inv_files _ I _ _ L) as (f & E & Ok & Fr). exists f. repeat split; auto.
    intros Ei. destruct (Fr Ei) as [|(h0 & E0 & S0 & T0)]; [now left|right].
    cbn in E0. injection E0 as <-. eexists. split; [reflexivity|]. cbn. auto.
  - intros h0 E0. injection E0 as <-. exact H.
Qed.

Lemma Inv_set_iters fs h its : Inv (mkW fs (Some h)) -> Inv (mkW fs (Some (set_iters h its))).
Proof.
  intros I. split; cbn.
  - intros p n L. destruct (inv_files _ I _ _ L) as (f & E & Ok & Fr). exists f. repeat split; auto.
    intros Ei. destruct (Fr Ei) as [|(h0 & E0 & S0 & T0)]; [now left|right].
    cbn in E0. injection E0 as <-. eexists. split; [reflexivity|]. cbn. auto.
  - intros h0 E0. injection E0 as <-. exact (inv_handle _ I _ eq_refl).
Qed.

Lemma abs_set_cache fs h c : abs (mkW fs (Some (set_cache h c))) = abs (mkW fs (Some h)).
Proof. reflexivity. Qed.

(* ------------------------------------------------------------------------------------------- *)
(* get_flight                                                                                  *)
(* ------------------------------------------------------------------------------------------- *)
Lemma model_def_not_indexed fs h : hinv fs h -> h_indexable h <> Some true ->
  match model_def fs h with Some (_, true) => False | _ => True end.
Proof.
  intros Hi N. unfold model_def. destruct (def_cases fs h Hi) as [(Ea & Eb)|(s & b & Ea & Eb)]; rewrite Ea; auto.
  rewrite Eb. destruct b; auto.
Qed.

Lemma get_flight_refines fs h id fs1 h1 r : Inv (mkW fs (Some h)) -> NoDup (ids_of (cur_items fs h)) ->
  get_flight fixed_cfg fs h id = (fs1, h1, r) ->
  Inv (mkW fs1 (Some h1)) /\
  spec_step (abs (mkW fs (Some h))) (GetFlight id) = (abs (mkW fs1 (Some h1)), coarse r).
Proof.
  intros I N E. pose proof (inv_handle _ I _ eq_refl) as Hi; cbn in Hi.
  unfold spec_step. cbn [abs s_h w_h option_map].
  change (mkSW (abs_fs (w_fs (mkW fs (Some h)))) (Some (abs_h h))) with (abs (mkW fs (Some h))).
  rewrite (s_def_abs fs h Hi), (s_items_abs (mkW fs (Some h)) h eq_refl Hi). cbn [w_fs].
  unfold get_flight in E.
  destruct (h_indexable h) as [[|]|] eqn:Ix.
  2,3: injection E as <- <- <-; split; auto;
       pose proof (model_def_not_indexed fs h Hi) as M; rewrite Ix in M;
       destruct (model_def fs h) as [[s [|]]|]; auto; exfalso; apply M; congruence.
  destruct (reindex_ok fs h I) as (fs' & h' & Er & I' & Afs & Ah & Esrc & Emode & Eix & Emem & Ecur & Fr).
  rewrite Er in E.
  assert (Hd : exists s, model_def fs h = Some (s, true)).
  { unfold model_def. destruct (def_cases fs h Hi) as [(_ & C)|(s & b & -> & Eb)]; [congruence|].
    rewrite Eb. exists s. congruence. }
  destruct Hd as (s & ->).
  assert (Habs : abs (mkW fs' (Some h')) = abs (mkW fs (Some h))).
  { unfold abs; cbn [w_fs w_h option_map]. now rewrite Afs, Ah. }
  pose proof (inv_handle _ I' _ eq_refl) as Hi'; cbn in Hi'.
  rewrite <- Ecur in *.
  destruct (h_src h') as [cap|p|p] eqn:Es'.
  - cbn [fix_F8 fixed_cfg] in E. injection E as <- <- <-. split; auto. rewrite Habs. f_equal.
    unfold cur_items. rewrite Es'. rewrite <- mem_find_sfind. destruct (mem_find id (h_mem h')); reflexivity.
  - unfold hinv in Hi'. rewrite Es' in Hi'. destruct (h_pending h') eqn:P.
    { destruct Hi' as (_&_&_&C&_). congruence. }
    destruct Hi' as (f & L & Sn & C & Nx & Hx & Rd & Stl).
    rewrite L in E. assert (Hidx : f_hasidx f = true) by congruence. rewrite Hidx in E.
    rewrite (Fr _ _ L Hidx) in E.
    assert (Hcur : cur_items fs' h' = f_items f) by (unfold cur_items; now rewrite Es', P, L).
    rewrite Hcur in *.
    destruct (table_lookup id (mk_table (f_items f))) as [idx|] eqn:T.
    + apply mk_table_lookup in T as (it & Hn & Hf); auto.
      destruct (get_item_spec fs' h' idx (inv_handle _ I' _ eq_refl) (Inv_files_ok _ I')) as (c & G1 & G2 & G3).
      destruct (get_item fixed_cfg fs' h' idx) as [h2 rr]. cbn in G1, G2, G3. subst h2.
      rewrite Hcur, Hn in G3. subst rr. injection E as <- <- <-.
      split; [now apply Inv_set_cache|]. rewrite abs_set_cache, Habs. f_equal.
      now rewrite (sfind_unique id (f_items f) N idx it Hn Hf).
    + apply mk_table_lookup_none in T; auto. injection E as <- <- <-. split; auto. rewrite Habs. f_equal.
      now rewrite sfind_none.
  - unfold hinv in Hi'. rewrite Es' in Hi'. tauto.
Qed.

(* ------------------------------------------------------------------------------------------- *)
(* one step, then whole histories                                                              *)
(* ------------------------------------------------------------------------------------------- *)
Definition no_merge (o : op) : Prop :=
  match o with Merge _ _ _ | Inject _ _ | GetA _ _ => False | _ => True end.

(* "additions with distinct identifiers": when an identifier is looked up, the store holds no
   identifier twice *)
Definition sop_ok (s : sworld) (o : op) : Prop :=
  match o, s_h s with
  | GetFlight _, Some h => NoDup (sids (s_items s h))
  | _, _ => True
  end.

Lemma Inv_open fs h : Inv (mkW fs None) -> hinv fs h -> Inv (mkW fs (Some h)).
Proof.
  intros I H. split; cbn.
  - intros p n L. destruct (inv_files _ I _ _ L) as (f & E & Ok & Fr). exists f. repeat split; auto.
    apply fresh_left. now apply (fresh_none p).
  - intros h0 E0. now injection E0 as <-.
Qed.

Lemma Inv_close fs h : Inv (mkW fs (Some h)) -> all_fresh fs -> Inv (mkW fs None).
Proof.
  intros I Fr. split; cbn; [|discriminate].
  intros p n L. destruct (inv_files _ I _ _ L) as (f & E & Ok & _). exists f. repeat split; auto.
  apply fresh_left. subst n. eauto.
Qed.

Lemma map_fst_strip l : map fst (map strip l) = map tag l.
Proof. rewrite map_map. reflexivity. Qed.

Lemma nth_error_strip l i : nth_error (map strip l) i = option_map strip (nth_error l i).
Proof. apply nth_error_map. Qed.

Theorem step_refines w o w' r : Inv w -> sop_ok (abs w) o -> no_merge o ->
  step fixed_cfg w o = (w', r) -> Inv w' /\ spec_step (abs w) o = (abs w', coarse r).
Proof.
  intros I Ok Nm E. destruct w as [fs [h|]].
  - (* a live handle *)
    pose proof (inv_handle _ I _ eq_refl) as Hi; cbn in Hi.
    destruct o; try contradiction Nm; cbn [step w_h w_fs] in E.
    + injection E as <- <-. auto.
    + injection E as <- <-. auto.
    + injection E as <- <-. auto.
    + injection E as <- <-. auto.
    + (* Add *)
      destruct (add fixed_cfg fs h t) as [[fs1 h1] r1] eqn:Ea. injection E as <- <-.
      eapply add_refines; eauto.
    + (* Get *)
      destruct (get_item_spec fs h i Hi (Inv_files_ok _ I)) as (c & G1 & G2 & G3).
      destruct (get_item fixed_cfg fs h i) as [h1 rr]. cbn in G1, G2, G3. subst h1 rr. injection E as <- <-.
      split; [now apply Inv_set_cache|]. rewrite abs_set_cache.
      unfold spec_step. cbn [abs s_h w_h option_map].
      change (mkSW (abs_fs (w_fs (mkW fs (Some h)))) (Some (abs_h h))) with (abs (mkW fs (Some h))).
      rewrite (s_items_abs (mkW fs (Some h)) h eq_refl Hi). cbn [w_fs]. rewrite nth_error_strip.
      destruct (nth_error (cur_items fs h) i); reflexivity.
    + (* Len *)
      injection E as <- <-. split; auto. unfold spec_step. cbn [abs s_h w_h option_map].
      change (mkSW (abs_fs (w_fs (mkW fs (Some h)))) (Some (abs_h h))) with (abs (mkW fs (Some h))).
      rewrite (s_items_abs (mkW fs (Some h)) h eq_refl Hi). cbn [w_fs].
      now rewrite map_length, (store_len_cur fs h Hi).
    + (* Iter *)
      rewrite (store_len_cur fs h Hi) in E. unfold seqn in E.
      destruct (iter_go_spec fs (Inv_files_ok _ I) (length (cur_items fs h)) 0 h keeps [] Hi eq_refl)
        as (c & G1 & G2 & G3).
      destruct (iter_go fixed_cfg fs h (seq 0 (length (cur_items fs h))) keeps []) as [h1 rr].
      cbn in G1, G2, G3. subst h1 rr. injection E as <- <-.
      split; [now apply Inv_set_cache|]. rewrite abs_set_cache.
      unfold spec_step. cbn [abs s_h w_h option_map].
      change (mkSW (abs_fs (w_fs (mkW fs (Some h)))) (Some (abs_h h))) with (abs (mkW fs (Some h))).
      rewrite (s_items_abs (mkW fs (Some h)) h eq_refl Hi). cbn [w_fs].
      now rewrite map_fst_strip.
    + (* Sync *)
      unfold spec_step. cbn [abs s_h w_h option_map]. replace (sh_mode (abs_h h)) with (h_mode h) by reflexivity.
      destruct (reindex_ok fs h I) as (fs' & h' & Er & I' & Afs & Ah & _).
      rewrite Er in E.
      destruct (h_mode h); injection E as <- <-; split; auto.
      all: unfold abs; cbn [w_fs w_h option_map]; now rewrite Afs, Ah.
    + (* Close *)
      destruct (reindex_ok fs h I) as (fs' & h' & Er & I' & Afs & Ah & _ & _ & _ & _ & _ & Fr).
      rewrite Er in E. injection E as <- <-. split; [eapply Inv_close; eauto|].
      unfold spec_step, abs; cbn [w_fs w_h option_map s_h s_fs]. now rewrite Afs.
    + (* GetFlight *)
      destruct (get_flight fixed_cfg fs h id) as [[fs1 h1] r1] eqn:Eg. injection E as <- <-.
      eapply get_flight_refines; eauto.
      cbn in Ok. change (mkSW (abs_fs fs) (Some (abs_h h))) with (abs (mkW fs (Some h))) in Ok.
      rewrite (s_items_abs (mkW fs (Some h)) h eq_refl Hi), sids_strip in Ok. exact Ok.
    + (* Evict *)
      injection E as <- <-. destruct (do_evict_shape keep h) as (c & Ec).
      pose proof (hinv_do_evict fs h keep Hi) as H2. rewrite Ec in *.
      split; [now apply Inv_set_cache|]. now rewrite abs_set_cache.
    + (* IterNew: a fresh cursor for iterator k; nothing else changes *)
      injection E as <- <-. split; [now apply Inv_set_iters|]. reflexivity.
    + (* IterNext: only iterator k's cursor moves *)
      unfold spec_step. cbn [abs s_h w_h option_map].
      change (mkSW (abs_fs (w_fs (mkW fs (Some h)))) (Some (abs_h h))) with (abs (mkW fs (Some h))).
      rewrite (s_items_abs (mkW fs (Some h)) h eq_refl Hi). cbn [w_fs].
      replace (sh_iters (abs_h h)) with (h_iters h) by reflexivity.
      destruct (alookup Nat.eqb k (h_iters h)) as [cur|] eqn:Ek; [|injection E as <- <-; auto].
      rewrite (store_len_cur fs h Hi) in E. rewrite nth_error_strip.
      destruct (get_item_spec fs h cur Hi (Inv_files_ok _ I)) as (c & G1 & G2 & G3).
      destruct (cur <? length (cur_items fs h)) eqn:Elt.
      * apply Nat.ltb_lt in Elt.
        destruct (nth_error (cur_items fs h) cur) as [x|] eqn:N; [|apply nth_error_None in N; lia].
        destruct (get_item fixed_cfg fs h cur) as [h1 rr]. cbn in G1, G2, G3. subst h1 rr.
        injection E as <- <-. split.
        -- apply Inv_set_iters. now apply Inv_set_cache.
        -- reflexivity.
      * apply Nat.ltb_ge in Elt. apply nth_error_None in Elt. rewrite Elt.
        injection E as <- <-. auto.
  - (* no handle *)
    destruct o; try contradiction Nm; cbn [step w_h w_fs] in E;
      try (injection E as <- <-; split; [assumption|reflexivity]).
    + (* Create *)
      unfold spec_step; cbn [abs s_h w_h w_fs option_map s_fs]. rewrite slookup_abs.
      destruct (flookup p fs) eqn:L; injection E as <- <-; cbn [option_map]; [auto|].
      split; [|reflexivity]. apply Inv_open; auto. unfold hinv; cbn. repeat split; auto.
    + (* CreateMem *)
      injection E as <- <-. split; [|reflexivity]. apply Inv_open; auto. unfold hinv; cbn. intuition.
    + (* OpenR *)
      unfold spec_step; cbn [abs s_h w_h w_fs option_map s_fs]. rewrite slookup_abs.
      destruct (flookup p fs) as [n|] eqn:L; cbn [option_map]; [|injection E as <- <-; auto].
      destruct (inv_files _ I _ _ L) as (f & -> & Okf & Fr). injection E as <- <-.
      split; [|reflexivity]. apply Inv_open; auto. unfold hinv, open_file; cbn.
      exists f. repeat split; auto; try discriminate; try congruence.
      * intros i x [].
      * now destruct (f_hasidx f).
    + (* OpenA *)
      unfold spec_step; cbn [abs s_h w_h w_fs option_map s_fs]. rewrite slookup_abs.
      destruct (flookup p fs) as [n|] eqn:L; cbn [option_map]; [|injection E as <- <-; auto].
      destruct (inv_files _ I _ _ L) as (f & -> & Okf & Fr). injection E as <- <-.
      split; [|reflexivity]. apply Inv_open; auto. unfold hinv, open_file; cbn.
      exists f. repeat split; auto; try discriminate; try congruence.
      * intros i x [].
      * now destruct (f_hasidx f).
Qed.

Fixpoint hist_ok (s : sworld) (ops : list op) : Prop :=
  match ops with
  | [] => True
  | o :: r => no_merge o /\ sop_ok s o /\ hist_ok (fst (spec_step s o)) r
  end.

Theorem run_refines ops : forall w, Inv w -> hist_ok (abs w) ops ->
  Inv (fst (run fixed_cfg w ops)) /\
  abs (fst (run fixed_cfg w ops)) = fst (spec_run (abs w) ops) /\
  map coarse (snd (run fixed_cfg w ops)) = snd (spec_run (abs w) ops).
Proof.
  induction ops as [|o r IH]; intros w I H; cbn [run spec_run].
  - cbn. auto.
  - destruct H as (Nm & Ok & Hr).
    destruct (step fixed_cfg w o) as [w1 x] eqn:Es.
    destruct (step_refines w o w1 x I Ok Nm Es) as (I1 & Sp). rewrite Sp in *. cbn [fst] in Hr.
    destruct (IH w1 I1 Hr) as (I2 & A2 & O2).
    destruct (run fixed_cfg w1 r) as [w2 xs]. destruct (spec_run (abs w1) r) as [s2 ys].
    cbn [fst snd map] in *. split; [assumption|]. split; [assumption|]. now f_equal.
Qed.

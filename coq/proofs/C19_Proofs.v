(* C19 — lemmas, over the real instance of the model text. *)
From Coq Require Import ZArith Reals List Bool Arith Lra Lia Psatz.
From AV Require Import lib.Num model.C19_Model.
Import ListNotations.
Local Open Scope R_scope.

(* expose the real operations without unfolding [RNum] where it occurs as a type index *)
Ltac rn := change (@leb RNum) with Rleb in *; change (@ltb RNum) with Rltb in *; change (@eqb RNum) with Reqb in *;
           change (@add RNum) with Rplus in *; change (@sub RNum) with Rminus in *;
           change (@mul RNum) with Rmult in *; change (@div RNum) with Rdiv in *;
           change (@nabs RNum) with Rabs in *;
           change (@zero RNum) with 0 in *; change (@one RNum) with 1 in *; change (T RNum) with R in *.

Ltac dif := match goal with |- context [if ?c then _ else _] => destruct c end.

Lemma c_two_R : @c_two RNum = 2.
Proof. unfold c_two. cbv [lit RNum]. lra. Qed.
Lemma c_zero_lit_R : @c_zero_lit RNum = 0.
Proof. unfold c_zero_lit. cbv [lit RNum]. lra. Qed.

Notation burnR := (@burn_rate RNum).
Notation cumtrapR := (@cumtrap RNum).
Notation upfR := (@update_forward RNum).
Notation upbR := (@update_backward RNum).

(* ------------------------------------------------------------------ *)
(* list predicates                                                     *)
(* ------------------------------------------------------------------ *)

Fixpoint nondec (l : list R) : Prop :=
  match l with a :: ((b :: _) as r) => a <= b /\ nondec r | _ => True end.
Fixpoint noninc (l : list R) : Prop :=
  match l with a :: ((b :: _) as r) => b <= a /\ noninc r | _ => True end.

Definition all_nonneg (l : list R) : Prop := forall x, In x l -> 0 <= x.

Lemma all_nonneg_tl a l : all_nonneg (a :: l) -> all_nonneg l.
Proof. intros H x Hx. apply H. right. exact Hx. Qed.

Lemma noninc_nth l : noninc l -> forall k, (S k < length l)%nat -> nth (S k) l 0 <= nth k l 0.
Proof.
  induction l as [|a r IH]; intros H k Hk; [simpl in Hk; lia|].
  destruct r as [|b r']; [simpl in Hk; lia|]. destruct H as [H1 H2].
  destruct k as [|k]; [exact H1|]. apply (IH H2 k). simpl in Hk |- *. lia.
Qed.

Lemma noninc_map_sub m0 l : nondec l -> noninc (map (fun c => m0 - c) l).
Proof.
  induction l as [|a r IH]; intros H; [exact I|]. destruct r as [|b r']; [exact I|].
  destruct H as [H1 H2]. split; [lra|]. apply IH. exact H2.
Qed.

Lemma nondec_map_add m0 l : nondec l -> nondec (map (fun c => m0 + c) l).
Proof.
  induction l as [|a r IH]; intros H; [exact I|]. destruct r as [|b r']; [exact I|].
  destruct H as [H1 H2]. split; [lra|]. apply IH. exact H2.
Qed.

Lemma nondec_app_one l x : nondec l -> (forall y, In y l -> y <= x) -> nondec (l ++ [x]).
Proof.
  induction l as [|a r IH]; intros H Hx; [exact I|].
  destruct r as [|b r'].
  - simpl. split; [apply Hx; left; reflexivity|exact I].
  - destruct H as [H1 H2]. change ((a :: b :: r') ++ [x]) with (a :: ((b :: r') ++ [x])).
    change ((b :: r') ++ [x]) with (b :: (r' ++ [x])) at 1.
    split; [exact H1|]. apply IH; [exact H2|]. intros y Hy. apply Hx. right. exact Hy.
Qed.

Lemma nondec_hd_le l : nondec l -> forall y, In y l -> hd 0 l <= y.
Proof.
  induction l as [|a r IH]; intros H y Hy; [contradiction|].
  destruct Hy as [->|Hy]; [simpl; lra|].
  destruct r as [|b r']; [contradiction|]. destruct H as [H1 H2].
  specialize (IH H2 y Hy). simpl in IH |- *. lra.
Qed.

(* reversing a non-decreasing list gives a non-increasing one *)
Lemma noninc_rev l : nondec l -> noninc (rev l).
Proof.
  induction l as [|a r IH]; intros H; [exact I|].
  destruct r as [|b r']; [exact I|]. destruct H as [H1 H2].
  change (rev (a :: b :: r')) with (rev (b :: r') ++ [a]).
  assert (Hall : forall y, In y (rev (b :: r')) -> a <= y).
  { intros y Hy. apply in_rev in Hy. assert (Hb := nondec_hd_le (b :: r') H2 y Hy). simpl in Hb. lra. }
  specialize (IH H2). revert IH Hall. generalize (rev (b :: r')). clear.
  induction l as [|x s IHs]; intros Hn Hall; [exact I|].
  destruct s as [|y s'].
  - simpl. split; [apply Hall; left; reflexivity|exact I].
  - destruct Hn as [Hn1 Hn2]. change ((x :: y :: s') ++ [a]) with (x :: ((y :: s') ++ [a])).
    change ((y :: s') ++ [a]) with (y :: (s' ++ [a])) at 1.
    split; [exact Hn1|]. apply IHs; [exact Hn2|]. intros z Hz. apply Hall. right. exact Hz.
Qed.

(* ------------------------------------------------------------------ *)
(* burn rate and cumulative trapezoid                                  *)
(* ------------------------------------------------------------------ *)

Lemma burn_rate_bounds (s : R) : 0 <= burnR s <= 1.
Proof.
  unfold burn_rate. rn. destruct (Rltb s 1) eqn:E; [lra|].
  apply Rltb_false in E. unfold Rdiv. rewrite Rmult_1_l.
  assert (0 < / s) by (apply Rinv_0_lt_compat; lra).
  split; [lra|]. rewrite <- Rinv_1. apply Rinv_le_contravar; lra.
Qed.

(* where fuel is burnt at a positive rate not exceeding 1 kg per metre, the rate is flow / ground speed *)
Lemma burn_rate_is_flow_over_speed (gs ff : R) : 0 < ff -> ff <= gs -> burnR (gs / ff) = ff / gs.
Proof.
  intros Hf Hg. unfold burn_rate. rn.
  assert (H1 : 1 <= gs / ff).
  { apply Rmult_le_reg_r with ff; [exact Hf|]. unfold Rdiv. rewrite Rmult_assoc, Rinv_l by lra. lra. }
  replace (Rltb (gs / ff) 1) with false by (symmetry; apply Rltb_false; exact H1).
  field. split; lra.
Qed.

Lemma map_burn_nonneg l : all_nonneg (map burnR l).
Proof. intros x Hx. apply in_map_iff in Hx. destruct Hx as (s & <- & _). apply burn_rate_bounds. Qed.

Lemma cumtrap_cons (acc d y0 y1 : R) dr r :
  cumtrapR acc (d :: dr) (y0 :: y1 :: r) = acc :: cumtrapR (acc + d * (y1 + y0) / 2) dr (y1 :: r).
Proof.
  transitivity (acc :: cumtrapR (acc + d * (y1 + y0) / @c_two RNum) dr (y1 :: r)); [reflexivity|].
  rewrite c_two_R. reflexivity.
Qed.

Lemma cumtrap_hd (acc : R) ds ys : hd 0 (cumtrapR acc ds ys) = acc.
Proof. destruct ys as [|y0 [|y1 r]]; destruct ds; reflexivity. Qed.

Lemma cumtrap_nonempty (acc : R) ds ys : cumtrapR acc ds ys <> [].
Proof. destruct ys as [|y0 [|y1 r]]; destruct ds; discriminate. Qed.

Lemma cumtrap_nondec : forall ys ds (acc : R), all_nonneg ds -> all_nonneg ys -> nondec (cumtrapR acc ds ys).
Proof.
  induction ys as [|y0 r IH]; intros ds acc Hd Hy; [exact I|].
  destruct r as [|y1 r']; [exact I|]. destruct ds as [|d dr]; [exact I|].
  rewrite cumtrap_cons.
  assert (H0 : 0 <= d * (y1 + y0) / 2).
  { assert (0 <= d) by (apply Hd; left; reflexivity).
    assert (0 <= y0) by (apply Hy; left; reflexivity).
    assert (0 <= y1) by (apply Hy; right; left; reflexivity). nra. }
  specialize (IH dr (acc + d * (y1 + y0) / 2) (all_nonneg_tl _ _ Hd) (all_nonneg_tl _ _ Hy)).
  assert (Hh := cumtrap_hd (acc + d * (y1 + y0) / 2) dr (y1 :: r')).
  destruct (cumtrapR (acc + d * (y1 + y0) / 2) dr (y1 :: r')) as [|c cs] eqn:Ec.
  - exact I.
  - simpl in Hh. subst c. split; [lra|exact IH].
Qed.

Lemma nth0_hd (l : list R) : nth 0 l 0 = hd 0 l.
Proof. destruct l; reflexivity. Qed.

(* each step of the running integral is the trapezoid of that segment *)
Lemma cumtrap_step : forall ys ds (acc : R) k, (S k < length ys)%nat -> (k < length ds)%nat ->
  nth (S k) (cumtrapR acc ds ys) 0 - nth k (cumtrapR acc ds ys) 0 = nth k ds 0 * (nth (S k) ys 0 + nth k ys 0) / 2.
Proof.
  induction ys as [|y0 r IH]; intros ds acc k Hy Hd; [simpl in Hy; lia|].
  destruct r as [|y1 r']; [simpl in Hy; lia|]. destruct ds as [|d dr]; [simpl in Hd; lia|].
  rewrite cumtrap_cons. destruct k as [|k].
  - cbn [nth]. rewrite nth0_hd, cumtrap_hd. lra.
  - cbn [nth]. rewrite IH by (simpl in Hy, Hd |- *; lia). reflexivity.
Qed.

Lemma cumtrap_length : forall ys ds (acc : R), (length ds = length ys - 1)%nat -> ys <> [] ->
  length (cumtrapR acc ds ys) = length ys.
Proof.
  induction ys as [|y0 r IH]; intros ds acc Hl Hne; [contradiction|].
  destruct r as [|y1 r']; [reflexivity|]. destruct ds as [|d dr]; [simpl in Hl; lia|].
  rewrite cumtrap_cons. simpl length. f_equal. apply IH; [simpl in Hl |- *; lia|discriminate].
Qed.

(* ------------------------------------------------------------------ *)
(* forward / backward update                                           *)
(* ------------------------------------------------------------------ *)

Lemma hd_map_cumtrap (f : R -> R) (acc : R) ds ys : hd 0 (map f (cumtrapR acc ds ys)) = f acc.
Proof.
  assert (H := cumtrap_hd acc ds ys). assert (Hn := cumtrap_nonempty acc ds ys).
  destruct (cumtrapR acc ds ys) as [|c cs]; [contradiction|]. simpl in *. subst. reflexivity.
Qed.

Lemma update_forward_hd (mass sgr ds : list R) : hd 0 (upfR mass sgr ds) = hd 0 mass.
Proof. unfold update_forward. rn. rewrite hd_map_cumtrap. lra. Qed.

Lemma update_forward_nonempty (mass sgr ds : list R) : upfR mass sgr ds <> [].
Proof.
  unfold update_forward. intros H. apply map_eq_nil in H. revert H. apply cumtrap_nonempty.
Qed.

Lemma update_forward_noninc (mass sgr ds : list R) : all_nonneg ds -> noninc (upfR mass sgr ds).
Proof.
  intros Hd. unfold update_forward. rn. apply noninc_map_sub. apply cumtrap_nondec; [exact Hd|apply map_burn_nonneg].
Qed.

Lemma nth_map_default (f : R -> R) l k : (k < length l)%nat -> nth k (map f l) 0 = f (nth k l 0).
Proof. intros H. rewrite (nth_indep _ 0 (f 0)) by (rewrite map_length; exact H). apply map_nth. Qed.

(* decrease of mass over step k = trapezoid of the burn rate over that segment *)
Lemma update_forward_step (mass sgr ds : list R) k :
  (length ds = length sgr - 1)%nat -> (S k < length sgr)%nat ->
  nth k (upfR mass sgr ds) 0 - nth (S k) (upfR mass sgr ds) 0
  = nth k ds 0 * (burnR (nth (S k) sgr 0) + burnR (nth k sgr 0)) / 2.
Proof.
  intros Hl Hk. unfold update_forward. rn.
  assert (Hlen : length (cumtrapR 0 ds (map burnR sgr)) = length sgr).
  { rewrite cumtrap_length; rewrite ?map_length; [reflexivity|exact Hl|]. destruct sgr; [simpl in Hk; lia|discriminate]. }
  rn. rewrite !nth_map_default by lia.
  assert (Hkd : (k < length ds)%nat) by lia.
  assert (Hs := cumtrap_step (map burnR sgr) ds 0 k). rewrite map_length in Hs.
  specialize (Hs Hk Hkd). rn.
  rewrite !nth_map_default in Hs by lia. lra.
Qed.

Lemma last_rev_hd (l : list R) : last (rev l) 0 = hd 0 l.
Proof. destruct l as [|a r]; [reflexivity|]. simpl. apply last_last. Qed.

Lemma update_backward_last b (mass sgr ds : list R) : last (upbR b mass sgr ds) 0 = last mass 0.
Proof. unfold update_backward. rewrite last_rev_hd. rn. rewrite hd_map_cumtrap. lra. Qed.

Lemma all_nonneg_rev l : all_nonneg l -> all_nonneg (rev l).
Proof. intros H x Hx. apply H. apply in_rev. exact Hx. Qed.

Lemma update_backward_noninc b (mass sgr ds : list R) : all_nonneg ds -> noninc (upbR b mass sgr ds).
Proof.
  intros Hd. unfold update_backward. rn. apply noninc_rev. apply nondec_map_add.
  apply cumtrap_nondec.
  - destruct b; [apply all_nonneg_rev|]; exact Hd.
  - apply all_nonneg_rev. apply map_burn_nonneg.
Qed.

(* walking back from the end, the mass rises over each step by that step's trapezoid *)
Lemma update_backward_step b (mass sgr ds : list R) k :
  (length ds = length sgr - 1)%nat -> (S k < length sgr)%nat ->
  let r := rev (upbR b mass sgr ds) in
  let ys := rev (map burnR sgr) in
  let ds' := if b then rev ds else ds in
  nth (S k) r 0 - nth k r 0 = nth k ds' 0 * (nth (S k) ys 0 + nth k ys 0) / 2.
Proof.
  intros Hl Hk r ys ds'. unfold r, update_backward. rewrite rev_involutive. rn. fold ys. fold ds'.
  assert (Hly : length ys = length sgr) by (unfold ys; rewrite rev_length, map_length; reflexivity).
  assert (Hld : length ds' = length ds) by (unfold ds'; destruct b; [apply rev_length|reflexivity]).
  rn.
  assert (Hlen : length (cumtrapR 0 ds' ys) = length ys).
  { apply cumtrap_length; [rn; lia|]. destruct ys; [simpl in Hly; lia|discriminate]. }
  rn. rewrite !nth_map_default by lia.
  assert (Hky : (S k < length ys)%nat) by lia.
  assert (Hkd : (k < length ds')%nat) by lia.
  assert (Hs := cumtrap_step ys ds' 0 k Hky Hkd). rn. lra.
Qed.

(* ------------------------------------------------------------------ *)
(* drivers (for an arbitrary specific-ground-range function)            *)
(* ------------------------------------------------------------------ *)

Section DriverFacts.
  Variable sgr_of : list R -> list R.
  Variable ds : list R.

  Notation loop_ciR := (@loop_ci RNum sgr_of ds).
  Notation iterate_ciR := (@iterate_ci RNum sgr_of ds).

  Lemma loop_ci_hd : forall fuel mass old, hd 0 (loop_ciR mass old fuel) = hd 0 mass.
  Proof.
    induction fuel as [|k IH]; intros mass old; [reflexivity|].
    simpl. dif; [apply update_forward_hd|].
    rewrite IH. apply update_forward_hd.
  Qed.

  Lemma hd_repeat (x : R) n : (0 < n)%nat -> hd 0 (repeat x n) = x.
  Proof. destruct n; [lia|reflexivity]. Qed.

  Lemma iterate_ci_starts_at_prescribed n (m0 : R) n_iter : (0 < n)%nat -> hd 0 (iterate_ciR n m0 n_iter) = m0.
  Proof. intros Hn. unfold iterate_ci. rewrite loop_ci_hd, update_forward_hd. apply hd_repeat. exact Hn. Qed.

  (* the result of a driver is always the output of an update applied to some earlier iterate *)
  Definition is_forward_update (l : list R) : Prop := exists prev, l = upfR prev (sgr_of prev) ds.

  Lemma loop_ci_is_update : forall fuel mass old, is_forward_update mass -> is_forward_update (loop_ciR mass old fuel).
  Proof.
    induction fuel as [|k IH]; intros mass old H; [exact H|].
    simpl. dif; [exists mass; reflexivity|]. apply IH. exists mass. reflexivity.
  Qed.

  Lemma iterate_ci_is_update n (m0 : R) n_iter : is_forward_update (iterate_ciR n m0 n_iter).
  Proof. unfold iterate_ci. apply loop_ci_is_update. eexists. reflexivity. Qed.

  Lemma forward_update_noninc l : all_nonneg ds -> is_forward_update l -> noninc l.
  Proof. intros Hd [prev ->]. apply update_forward_noninc. exact Hd. Qed.

  Lemma iterate_ci_noninc n (m0 : R) n_iter : all_nonneg ds -> noninc (iterate_ciR n m0 n_iter).
  Proof. intros Hd. apply forward_update_noninc; [exact Hd|apply iterate_ci_is_update]. Qed.

  (* ---- constant final mass ---- *)
  Variable bwrev : bool.
  Notation loop_cfR := (@loop_cf RNum sgr_of ds bwrev).
  Notation iterate_cfR := (@iterate_cf RNum sgr_of ds bwrev).

  Lemma loop_cf_last : forall fuel mass old, last (loop_cfR mass old fuel) 0 = last mass 0.
  Proof.
    induction fuel as [|k IH]; intros mass old; [reflexivity|].
    simpl. dif; [apply update_backward_last|].
    rewrite IH. apply update_backward_last.
  Qed.

  Lemma last_repeat (x : R) n : (0 < n)%nat -> last (repeat x n) 0 = x.
  Proof.
    induction n as [|n IH]; intros H; [lia|]. destruct n as [|n]; [reflexivity|].
    change (repeat x (S (S n))) with (x :: repeat x (S n)).
    change (last (x :: repeat x (S n)) 0) with (last (repeat x (S n)) 0). apply IH. lia.
  Qed.

  Lemma iterate_cf_ends_at_prescribed n (mf : R) n_iter : (0 < n)%nat -> last (iterate_cfR n mf n_iter) 0 = mf.
  Proof. intros Hn. unfold iterate_cf. rewrite loop_cf_last, update_backward_last. apply last_repeat. exact Hn. Qed.

  Definition is_backward_update (l : list R) : Prop := exists prev, l = upbR bwrev prev (sgr_of prev) ds.

  Lemma loop_cf_is_update : forall fuel mass old, is_backward_update mass -> is_backward_update (loop_cfR mass old fuel).
  Proof.
    induction fuel as [|k IH]; intros mass old H; [exact H|].
    simpl. dif; [exists mass; reflexivity|]. apply IH. exists mass. reflexivity.
  Qed.

  Lemma iterate_cf_is_update n (mf : R) n_iter : is_backward_update (iterate_cfR n mf n_iter).
  Proof. unfold iterate_cf. apply loop_cf_is_update. eexists. reflexivity. Qed.

  Lemma iterate_cf_noninc n (mf : R) n_iter : all_nonneg ds -> noninc (iterate_cfR n mf n_iter).
  Proof. intros Hd. destruct (iterate_cf_is_update n mf n_iter) as [prev ->]. apply update_backward_noninc. exact Hd. Qed.

  (* ---- fuel-burn-dependent initial mass ---- *)
  Variable new_initial : R -> R.
  Variable mtow : R.
  Hypothesis capped : forall fb, new_initial fb <= mtow.

  Notation loop_fdR := (fun sh => @loop_fd RNum sgr_of ds sh new_initial).
  Notation iterate_fdR := (fun sh => @iterate_fd RNum sgr_of ds sh new_initial).
  Notation installR := (fun sh => @install RNum sh).

  Lemma install_hd sh (init : R) mass : mass <> [] -> hd 0 (installR sh init mass) = init.
  Proof. destruct mass; [contradiction|reflexivity]. Qed.

  Lemma loop_fd_hd_le : forall sh fuel mass old, hd 0 mass <= mtow -> hd 0 (loop_fdR sh mass old fuel) <= mtow.
  Proof.
    induction fuel as [|k IH]; intros mass old H; [exact H|].
    simpl.
    assert (Hh : hd 0 (installR sh (new_initial (hd 0 (upfR mass (sgr_of mass) ds) - last (upfR mass (sgr_of mass) ds) 0))
                          (upfR mass (sgr_of mass) ds)) <= mtow).
    { rewrite install_hd by apply update_forward_nonempty. apply capped. }
    rn. dif; [exact Hh|]. apply IH. exact Hh.
  Qed.

  Lemma loop_fd_hd_le_pos : forall sh fuel mass old, (0 < fuel)%nat -> hd 0 (loop_fdR sh mass old fuel) <= mtow.
  Proof.
    intros sh fuel mass old Hf. destruct fuel as [|k]; [lia|]. simpl.
    assert (Hh : hd 0 (installR sh (new_initial (hd 0 (upfR mass (sgr_of mass) ds) - last (upfR mass (sgr_of mass) ds) 0))
                          (upfR mass (sgr_of mass) ds)) <= mtow).
    { rewrite install_hd by apply update_forward_nonempty. apply capped. }
    rn. dif; [exact Hh|]. apply loop_fd_hd_le. exact Hh.
  Qed.

  (* n_iter = 0: no iteration is performed; the profile is one update of the caller's estimate *)
  Lemma iterate_fd_zero_iterations sh n (est : R) : (0 < n)%nat ->
    iterate_fdR sh n est 0%nat = upfR (repeat est n) (sgr_of (repeat est n)) ds /\ hd 0 (iterate_fdR sh n est 0%nat) = est.
  Proof.
    intros Hn. unfold iterate_fd. simpl. split; [reflexivity|]. rewrite update_forward_hd. apply hd_repeat. exact Hn.
  Qed.

  Lemma iterate_fd_initial_le_mtow sh n (est : R) n_iter : (0 < n_iter)%nat -> hd 0 (iterate_fdR sh n est n_iter) <= mtow.
  Proof. intros H. unfold iterate_fd. apply loop_fd_hd_le_pos. exact H. Qed.

  (* with the whole vector shifted, installing the new initial mass keeps every step *)
  Lemma install_shift_noninc (init : R) mass : noninc mass -> noninc (installR true init mass).
  Proof.
    destruct mass as [|m0 r]; [trivial|]. simpl. rn. intros H.
    destruct r as [|m1 r']; [exact I|]. destruct H as [H1 H2]. simpl map.
    split; [lra|].
    revert H2. generalize m1. clear H1 m1. induction r' as [|m2 r'' IHr]; intros m1 H2; [exact I|].
    destruct H2 as [H21 H22]. simpl map. split; [lra|]. apply IHr. exact H22.
  Qed.

  Lemma install_shift_step (init : R) mass k : (S k < length mass)%nat ->
    nth k (installR true init mass) 0 - nth (S k) (installR true init mass) 0 = nth k mass 0 - nth (S k) mass 0.
  Proof.
    destruct mass as [|m0 r]; [simpl; lia|]. intros Hk. simpl install. rn.
    assert (Hn : forall j, (j < length r)%nat -> nth j (map (fun x => x + (init - m0)) r) 0 = nth j r 0 + (init - m0)).
    { intros j Hj. rewrite nth_map_default by exact Hj. reflexivity. }
    destruct k as [|k].
    - change (nth 0 (init :: map (fun x => x + (init - m0)) r) 0) with init.
      change (nth 1 (init :: map (fun x => x + (init - m0)) r) 0) with (nth 0 (map (fun x => x + (init - m0)) r) 0).
      rewrite Hn by (simpl in Hk; lia). simpl. lra.
    - change (nth (S k) (init :: map (fun x => x + (init - m0)) r) 0) with (nth k (map (fun x => x + (init - m0)) r) 0).
      change (nth (S (S k)) (init :: map (fun x => x + (init - m0)) r) 0) with (nth (S k) (map (fun x => x + (init - m0)) r) 0).
      rewrite !Hn by (simpl in Hk; lia). simpl. lra.
  Qed.

  Lemma loop_fd_shift_noninc : all_nonneg ds -> forall fuel mass old, noninc mass -> noninc (loop_fdR true mass old fuel).
  Proof.
    intros Hd. induction fuel as [|k IH]; intros mass old H; [exact H|].
    simpl.
    assert (Hn : noninc (installR true (new_initial (hd 0 (upfR mass (sgr_of mass) ds) - last (upfR mass (sgr_of mass) ds) 0))
                           (upfR mass (sgr_of mass) ds))).
    { apply install_shift_noninc. apply update_forward_noninc. exact Hd. }
    rn. dif; [exact Hn|]. apply IH. exact Hn.
  Qed.

  Lemma iterate_fd_shift_noninc n (est : R) n_iter : all_nonneg ds -> noninc (iterate_fdR true n est n_iter).
  Proof. intros Hd. unfold iterate_fd. apply loop_fd_shift_noninc; [exact Hd|]. apply update_forward_noninc. exact Hd. Qed.

  (* repaired drivers: every step of the returned vector is the trapezoid of some iterate's burn rates *)
  Definition steps_of_update (l : list R) : Prop :=
    exists prev, length l = length (upfR prev (sgr_of prev) ds) /\
      forall k, (S k < length l)%nat ->
        nth k l 0 - nth (S k) l 0 = nth k (upfR prev (sgr_of prev) ds) 0 - nth (S k) (upfR prev (sgr_of prev) ds) 0.

  Lemma install_length sh (init : R) mass : length (installR sh init mass) = length mass.
  Proof. destruct mass as [|m0 r]; [reflexivity|]. simpl. destruct sh; [rewrite map_length|]; reflexivity. Qed.

  Lemma loop_fd_shift_steps : forall fuel mass old, steps_of_update mass -> steps_of_update (loop_fdR true mass old fuel).
  Proof.
    induction fuel as [|k IH]; intros mass old H; [exact H|].
    simpl.
    assert (Hs : steps_of_update (installR true (new_initial (hd 0 (upfR mass (sgr_of mass) ds) - last (upfR mass (sgr_of mass) ds) 0))
                                   (upfR mass (sgr_of mass) ds))).
    { exists mass. split; [apply install_length|]. intros j Hj. rewrite install_length in Hj.
      apply install_shift_step. exact Hj. }
    rn. dif; [exact Hs|]. apply IH. exact Hs.
  Qed.

  Lemma iterate_fd_shift_steps n (est : R) n_iter : steps_of_update (iterate_fdR true n est n_iter).
  Proof.
    unfold iterate_fd. apply loop_fd_shift_steps. exists (repeat est n). split; [reflexivity|]. intros; reflexivity.
  Qed.
End DriverFacts.

Lemma np_min2_le (a b : R) : @np_min2 RNum a b <= b.
Proof. unfold np_min2. rn. destruct (Rltb b a) eqn:E; [lra|]. apply Rltb_false in E. exact E. Qed.

Lemma new_initial_fraction_capped (mtow oew mpl lf rff fb : R) : @new_initial_fraction RNum mtow oew mpl lf rff fb <= mtow.
Proof. unfold new_initial_fraction. apply np_min2_le. Qed.
Lemma new_initial_value_capped (mtow oew mpl lf rf fb : R) : @new_initial_value RNum mtow oew mpl lf rf fb <= mtow.
Proof. unfold new_initial_value. apply np_min2_le. Qed.

(* ------------------------------------------------------------------ *)
(* as coded: the fuel-dependent drivers overwrite mass[0] only (F18)    *)
(* ------------------------------------------------------------------ *)

Ltac rdec := repeat match goal with
  | |- context [Rltb ?a ?b] =>
      first [ replace (Rltb a b) with true by (symmetry; apply Rltb_true; lra)
            | replace (Rltb a b) with false by (symmetry; apply Rltb_false; lra) ]
  end.

(* two points 1000 m apart, 100 m/kg everywhere (burn 10 kg), estimate 1000 kg, new initial mass 500 + burn:
   one iteration returns [510; 990] — the aircraft gains 480 kg on the first step *)
Definition w_sgr (m : list R) : list R := map (fun _ => 100) m.
Definition w_new (fb : R) : R := 500 + fb.

Lemma w_update (a : R) : upfR [1000; a] (w_sgr [1000; a]) [1000] = [1000; 990].
Proof.
  unfold update_forward, w_sgr. simpl map. unfold burn_rate. rn. rdec.
  repeat (f_equal; try lra).
Qed.

Lemma fd_overwrite_witness : @iterate_fd RNum w_sgr [1000] false w_new 2 1000 1 = [510; 990].
Proof.
  unfold iterate_fd. simpl repeat. rewrite w_update.
  unfold loop_fd. rewrite w_update. simpl hd. simpl last. unfold install, w_new. rn.
  dif; repeat (f_equal; try lra).
Qed.

Lemma fd_overwrite_mass_increases :
  exists l, l = @iterate_fd RNum w_sgr [1000] false w_new 2 1000 1 /\ nth 0 l 0 < nth 1 l 0.
Proof. eexists. split; [reflexivity|]. rewrite fd_overwrite_witness. simpl. lra. Qed.

Lemma fd_overwrite_first_step_not_trapezoid :
  let l := @iterate_fd RNum w_sgr [1000] false w_new 2 1000 1 in
  nth 0 l 0 - nth 1 l 0 <> 1000 * (burnR 100 + burnR 100) / 2.
Proof.
  cbv zeta. rewrite fd_overwrite_witness. simpl nth. unfold burn_rate. rn. rdec. lra.
Qed.

(* the same history with the whole vector shifted: [510; 500] *)
Lemma fd_shift_witness_noninc : noninc (@iterate_fd RNum w_sgr [1000] true w_new 2 1000 1).
Proof. apply iterate_fd_shift_noninc. intros x [<-|[]]. lra. Qed.

(* ------------------------------------------------------------------ *)
(* as coded: the backward update pairs lengths in forward order (FC19a) *)
(* ------------------------------------------------------------------ *)

(* three points, burn rate 1/100 everywhere, segments of 100 m then 300 m, final mass 1000:
   the first segment (100 m) should cost 1 kg; as coded it costs 3 kg *)
Lemma backward_as_coded_witness :
  upbR false [1000; 1000; 1000] [100; 100; 100] [100; 300]
  = [1000 + (0 + 100 * (1 / 100 + 1 / 100) / 2 + 300 * (1 / 100 + 1 / 100) / 2);
     1000 + (0 + 100 * (1 / 100 + 1 / 100) / 2); 1000 + 0].
Proof.
  unfold update_backward. simpl map. unfold burn_rate. rn. rdec. simpl rev.
  repeat (f_equal; try lra).
Qed.

Lemma backward_as_coded_first_step_wrong :
  let l := upbR false [1000; 1000; 1000] [100; 100; 100] [100; 300] in
  nth 0 l 0 - nth 1 l 0 <> 100 * (burnR 100 + burnR 100) / 2.
Proof. cbv zeta. rewrite backward_as_coded_witness. simpl nth. unfold burn_rate. rn. rdec. lra. Qed.

Lemma backward_repaired_first_step :
  let l := upbR true [1000; 1000; 1000] [100; 100; 100] [100; 300] in
  nth 0 l 0 - nth 1 l 0 = 100 * (burnR 100 + burnR 100) / 2.
Proof.
  cbv zeta. unfold update_backward. simpl map. unfold burn_rate. rn. rdec. simpl rev.
  simpl. rn. lra.
Qed.

(* ------------------------------------------------------------------ *)
(* thrust limiting, descent substitution, cruise factor                 *)
(* ------------------------------------------------------------------ *)

Lemma calc_thrust_reading (N : Num) (E : engine) (P : params N) (m temp alt v rocd acc : T N) (cr : bool) :
  @calc_thrust N E P m temp alt v rocd acc cr
  = @limit_thrust N (@total_energy_at N P m temp alt v rocd acc) (@max_thrust_at N E P alt v temp cr)
                    (@descent_thrust_at N E P alt v temp).
Proof. destruct cr; reflexivity. Qed.

Notation limitR := (@limit_thrust RNum).

Lemma limit_le_max (te maxT desc : R) : desc <= maxT -> limitR te maxT desc <= maxT.
Proof.
  intros Hd. unfold limit_thrust. rewrite c_zero_lit_R. rn.
  destruct (Rltb maxT te) eqn:E1.
  - destruct (Rltb maxT 0); lra.
  - apply Rltb_false in E1. destruct (Rltb te 0); lra.
Qed.

Lemma limit_negative_replaced (te maxT desc : R) : te < 0 \/ (maxT < te /\ maxT < 0) -> limitR te maxT desc = desc.
Proof.
  intros H. unfold limit_thrust. rewrite c_zero_lit_R. rn.
  destruct (Rltb maxT te) eqn:E1.
  - apply Rltb_true in E1. replace (Rltb maxT 0) with true; [reflexivity|]. symmetry. apply Rltb_true. lra.
  - apply Rltb_false in E1. replace (Rltb te 0) with true; [reflexivity|]. symmetry. apply Rltb_true. lra.
Qed.

Lemma limit_in_range_unchanged (te maxT desc : R) : 0 <= te <= maxT -> limitR te maxT desc = te.
Proof.
  intros H. unfold limit_thrust. rewrite c_zero_lit_R. rn.
  replace (Rltb maxT te) with false by (symmetry; apply Rltb_false; lra).
  replace (Rltb te 0) with false by (symmetry; apply Rltb_false; lra). reflexivity.
Qed.

Lemma limit_above_is_max (te maxT desc : R) : 0 <= maxT < te -> limitR te maxT desc = maxT.
Proof.
  intros H. unfold limit_thrust. rewrite c_zero_lit_R. rn.
  replace (Rltb maxT te) with true by (symmetry; apply Rltb_true; lra).
  replace (Rltb maxT 0) with false by (symmetry; apply Rltb_false; lra). reflexivity.
Qed.

(* descent thrust never exceeds the applicable maximum when the coefficients are ordered as in BADA data *)
Lemma descent_le_max (E : engine) (P : params RNum) (alt v temp : R) cr :
  0 <= @max_climb_thrust RNum E P alt v temp ->
  0 <= p_c_tdes_low P <= p_c_tcr P -> 0 <= p_c_tdes_high P <= p_c_tcr P -> p_c_tcr P <= 1 ->
  @descent_thrust_at RNum E P alt v temp <= @max_thrust_at RNum E P alt v temp cr.
Proof.
  intros Hm Hl Hh Hc. unfold descent_thrust_at, max_thrust_at, descent_thrust_high, descent_thrust_low, max_cruise_thrust.
  set (M := @max_climb_thrust RNum E P alt v temp) in *. rn.
  destruct (Rltb _ _); destruct cr; nra.
Qed.

Lemma thrust_le_max (E : engine) (P : params RNum) (m temp alt v rocd acc : R) cr :
  0 <= @max_climb_thrust RNum E P alt v temp ->
  0 <= p_c_tdes_low P <= p_c_tcr P -> 0 <= p_c_tdes_high P <= p_c_tcr P -> p_c_tcr P <= 1 ->
  @calc_thrust RNum E P m temp alt v rocd acc cr <= @max_thrust_at RNum E P alt v temp cr.
Proof.
  intros. rewrite calc_thrust_reading. apply limit_le_max. apply descent_le_max; assumption.
Qed.

Lemma negative_thrust_replaced (E : engine) (P : params RNum) (m temp alt v rocd acc : R) cr :
  @total_energy_at RNum P m temp alt v rocd acc < 0 ->
  @calc_thrust RNum E P m temp alt v rocd acc cr = @descent_thrust_at RNum E P alt v temp.
Proof. intros H. rewrite calc_thrust_reading. apply limit_negative_replaced. left. exact H. Qed.

Lemma cruise_factor_only_in_cruise (N : Num) (psec : bool) (E : engine) (P : params N) (pt : point N) (m : T N) :
  @fuel_flow N psec E P pt m =
    if t_cruise pt
    then @mul N (@nominal_fuel_flow N psec E P (@point_thrust N E P pt m) (t_vtas pt)) (p_c_fcr P)
    else @nominal_fuel_flow N psec E P (@point_thrust N E P pt m) (t_vtas pt).
Proof. unfold fuel_flow. destruct (t_cruise pt); [|reflexivity]. destruct E; try reflexivity. destruct psec; reflexivity. Qed.

(* repaired piston flow (FC19b): C_f1 per minute -> per second, the same factor as in the jet / turboprop flows *)
Lemma lit60_R f : @lit RNum 60 1 f = 60.
Proof. cbv [lit RNum]. lra. Qed.

Lemma piston_flow_per_second (P : params RNum) (thr v : R) :
  @nominal_fuel_flow RNum true Piston P thr v = p_c_f1 P / 60 /\
  @nominal_fuel_flow RNum false Piston P thr v = 60 * @nominal_fuel_flow RNum true Piston P thr v.
Proof.
  unfold nominal_fuel_flow, piston_nominal_fuel_flow. rewrite lit60_R. rn.
  generalize (p_c_f1 P). intros c. change (T RNum) with R in c. split; [reflexivity|lra].
Qed.

(* ------------------------------------------------------------------ *)
(* composed: the constant-initial-mass driver with the BADA-3 flows     *)
(* ------------------------------------------------------------------ *)

Section Composed.
  Variable psec : bool.
  Variable E : engine.
  Variable P : params RNum.
  Variable pts : list (point RNum).
  Variable ds : list R.
  Variable dpt : point RNum.
  Notation sgrf := (@bada_sgr RNum psec E P pts).

  Lemma bada_sgr_length (masses : list R) : length (sgrf masses) = Nat.min (length pts) (length masses).
  Proof. unfold bada_sgr. rewrite map_length, combine_length. reflexivity. Qed.

  Lemma nth_map_gen {A : Type} (f : A -> R) (l : list A) (d : A) k : (k < length l)%nat -> nth k (map f l) 0 = f (nth k l d).
  Proof. intros H. rewrite (nth_indep _ 0 (f d)) by (rewrite map_length; exact H). apply map_nth. Qed.

  Lemma nth_bada_sgr (masses : list R) k : length masses = length pts -> (k < length pts)%nat ->
    nth k (sgrf masses) 0 = @sgr_point RNum psec E P (nth k pts dpt) (nth k masses 0).
  Proof.
    intros Hl Hk. unfold bada_sgr.
    assert (Hc : (k < length (combine pts masses))%nat) by (rewrite combine_length; lia).
    assert (Hx : nth k (combine pts masses) (dpt, 0) = (nth k pts dpt, nth k masses 0)) by (apply combine_nth; lia).
    etransitivity; [exact (nth_map_gen (fun pm : point RNum * R => @sgr_point RNum psec E P (fst pm) (snd pm))
                                       (combine pts masses) (dpt, 0) k Hc)|].
    cbv beta. f_equal; [exact (f_equal fst Hx)|exact (f_equal snd Hx)].
  Qed.

  Lemma update_forward_length (mass sgr : list R) : (length ds = length sgr - 1)%nat -> sgr <> [] ->
    length (upfR mass sgr ds) = length sgr.
  Proof.
    intros Hl Hne. unfold update_forward. rewrite map_length, cumtrap_length; rewrite ?map_length; auto.
    destruct sgr; [contradiction|discriminate].
  Qed.

  Lemma update_forward_length_n (mass sgr : list R) n : length sgr = n -> length ds = (n - 1)%nat -> (0 < n)%nat ->
    length (upfR mass sgr ds) = n.
  Proof.
    intros Hs Hd Hn. rewrite update_forward_length; [exact Hs|rewrite Hs; exact Hd|].
    intros H. rewrite H in Hs. simpl in Hs. lia.
  Qed.

  Definition good (n : nat) (m0 : R) (l : list R) : Prop := length l = n /\ hd 0 l = m0.

  Lemma update_good n m0 mass : length pts = n -> length ds = (n - 1)%nat -> (0 < n)%nat ->
    good n m0 mass -> good n m0 (upfR mass (sgrf mass) ds).
  Proof.
    intros Hp Hd Hn [Hl Hh]. split; [|rewrite update_forward_hd; exact Hh].
    assert (Hs : length (sgrf mass) = n) by (rewrite bada_sgr_length, Hp, Hl; apply Nat.min_id).
    exact (update_forward_length_n mass (sgrf mass) n Hs Hd Hn).
  Qed.

  Lemma loop_ci_from_good n m0 : length pts = n -> length ds = (n - 1)%nat -> (0 < n)%nat ->
    forall fuel mass old,
      (exists prev, good n m0 prev /\ mass = upfR prev (sgrf prev) ds) ->
      exists prev, good n m0 prev /\ @loop_ci RNum sgrf ds mass old fuel = upfR prev (sgrf prev) ds.
  Proof.
    intros Hp Hd Hn. induction fuel as [|k IH]; intros mass old H; [exact H|].
    assert (Hg : good n m0 mass).
    { destruct H as (prev & Hg & ->). apply update_good; assumption. }
    simpl. dif; [exists mass; split; [exact Hg|reflexivity]|].
    apply IH. exists mass. split; [exact Hg|reflexivity].
  Qed.

  (* every step of what the constant-initial-mass driver returns is the trapezoid of the BADA-3 burn rates evaluated at an
     iterate [prev] of length n that starts at the prescribed mass *)
  Lemma iterate_ci_steps_bada n (m0 : R) n_iter : length pts = n -> length ds = (n - 1)%nat -> (0 < n)%nat ->
    exists prev, length prev = n /\ hd 0 prev = m0 /\
      forall k, (S k < n)%nat ->
        nth k (@iterate_ci RNum sgrf ds n m0 n_iter) 0 - nth (S k) (@iterate_ci RNum sgrf ds n m0 n_iter) 0
        = nth k ds 0 * (burnR (@sgr_point RNum psec E P (nth (S k) pts dpt) (nth (S k) prev 0))
                        + burnR (@sgr_point RNum psec E P (nth k pts dpt) (nth k prev 0))) / 2.
  Proof.
    intros Hp Hd Hn.
    destruct (loop_ci_from_good n m0 Hp Hd Hn (n_iter - 1)
                (upfR (repeat m0 n) (sgrf (repeat m0 n)) ds)
                (last (upfR (repeat m0 n) (sgrf (repeat m0 n)) ds) 0)) as (prev & [Hl Hh] & Hr).
    { exists (repeat m0 n). split; [|reflexivity]. split; [apply repeat_length|]. destruct n; [lia|reflexivity]. }
    exists prev. split; [exact Hl|]. split; [exact Hh|]. intros k Hk.
    assert (Heq : @iterate_ci RNum sgrf ds n m0 n_iter = upfR prev (sgrf prev) ds) by exact Hr.
    rewrite Heq.
    rewrite update_forward_step by (rewrite bada_sgr_length, Hp, Hl, Nat.min_id; lia).
    rewrite !nth_bada_sgr by lia. reflexivity.
  Qed.

  (* in the regime the code integrates (0 < fuel flow <= ground speed, i.e. at least 1 m/kg) the burn rate at a point is
     fuel flow / ground speed; otherwise the code takes 0 *)
  Lemma burn_rate_at_point (pt : point RNum) (m : R) :
    0 < @fuel_flow RNum psec E P pt m <= t_gs pt ->
    burnR (@sgr_point RNum psec E P pt m) = @fuel_flow RNum psec E P pt m / t_gs pt.
  Proof.
    intros [H0 H1]. unfold sgr_point. cbv zeta. rn.
    replace (Reqb (@fuel_flow RNum psec E P pt m) 0) with false by (symmetry; apply Reqb_false; lra).
    apply burn_rate_is_flow_over_speed; assumption.
  Qed.
End Composed.

(* ---- non-vacuity ---- *)
Example all_nonneg_nonvacuous : all_nonneg [100; 300].
Proof. intros x [<-|[<-|[]]]; lra. Qed.
Example limit_negative_nonvacuous : limitR (-5) 100 7 = 7.
Proof. apply limit_negative_replaced. left. lra. Qed.
Example limit_le_max_nonvacuous : limitR 250 100 7 = 100.
Proof. apply limit_above_is_max. lra. Qed.

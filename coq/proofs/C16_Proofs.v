(* C16 — lemmas.  All over the real instance [RNum] of the model text. *)
From Coq Require Import ZArith Reals List Bool Lra Lia Psatz.
From AV Require Import lib.Num model.C16_Model.
Import ListNotations.
Local Open Scope R_scope.

Notation gsR := (@gs RNum).
Notation gs_radR := (@gs_rad RNum).
Notation d2r := (@deg2rad RNum).

Ltac unf := unfold gs, gs_rad, air, hypot, rot_cw, fst, snd in *; rnum.

Lemma s2c2 x : sin x * sin x + cos x * cos x = 1.
Proof. generalize (sin2_cos2 x); unfold Rsqr; lra. Qed.

Lemma sqrt_sq_abs x : sqrt (x * x) = Rabs x.
Proof. exact (sqrt_Rsqr_abs x). Qed.

(* |(tas sin, tas cos)| = tas *)
Lemma norm_air tas th a b :
  a = tas * sin th -> b = tas * cos th -> a * a + b * b = tas * tas.
Proof. intros -> ->. generalize (s2c2 th); nra. Qed.

(* ------------------------------------------------------------------ *)
(* specification clauses, heading in radians                            *)
(* ------------------------------------------------------------------ *)

Lemma spec_unfold tas th u v :
  gs_radR false tas th u v = sqrt ((tas * sin th + u) * (tas * sin th + u) + (tas * cos th + v) * (tas * cos th + v)).
Proof. unf. reflexivity. Qed.

Lemma impl_unfold tas th u v :
  gs_radR true tas th u v = sqrt ((tas * cos th + u) * (tas * cos th + u) + (tas * sin th + v) * (tas * sin th + v)).
Proof. unf. reflexivity. Qed.

Lemma no_wind_rad b tas th : 0 <= tas -> gs_radR b tas th 0 0 = tas.
Proof.
  intros Ht. destruct b; [rewrite impl_unfold | rewrite spec_unfold];
  match goal with |- sqrt ?e = _ => replace e with (tas * tas) by (generalize (s2c2 th); nra) end;
  apply sqrt_square; exact Ht.
Qed.

Lemma tailwind_rad tas W th : 0 <= tas -> 0 <= W ->
  gs_radR false tas th (W * sin th) (W * cos th) = tas + W.
Proof.
  intros Ht HW. rewrite spec_unfold.
  replace ((tas * sin th + W * sin th) * (tas * sin th + W * sin th) +
           (tas * cos th + W * cos th) * (tas * cos th + W * cos th))
    with ((tas + W) * (tas + W) * (sin th * sin th + cos th * cos th)) by ring.
  rewrite s2c2, Rmult_1_r. apply sqrt_square; lra.
Qed.

Lemma headwind_rad tas W th :
  gs_radR false tas th (- (W * sin th)) (- (W * cos th)) = Rabs (tas - W).
Proof.
  rewrite spec_unfold.
  replace ((tas * sin th + - (W * sin th)) * (tas * sin th + - (W * sin th)) +
           (tas * cos th + - (W * cos th)) * (tas * cos th + - (W * cos th)))
    with ((tas - W) * (tas - W) * (sin th * sin th + cos th * cos th)) by ring.
  rewrite s2c2, Rmult_1_r. apply sqrt_sq_abs.
Qed.

Lemma rotation_rad tas th ph u v :
  gs_radR false tas (th + ph) (fst (@rot_cw RNum ph u v)) (snd (@rot_cw RNum ph u v))
  = gs_radR false tas th u v.
Proof.
  rewrite !spec_unfold. unfold rot_cw, fst, snd. rnum.
  rewrite sin_plus, cos_plus. f_equal.
  set (A := tas * sin th + u). set (B := tas * cos th + v).
  transitivity ((A * A + B * B) * (sin ph * sin ph + cos ph * cos ph)).
  - unfold A, B. ring.
  - rewrite s2c2. ring.
Qed.

(* Cauchy-Schwarz with a unit vector *)
Lemma dot_unit_le u v s c : s * s + c * c = 1 -> Rabs (u * s + v * c) <= sqrt (u * u + v * v).
Proof.
  intros H1.
  assert (Hsq : (u * s + v * c) * (u * s + v * c) <= u * u + v * v).
  { assert (E : u * u + v * v - (u * s + v * c) * (u * s + v * c) = (u * c - v * s) * (u * c - v * s)).
    { replace (u * u + v * v) with ((u * u + v * v) * (s * s + c * c)) by (rewrite H1; ring). ring. }
    generalize (Rle_0_sqr (u * c - v * s)); unfold Rsqr; lra. }
  rewrite <- sqrt_sq_abs. apply sqrt_le_1_alt. exact Hsq.
Qed.

Lemma sqrt_le_of_sq a b : 0 <= b -> a <= b * b -> sqrt a <= b.
Proof.
  intros Hb H. rewrite <- (sqrt_square b Hb). apply sqrt_le_1_alt. exact H.
Qed.

Lemma le_sqrt_of_sq a b : 0 <= a -> b * b <= a -> Rabs b <= sqrt a.
Proof.
  intros Ha H. rewrite <- sqrt_sq_abs. apply sqrt_le_1_alt. exact H.
Qed.

Lemma sumsq_nonneg a b : 0 <= a * a + b * b.
Proof. nra. Qed.

Lemma triangle_core tas s c u v :
  s * s + c * c = 1 -> 0 <= tas ->
  let W := sqrt (u * u + v * v) in
  let G := sqrt ((tas * s + u) * (tas * s + u) + (tas * c + v) * (tas * c + v)) in
  Rabs (tas - W) <= G <= tas + W.
Proof.
  intros H1 Ht W G.
  assert (HW0 : 0 <= W) by apply sqrt_pos.
  assert (HWW : W * W = u * u + v * v).
  { unfold W. apply sqrt_sqrt. apply sumsq_nonneg. }
  assert (Hd : Rabs (u * s + v * c) <= W) by (apply dot_unit_le; exact H1).
  assert (Hd' : - W <= u * s + v * c <= W).
  { unfold Rabs in Hd. destruct (Rcase_abs (u * s + v * c)); lra. }
  assert (Hexp : (tas * s + u) * (tas * s + u) + (tas * c + v) * (tas * c + v)
                 = tas * tas + W * W + 2 * tas * (u * s + v * c)).
  { rewrite HWW. replace (tas * tas) with (tas * tas * (s * s + c * c)) by (rewrite H1; ring). ring. }
  clearbody W.
  split.
  - unfold G. apply le_sqrt_of_sq; [apply sumsq_nonneg|]. rewrite Hexp. nra.
  - unfold G. apply sqrt_le_of_sq; [lra|]. rewrite Hexp. nra.
Qed.

Lemma triangle_rad b tas th u v : 0 <= tas ->
  Rabs (tas - sqrt (u * u + v * v)) <= gs_radR b tas th u v <= tas + sqrt (u * u + v * v).
Proof.
  intros Ht. destruct b.
  - rewrite impl_unfold.
    generalize (triangle_core tas (cos th) (sin th) u v). cbv zeta. intros H. apply H; [|exact Ht].
    generalize (s2c2 th); lra.
  - rewrite spec_unfold.
    generalize (triangle_core tas (sin th) (cos th) u v). cbv zeta. intros H. apply H; [|exact Ht].
    apply s2c2.
Qed.

(* the code as it stands is the specification with the wind components exchanged … *)
Lemma impl_is_spec_wind_exchanged tas th u v : gs_radR true tas th u v = gs_radR false tas th v u.
Proof. rewrite impl_unfold, spec_unfold. f_equal. ring. Qed.

(* … equivalently, it reads the heading as a mathematical angle (counter-clockwise from east) *)
Lemma impl_is_spec_mirrored_heading tas th u v : gs_radR true tas th u v = gs_radR false tas (PI / 2 - th) u v.
Proof. rewrite impl_unfold, spec_unfold. rewrite sin_shift, cos_shift. reflexivity. Qed.

(* ------------------------------------------------------------------ *)
(* degrees                                                             *)
(* ------------------------------------------------------------------ *)

Lemma d2r_plus h d : d2r (h + d) = d2r h + d2r d.
Proof. unfold deg2rad. rnum. ring. Qed.

Lemma d2r_0 : d2r 0 = 0.
Proof. unfold deg2rad. rnum. ring. Qed.

Lemma no_wind_gives_tas b tas h : 0 <= tas -> gsR b tas h 0 0 = tas.
Proof. intros. unfold gs. apply (no_wind_rad b tas (d2r h)). assumption. Qed.

Lemma tailwind_adds tas W h : 0 <= tas -> 0 <= W ->
  gsR false tas h (W * sin (d2r h)) (W * cos (d2r h)) = tas + W.
Proof. intros. unfold gs. apply tailwind_rad; assumption. Qed.

Lemma headwind_subtracts tas W h :
  gsR false tas h (- (W * sin (d2r h))) (- (W * cos (d2r h))) = Rabs (tas - W).
Proof. intros. unfold gs. apply headwind_rad. Qed.

Lemma rotation_invariant tas h d u v :
  gsR false tas (h + d) (fst (@rot_cw RNum (d2r d) u v)) (snd (@rot_cw RNum (d2r d) u v)) = gsR false tas h u v.
Proof. unfold gs. change (@add RNum h d) with (h + d). rewrite d2r_plus. apply rotation_rad. Qed.

Lemma triangle_bounds b tas h u v : 0 <= tas ->
  Rabs (tas - sqrt (u * u + v * v)) <= gsR b tas h u v <= tas + sqrt (u * u + v * v).
Proof. intros. unfold gs. apply triangle_rad. assumption. Qed.

(* ---- the code as it stands ---- *)

Lemma sqrt_25 : sqrt 25 = 5.
Proof. replace 25 with (5 * 5) by lra. apply sqrt_square. lra. Qed.

Lemma impl_at_north tas u v : gsR true tas 0 u v = sqrt ((tas + u) * (tas + u) + v * v).
Proof.
  unfold gs. change (@deg2rad RNum (@zero RNum)) with (d2r 0). fold (d2r 0).
  replace (@deg2rad RNum 0) with 0 by (symmetry; apply d2r_0).
  rewrite impl_unfold, sin_0, cos_0. f_equal. ring.
Qed.

(* due north (h = 0), wind blowing due north with speed W: the specification gives tas + W,
   the code gives sqrt (tas^2 + W^2) *)
Lemma impl_tailwind_value tas W : gsR true tas 0 (W * sin (d2r 0)) (W * cos (d2r 0)) = sqrt (tas * tas + W * W).
Proof.
  rewrite d2r_0, sin_0, cos_0. rewrite impl_at_north. f_equal. ring.
Qed.

Lemma tailwind_adds_refuted :
  exists tas W h, 0 <= tas /\ 0 <= W /\ gsR true tas h (W * sin (d2r h)) (W * cos (d2r h)) <> tas + W.
Proof.
  exists 3, 4, 0. split; [lra|]. split; [lra|].
  rewrite impl_tailwind_value. replace (3 * 3 + 4 * 4) with 25 by lra. rewrite sqrt_25. lra.
Qed.

Lemma headwind_subtracts_refuted :
  exists tas W h, gsR true tas h (- (W * sin (d2r h))) (- (W * cos (d2r h))) <> Rabs (tas - W).
Proof.
  exists 3, 4, 0. rewrite d2r_0, sin_0, cos_0, impl_at_north.
  replace ((3 + - (4 * 0)) * (3 + - (4 * 0)) + - (4 * 1) * - (4 * 1)) with 25 by lra.
  rewrite sqrt_25. unfold Rabs. destruct (Rcase_abs (3 - 4)); lra.
Qed.

Lemma impl_rotation_refuted :
  exists tas th ph u v,
    gs_radR true tas (th + ph) (fst (@rot_cw RNum ph u v)) (snd (@rot_cw RNum ph u v)) <> gs_radR true tas th u v.
Proof.
  (* th = 0, wind (4, 0) (a pure crosswind from the west for a northbound aircraft; the code adds it
     in full: 3 + 4 = 7); rotated by 90 degrees: heading east, wind (0, -4): the code gives |3 - 4|... *)
  exists 3, 0, (PI / 2), 4, 0.
  rewrite !impl_unfold. unfold rot_cw, fst, snd. rnum.
  rewrite Rplus_0_l, sin_PI2, cos_PI2, sin_0, cos_0.
  replace ((3 * 0 + (4 * 0 + 0 * 1)) * (3 * 0 + (4 * 0 + 0 * 1)) + (3 * 1 + (0 * 0 - 4 * 1)) * (3 * 1 + (0 * 0 - 4 * 1)))
    with (1 * 1) by lra.
  replace ((3 * 1 + 4) * (3 * 1 + 4) + (3 * 0 + 0) * (3 * 0 + 0)) with (7 * 7) by lra.
  rewrite !sqrt_square by lra. lra.
Qed.

(* ------------------------------------------------------------------ *)
(* interpolation: refusal outside, exactness on uniform fields           *)
(* ------------------------------------------------------------------ *)

Notation bracketR := (@bracket RNum).

Definition out_of (xs : list R) (q : R) : Prop :=
  (forall x, In x xs -> q < x) \/ (forall x, In x xs -> x < q).

Lemma bracket_sound xs q i x0 x1 :
  bracketR xs q = Some (i, x0, x1) ->
  x0 <= q <= x1 /\ nth_error xs i = Some x0 /\ nth_error xs (S i) = Some x1.
Proof.
  revert i. induction xs as [|a r IH]; intros i H; simpl in H; [discriminate|].
  destruct r as [|b r']; [discriminate|].
  destruct (andb _ _) eqn:E.
  - inversion H; subst. apply andb_true_iff in E. destruct E as [E1 E2].
    rnum. apply Rleb_true in E1. apply Rleb_true in E2. simpl. auto.
  - destruct (bracketR (b :: r') q) as [[[j y0] y1]|] eqn:Eb; [|discriminate].
    inversion H; subst. destruct (IH j eq_refl) as (Hr & Hn0 & Hn1).
    split; [exact Hr|]. split; simpl; assumption.
Qed.

Lemma bracket_outside xs q : out_of xs q -> bracketR xs q = None.
Proof.
  intros Ho. destruct (bracketR xs q) as [[[i x0] x1]|] eqn:E; [|reflexivity].
  exfalso. apply bracket_sound in E. destruct E as ((H0 & H1) & Hn0 & Hn1).
  apply nth_error_In in Hn0. apply nth_error_In in Hn1.
  destruct Ho as [Ho|Ho]; [specialize (Ho _ Hn0)|specialize (Ho _ Hn1)]; lra.
Qed.

Lemma interp_axis_outside xs q f : out_of xs q -> @interp_axis RNum xs q f = None.
Proof. intros H. unfold interp_axis. rewrite (bracket_outside _ _ H). reflexivity. Qed.

Lemma interp_axis_inner_none xs q f : (forall i, f i = None) -> @interp_axis RNum xs q f = None.
Proof.
  intros H. unfold interp_axis. destruct (bracket _ _) as [[[i x0] x1]|]; [|reflexivity].
  rewrite H. reflexivity.
Qed.

Lemma interp3_outside ps las los tb p la lo :
  out_of ps p \/ out_of las la \/ out_of los lo -> @interp3 RNum ps las los tb p la lo = None.
Proof.
  intros [H|[H|H]]; unfold interp3.
  - apply interp_axis_outside; exact H.
  - apply interp_axis_inner_none; intros i. apply interp_axis_outside; exact H.
  - apply interp_axis_inner_none; intros i. apply interp_axis_inner_none; intros j.
    apply interp_axis_outside; exact H.
Qed.

Lemma outside_domain_refused b (sc : scene RNum) slice (alt lat lon tas h : R) :
  out_of (sc_levels sc) (@level RNum alt) \/ out_of (sc_lats sc) lat \/ out_of (sc_lons sc) lon ->
  forall x, @ground_speed RNum b sc slice alt lat lon tas h <> @GsOk RNum x.
Proof.
  intros Ho x. unfold ground_speed.
  destruct (@alt_out_of_range RNum alt); [discriminate|].
  destruct (nth_error (sc_u sc) slice) as [tu|]; [|discriminate].
  destruct (nth_error (sc_v sc) slice) as [tv|]; [|discriminate].
  rewrite (interp3_outside _ _ _ tu _ _ _ Ho). discriminate.
Qed.

Lemma too_high_refused b (sc : scene RNum) slice (alt lat lon tas h : R) :
  25000 < alt -> @ground_speed RNum b sc slice alt lat lon tas h = @GsAltRange RNum.
Proof.
  intros H. unfold ground_speed, alt_out_of_range, c_alt_max. rnum.
  replace (Rltb (25000 / 1) alt) with true; [reflexivity|].
  symmetry. apply Rltb_true. lra.
Qed.

(* exactness on a uniform field *)
Lemma lerp_const x0 x1 q c : @lerp RNum x0 x1 q c c = c.
Proof. unfold lerp. rnum. unfold Rdiv. replace (c - c) with 0 by ring. ring. Qed.

Lemma interp_axis_uniform xs q f c w :
  (forall i y, f i = Some y -> y = c) -> @interp_axis RNum xs q f = Some w -> w = c.
Proof.
  intros Hf. unfold interp_axis. destruct (bracket _ _) as [[[i x0] x1]|]; [|discriminate].
  destruct (f i) as [f0|] eqn:E0; [|discriminate]. destruct (f (S i)) as [f1|] eqn:E1; [|discriminate].
  intros H; inversion H. rewrite (Hf _ _ E0), (Hf _ _ E1). apply lerp_const.
Qed.

Definition uniform (tb : table RNum) (c : R) : Prop := forall i j k y, @node RNum tb i j k = Some y -> y = c.

Lemma interp3_uniform ps las los tb p la lo c w :
  uniform tb c -> @interp3 RNum ps las los tb p la lo = Some w -> w = c.
Proof.
  intros Hu. unfold interp3. apply interp_axis_uniform. intros i y.
  apply interp_axis_uniform. intros j y'. apply interp_axis_uniform. intros k y''. apply Hu.
Qed.

Lemma uniform_field_pipeline b (sc : scene RNum) slice (alt lat lon tas h : R) tu tv cu cv (x : R) :
  nth_error (sc_u sc) slice = Some tu -> nth_error (sc_v sc) slice = Some tv ->
  uniform tu cu -> uniform tv cv ->
  @ground_speed RNum b sc slice alt lat lon tas h = @GsOk RNum x -> x = gsR b tas h cu cv.
Proof.
  intros Eu Ev Hu Hv. unfold ground_speed. destruct (@alt_out_of_range RNum alt); [discriminate|].
  rewrite Eu, Ev.
  destruct (interp3 _ _ _ tu _ _ _) as [u|] eqn:E1; [|discriminate].
  destruct (interp3 _ _ _ tv _ _ _) as [v|] eqn:E2; [|discriminate].
  intros H; inversion H. rewrite (interp3_uniform _ _ _ _ _ _ _ _ _ Hu E1), (interp3_uniform _ _ _ _ _ _ _ _ _ Hv E2).
  reflexivity.
Qed.

(* a request inside the grid is answered (no spurious refusal) *)
Lemma last_indep (xs : list R) a b : xs <> [] -> last xs a = last xs b.
Proof.
  induction xs as [|x r IH]; intros H; [contradiction|].
  destruct r as [|y r']; [reflexivity|]. simpl in *. apply IH. discriminate.
Qed.

Lemma bracket_cons a b r q :
  bracketR (a :: b :: r) q =
  if Rleb a q && Rleb q b then Some (O, a, b)
  else match bracketR (b :: r) q with Some (i, x0, x1) => Some (S i, x0, x1) | None => None end.
Proof. reflexivity. Qed.

Lemma bracket_inside : forall xs a q, xs <> [] -> a <= q -> q <= last xs a ->
  exists i x0 x1, bracketR (a :: xs) q = Some (i, x0, x1).
Proof.
  induction xs as [|b r IH]; intros a q Hne Ha Hl; [contradiction|].
  rewrite bracket_cons. destruct (Rleb a q && Rleb q b) eqn:E; [eauto|].
  assert (Hbq : b < q).
  { apply andb_false_iff in E. destruct E as [E|E]; apply Rleb_false in E; lra. }
  destruct r as [|c r'].
  - simpl in Hl. lra.
  - destruct (IH b q) as (i & x0 & x1 & Hb); [discriminate|lra| |].
    + rewrite (last_indep (c :: r') b a) by discriminate. exact Hl.
    + match goal with |- exists _ _ _, match ?X with _ => _ end = _ =>
        assert (HX : X = Some (i, x0, x1)) by exact Hb; rewrite HX end.
      eauto.
Qed.

(* ------------------------------------------------------------------ *)
(* whole queries on arbitrary (spatially varying) fields                 *)
(* ------------------------------------------------------------------ *)

(* an answered query is the vector formula at the interpolated wind *)
Lemma ground_speed_unfold b (sc : scene RNum) slice (alt lat lon tas h x : R) :
  @ground_speed RNum b sc slice alt lat lon tas h = @GsOk RNum x ->
  exists u v, @wind RNum sc slice alt lat lon = Some (u, v) /\ x = gsR b tas h u v.
Proof.
  unfold ground_speed, wind. destruct (@alt_out_of_range RNum alt); [discriminate|].
  destruct (nth_error (sc_u sc) slice) as [tu|]; [|discriminate].
  destruct (nth_error (sc_v sc) slice) as [tv|]; [|discriminate].
  destruct (interp3 _ _ _ tu _ _ _) as [u|]; [|discriminate].
  destruct (interp3 _ _ _ tv _ _ _) as [v|]; [|discriminate].
  intros H; inversion H. exists u, v. split; reflexivity.
Qed.

(* convex-hull bound: linear interpolation stays between the two node values … *)
Lemma lerp_between (x0 x1 q f0 f1 lo hi : R) :
  x0 <= q <= x1 -> lo <= f0 <= hi -> lo <= f1 <= hi -> lo <= @lerp RNum x0 x1 q f0 f1 <= hi.
Proof.
  intros Hq H0 H1. unfold lerp. rnum.
  destruct (Req_dec x1 x0) as [E|E].
  - assert (q = x0) by lra. subst. replace (x0 - x0) with 0 by lra. rewrite Rmult_0_r. lra.
  - assert (Hd : 0 < x1 - x0) by lra.
    set (t := (q - x0) / (x1 - x0)).
    assert (Ht : 0 <= t <= 1).
    { unfold t. split.
      - apply Rmult_le_pos; [lra|]. left. apply Rinv_0_lt_compat. exact Hd.
      - apply Rmult_le_reg_r with (x1 - x0); [exact Hd|]. unfold Rdiv. rewrite Rmult_assoc, Rinv_l by lra. lra. }
    replace ((f1 - f0) / (x1 - x0) * (q - x0)) with ((f1 - f0) * t) by (unfold t; field; lra).
    nra.
Qed.

Lemma interp_axis_between xs q f lo hi w :
  (forall i y, f i = Some y -> lo <= y <= hi) -> @interp_axis RNum xs q f = Some w -> lo <= w <= hi.
Proof.
  intros Hf. unfold interp_axis. destruct (bracket xs q) as [[[i x0] x1]|] eqn:Eb; [|discriminate].
  destruct (f i) as [f0|] eqn:E0; [|discriminate]. destruct (f (S i)) as [f1|] eqn:E1; [|discriminate].
  intros H; inversion H. apply bracket_sound in Eb. destruct Eb as (Hq & _ & _).
  apply lerp_between; [exact Hq|apply (Hf _ _ E0)|apply (Hf _ _ E1)].
Qed.

(* … hence the interpolated wind component lies within the range of the grid values *)
Lemma interp3_between ps las los tb p la lo_ lo hi w :
  (forall i j k y, @node RNum tb i j k = Some y -> lo <= y <= hi) ->
  @interp3 RNum ps las los tb p la lo_ = Some w -> lo <= w <= hi.
Proof.
  intros Hn. unfold interp3. apply interp_axis_between. intros i y.
  apply interp_axis_between. intros j y'. apply interp_axis_between. intros k y''. apply Hn.
Qed.

(* liveness: inside the axes, with rectangular tables, the query is answered *)
Definition rect (tb : table RNum) (nl nla nlo : nat) : Prop :=
  length tb = nl /\ forall pl, In pl tb -> length pl = nla /\ forall row, In row pl -> length row = nlo.

Lemma node_defined tb nl nla nlo i j k : rect tb nl nla nlo -> (i < nl)%nat -> (j < nla)%nat -> (k < nlo)%nat ->
  exists y, @node RNum tb i j k = Some y.
Proof.
  intros (Hl & Hr) Hi Hj Hk. unfold node.
  destruct (nth_error tb i) as [pl|] eqn:E1; [|apply nth_error_None in E1; lia].
  destruct (Hr pl (nth_error_In _ _ E1)) as (Hla & Hrow).
  destruct (nth_error pl j) as [row|] eqn:E2; [|apply nth_error_None in E2; lia].
  specialize (Hrow row (nth_error_In _ _ E2)).
  destruct (nth_error row k) as [y|] eqn:E3; [eauto|apply nth_error_None in E3; lia].
Qed.

Definition inside (xs : list R) (q : R) : Prop :=
  match xs with a :: r => r <> [] /\ a <= q <= last r a | [] => False end.

Lemma interp_axis_live xs q f : inside xs q -> (forall i, (S i < length xs)%nat -> exists y, f i = Some y /\ exists y', f (S i) = Some y') ->
  exists w, @interp_axis RNum xs q f = Some w.
Proof.
  intros Hin Hf. destruct xs as [|a r]; [contradiction|]. destruct Hin as (Hne & Ha & Hl).
  destruct (bracket_inside r a q Hne Ha Hl) as (i & x0 & x1 & Hb).
  unfold interp_axis. change (@bracket RNum (a :: r) q) with (bracketR (a :: r) q). rewrite Hb.
  assert (Hs := bracket_sound _ _ _ _ _ Hb). destruct Hs as (_ & _ & Hn1).
  assert (Hi : (S i < length (a :: r))%nat).
  { destruct (le_lt_dec (length (a :: r)) (S i)) as [H|H]; [|exact H].
    apply (proj2 (nth_error_None (a :: r) (S i))) in H. exfalso.
    assert (E : @nth_error R (a :: r) (S i) = Some x1) by exact Hn1. rewrite H in E. discriminate. }
  destruct (Hf i Hi) as (y & Hy & y' & Hy'). rewrite Hy, Hy'. eauto.
Qed.

Lemma interp3_live ps las los tb p la lo :
  rect tb (length ps) (length las) (length los) -> inside ps p -> inside las la -> inside los lo ->
  exists w, @interp3 RNum ps las los tb p la lo = Some w.
Proof.
  intros Hr Hp Hla Hlo. unfold interp3.
  assert (H3 : forall i j, (i < length ps)%nat -> (j < length las)%nat ->
               exists y, @interp_axis RNum los lo (fun k => @node RNum tb i j k) = Some y).
  { intros i j Hi Hj. apply interp_axis_live; [exact Hlo|]. intros k Hk.
    destruct (node_defined tb _ _ _ i j k Hr Hi Hj ltac:(lia)) as (y & Hy).
    destruct (node_defined tb _ _ _ i j (S k) Hr Hi Hj Hk) as (y' & Hy'). eauto. }
  assert (H2 : forall i, (i < length ps)%nat ->
               exists y, @interp_axis RNum las la (fun j => @interp_axis RNum los lo (fun k => @node RNum tb i j k)) = Some y).
  { intros i Hi. apply interp_axis_live; [exact Hla|]. intros j Hj.
    destruct (H3 i j Hi ltac:(lia)) as (y & Hy). destruct (H3 i (S j) Hi Hj) as (y' & Hy'). eauto. }
  apply interp_axis_live; [exact Hp|]. intros i Hi.
  destruct (H2 i ltac:(lia)) as (y & Hy). destruct (H2 (S i) Hi) as (y' & Hy'). eauto.
Qed.

Lemma ground_speed_live b (sc : scene RNum) slice (alt lat lon tas h : R) tu tv :
  alt <= 25000 ->
  nth_error (sc_u sc) slice = Some tu -> nth_error (sc_v sc) slice = Some tv ->
  rect tu (length (sc_levels sc)) (length (sc_lats sc)) (length (sc_lons sc)) ->
  rect tv (length (sc_levels sc)) (length (sc_lats sc)) (length (sc_lons sc)) ->
  inside (sc_levels sc) (@level RNum alt) -> inside (sc_lats sc) lat -> inside (sc_lons sc) lon ->
  exists x, @ground_speed RNum b sc slice alt lat lon tas h = @GsOk RNum x.
Proof.
  intros Ha Eu Ev Ru Rv Hp Hla Hlo. unfold ground_speed.
  replace (@alt_out_of_range RNum alt) with false.
  - rewrite Eu, Ev.
    destruct (interp3_live _ _ _ tu _ _ _ Ru Hp Hla Hlo) as (u & Hu).
    destruct (interp3_live _ _ _ tv _ _ _ Rv Hp Hla Hlo) as (v & Hv).
    rewrite Hu, Hv. eauto.
  - symmetry. unfold alt_out_of_range, c_alt_max. rnum. apply Rltb_false. lra.
Qed.

(* ---- non-vacuity examples ---- *)
Example out_of_nonvacuous : out_of [225; 400; 700; 1000] 1013.25.
Proof. right. intros x [H|[H|[H|[H|[]]]]]; subst; lra. Qed.

Example bracket_inside_nonvacuous : exists i x0 x1, bracketR [225; 400; 700; 1000] 500 = Some (i, x0, x1).
Proof. apply bracket_inside; [discriminate|lra|simpl; lra]. Qed.
